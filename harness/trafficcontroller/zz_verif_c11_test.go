//go:build verif

package trafficcontroller

// C11 harness (hot update), TrafficController part: op sequences of
// Create/Update/Apply/Delete (pipelines and traffic gates), Clean and GetHandler over
// several namespaces with lifecycle-recording object kinds. Observed per op: error or not,
// the lifecycle events it caused, the instance it returned and the complete
// (namespace, category, name) -> instance map afterwards.

import (
	"encoding/json"
	"fmt"
	"sort"
	"strings"
	"testing"

	"github.com/megaease/easegress/pkg/context"
	"github.com/megaease/easegress/pkg/filters"
	"github.com/megaease/easegress/pkg/logger"
	"github.com/megaease/easegress/pkg/supervisor"
	"github.com/megaease/easegress/pkg/tracing"
)

type c11TcEv struct {
	Ev   string `json:"ev"`  // init | inherit | close | handle
	Cat  string `json:"cat"` // P | G
	ID   int    `json:"id"`  // instance number (order of first Init/Inherit), 0 = never initialised
	Name string `json:"name"`
	Tag  int    `json:"tag"`
	From int    `json:"from"`
}

type c11TcRecorder struct {
	next int
	evs  []c11TcEv
	mids [][]c11TcEnt
}

var (
	c11TcRec    *c11TcRecorder
	c11TcCur    *TrafficController
	c11TcMidOff bool
)

type c11TcSpec struct {
	Tag int `yaml:"tag" jsonschema:"omitempty"`
}

type c11TcObj struct {
	cat  string
	id   int
	name string
	tag  int
}

func (o *c11TcObj) ev(e string, from int) {
	if c11TcRec != nil {
		c11TcRec.evs = append(c11TcRec.evs, c11TcEv{Ev: e, Cat: o.cat, ID: o.id, Name: o.name, Tag: o.tag, From: from})
		if e != "handle" && c11TcCur != nil && !c11TcMidOff {
			// we are INSIDE the operation (Init / Inherit / Close callback, tc.mutex held by this very
			// goroutine): what would a request see right now? Namespace.GetHandler is lock-free.
			c11TcRec.mids = append(c11TcRec.mids, c11TcSnapNoLock(c11TcCur))
		}
	}
}

func (o *c11TcObj) start(cat string, s *supervisor.Spec) {
	o.cat, o.name, o.tag = cat, s.Name(), s.ObjectSpec().(*c11TcSpec).Tag
	if c11TcRec != nil {
		c11TcRec.next++
		o.id = c11TcRec.next
	}
}

type c11TcPipe struct{ c11TcObj }
type c11TcGate struct{ c11TcObj }

func (p *c11TcPipe) Category() supervisor.ObjectCategory { return supervisor.CategoryPipeline }
func (p *c11TcPipe) Kind() string                        { return "C11RecPipeline" }
func (p *c11TcPipe) DefaultSpec() interface{}            { return &c11TcSpec{} }
func (p *c11TcPipe) Status() *supervisor.Status          { return &supervisor.Status{ObjectStatus: struct{}{}} }
func (p *c11TcPipe) Close()                              { p.ev("close", 0) }
func (p *c11TcPipe) Init(s *supervisor.Spec, m context.MuxMapper) {
	p.start("P", s)
	p.ev("init", 0)
}
func (p *c11TcPipe) Inherit(s *supervisor.Spec, prev supervisor.Object, m context.MuxMapper) {
	p.start("P", s)
	from := 0
	if q, ok := prev.(*c11TcPipe); ok {
		from = q.id
	}
	p.ev("inherit", from)
}
func (p *c11TcPipe) Handle(ctx *context.Context) string { p.ev("handle", 0); return "" }

func (g *c11TcGate) Category() supervisor.ObjectCategory { return supervisor.CategoryTrafficGate }
func (g *c11TcGate) Kind() string                        { return "C11RecGate" }
func (g *c11TcGate) DefaultSpec() interface{}            { return &c11TcSpec{} }
func (g *c11TcGate) Status() *supervisor.Status          { return &supervisor.Status{ObjectStatus: struct{}{}} }
func (g *c11TcGate) Close()                              { g.ev("close", 0) }
func (g *c11TcGate) Init(s *supervisor.Spec, m context.MuxMapper) {
	g.start("G", s)
	g.ev("init", 0)
}
func (g *c11TcGate) Inherit(s *supervisor.Spec, prev supervisor.Object, m context.MuxMapper) {
	g.start("G", s)
	from := 0
	if q, ok := prev.(*c11TcGate); ok {
		from = q.id
	}
	g.ev("inherit", from)
}

func init() {
	logger.InitNop()
	supervisor.Register(&c11TcPipe{})
	supervisor.Register(&c11TcGate{})
}

type c11TcOp struct {
	Op   string `json:"op"`  // create | update | apply | delete | clean | get
	Cat  string `json:"cat"` // P | G
	NS   string `json:"ns"`
	Name string `json:"name"`
	Tag  int    `json:"tag"`
}

type c11TcIn struct {
	Ops []c11TcOp `json:"ops"`
}

type c11TcEnt struct {
	NS   string `json:"ns"`
	Cat  string `json:"cat"`
	Name string `json:"name"`
	ID   int    `json:"id"`
}

type c11TcStep struct {
	Err    bool         `json:"err"`
	Panic  bool         `json:"panic"`
	Ret    int          `json:"ret"` // instance id of the returned entity / handler (0 none)
	Events []c11TcEv    `json:"events"`
	Snap   []c11TcEnt   `json:"snap"` // every live entity afterwards, sorted
	Mid    [][]c11TcEnt `json:"mid"`  // the live entities as seen from inside each Init/Inherit/Close callback of this op
	Spaces []string     `json:"spaces"`
}

type c11TcObs struct {
	Steps []c11TcStep `json:"steps"`
	Bad   string      `json:"bad,omitempty"`
}

func c11TcID(e *supervisor.ObjectEntity) int {
	switch x := e.Instance().(type) {
	case *c11TcPipe:
		return x.id
	case *c11TcGate:
		return x.id
	}
	return -1
}

func c11TcSnap(tc *TrafficController) (ents []c11TcEnt, spaces []string) {
	ents, spaces = []c11TcEnt{}, []string{}
	tc.mutex.Lock()
	for ns := range tc.namespaces {
		spaces = append(spaces, ns)
	}
	tc.mutex.Unlock()
	sort.Strings(spaces)
	for _, ns := range spaces {
		for _, e := range tc.ListTrafficGates(ns) {
			ents = append(ents, c11TcEnt{NS: ns, Cat: "G", Name: e.Spec().Name(), ID: c11TcID(e)})
		}
		for _, e := range tc.ListPipelines(ns) {
			ents = append(ents, c11TcEnt{NS: ns, Cat: "P", Name: e.Spec().Name(), ID: c11TcID(e)})
		}
	}
	sort.Slice(ents, func(i, j int) bool {
		a, b := ents[i], ents[j]
		if a.NS != b.NS {
			return a.NS < b.NS
		}
		if a.Cat != b.Cat {
			return a.Cat < b.Cat
		}
		return a.Name < b.Name
	})
	return
}

// lock-free view of the namespace maps (what Namespace.GetHandler / the sync.Maps hold right now);
// only called from the goroutine that holds tc.mutex
func c11TcSnapNoLock(tc *TrafficController) []c11TcEnt {
	ents := []c11TcEnt{}
	for ns, space := range tc.namespaces {
		space.trafficGates.Range(func(k, v interface{}) bool {
			ents = append(ents, c11TcEnt{NS: ns, Cat: "G", Name: k.(string), ID: c11TcID(v.(*supervisor.ObjectEntity))})
			return true
		})
		space.pipelines.Range(func(k, v interface{}) bool {
			ents = append(ents, c11TcEnt{NS: ns, Cat: "P", Name: k.(string), ID: c11TcID(v.(*supervisor.ObjectEntity))})
			if h, ok := space.GetHandler(k.(string)); !ok || h == nil {
				ents[len(ents)-1].ID = -2 // GetHandler disagrees with the map
			}
			return true
		})
	}
	sort.Slice(ents, func(i, j int) bool {
		a, b := ents[i], ents[j]
		if a.NS != b.NS {
			return a.NS < b.NS
		}
		if a.Cat != b.Cat {
			return a.Cat < b.Cat
		}
		return a.Name < b.Name
	})
	return ents
}

func c11TcSortCloses(evs []c11TcEv) []c11TcEv {
	out := append([]c11TcEv{}, evs...)
	i := 0
	for i < len(out) {
		if out[i].Ev != "close" {
			i++
			continue
		}
		j := i
		for j < len(out) && out[j].Ev == "close" && out[j].Cat == out[i].Cat {
			j++
		}
		seg := out[i:j]
		sort.Slice(seg, func(a, b int) bool { return seg[a].ID < seg[b].ID })
		i = j
	}
	return out
}

func c11TcRun(in c11TcIn) (obs c11TcObs) {
	c11TcRec = &c11TcRecorder{}
	defer func() { c11TcRec = nil }()
	ss, err := supervisor.NewSpec("name: tc\nkind: TrafficController\n")
	if err != nil {
		obs.Bad = "tc spec: " + err.Error()
		return
	}
	tc := &TrafficController{}
	tc.Init(ss)
	c11TcCur = tc
	defer func() { c11TcCur = nil }()
	for _, op := range in.Ops {
		st := c11TcStep{}
		c11TcRec.evs, c11TcRec.mids = nil, nil
		c11TcMidOff = op.Op == "clean" // Clean closes in map order while deleting: no canonical intermediate view
		kind := "C11RecPipeline"
		if op.Cat == "G" {
			kind = "C11RecGate"
		}
		var spec *supervisor.Spec
		if op.Op == "create" || op.Op == "update" || op.Op == "apply" {
			spec, err = supervisor.NewSpec(fmt.Sprintf("name: %s\nkind: %s\ntag: %d\n", op.Name, kind, op.Tag))
			if err != nil {
				obs.Bad = "spec: " + err.Error()
				return
			}
		}
		func() {
			defer func() {
				if r := recover(); r != nil {
					st.Panic = true
				}
			}()
			var ent *supervisor.ObjectEntity
			var e error
			switch op.Op + op.Cat {
			case "createP":
				ent, e = tc.CreatePipelineForSpec(op.NS, spec)
			case "createG":
				ent, e = tc.CreateTrafficGateForSpec(op.NS, spec)
			case "updateP":
				ent, e = tc.UpdatePipelineForSpec(op.NS, spec)
			case "updateG":
				ent, e = tc.UpdateTrafficGateForSpec(op.NS, spec)
			case "applyP":
				ent, e = tc.ApplyPipelineForSpec(op.NS, spec)
			case "applyG":
				ent, e = tc.ApplyTrafficGateForSpec(op.NS, spec)
			case "deleteP":
				e = tc.DeletePipeline(op.NS, op.Name)
			case "deleteG":
				e = tc.DeleteTrafficGate(op.NS, op.Name)
			case "cleanP", "cleanG":
				e = tc.Clean(op.NS)
			case "getP", "getG":
				// what HTTPServer does per request: Namespace.GetHandler, then Handle
				tc.mutex.Lock()
				space := tc.namespaces[op.NS]
				tc.mutex.Unlock()
				if space == nil {
					st.Err = true
					return
				}
				h, ok := space.GetHandler(op.Name)
				if !ok {
					st.Err = true
					return
				}
				h.Handle(context.New(tracing.NoopSpan))
				if p, ok := h.(*c11TcPipe); ok {
					st.Ret = p.id
				}
			default:
				st.Err = true
			}
			if e != nil {
				st.Err = true
			}
			if ent != nil {
				st.Ret = c11TcID(ent)
			}
		}()
		st.Events = c11TcSortCloses(c11TcRec.evs)
		if st.Events == nil {
			st.Events = []c11TcEv{}
		}
		st.Mid = c11TcRec.mids
		if st.Mid == nil {
			st.Mid = [][]c11TcEnt{}
		}
		st.Snap, st.Spaces = c11TcSnap(tc)
		obs.Steps = append(obs.Steps, st)
	}
	return
}

func c11TcGen(r *vfRand, adv bool) c11TcIn {
	var in c11TcIn
	nss := []string{"n1", "n1", "n2"}
	names := []string{"a", "a", "b", "c"}
	n := r.Range(4, 24)
	type key struct{ ns, cat, name string }
	last := map[key]int{}
	for i := 0; i < n; i++ {
		op := c11TcOp{Cat: r.PickStr("P", "P", "G"), NS: nss[r.Intn(len(nss))], Name: names[r.Intn(len(names))], Tag: r.Intn(3)}
		k := key{op.NS, op.Cat, op.Name}
		x := r.Intn(20)
		switch {
		case x < 9:
			op.Op = "apply"
			if t, ok := last[k]; ok && (r.Chance(1, 2) || adv) {
				op.Tag = t // unchanged spec
			}
		case x < 10:
			op.Op = "create"
		case x < 13:
			op.Op = "update"
		case x < 16:
			op.Op = "delete"
		case x < 17:
			op.Op = "clean"
		default:
			op.Op = "get"
			op.Cat = "P"
		}
		if r.Chance(1, 40) {
			op.NS = ""
		}
		if op.Op == "apply" || op.Op == "create" || op.Op == "update" {
			last[k] = op.Tag
		}
		in.Ops = append(in.Ops, op)
	}
	return in
}

// ---------------------------------------------------------------------------
// grp "tcreal": ApplyPipelineForSpec with REAL Pipeline objects (whose Init binds the filters into
// the typed spec when an explicit flow is given); every spec is parsed afresh from YAML.  The
// filters are lifecycle recorders, so an Init / Inherit / Close of a filter in service is visible.

type c11RFSpec struct {
	filters.BaseSpec `yaml:",inline"`
	Tag              int `yaml:"tag" jsonschema:"omitempty"`
}

type c11RFilter struct{ spec *c11RFSpec }

var c11RFEvents int

var c11RFKind = &filters.Kind{Name: "C11TcRecFilter", Description: "C11 lifecycle counter", Results: []string{},
	DefaultSpec:    func() filters.Spec { return &c11RFSpec{} },
	CreateInstance: func(spec filters.Spec) filters.Filter { return &c11RFilter{spec: spec.(*c11RFSpec)} }}

func (f *c11RFilter) Name() string                   { return f.spec.Name() }
func (f *c11RFilter) Kind() *filters.Kind            { return c11RFKind }
func (f *c11RFilter) Spec() filters.Spec             { return f.spec }
func (f *c11RFilter) Init()                          { c11RFEvents++ }
func (f *c11RFilter) Inherit(filters.Filter)         { c11RFEvents++ }
func (f *c11RFilter) Handle(*context.Context) string { return "" }
func (f *c11RFilter) Status() interface{}            { return nil }
func (f *c11RFilter) Close()                         { c11RFEvents++ }

func init() { filters.Register(c11RFKind) }

type c11RealSpec struct {
	Flow    bool `json:"flow"`    // explicit flow (bound to the filter instances by Pipeline.Init)
	Filters int  `json:"filters"` // number of filters
	Tag     int  `json:"tag"`
}

type c11RealOp struct {
	Name string `json:"name"`
	Spec int    `json:"spec"`
}

type c11RealIn struct {
	Specs []c11RealSpec `json:"specs"`
	Ops   []c11RealOp   `json:"ops"`
}

type c11RealStep struct {
	Err    bool `json:"err"`
	Panic  bool `json:"panic"`
	Ret    int  `json:"ret"`    // identity of the returned entity (order of first appearance, from 1)
	Events int  `json:"events"` // filter Init + Inherit + Close calls caused by this Apply
}

type c11RealObs struct {
	Steps []c11RealStep `json:"steps"`
	Bad   string        `json:"bad,omitempty"`
}

func c11RealYAML(name string, s c11RealSpec) string {
	var sb strings.Builder
	fmt.Fprintf(&sb, "name: %s\nkind: Pipeline\n", name)
	if s.Flow {
		sb.WriteString("flow:\n")
		for i := 0; i < s.Filters; i++ {
			fmt.Fprintf(&sb, "- filter: f%d\n", i)
		}
	}
	sb.WriteString("filters:\n")
	for i := 0; i < s.Filters; i++ {
		fmt.Fprintf(&sb, "- name: f%d\n  kind: C11TcRecFilter\n  tag: %d\n", i, s.Tag)
	}
	return sb.String()
}

func c11RealRun(in c11RealIn) (obs c11RealObs) {
	ss, err := supervisor.NewSpec("name: tc\nkind: TrafficController\n")
	if err != nil {
		obs.Bad = "tc spec: " + err.Error()
		return
	}
	tc := &TrafficController{}
	tc.Init(ss)
	ids := map[*supervisor.ObjectEntity]int{}
	for _, op := range in.Ops {
		if op.Spec < 0 || op.Spec >= len(in.Specs) {
			obs.Bad = "spec index"
			return
		}
		// a fresh Spec object parsed from YAML for every call, as the object registry does
		spec, err := supervisor.NewSpec(c11RealYAML(op.Name, in.Specs[op.Spec]))
		if err != nil {
			obs.Bad = "spec: " + err.Error()
			return
		}
		st := c11RealStep{}
		c11RFEvents = 0
		func() {
			defer func() {
				if r := recover(); r != nil {
					st.Panic = true
				}
			}()
			ent, e := tc.ApplyPipelineForSpec("n1", spec)
			if e != nil || ent == nil {
				st.Err = true
				return
			}
			if _, ok := ids[ent]; !ok {
				ids[ent] = len(ids) + 1
			}
			st.Ret = ids[ent]
		}()
		st.Events = c11RFEvents
		obs.Steps = append(obs.Steps, st)
	}
	return
}

func c11RealGen(r *vfRand, adv bool) c11RealIn {
	var in c11RealIn
	for k := r.Range(2, 3); k > 0; k-- {
		in.Specs = append(in.Specs, c11RealSpec{Flow: r.Chance(2, 3) || adv, Filters: r.Range(1, 3), Tag: r.Intn(2)})
	}
	last := map[string]int{}
	for k := r.Range(3, 12); k > 0; k-- {
		op := c11RealOp{Name: r.PickStr("a", "a", "b"), Spec: r.Intn(len(in.Specs))}
		if sp, ok := last[op.Name]; ok && r.Chance(1, 2) {
			op.Spec = sp // re-apply the identical spec
		}
		last[op.Name] = op.Spec
		in.Ops = append(in.Ops, op)
	}
	return in
}

func TestVerifC11TC(t *testing.T) {
	out := vfOpen(t)
	defer out.Close()
	for _, sc := range vfStored("tc") {
		var in c11TcIn
		if err := json.Unmarshal(sc.In, &in); err != nil {
			t.Fatal(err)
		}
		out.Emit(vfCase{ID: sc.ID, Src: sc.Src, Grp: "tc", In: in, Obs: c11TcRun(in)})
	}
	for _, sc := range vfStored("tcreal") {
		var in c11RealIn
		if err := json.Unmarshal(sc.In, &in); err != nil {
			t.Fatal(err)
		}
		out.Emit(vfCase{ID: sc.ID, Src: sc.Src, Grp: "tcreal", In: in, Obs: c11RealRun(in)})
	}
	if vfReplayOnly() {
		return
	}
	root := vfNewRand(vfSeed() ^ 0x7c11)
	adv := vfStream() == "adv"
	src := "gen"
	if adv {
		src = "adv"
	}
	n := vfN(60)
	for i := 0; i < n; i++ {
		if i%5 == 4 {
			in := c11RealGen(root.Fork(i), adv)
			out.Emit(vfCase{ID: fmt.Sprintf("%s-tcreal-%d", src, i), Src: src, Grp: "tcreal", In: in, Obs: c11RealRun(in)})
			continue
		}
		in := c11TcGen(root.Fork(i), adv)
		out.Emit(vfCase{ID: fmt.Sprintf("%s-tc-%d", src, i), Src: src, Grp: "tc", In: in, Obs: c11TcRun(in)})
	}
}
