//go:build verif

package supervisor

// C11 harness (hot update), ObjectRegistry part: sequences of configuration snapshots in which
// some entries cannot be decoded (unknown kind, malformed YAML, spec failing validation) while
// healthy objects appear, change and disappear in the same round. Observed per round: the event a
// watcher receives (created / updated / deleted names with their values), and the same for a twin
// registry that is fed the snapshots WITHOUT the undecodable entries.

import (
	"encoding/json"
	"fmt"
	"sort"
	"testing"

	"github.com/megaease/easegress/pkg/logger"
)

type c11RegCtl struct{}

type c11RegSpec struct {
	Value string `yaml:"value" jsonschema:"omitempty,pattern=^[a-z0-9]*$"`
}

func (c *c11RegCtl) Category() ObjectCategory                 { return CategoryBusinessController }
func (c *c11RegCtl) Kind() string                             { return "C11RegCtl" }
func (c *c11RegCtl) DefaultSpec() interface{}                 { return &c11RegSpec{} }
func (c *c11RegCtl) Status() *Status                          { return &Status{ObjectStatus: struct{}{}} }
func (c *c11RegCtl) Close()                                   {}
func (c *c11RegCtl) Init(superSpec *Spec)                     {}
func (c *c11RegCtl) Inherit(superSpec *Spec, previous Object) {}

func init() {
	logger.InitNop()
	Register(&c11RegCtl{})
}

type c11RegEntry struct {
	Name  string `json:"name"`
	Kind  string `json:"kind"` // ok | unk (unknown kind) | yaml (malformed) | spec (fails validation)
	Value string `json:"value"`
}

type c11RegIn struct {
	Rounds [][]c11RegEntry `json:"rounds"`
}

type c11RegEvent struct {
	Create [][2]string `json:"create"` // (name, value), sorted
	Update [][2]string `json:"update"`
	Delete []string    `json:"delete"`
}

type c11RegRound struct {
	Panic bool        `json:"panic"`
	Got   c11RegEvent `json:"got"`
	Twin  c11RegEvent `json:"twin"` // same rounds without the undecodable entries
}

type c11RegObs struct {
	Rounds []c11RegRound `json:"rounds"`
	Bad    string        `json:"bad,omitempty"`
}

func c11RegConfig(e c11RegEntry) string {
	switch e.Kind {
	case "unk":
		return "name: " + e.Name + "\nkind: C11KindOfTheFuture\nvalue: " + e.Value + "\n"
	case "yaml":
		return "name: " + e.Name + "\nkind: C11RegCtl\nvalue: [unclosed\n"
	case "spec":
		return "name: " + e.Name + "\nkind: C11RegCtl\nvalue: \"NOT-VALID!\"\n"
	}
	return "name: " + e.Name + "\nkind: C11RegCtl\nvalue: " + e.Value + "\n"
}

func c11RegNew() (*ObjectRegistry, *ObjectEntityWatcher) {
	or := &ObjectRegistry{entities: make(map[string]*ObjectEntity), watchers: map[string]*ObjectEntityWatcher{}, done: make(chan struct{})}
	w := or.NewWatcher("c11-watcher", FilterCategory(CategoryBusinessController))
	<-w.Watch() // the (empty) first event
	return or, w
}

func c11RegCollect(w *ObjectEntityWatcher) (ev c11RegEvent) {
	ev = c11RegEvent{Create: [][2]string{}, Update: [][2]string{}, Delete: []string{}}
	for {
		select {
		case e := <-w.Watch(): // applyConfig delivers synchronously into the buffered channel
			for n, ent := range e.Create {
				ev.Create = append(ev.Create, [2]string{n, ent.Spec().ObjectSpec().(*c11RegSpec).Value})
			}
			for n, ent := range e.Update {
				ev.Update = append(ev.Update, [2]string{n, ent.Spec().ObjectSpec().(*c11RegSpec).Value})
			}
			for n := range e.Delete {
				ev.Delete = append(ev.Delete, n)
			}
		default:
			sort.Slice(ev.Create, func(i, j int) bool { return ev.Create[i][0] < ev.Create[j][0] })
			sort.Slice(ev.Update, func(i, j int) bool { return ev.Update[i][0] < ev.Update[j][0] })
			sort.Strings(ev.Delete)
			return
		}
	}
}

func c11RegRun(in c11RegIn) (obs c11RegObs) {
	or, w := c11RegNew()
	twin, tw := c11RegNew()
	for _, round := range in.Rounds {
		cfg, good := map[string]string{}, map[string]string{}
		for _, e := range round {
			cfg[e.Name] = c11RegConfig(e)
			if e.Kind == "ok" {
				good[e.Name] = c11RegConfig(e)
			}
		}
		var rd c11RegRound
		func() {
			defer func() {
				if r := recover(); r != nil {
					rd.Panic = true
				}
			}()
			or.applyConfig(cfg)
			twin.applyConfig(good)
		}()
		rd.Got, rd.Twin = c11RegCollect(w), c11RegCollect(tw)
		obs.Rounds = append(obs.Rounds, rd)
	}
	return
}

func c11RegGen(r *vfRand, adv bool) c11RegIn {
	var in c11RegIn
	healthy := []string{"a", "b", "c", "d"}
	badNames := []string{"x", "y"}
	for k := r.Range(2, 6); k > 0; k-- {
		round := []c11RegEntry{}
		for _, n := range healthy {
			if r.Chance(2, 3) {
				round = append(round, c11RegEntry{Name: n, Kind: "ok", Value: r.PickStr("v1", "v1", "v2", "v3")})
			}
		}
		for _, n := range badNames {
			if r.Chance(1, 2) || adv {
				round = append(round, c11RegEntry{Name: n, Kind: r.PickStr("unk", "yaml", "spec"), Value: "v1"})
			} else if r.Chance(1, 4) {
				round = append(round, c11RegEntry{Name: n, Kind: "ok", Value: r.PickStr("v1", "v2")})
			}
		}
		if r.Chance(1, 8) && len(round) > 0 {
			// a so far healthy object becomes undecodable
			i := r.Intn(len(round))
			round[i].Kind = r.PickStr("unk", "spec")
		}
		in.Rounds = append(in.Rounds, round)
	}
	return in
}

func TestVerifC11Registry(t *testing.T) {
	out := vfOpen(t)
	defer out.Close()
	for _, sc := range vfStored("reg") {
		var in c11RegIn
		if err := json.Unmarshal(sc.In, &in); err != nil {
			t.Fatal(err)
		}
		out.Emit(vfCase{ID: sc.ID, Src: sc.Src, Grp: "reg", In: in, Obs: c11RegRun(in)})
	}
	if vfReplayOnly() {
		return
	}
	root := vfNewRand(vfSeed() ^ 0x5c11)
	adv := vfStream() == "adv"
	src := "gen"
	if adv {
		src = "adv"
	}
	n := vfN(40)
	for i := 0; i < n; i++ {
		in := c11RegGen(root.Fork(i), adv)
		out.Emit(vfCase{ID: fmt.Sprintf("%s-reg-%d", src, i), Src: src, Grp: "reg", In: in, Obs: c11RegRun(in)})
	}
}
