//go:build verif

package supervisor

// C20 harness (package supervisor): drives ObjectRegistry.applyConfig,
// Supervisor.handleEvent and ObjectEntity.{Init,Inherit,Close}WithRecovery with
// sequences of configuration snapshots over a small name space. Test-only
// kinds of several categories record every lifecycle callback and panic when
// the per-case oracle says so.
//
//   mode 0 (direct): the registry and the supervisor are assembled by hand
//           and the anchored functions are called synchronously;
//   mode 1 (e2e):    supervisor.MustNew on clustertest's mocked cluster; the
//           snapshots are pushed through the mocked syncer channel and the
//           goroutines of registry and supervisor do the work. A barrier
//           controller (a name outside the case's name space whose spec
//           changes in a separate snapshot) tells when a snapshot has been
//           fully handled - no sleeping, no polling.

import (
	"encoding/json"
	"fmt"
	"sort"
	"sync"
	"sync/atomic"
	"testing"
	"time"

	"github.com/megaease/easegress/pkg/cluster"
	"github.com/megaease/easegress/pkg/cluster/clustertest"
	"github.com/megaease/easegress/pkg/context"
	"github.com/megaease/easegress/pkg/logger"
	"github.com/megaease/easegress/pkg/option"
)

type c20In struct {
	Names  int        `json:"names"`  // names are 0 .. Names-1
	Kinds  [][2]int   `json:"kinds"`  // (kind id, category id): the table the model needs
	Steps  [][][3]int `json:"steps"`  // per snapshot: list of (name, kind id, content id)
	Panics [][3]int   `json:"panics"` // oracle: (step, op, name) whose callback panics; op 0 Init 1 Inherit 2 Close
	Mode   int        `json:"mode"`
	NameStr []string  `json:"namestr,omitempty"` // object names (default n0, n1, ...)
	Spell   int       `json:"spell,omitempty"`   // spelling of the stored config strings (see c20Yaml)
	Block   []int     `json:"block,omitempty"`   // group backlog: (step, name) whose Init/Inherit stalls while the later snapshots arrive
}

type c20StepObs struct {
	Reg [][]int `json:"reg"` // ObjectRegistry.entities: (name, kind, v)
	W0  [][]int `json:"w0"`  // supervisor watcher entities
	W1  [][]int `json:"w1"`  // traffic watcher entities
	Sup [][]int `json:"sup"` // businessControllers: (name, kind, v, born, generation)
	Ev1 [][]int `json:"ev1"` // event delivered to the traffic watcher: (class 0 del 1 create 2 update, name, kind, v)
}

type c20Obs struct {
	Log   [][]int      `json:"log"` // (step, op, name, kind, v, born, prevkind, prevv, prevborn, panics)
	Steps []c20StepObs `json:"steps"`
	Crash int          `json:"crash"` // -1, or the step at which a panic escaped the code under test
	Parked  bool       `json:"parked,omitempty"`  // backlog: the handler did stall inside the callback
	Stalled bool       `json:"stalled,omitempty"` // backlog: applyConfig was still waiting for queue space when the handler was released
}

// kind table: id -> (kind name, category id); categories: 0 system 1 business 2 pipeline 3 traffic gate
// 7 is a kind this binary does not know: such an entry cannot be turned into an entity
var c20KindName = map[int]string{0: "C20CtlA", 1: "C20CtlB", 2: "C20GateA", 3: "C20GateB", 4: "C20Pipe", 5: "C20Sys", 7: "C20NoSuchKind", 9: "Pipeline"}
var c20KindCat = map[int]int{0: 1, 1: 1, 2: 3, 3: 3, 4: 2, 5: 0, 7: 4, 9: 2}
var c20KindID = map[string]int{}

func c20KindTable() [][2]int {
	ids := []int{}
	for id := range c20KindName {
		ids = append(ids, id)
	}
	sort.Ints(ids)
	out := [][2]int{}
	for _, id := range ids {
		out = append(out, [2]int{id, c20KindCat[id]})
	}
	return out
}

type c20Spec struct {
	V int `yaml:"v" jsonschema:"omitempty"`
}

// recorder shared by all test kinds
var c20 struct {
	mu     sync.Mutex
	on     bool
	step   int
	panics map[[3]int]bool
	log    [][]int
	bar    chan int
	block  [2]int // armed when blockOn
	blockOn bool
	parked chan struct{}
	gate   chan struct{}
}

type c20Identer interface{ c20Ident() (int, int, int) }

type c20Obj struct {
	seen bool
	name int
	kind int
	v    int
	born int
}

func (o *c20Obj) c20Ident() (int, int, int) {
	if !o.seen {
		return o.kind, -1, -1
	}
	return o.kind, o.v, o.born
}

// object names of the running case: index -> name. Default "n<i>"; a case may bring its own
// table (one-character names, every allowed punctuation, 253 characters, 254 = invalid, ...).
var c20Names []string

func c20UseNames(n int, table []string) {
	c20.mu.Lock()
	defer c20.mu.Unlock()
	c20Names = make([]string, n)
	for i := 0; i < n; i++ {
		if i < len(table) && table[i] != "" {
			c20Names[i] = table[i]
		} else {
			c20Names[i] = fmt.Sprintf("n%d", i)
		}
	}
}

func c20Name(i int) string {
	if i >= 0 && i < len(c20Names) {
		return c20Names[i]
	}
	return fmt.Sprintf("n%d", i)
}

func c20NameIdx(s string) int {
	for i, n := range c20Names {
		if n == s {
			return i
		}
	}
	return -1
}

// name pool for the exotic-name stream
func c20ExoticNames(r *vfRand, n int) []string {
	long := func(k int, fill string) string {
		b := make([]byte, k)
		for i := range b {
			b[i] = fill[i%len(fill)]
		}
		return string(b)
	}
	pool := []string{"a", "7", "Z", "-", "~", "_", ".", "a-b_c.d~e", "-lead", "~x", ".hidden", "_u", "0", "x-",
		long(253, "a"), long(253, "k-_.~9"), long(252, "b"), long(254, "c"), long(300, "d-"), "ab", "A.b"}
	out := []string{}
	used := map[string]bool{}
	for len(out) < n {
		s := pool[r.Intn(len(pool))]
		if !used[s] {
			used[s] = true
			out = append(out, s)
		}
	}
	return out
}

// enter records one lifecycle callback and reports whether the oracle wants it to panic.
func (o *c20Obj) enter(op int, kind int, spec *Spec, prev Object, foreign bool) bool {
	pan, stall := o.enterLocked(op, kind, spec, prev, foreign)
	if stall { // group backlog: a slow Init / Inherit - wait until the harness opens the gate
		c20.parked <- struct{}{}
		<-c20.gate
	}
	return pan
}

func (o *c20Obj) enterLocked(op int, kind int, spec *Spec, prev Object, foreign bool) (bool, bool) {
	c20.mu.Lock()
	defer c20.mu.Unlock()
	o.kind = kind
	if spec != nil && !o.seen {
		o.seen = true
		o.name = c20NameIdx(spec.Name())
		o.v = spec.ObjectSpec().(*c20Spec).V
		o.born = c20.step
	}
	if !c20.on {
		return false, false
	}
	name := -1
	if o.seen {
		name = o.name
	} else if spec != nil {
		name = c20NameIdx(spec.Name())
	}
	pan := c20.panics[[3]int{c20.step, op, name}]
	pk, pv, pb := -1, -1, -1
	if op == 1 {
		if id, ok := prev.(c20Identer); ok {
			pk, pv, pb = id.c20Ident()
		}
	}
	k, v, b := o.c20Ident()
	flag := 0
	if pan || foreign {
		flag = 1
	}
	c20.log = append(c20.log, []int{c20.step, op, name, k, v, b, pk, pv, pb, flag})
	stall := c20.blockOn && op != 2 && c20.block == [2]int{c20.step, name}
	if stall {
		c20.blockOn = false
	}
	return pan, stall
}

func c20Status() *Status { return &Status{ObjectStatus: struct{}{}} }

// --- business controllers
type c20CtlA struct{ c20Obj }

func (x *c20CtlA) Category() ObjectCategory { return CategoryBusinessController }
func (x *c20CtlA) Kind() string             { return "C20CtlA" }
func (x *c20CtlA) DefaultSpec() interface{} { return &c20Spec{} }
func (x *c20CtlA) Status() *Status          { return c20Status() }
func (x *c20CtlA) Init(s *Spec) {
	if x.enter(0, 0, s, nil, false) {
		panic("c20 oracle: Init")
	}
}
func (x *c20CtlA) Inherit(s *Spec, prev Object) {
	_, own := prev.(*c20CtlA)
	pan := x.enter(1, 0, s, prev, !own)
	_ = prev.(*c20CtlA) // like every real controller: previousGeneration.(*T)
	if pan {
		panic("c20 oracle: Inherit")
	}
}
func (x *c20CtlA) Close() {
	if x.enter(2, 0, nil, nil, false) {
		panic("c20 oracle: Close")
	}
}

type c20CtlB struct{ c20Obj }

func (x *c20CtlB) Category() ObjectCategory { return CategoryBusinessController }
func (x *c20CtlB) Kind() string             { return "C20CtlB" }
func (x *c20CtlB) DefaultSpec() interface{} { return &c20Spec{} }
func (x *c20CtlB) Status() *Status          { return c20Status() }
func (x *c20CtlB) Init(s *Spec) {
	if x.enter(0, 1, s, nil, false) {
		panic("c20 oracle: Init")
	}
}
func (x *c20CtlB) Inherit(s *Spec, prev Object) {
	_, own := prev.(*c20CtlB)
	pan := x.enter(1, 1, s, prev, !own)
	_ = prev.(*c20CtlB)
	if pan {
		panic("c20 oracle: Inherit")
	}
}
func (x *c20CtlB) Close() {
	if x.enter(2, 1, nil, nil, false) {
		panic("c20 oracle: Close")
	}
}

// system controller kind: nobody watches this category
type c20Sys struct{ c20Obj }

func (x *c20Sys) Category() ObjectCategory { return CategorySystemController }
func (x *c20Sys) Kind() string             { return "C20Sys" }
func (x *c20Sys) DefaultSpec() interface{} { return &c20Spec{} }
func (x *c20Sys) Status() *Status          { return c20Status() }
func (x *c20Sys) Init(s *Spec) {
	if x.enter(0, 5, s, nil, false) {
		panic("c20 oracle: Init")
	}
}
func (x *c20Sys) Inherit(s *Spec, prev Object) {
	_, own := prev.(*c20Sys)
	pan := x.enter(1, 5, s, prev, !own)
	_ = prev.(*c20Sys)
	if pan {
		panic("c20 oracle: Inherit")
	}
}
func (x *c20Sys) Close() {
	if x.enter(2, 5, nil, nil, false) {
		panic("c20 oracle: Close")
	}
}

// --- traffic objects (only their routing to watchers is observed in this package)
type c20GateA struct{ c20Obj }

func (x *c20GateA) Category() ObjectCategory { return CategoryTrafficGate }
func (x *c20GateA) Kind() string             { return "C20GateA" }
func (x *c20GateA) DefaultSpec() interface{} { return &c20Spec{} }
func (x *c20GateA) Status() *Status          { return c20Status() }
func (x *c20GateA) Init(s *Spec, m context.MuxMapper) {
	if x.enter(0, 2, s, nil, false) {
		panic("c20 oracle: Init")
	}
}
func (x *c20GateA) Inherit(s *Spec, prev Object, m context.MuxMapper) {
	_, own := prev.(*c20GateA)
	pan := x.enter(1, 2, s, prev, !own)
	_ = prev.(*c20GateA)
	if pan {
		panic("c20 oracle: Inherit")
	}
}
func (x *c20GateA) Close() {
	if x.enter(2, 2, nil, nil, false) {
		panic("c20 oracle: Close")
	}
}

type c20GateB struct{ c20Obj }

func (x *c20GateB) Category() ObjectCategory { return CategoryTrafficGate }
func (x *c20GateB) Kind() string             { return "C20GateB" }
func (x *c20GateB) DefaultSpec() interface{} { return &c20Spec{} }
func (x *c20GateB) Status() *Status          { return c20Status() }
func (x *c20GateB) Init(s *Spec, m context.MuxMapper) {
	if x.enter(0, 3, s, nil, false) {
		panic("c20 oracle: Init")
	}
}
func (x *c20GateB) Inherit(s *Spec, prev Object, m context.MuxMapper) {
	_, own := prev.(*c20GateB)
	pan := x.enter(1, 3, s, prev, !own)
	_ = prev.(*c20GateB)
	if pan {
		panic("c20 oracle: Inherit")
	}
}
func (x *c20GateB) Close() {
	if x.enter(2, 3, nil, nil, false) {
		panic("c20 oracle: Close")
	}
}

type c20Pipe struct{ c20Obj }

func (x *c20Pipe) Category() ObjectCategory { return CategoryPipeline }
func (x *c20Pipe) Kind() string             { return "C20Pipe" }
func (x *c20Pipe) DefaultSpec() interface{} { return &c20Spec{} }
func (x *c20Pipe) Status() *Status          { return c20Status() }
func (x *c20Pipe) Init(s *Spec, m context.MuxMapper) {
	if x.enter(0, 4, s, nil, false) {
		panic("c20 oracle: Init")
	}
}
func (x *c20Pipe) Inherit(s *Spec, prev Object, m context.MuxMapper) {
	_, own := prev.(*c20Pipe)
	pan := x.enter(1, 4, s, prev, !own)
	_ = prev.(*c20Pipe)
	if pan {
		panic("c20 oracle: Inherit")
	}
}
func (x *c20Pipe) Close() {
	if x.enter(2, 4, nil, nil, false) {
		panic("c20 oracle: Close")
	}
}

// stands in for the real Pipeline kind (not linked into this package's test binary)
type c20RealPipe struct{ c20Obj }

func (x *c20RealPipe) Category() ObjectCategory { return CategoryPipeline }
func (x *c20RealPipe) Kind() string             { return "Pipeline" }
func (x *c20RealPipe) DefaultSpec() interface{} { return &c20Spec{} }
func (x *c20RealPipe) Status() *Status          { return c20Status() }
func (x *c20RealPipe) Init(s *Spec, m context.MuxMapper) {
	if x.enter(0, 9, s, nil, false) {
		panic("c20 oracle: Init")
	}
}
func (x *c20RealPipe) Inherit(s *Spec, prev Object, m context.MuxMapper) {
	_, own := prev.(*c20RealPipe)
	pan := x.enter(1, 9, s, prev, !own)
	_ = prev.(*c20RealPipe)
	if pan {
		panic("c20 oracle: Inherit")
	}
}
func (x *c20RealPipe) Close() {
	if x.enter(2, 9, nil, nil, false) {
		panic("c20 oracle: Close")
	}
}

// barrier controller (e2e mode only): its callbacks are never recorded; they
// report the content id they were called with.
type c20Bar struct{ v int }

func (x *c20Bar) Category() ObjectCategory { return CategoryBusinessController }
func (x *c20Bar) Kind() string             { return "C20Bar" }
func (x *c20Bar) DefaultSpec() interface{} { return &c20Spec{} }
func (x *c20Bar) Status() *Status          { return c20Status() }
func (x *c20Bar) Init(s *Spec)             { c20.bar <- s.ObjectSpec().(*c20Spec).V }
func (x *c20Bar) Inherit(s *Spec, prev Object) {
	c20.bar <- s.ObjectSpec().(*c20Spec).V
}
func (x *c20Bar) Close() {}

// tick controller (group backlog): present in every snapshot with the snapshot index as content,
// so that every snapshot yields exactly one event that says which snapshot it belongs to
type c20Tick struct{}

func (x *c20Tick) Category() ObjectCategory     { return CategoryBusinessController }
func (x *c20Tick) Kind() string                 { return "C20Tick" }
func (x *c20Tick) DefaultSpec() interface{}     { return &c20Spec{} }
func (x *c20Tick) Status() *Status              { return c20Status() }
func (x *c20Tick) Init(s *Spec)                 {}
func (x *c20Tick) Inherit(s *Spec, prev Object) {}
func (x *c20Tick) Close()                       {}

var c20Once sync.Once

func c20Setup() {
	c20Once.Do(func() {
		logger.InitNop()
		for id, n := range c20KindName {
			c20KindID[n] = id
		}
		Register(&c20CtlA{})
		Register(&c20CtlB{})
		Register(&c20GateA{})
		Register(&c20GateB{})
		Register(&c20Pipe{})
		Register(&c20Sys{})
		Register(&c20RealPipe{})
		Register(&c20Bar{})
		Register(&c20Tick{})
	})
}

// spelling of the stored config strings of the running case. None of 0..2 is the normalised
// yaml Spec.YAMLConfig() produces (sorted keys, version line, plain scalars); 3 is close to it.
var c20Spell int

func c20Yaml(name string, kind string, v int) string {
	switch c20Spell {
	case 1:
		return fmt.Sprintf("kind: %s\nv: %d\n\nname: '%s'\n", kind, v, name)
	case 2:
		return fmt.Sprintf("{name: \"%s\", v: %d, kind: %s}\n", name, v, kind)
	case 3:
		return fmt.Sprintf("kind: %s\nname: \"%s\"\nv: %d\nversion: %s\n", kind, name, v, DefaultSpecVersion)
	}
	return fmt.Sprintf("name: \"%s\"\nkind: %s\nv: %d\n", name, kind, v)
}

func c20Config(step [][3]int) map[string]string {
	cfg := map[string]string{}
	for _, e := range step {
		n := c20Name(e[0])
		cfg[n] = c20Yaml(n, c20KindName[e[1]], e[2])
	}
	return cfg
}

func c20SortRows(rows [][]int) [][]int {
	sort.Slice(rows, func(i, j int) bool {
		a, b := rows[i], rows[j]
		for k := 0; k < len(a) && k < len(b); k++ {
			if a[k] != b[k] {
				return a[k] < b[k]
			}
		}
		return len(a) < len(b)
	})
	if rows == nil {
		rows = [][]int{}
	}
	return rows
}

func c20EntRow(name string, e *ObjectEntity) []int {
	v := -1
	if sp, ok := e.Spec().ObjectSpec().(*c20Spec); ok {
		v = sp.V
	}
	return []int{c20NameIdx(name), c20KindID[e.Spec().Kind()], v}
}

func c20EntsRows(m map[string]*ObjectEntity) [][]int {
	rows := [][]int{}
	for n, e := range m {
		if c20NameIdx(n) < 0 {
			continue
		}
		rows = append(rows, c20EntRow(n, e))
	}
	return c20SortRows(rows)
}

func c20EventRows(ev *ObjectEntityWatcherEvent) [][]int {
	rows := [][]int{}
	if ev == nil {
		return rows
	}
	add := func(cls int, m map[string]*ObjectEntity) {
		for n, e := range m {
			if c20NameIdx(n) < 0 {
				continue
			}
			r := c20EntRow(n, e)
			rows = append(rows, []int{cls, r[0], r[1], r[2]})
		}
	}
	add(0, ev.Delete)
	add(1, ev.Create)
	add(2, ev.Update)
	return c20SortRows(rows)
}

func c20Observe(s *Supervisor, w1 *ObjectEntityWatcher, ev1 *ObjectEntityWatcherEvent) c20StepObs {
	or := s.objectRegistry
	or.mutex.Lock()
	reg := map[string]*ObjectEntity{}
	for n, e := range or.entities {
		reg[n] = e
	}
	or.mutex.Unlock()
	o := c20StepObs{Reg: c20EntsRows(reg), W0: c20EntsRows(s.watcher.Entities()), W1: [][]int{}, Ev1: c20EventRows(ev1)}
	if w1 != nil {
		o.W1 = c20EntsRows(w1.Entities())
	}
	sup := [][]int{}
	s.businessControllers.Range(func(k, v interface{}) bool {
		n := c20NameIdx(k.(string))
		if n < 0 {
			return true
		}
		e := v.(*ObjectEntity)
		kind, vv, born := -1, -1, -1
		if id, ok := e.Instance().(c20Identer); ok {
			c20.mu.Lock()
			kind, vv, born = id.c20Ident()
			c20.mu.Unlock()
		}
		sup = append(sup, []int{n, kind, vv, born, int(e.Generation())})
		return true
	})
	o.Sup = c20SortRows(sup)
	return o
}

func c20Begin(in c20In) {
	c20.mu.Lock()
	c20.on = true
	c20.step = 0
	c20.blockOn = false
	c20.log = [][]int{}
	c20.panics = map[[3]int]bool{}
	for _, p := range in.Panics {
		c20.panics[p] = true
	}
	c20.mu.Unlock()
}

func c20End() [][]int {
	c20.mu.Lock()
	defer c20.mu.Unlock()
	c20.on = false
	c20.blockOn = false
	l := c20.log
	c20.log = nil
	return l
}

func c20SetStep(t int) {
	c20.mu.Lock()
	c20.step = t
	c20.mu.Unlock()
}

func c20RunDirect(in c20In) (obs c20Obs) {
	obs.Crash = -1
	s := &Supervisor{options: &option.Options{}}
	or := &ObjectRegistry{super: s, entities: map[string]*ObjectEntity{}, watchers: map[string]*ObjectEntityWatcher{}}
	s.objectRegistry = or
	s.watcher = or.NewWatcher(watcherName, FilterCategory(CategoryBusinessController))
	w1 := or.NewWatcher("c20-traffic", FilterCategory(CategoryTrafficGate, CategoryPipeline))
	s.handleEvent(<-s.watcher.eventChan)
	<-w1.eventChan
	c20Begin(in)
	for t, step := range in.Steps {
		c20SetStep(t)
		var ev1 *ObjectEntityWatcherEvent
		crashed := false
		func() {
			defer func() {
				if r := recover(); r != nil {
					crashed = true
				}
			}()
			or.applyConfig(c20Config(step))
			select {
			case ev := <-s.watcher.eventChan:
				s.handleEvent(ev)
			default:
			}
		}()
		select {
		case ev1 = <-w1.eventChan:
		default:
		}
		if crashed {
			obs.Crash = t
			break
		}
		obs.Steps = append(obs.Steps, c20Observe(s, w1, ev1))
	}
	obs.Log = c20End()
	return
}

// e2e: the real goroutines, fed through clustertest's mocked syncer.
func c20RunE2E(t *testing.T, in c20In) (obs c20Obs) {
	obs.Crash = -1
	ch := make(chan map[string]string)
	cls := clustertest.NewMockedCluster()
	cls.MockedSyncer = func(time.Duration) (cluster.Syncer, error) {
		sy := clustertest.NewMockedSyncer()
		sy.MockedSyncPrefix = func(string) (<-chan map[string]string, error) { return ch, nil }
		return sy, nil
	}
	c20.bar = make(chan int, 4)
	barV := 0
	prefix := (&cluster.Layout{}).ConfigObjectPrefix()
	push := func(step [][3]int, flip bool) {
		if flip {
			barV++
		}
		kv := map[string]string{}
		for n, y := range c20Config(step) {
			kv[prefix+n] = y
		}
		kv[prefix+"zzbar"] = c20Yaml("zzbar", "C20Bar", barV)
		ch <- kv
	}
	wait := func() bool {
		select {
		case v := <-c20.bar:
			return v == barV
		case <-time.After(60 * time.Second):
			return false
		}
	}
	s := MustNew(&option.Options{AbsHomeDir: t.TempDir()}, cls)
	w1 := s.objectRegistry.NewWatcher("c20-traffic", FilterCategory(CategoryTrafficGate, CategoryPipeline))
	push(nil, false)
	if !wait() {
		t.Fatalf("c20: barrier never initialised")
	}
	for len(w1.eventChan) > 0 {
		<-w1.eventChan
	}
	c20Begin(in)
	for ti, step := range in.Steps {
		c20SetStep(ti)
		push(step, false)
		push(step, true)
		if !wait() {
			// a panic that escaped kills the goroutine (and the test binary); a stall is reported as a crash
			obs.Crash = ti
			break
		}
		var ev1 *ObjectEntityWatcherEvent
		select {
		case ev1 = <-w1.eventChan:
		default:
		}
		obs.Steps = append(obs.Steps, c20Observe(s, w1, ev1))
	}
	obs.Log = c20End()
	wg := &sync.WaitGroup{}
	wg.Add(1)
	s.Close(wg)
	return
}

func c20Run(t *testing.T, in c20In) c20Obs {
	c20UseNames(in.Names, in.NameStr)
	c20Spell = in.Spell
	defer func() { c20Spell = 0 }()
	if in.Mode == 1 {
		return c20RunE2E(t, in)
	}
	return c20RunDirect(in)
}

// ---------------------------------------------------------------- group "join"
//
// A watcher created late (ObjectRegistry.NewWatcher on a non-empty registry) and, when
// Overlap is set, while ObjectRegistry.applyConfig runs in another goroutine: NewWatcher is
// parked inside its (caller-supplied) filter, the next snapshot is applied meanwhile. The
// registry must serialise the two: everything the new watcher was not told in its first event
// has to reach it as a later event. On correct code applyConfig simply blocks until NewWatcher
// returns; the bounded wait below can only make the run MISS an overlap, never invent one.

type c20JoinIn struct {
	Names   int        `json:"names"`
	Kinds   [][2]int   `json:"kinds"`
	Steps   [][][3]int `json:"steps"`
	Join    int        `json:"join"`    // NewWatcher starts when this many snapshots have been applied
	W       int        `json:"w"`       // its filter: 0 business controllers, 1 traffic gates + pipelines
	Overlap bool       `json:"overlap"` // try to apply snapshot number Join while NewWatcher is running
	NameStr []string   `json:"namestr,omitempty"`
}

type c20JoinStep struct {
	Ev   [][]int `json:"ev"`   // event delivered to the new watcher by this snapshot: (class, name, kind, v)
	Ents [][]int `json:"ents"` // watcher.Entities() afterwards: (name, kind, v)
}

type c20JoinObs struct {
	First    [][]int       `json:"first"` // the first event (creates)
	Steps    []c20JoinStep `json:"steps"` // snapshots Join .. end
	Parked   bool          `json:"parked"`
	InWindow bool          `json:"inwindow"` // snapshot Join completed while NewWatcher was still parked
}

func c20RunJoin(in c20JoinIn) (obs c20JoinObs) {
	c20UseNames(in.Names, in.NameStr)
	s := &Supervisor{options: &option.Options{}}
	or := &ObjectRegistry{super: s, entities: map[string]*ObjectEntity{}, watchers: map[string]*ObjectEntityWatcher{}}
	s.objectRegistry = or
	pre := or.NewWatcher("c20-pre", FilterCategory(CategoryAll)) // a watcher that is already registered
	drainPre := func() {
		for len(pre.eventChan) > 0 {
			<-pre.eventChan
		}
	}
	drainPre()
	if in.Join > len(in.Steps) {
		in.Join = len(in.Steps)
	}
	for t := 0; t < in.Join; t++ {
		or.applyConfig(c20Config(in.Steps[t]))
		drainPre()
	}
	base := FilterCategory(CategoryBusinessController)
	if in.W == 1 {
		base = FilterCategory(CategoryTrafficGate, CategoryPipeline)
	}
	var once sync.Once
	entered, release := make(chan struct{}), make(chan struct{})
	filter := func(e *ObjectEntity) bool {
		if in.Overlap {
			once.Do(func() {
				close(entered)
				<-release
			})
		}
		return base(e)
	}
	result := make(chan *ObjectEntityWatcher, 1)
	go func() { result <- or.NewWatcher("c20-join", filter) }()
	var w *ObjectEntityWatcher
	next := in.Join
	select {
	case w = <-result:
		close(release) // the registry was empty: the filter was never called; disarm it
	case <-entered:
		obs.Parked = true
		if next < len(in.Steps) {
			done := make(chan struct{})
			go func() {
				or.applyConfig(c20Config(in.Steps[next]))
				close(done)
			}()
			select {
			case <-done:
				obs.InWindow = true
			case <-time.After(4 * time.Millisecond):
			}
			close(release)
			w = <-result
			<-done
			next++
		} else {
			close(release)
			w = <-result
		}
	}
	drainPre()
	take := func() *ObjectEntityWatcherEvent {
		select {
		case ev := <-w.eventChan:
			return ev
		default:
			return nil
		}
	}
	obs.First = c20EventRows(take())
	obs.Steps = []c20JoinStep{}
	if next > in.Join { // the overlapped snapshot
		obs.Steps = append(obs.Steps, c20JoinStep{Ev: c20EventRows(take()), Ents: c20EntsRows(w.Entities())})
	}
	for t := next; t < len(in.Steps); t++ {
		or.applyConfig(c20Config(in.Steps[t]))
		drainPre()
		obs.Steps = append(obs.Steps, c20JoinStep{Ev: c20EventRows(take()), Ents: c20EntsRows(w.Entities())})
	}
	return
}

func c20GenJoin(r *vfRand, adv bool, tier string) c20JoinIn {
	base := c20Gen(r, adv, tier)
	in := c20JoinIn{Names: base.Names, Kinds: base.Kinds, Steps: base.Steps, NameStr: base.NameStr}
	in.W = r.Intn(2)
	in.Overlap = !r.Chance(1, 4)
	// join preferably right after a non-empty snapshot that is followed by a different one
	cands := []int{}
	for t := 1; t < len(in.Steps); t++ {
		if len(in.Steps[t-1]) > 0 && fmt.Sprint(in.Steps[t-1]) != fmt.Sprint(in.Steps[t]) {
			cands = append(cands, t)
		}
	}
	if len(cands) > 0 && !r.Chance(1, 6) {
		in.Join = cands[r.Intn(len(cands))]
	} else {
		in.Join = r.Range(0, len(in.Steps))
	}
	return in
}

// ---------------------------------------------------------------- group "backlog"
//
// The supervisor's handler stalls inside one Init / Inherit (a slow callback) while the harness
// keeps applying the following 11-25 snapshots from another goroutine. The registry's event
// queue (capacity 10) fills up; on correct code applyConfig then WAITS for space, no event is
// ever dropped. After the gate is opened everything drains; the complete log and the final
// state are observed. The wait below is bounded: if the scheduler does not let the queue fill
// in time the run merely misses the stall.

func c20TickOf(ev *ObjectEntityWatcherEvent) int {
	for _, m := range []map[string]*ObjectEntity{ev.Create, ev.Update} {
		if e, ok := m["zztick"]; ok {
			return e.Spec().ObjectSpec().(*c20Spec).V
		}
	}
	return -1
}

func c20RunBacklog(in c20In) (obs c20Obs) {
	obs.Crash = -1
	c20UseNames(in.Names, in.NameStr)
	c20Spell = in.Spell
	defer func() { c20Spell = 0 }()
	s := &Supervisor{options: &option.Options{}}
	or := &ObjectRegistry{super: s, entities: map[string]*ObjectEntity{}, watchers: map[string]*ObjectEntityWatcher{}}
	s.objectRegistry = or
	s.watcher = or.NewWatcher(watcherName, FilterCategory(CategoryBusinessController))
	s.handleEvent(<-s.watcher.eventChan)
	c20Begin(in)
	c20.mu.Lock()
	c20.parked, c20.gate = make(chan struct{}, 1), make(chan struct{})
	c20.blockOn = len(in.Block) == 2
	if c20.blockOn {
		c20.block = [2]int{in.Block[0], in.Block[1]}
	}
	c20.mu.Unlock()
	n := len(in.Steps)
	cfgAt := func(t int) map[string]string {
		cfg := c20Config(in.Steps[t])
		cfg["zztick"] = c20Yaml("zztick", "C20Tick", t)
		return cfg
	}
	doneCh, quit := make(chan int, n+8), make(chan struct{})
	var busy, crashed int32
	go func() { // what Supervisor.run does
		for {
			select {
			case ev := <-s.watcher.eventChan:
				atomic.StoreInt32(&busy, 1)
				t := c20TickOf(ev)
				if t >= 0 {
					c20SetStep(t)
				}
				func() {
					defer func() {
						if r := recover(); r != nil {
							atomic.StoreInt32(&crashed, 1)
						}
					}()
					s.handleEvent(ev)
				}()
				doneCh <- t
				atomic.StoreInt32(&busy, 0)
			case <-quit:
				return
			}
		}
	}()
	waitDone := func() bool {
		select {
		case <-doneCh:
			return true
		case <-time.After(60 * time.Second):
			return false
		}
	}
	B := n
	if len(in.Block) == 2 && in.Block[0] >= 0 && in.Block[0] < n {
		B = in.Block[0]
	}
	ok := true
	for t := 0; t < B && ok; t++ {
		or.applyConfig(cfgAt(t))
		ok = waitDone()
	}
	if ok && B < n {
		or.applyConfig(cfgAt(B))
		select {
		case <-c20.parked:
			obs.Parked = true
		case <-doneCh: // the armed callback did not happen: nothing stalls
		case <-time.After(60 * time.Second):
			ok = false
		}
		if obs.Parked {
			applierDone := make(chan struct{})
			var applied int32
			go func() {
				for t := B + 1; t < n; t++ {
					or.applyConfig(cfgAt(t))
					atomic.AddInt32(&applied, 1)
				}
				close(applierDone)
			}()
			select {
			case <-applierDone:
			case <-time.After(25 * time.Millisecond):
				obs.Stalled = int(atomic.LoadInt32(&applied)) < n-B-1
			}
			close(c20.gate)
			// exactly one event per snapshot is due; on a registry that drops events, stop once nothing more can come
			deadline := time.After(60 * time.Second)
			quiet := 0
			for got := 0; got < n-B && ok && quiet < 3; {
				select {
				case <-doneCh:
					got++
					quiet = 0
				case <-deadline:
					ok = false
				case <-time.After(2 * time.Millisecond):
					select {
					case <-applierDone:
						if len(s.watcher.eventChan) == 0 && atomic.LoadInt32(&busy) == 0 {
							quiet++
						}
					default:
					}
				}
			}
		} else {
			for t := B + 1; t < n && ok; t++ {
				or.applyConfig(cfgAt(t))
				ok = waitDone()
			}
		}
	}
	close(quit)
	if !ok || atomic.LoadInt32(&crashed) != 0 {
		obs.Crash = n
	}
	obs.Steps = []c20StepObs{c20Observe(s, nil, nil)}
	obs.Log = c20End()
	return
}

func c20GenBacklog(r *vfRand, adv bool, tier string) c20In {
	in := c20In{Kinds: c20KindTable()}
	in.Names = r.Range(2, 4)
	pre := r.Range(1, 4)
	burst := r.Range(11, 25)
	nsteps := pre + 1 + burst
	type cur struct{ kind, v int }
	live := map[int]*cur{}
	blockName := r.Intn(in.Names)
	for t := 0; t < nsteps; t++ {
		for n := 0; n < in.Names; n++ {
			c := live[n]
			if t == pre && n == blockName { // the stalled callback: this name appears or changes here
				if c == nil {
					live[n] = &cur{c20BizKinds[r.Intn(2)], r.Range(1, 3)}
				} else {
					c.v = c.v%3 + 1
				}
				continue
			}
			x := r.Intn(20)
			switch {
			case c == nil:
				if x < 10 {
					live[n] = &cur{c20BizKinds[r.Intn(2)], r.Range(1, 3)}
				}
			case x < 5:
			case x < 12:
				c.v = c.v%3 + 1
			case x < 15:
				delete(live, n)
			case x < 17:
				c.kind = 1 - c.kind
			default:
			}
		}
		step := [][3]int{}
		for n := 0; n < in.Names; n++ {
			if c := live[n]; c != nil {
				step = append(step, [3]int{n, c.kind, c.v})
			}
		}
		in.Steps = append(in.Steps, step)
	}
	in.Block = []int{pre, blockName}
	if r.Chance(1, 3) {
		in.NameStr = c20ExoticNames(r, in.Names)
	}
	in.Panics = [][3]int{}
	if r.Bool() {
		for t := 0; t < nsteps; t++ {
			for n := 0; n < in.Names; n++ {
				for op := 0; op < 3; op++ {
					if r.Chance(1, 5) {
						in.Panics = append(in.Panics, [3]int{t, op, n})
					}
				}
			}
		}
	}
	return in
}

// long histories: one supervisor sees well over a hundred DISTINCT config strings (one object
// reconfigured 130..300 times, others now and then), then configs are rolled back to early
// ones, byte for byte. What the live generation runs is observed through the content id the
// instance itself read from the spec it was given.
func c20GenLong(r *vfRand, tier string) c20In {
	in := c20In{Kinds: c20KindTable(), Panics: [][3]int{}}
	in.Names = r.Range(1, 3)
	in.Spell = r.Intn(4)
	n := r.Range(130, 190)
	if tier == "thorough" {
		n = r.Range(130, 300)
	}
	kinds := []int{r.Intn(2), r.Intn(2), r.Intn(2)}
	vs := []int{0, 0, 0}
	present := []bool{true, r.Bool(), r.Bool()}
	snap := func() [][3]int {
		st := [][3]int{}
		for k := 0; k < in.Names; k++ {
			if present[k] {
				st = append(st, [3]int{k, kinds[k], vs[k]})
			}
		}
		return st
	}
	for t := 0; t < n; t++ {
		vs[0] = t // a new config string every snapshot
		for k := 1; k < in.Names; k++ {
			switch r.Intn(8) {
			case 0:
				present[k] = !present[k]
			case 1, 2:
				vs[k] = 1000*k + t
			}
		}
		in.Steps = append(in.Steps, snap())
	}
	// rollbacks to configs seen long ago, with unchanged re-deliveries in between
	for j := r.Range(3, 7); j > 0; j-- {
		for k := 0; k < in.Names; k++ {
			switch r.Intn(4) {
			case 0: // back to an early config of this name
				vs[k] = r.Intn(n / 3)
				if k > 0 {
					vs[k] = 1000*k + vs[k]
				}
				present[k] = true
			case 1:
				present[k] = k == 0 || !present[k]
			case 2:
				vs[k] = vs[k] + 1
			}
		}
		if j%2 == 0 {
			vs[0] = r.Intn(3) // the very first configs of the run
		}
		in.Steps = append(in.Steps, snap())
		if r.Bool() {
			in.Steps = append(in.Steps, snap())
		}
	}
	for t := 0; t < len(in.Steps); t++ {
		if r.Chance(1, 40) {
			in.Panics = append(in.Panics, [3]int{t, r.Intn(3), r.Intn(in.Names)})
		}
	}
	return in
}

// ---------------------------------------------------------------- generator

var c20BizKinds = []int{0, 1}
var c20TrafficKinds = []int{2, 3, 4, 9}

func c20PickKind(r *vfRand, cats int) int {
	// cats: 0 business only, 1 business + traffic, 2 everything (incl. unwatched system category)
	switch {
	case r.Chance(1, 14): // an entry applyConfig cannot decode, next to ordinary changes
		return 7
	case cats == 0 || r.Chance(6, 10):
		return c20BizKinds[r.Intn(2)]
	case cats == 2 && r.Chance(1, 6):
		return 5
	default:
		return c20TrafficKinds[r.Intn(4)]
	}
}

func c20OtherKindSameCat(r *vfRand, k int) int {
	var pool []int
	for id, c := range c20KindCat {
		if id != k && c == c20KindCat[k] && id != 5 {
			pool = append(pool, id)
		}
	}
	if len(pool) == 0 {
		return k
	}
	sort.Ints(pool)
	return pool[r.Intn(len(pool))]
}

func c20Gen(r *vfRand, adv bool, tier string) c20In {
	in := c20In{Kinds: c20KindTable()}
	in.Names = r.Range(1, 4)
	nsteps := r.Range(2, 9)
	if tier == "thorough" && r.Chance(1, 4) {
		nsteps = r.Range(8, 16)
	}
	cats := r.Intn(3)
	kindChange := r.PickInt(0, 1, 1, 2, 4)
	if adv {
		kindChange = 5
	}
	type cur struct{ kind, v int }
	live := map[int]*cur{}
	for t := 0; t < nsteps; t++ {
		repeat := t > 0 && r.Chance(1, 12) // the same snapshot delivered again
		for n := 0; n < in.Names && !repeat; n++ {
			c := live[n]
			x := r.Intn(20)
			switch {
			case c == nil:
				if x < 9 {
					live[n] = &cur{c20PickKind(r, cats), r.Range(1, 3)}
				}
			case x < 6: // unchanged
			case x < 11: // change of content
				c.v = c.v%3 + 1
				if r.Chance(1, 3) { // several changes coalesced: may come back to the same content
					c.v = r.Range(1, 3)
				}
			case x < 14: // disappears
				delete(live, n)
			case x < 14+kindChange: // change of kind inside one snapshot (delete + create coalesced)
				if r.Chance(2, 3) {
					c.kind = c20OtherKindSameCat(r, c.kind)
				} else {
					c.kind = c20PickKind(r, 2)
				}
				if r.Bool() {
					c.v = r.Range(1, 3)
				}
			default:
			}
		}
		step := [][3]int{}
		for n := 0; n < in.Names; n++ {
			if c := live[n]; c != nil {
				step = append(step, [3]int{n, c.kind, c.v})
			}
		}
		in.Steps = append(in.Steps, step)
	}
	if r.Chance(1, 3) {
		in.NameStr = c20ExoticNames(r, in.Names)
	}
	in.Panics = [][3]int{}
	switch r.Intn(4) {
	case 0: // no panics
	case 1: // dense
		for t := 0; t < nsteps; t++ {
			for n := 0; n < in.Names; n++ {
				for op := 0; op < 3; op++ {
					if r.Chance(1, 3) {
						in.Panics = append(in.Panics, [3]int{t, op, n})
					}
				}
			}
		}
	default: // one name panics a lot, the others never
		n := r.Intn(in.Names)
		for t := 0; t < nsteps; t++ {
			for op := 0; op < 3; op++ {
				if r.Chance(2, 3) {
					in.Panics = append(in.Panics, [3]int{t, op, n})
				}
			}
		}
	}
	return in
}

func TestVerifC20(t *testing.T) {
	out := vfOpen(t)
	defer out.Close()
	c20Setup()
	for _, sc := range vfStored("sup") {
		var in c20In
		if err := json.Unmarshal(sc.In, &in); err != nil {
			t.Fatalf("c20: stored case %s: %v", sc.ID, err)
		}
		out.Emit(vfCase{ID: sc.ID, Src: sc.Src, Grp: "sup", In: in, Obs: c20Run(t, in)})
		out.w.Flush() // a panic escaping in a goroutine kills the binary: keep what was observed so far
	}
	for _, sc := range vfStored("backlog") {
		var in c20In
		if err := json.Unmarshal(sc.In, &in); err != nil {
			t.Fatalf("c20: stored case %s: %v", sc.ID, err)
		}
		out.Emit(vfCase{ID: sc.ID, Src: sc.Src, Grp: "backlog", In: in, Obs: c20RunBacklog(in)})
		out.w.Flush()
	}
	for _, sc := range vfStored("join") {
		var in c20JoinIn
		if err := json.Unmarshal(sc.In, &in); err != nil {
			t.Fatalf("c20: stored case %s: %v", sc.ID, err)
		}
		out.Emit(vfCase{ID: sc.ID, Src: sc.Src, Grp: "join", In: in, Obs: c20RunJoin(in)})
		out.w.Flush()
	}
	if vfReplayOnly() {
		return
	}
	adv := vfStream() == "adv"
	src := "gen"
	if adv {
		src = "adv"
	}
	root := vfNewRand(vfSeed())
	n := vfN(300)
	for i := 0; i < n; i++ {
		r := root.Fork(i)
		if i%170 == 7 { // a long history: many distinct configs, then rollbacks (one or two per quick run)
			lin := c20GenLong(r, vfTier())
			out.Emit(vfCase{ID: fmt.Sprintf("long-%d-%d", vfSeed(), i), Src: src, Grp: "sup", In: lin, Obs: c20Run(t, lin)})
			out.w.Flush()
			continue
		}
		if i%12 == 5 { // a stalled handler and a burst of snapshots
			bin := c20GenBacklog(r, adv, vfTier())
			out.Emit(vfCase{ID: fmt.Sprintf("backlog-%d-%d", vfSeed(), i), Src: src, Grp: "backlog", In: bin, Obs: c20RunBacklog(bin)})
			out.w.Flush()
			continue
		}
		if i%4 == 3 { // a quarter of the cases: a watcher joining late / concurrently with applyConfig
			jin := c20GenJoin(r, adv, vfTier())
			out.Emit(vfCase{ID: fmt.Sprintf("join-%d-%d", vfSeed(), i), Src: src, Grp: "join", In: jin, Obs: c20RunJoin(jin)})
			out.w.Flush()
			continue
		}
		in := c20Gen(r, adv, vfTier())
		if i%5 == 4 {
			in.Mode = 1
		}
		out.Emit(vfCase{ID: fmt.Sprintf("sup-%d-%d", vfSeed(), i), Src: src, Grp: "sup", In: in, Obs: c20Run(t, in)})
		out.w.Flush() // a panic escaping in a goroutine kills the binary: keep what was observed so far
	}
}
