//go:build verif

package validator

// C06 harness, part 3: building the request of a case (independent signing at
// run time, then mutation of one covered part), generators, the test entry.

import (
	"encoding/base64"
	"encoding/json"
	"fmt"
	"strings"
	"testing"
	"time"
)

func c06CloneReq(r c06Req) c06Req {
	c := r
	c.Query = append([][2]string{}, r.Query...)
	c.Headers = append([][2]string{}, r.Headers...)
	return c
}

func c06PlanLiteral(in *c06In) *c06Literal {
	if in.Cfg.Sig != nil {
		return in.Cfg.Sig.lit()
	}
	return &c06DefaultLiteral
}

// c06Build: sign the recipe as the plan says (own signer), then apply the mutations.
func c06Build(in *c06In, now time.Time) (c06Req, error) {
	r := c06CloneReq(in.Req)
	l := c06PlanLiteral(in)
	var p *c06Params
	if pl := in.Plan; pl != nil {
		t := now.Add(-time.Duration(pl.AgeS) * time.Second).UTC().Truncate(time.Second)
		if pl.Clock != "" {
			c, err := time.Parse("15:04:05", pl.Clock)
			if err != nil {
				return r, fmt.Errorf("bad clock %q", pl.Clock)
			}
			t = now.UTC().Truncate(24*time.Hour).AddDate(0, 0, pl.DayOff).Add(time.Duration(c.Hour())*time.Hour + time.Duration(c.Minute())*time.Minute + time.Duration(c.Second())*time.Second)
		}
		p = &c06Params{Presign: pl.Mode == "query", KeyID: pl.KeyID, Scopes: pl.Scopes, Signed: strings.Join(pl.Signed, ";"),
			FTime: t.Format(c06TimeFormat), FDate: t.Format("20060102"), ExpireNs: pl.Expires * 1e9}
		cred := pl.KeyID + "/" + p.scope(l)
		if p.Presign {
			for _, kv := range [][2]string{{l.AlgorithmName, l.AlgorithmValue}, {l.Credential, cred}, {l.Date, p.FTime},
				{l.Expires, fmt.Sprint(pl.Expires)}, {l.SignedHeaders, p.Signed}} {
				r.Query = append(r.Query, [2]string{c06Pct(kv[0], false, false), c06Pct(kv[1], false, false)})
			}
		} else {
			r.Headers = append(r.Headers, [2]string{l.Date, p.FTime})
		}
		stdr, err := c06Parse(c06Wire(&r))
		if err != nil {
			return r, fmt.Errorf("unsigned request does not parse: %v", err)
		}
		body := c06UnHex(r.Body)
		view := c06ViewOf(stdr, []byte(body), "")
		bh := c06ShaHex(body)
		switch pl.BodyAs {
		case "empty":
			bh = c06ShaHex("")
		case "unsigned":
			bh = "UNSIGNED-PAYLOAD"
		case "header": // the client announces the payload hash in a header and signs that value (as signer.Sign does)
			for _, h := range r.Headers {
				if strings.EqualFold(h[0], l.ContentSHA256) {
					bh = h[1]
					break
				}
			}
		}
		_, sts := c06Canon(view, l, p, bh)
		tag := c06Tag(l, p, pl.Secret, sts, nil)
		if p.Presign {
			r.Query = append(r.Query, [2]string{c06Pct(l.Signature, false, false), tag})
		} else {
			r.Headers = append(r.Headers, [2]string{"Authorization",
				fmt.Sprintf("%s Credential=%s, SignedHeaders=%s, Signature=%s", l.AlgorithmValue, cred, p.Signed, tag)})
		}
	}
	if jp := in.JPlan; jp != nil {
		t := now.Unix()
		claims := `{"sub":"alice"`
		for _, c := range []struct {
			n string
			v *int64
		}{{"exp", jp.Exp}, {"nbf", jp.Nbf}, {"iat", jp.Iat}} {
			if c.v != nil {
				claims += fmt.Sprintf(`,"%s":%d`, c.n, t+*c.v)
			}
		}
		tok := c06Issue(jp.Alg, jp.Secret, fmt.Sprintf(`{"alg":"%s","typ":"JWT"}`, jp.Alg), claims+"}")
		if jp.Cookie != "" {
			r.Headers = append(r.Headers, [2]string{"Cookie", jp.Cookie + "=" + tok})
		} else {
			r.Headers = append(r.Headers, [2]string{"Authorization", "Bearer " + tok})
		}
	}
	for _, m := range in.Muts {
		c06ApplyMut(&r, m, l, p)
	}
	return r, nil
}

func c06FlipHex(s string, n int) string {
	if len(s) == 0 {
		return s
	}
	i := n % len(s)
	c := byte('0')
	if s[i] == '0' {
		c = 'f'
	}
	return s[:i] + string(c) + s[i+1:]
}

// c06AuthEdit applies f to the Authorization header value (header mode) or to
// the wire value of every signature-carrying query parameter (presign).
func c06AuthEdit(r *c06Req, l *c06Literal, only string, f func(string) string) {
	for i, h := range r.Headers {
		if strings.EqualFold(h[0], "Authorization") && only == "" {
			r.Headers[i][1] = f(h[1])
		}
		if only != "" && strings.EqualFold(h[0], only) {
			r.Headers[i][1] = f(h[1])
		}
	}
	for i, kv := range r.Query {
		for _, n := range []string{l.Credential, l.Signature, l.SignedHeaders, l.Date, l.Expires, l.AlgorithmName} {
			if kv[0] == c06Pct(n, false, false) && (only == "" || only == n) {
				r.Query[i][1] = f(kv[1])
			}
		}
	}
}

func c06ApplyMut(r *c06Req, m c06Mut, l *c06Literal, p *c06Params) {
	idx := func(n int) int {
		if n <= 0 {
			return 0
		}
		return m.N % n
	}
	switch m.Op {
	case "method":
		r.Method = m.A
	case "path":
		r.Path = m.A
	case "host":
		r.Host = m.A
	case "qadd":
		r.Query = append(r.Query, [2]string{m.A, m.B})
	case "qdel":
		if len(r.Query) > 0 {
			i := idx(len(r.Query))
			r.Query = append(r.Query[:i:i], r.Query[i+1:]...)
		}
	case "qset":
		if len(r.Query) > 0 {
			r.Query[idx(len(r.Query))][1] = m.B
		}
	case "qrev":
		for i, j := 0, len(r.Query)-1; i < j; i, j = i+1, j-1 {
			r.Query[i], r.Query[j] = r.Query[j], r.Query[i]
		}
	case "hset":
		for i, h := range r.Headers {
			if strings.EqualFold(h[0], m.A) {
				r.Headers[i][1] = m.B
				break
			}
		}
	case "hsp":
		for i, h := range r.Headers {
			if strings.EqualFold(h[0], m.A) {
				r.Headers[i][1] = strings.ReplaceAll(h[1], " ", "   ")
				break
			}
		}
	case "hadd":
		r.Headers = append(r.Headers, [2]string{m.A, m.B})
	case "hdel":
		var hs [][2]string
		for _, h := range r.Headers {
			if !strings.EqualFold(h[0], m.A) {
				hs = append(hs, h)
			}
		}
		r.Headers = hs
	case "body":
		r.Body = m.A
	case "chunk":
		r.Chunked = !r.Chunked
	case "tagflip", "tagupper", "tagcut", "tagext":
		edit := func(tag string) string {
			switch m.Op {
			case "tagupper":
				return strings.ToUpper(tag)
			case "tagcut":
				if m.N < len(tag) {
					return tag[:m.N]
				}
				return tag
			case "tagext":
				return tag + m.A
			}
			return c06FlipHex(tag, m.N)
		}
		for i, h := range r.Headers {
			if k := strings.LastIndex(h[1], "Signature="); strings.EqualFold(h[0], "Authorization") && k >= 0 {
				r.Headers[i][1] = h[1][:k+10] + edit(h[1][k+10:])
			}
		}
		c06AuthEdit(r, l, l.Signature, edit)
	case "authsub":
		c06AuthEdit(r, l, "", func(s string) string { return strings.Replace(s, m.A, m.B, 1) })
	case "credprefix":
		if p != nil {
			c06AuthEdit(r, l, "", func(s string) string {
				s = strings.Replace(s, "/"+p.FDate+"/", "/"+p.FDate[:4]+"/", 1)
				return strings.Replace(s, "%2F"+p.FDate+"%2F", "%2F"+p.FDate[:4]+"%2F", 1)
			})
		}
	case "dateshift":
		if p != nil {
			t, _ := time.ParseInLocation(c06TimeFormat, p.FTime, time.UTC)
			nt := t.Add(time.Duration(m.N) * time.Second).Format(c06TimeFormat)
			c06AuthEdit(r, l, l.Date, func(string) string { return nt })
		}
	case "expires":
		c06AuthEdit(r, l, l.Expires, func(string) string { return m.A })
	}
}

// c06TimeDeterminate: the signer package reads the real clock somewhere between nowB and nowA; the
// case is usable only if every ttl / expiry threshold lies outside that interval (1 ms slack).
func c06TimeDeterminate(cfg *c06SigCfg, v *c06View, nowB, nowA int64) bool {
	p, _ := c06ParseParams(v, cfg.lit())
	if p == nil {
		return true
	}
	ageB, ageA := c06AgeNs(nowB, p)-int64(time.Millisecond), c06AgeNs(nowA, p)+int64(time.Millisecond)
	var ths []int64
	if ttl := cfg.ttlNs(); ttl > 0 {
		ths = append(ths, ttl, -ttl)
	}
	if p.Presign {
		ths = append(ths, p.ExpireNs)
	}
	for _, th := range ths {
		if ageB <= th && th <= ageA {
			return false
		}
	}
	return true
}

func c06RunCase(in c06In, id string, seq int) vfCase {
	v, err := c06NewValidator(&in.Cfg, seq)
	if err != nil {
		panic(fmt.Sprintf("verif: harness defect: case %s has an invalid configuration: %v", id, err))
	}
	defer v.Close()
	return vfCase{ID: id, Grp: "v", In: in, Obs: c06RunOn(v, in)}
}

// c06RunOn presents the request of the case to an existing validator instance (configured as in.Cfg).
func c06RunOn(v *Validator, in c06In) c06Obs {
	if in.TZ != 0 {
		old := time.Local
		time.Local = time.FixedZone("verif", in.TZ)
		defer func() { time.Local = old }()
	}
	obs := c06Obs{}
	cookie := ""
	if in.Cfg.JWT != nil {
		cookie = in.Cfg.JWT.Cookie
	}
	// a ttl of a few seconds against timestamps of one second resolution: sign right after a second starts
	phase := in.Cfg.Sig != nil && in.Plan != nil && in.Cfg.Sig.ttlNs() > 0 && in.Cfg.Sig.ttlNs() < int64(4*time.Second) &&
		in.Plan.AgeS >= -4 && in.Plan.AgeS <= 4
	if in.JNow == 0 && in.JPlan != nil { // real jwt clock: issue and present within one second
		for _, o := range []*int64{in.JPlan.Exp, in.JPlan.Nbf, in.JPlan.Iat} {
			phase = phase || (o != nil && *o >= -2 && *o <= 2)
		}
	}
	for attempt := 0; ; attempt++ {
		if phase || attempt > 0 {
			if ns := time.Now().Nanosecond(); ns > int(100*time.Millisecond) {
				time.Sleep(time.Second - time.Duration(ns) + 5*time.Millisecond)
			}
		}
		obs = c06Obs{}
		req, err := c06Build(&in, time.Now())
		if err != nil {
			obs.Why = err.Error()
			break
		}
		wire := c06Wire(&req)
		obs = c06Deliver(v, wire, in.JNow, cookie, in.Pre)
		nowA := time.Now().UnixNano()
		obs.Wire = c06Hex(string(wire))
		det := !obs.Delivered || in.Cfg.Sig == nil || c06TimeDeterminate(in.Cfg.Sig, obs.View, obs.NowNs, nowA)
		if det && obs.Delivered && in.Cfg.JWT != nil && obs.JNowAfter != obs.JNow {
			// the jwt clock moved during the call: usable only if the verdict is the same at both ends
			a, _ := c06RefJWT(in.Cfg.JWT, obs.View, obs.JNow)
			b, _ := c06RefJWT(in.Cfg.JWT, obs.View, obs.JNowAfter)
			det = a == b
		}
		if det {
			break
		}
		if attempt >= 5 {
			obs = c06Obs{Why: "signature age too close to a ttl/expiry threshold for the real clock"}
			break
		}
	}
	if obs.Delivered {
		if in.Cfg.Sig != nil {
			obs.TTLNs = in.Cfg.Sig.ttlNs()
		}
		obs.Tabs = c06BuildTables(&in.Cfg, obs.View)
		obs.Expect, obs.ExpectWhy = c06Expect(&in.Cfg, obs.View, obs.JNow, obs.NowNs)
	}
	return obs
}

// ---------------------------------------------------------------------------
// generators

var c06Paths = []string{"/", "/a", "/api/v1/users", "/a%20b", "/a%2Fb/c", "/caf%C3%A9", "/a+b", "/a~b/-._", "/x;y=1",
	"/a,b", "/a:b@c", "/a=b&c", "/%E6%97%A5%E6%9C%AC", "/a%2fb", "/a//b", "/a/./b", "/a!$'()*", "/a%25b", "/A", "/a/"}

var c06QPairs = [][2]string{{"a", "1"}, {"b", "x%20y"}, {"b", "x+y"}, {"k", "2"}, {"k", "1"}, {"k", "10"}, {"e", ""},
	{"n", "%C3%A9"}, {"amp", "a%26b"}, {"eq", "a%3Db"}, {"A", "1"}, {"sl", "a/b"}, {"c%20d", "v"}, {"z", "~-._"}, {"p", "100%25"}}

var c06Hdrs = [][2]string{{"X-Custom", "v1"}, {"Content-Type", "application/json"}, {"X-Multi", "a"}, {"X-Multi", "b"},
	{"X-Space", "a   b  c"}, {"Accept", "*/*"}, {"X-Name", "café"}, {"X-Env", "prod"}, {"X-Trace-Id", "0af7651916cd43dd"}, {"User-Agent", "c06/1.0"}}

var c06Hosts = []string{"example.com", "example.com:8080", "example.com:80", "api.internal", "[::1]:8080", "[::1]", "example.com:"}

var c06Bodies = []string{"hello", `{"amount":100,"to":"bob"}`, "a", "\x00\x01\xff\xfe binary", "line1\nline2\n", "日本語のボディ"}

func c06Pick2(r *vfRand, xs [][2]string) [2]string { return xs[r.Intn(len(xs))] }

func c06BaseReq(r *vfRand, allowBody bool, bodyPct int) c06Req {
	q := c06Req{Method: r.PickStr("GET", "GET", "POST", "PUT", "DELETE", "PATCH"), Path: r.PickStr(c06Paths...),
		Host: c06Hosts[0]}
	if r.Chance(1, 3) {
		q.Host = r.PickStr(c06Hosts...)
	}
	for i, n := 0, r.Intn(4); i < n; i++ {
		q.Query = append(q.Query, c06Pick2(r, c06QPairs))
	}
	for i, n := 0, r.Intn(4); i < n; i++ {
		q.Headers = append(q.Headers, c06Pick2(r, c06Hdrs))
	}
	if allowBody && r.Chance(bodyPct, 100) {
		b := r.PickStr(c06Bodies...)
		if r.Chance(1, 6) {
			b = strings.Repeat(b, r.Range(50, 400))
		}
		q.Body = c06Hex(b)
		q.Chunked = r.Chance(1, 4)
		if q.Method == "GET" && r.Chance(2, 3) {
			q.Method = "POST"
		}
	}
	return q
}

func c06HasHeader(q *c06Req, name string) bool {
	for _, h := range q.Headers {
		if strings.EqualFold(h[0], name) {
			return true
		}
	}
	return false
}

// kinds (coverage labels): 1-29 signature, 30-49 jwt, 50-59 basic, 60-69 header rules, +100 when several methods are configured

func c06AttachHeaders(r *vfRand, in *c06In, focus bool) int {
	rule := c06HRule{Key: r.PickStr("X-Api-Version", "x-client", "X-Env", "X-Role")}
	if r.Chance(2, 3) {
		rule.Values = [][]string{{"v1", "v2"}, {"prod"}, {"abc", "goodplan", ""}, {"admin", "auditor"}, {"read,write", "read"}, {"a, b"}}[r.Intn(6)]
	}
	if len(rule.Values) == 0 || r.Chance(1, 2) {
		rule.Regexp = r.PickStr("^v[0-9]+$", "^ok-.+$", "prod|stage", "^[a-z]{3,8}$", "^tenant=[0-9]+, *zone=[a-z]+$", "^(admin|auditor)$")
	}
	in.Cfg.Headers = []c06HRule{rule}
	// a header value is the whole field line: commas and blanks inside it are part of the value
	good := []string{"v1", "prod", "abc", "v22", "ok-x", "stage", "goodplan", "admin", "auditor", "read,write", "read", "a, b",
		"tenant=12, zone=eu", "tenant=7,zone=us"}
	pickGood := func() string {
		for _, g := range good {
			if ok, _ := c06RefHeaders(in.Cfg.Headers, &c06View{Headers: []c06KV{{K: c06CK(rule.Key), V: []string{g}}}}); ok && r.Chance(1, 2) {
				return g
			}
		}
		for _, g := range good {
			if ok, _ := c06RefHeaders(in.Cfg.Headers, &c06View{Headers: []c06KV{{K: c06CK(rule.Key), V: []string{g}}}}); ok {
				return g
			}
		}
		return rule.Values[0]
	}
	bad := r.PickStr("nope", "V1", "v1 ", "xprod-", "ok-", "", "admin,guest", "guest, admin", "admin, auditor", "v1,v2", "v1, nope",
		"prod,prod", "read, write", "write,read", "a,b", "tenant=12", "abc,", ",abc", "goodplan , x")
	if ok, _ := c06RefHeaders(in.Cfg.Headers, &c06View{Headers: []c06KV{{K: c06CK(rule.Key), V: []string{strings.TrimSpace(bad)}}}}); ok {
		bad = "nope,nope"
	}
	variant := 0
	if focus {
		variant = r.Intn(6)
	} else if r.Chance(1, 6) {
		variant = 2
	}
	name := rule.Key
	if r.Chance(1, 3) {
		name = strings.ToLower(name)
	}
	switch variant {
	case 0, 1:
		in.Req.Headers = append(in.Req.Headers, [2]string{name, pickGood()})
		return 60
	case 2:
		return 62 // missing
	case 3:
		in.Req.Headers = append(in.Req.Headers, [2]string{name, bad})
		return 63
	case 4: // multi-valued, first good
		in.Req.Headers = append(in.Req.Headers, [2]string{name, pickGood()}, [2]string{name, bad})
		return 64
	default: // multi-valued, first bad
		in.Req.Headers = append(in.Req.Headers, [2]string{name, bad}, [2]string{name, pickGood()})
		return 65
	}
}

// c06NumLit writes the second t (or t + a fraction) as a JSON value of the given shape.
func c06NumLit(r *vfRand, shape string, t int64) string {
	d := fmt.Sprint(t)
	sci := func(digits string, up bool) string { // d.ddd e (len-1): the same decimal number
		e := "e"
		if up {
			e = r.PickStr("E", "e+", "E+")
		}
		return digits[:1] + "." + digits[1:] + e + fmt.Sprint(len(d)-1)
	}
	switch shape {
	case "frac":
		return d + r.PickStr(".5", ".25", ".001", ".0", ".75")
	case "exp":
		return sci(d, false)
	case "expup":
		return sci(d, true)
	case "fracexp":
		return sci(d+r.PickStr("5", "25", "001"), r.Bool())
	case "string":
		return `"` + d + `"`
	case "neg":
		return "-" + r.PickStr(d, d+".5", "1", "0.5", "1e0")
	case "zeroish":
		return r.PickStr("0", "0.0", "0e0", "0.5", "0.999", "-0", "5e-1", "null", "true", "[]")
	case "huge":
		return r.PickStr("253402300800", "9e18", "4102444800.5", "1e12", "99999999999")
	case "fracsmall":
		return r.PickStr("1.5", "1e0", "1600000000.5", "1.6e9", "16E8", "1.7e9", "1.8e9", "18e8", "1800000000.25")
	}
	return d
}

const c06B64URL = "ABCDEFGHIJKLMNOPQRSTUVWXYZabcdefghijklmnopqrstuvwxyz0123456789-_"

func c06AttachJWT(r *vfRand, in *c06In, focus, mustCookie, adv bool) int {
	cfg := &c06JWTCfg{Alg: r.PickStr("HS256", "HS256", "HS384", "HS512"), Secret: r.PickStr("6d79736563726574", "00ff10", "736563726574ab", "a1")}
	useCookie := mustCookie || r.Chance(1, 3)
	if useCookie || r.Chance(1, 4) {
		cfg.Cookie = r.PickStr("auth", "token")
	}
	in.Cfg.JWT = cfg
	now := in.JNow
	variant := 0
	if focus {
		variant = r.Intn(32)
		if adv && r.Chance(1, 2) {
			variant = 20 + r.Intn(12)
		}
	} else if r.Chance(1, 6) {
		variant = 8
	}
	hdr := fmt.Sprintf(`{"alg":"%s","typ":"JWT"}`, cfg.Alg)
	claims := map[string]interface{}{"sub": r.PickStr("alice", "bob", "üser")}
	if r.Chance(2, 3) {
		claims["exp"] = now + int64(r.PickInt(0, 1, 60, 3600))
	}
	if r.Chance(1, 3) {
		claims["nbf"] = now - int64(r.PickInt(0, 1, 60))
	}
	if r.Chance(1, 3) {
		claims["iat"] = now - int64(r.PickInt(0, 5))
	}
	kind := 30
	alg, secret := cfg.Alg, cfg.Secret
	post := func(tok string) string { return tok }
	flipIn := func(seg int) func(string) string {
		return func(tok string) string {
			parts := strings.Split(tok, ".")
			s := parts[seg]
			i := r.Intn(len(s))
			c := c06B64URL[r.Intn(64)]
			if c == s[i] {
				c = c06B64URL[(strings.IndexByte(c06B64URL, c)+1)%64]
			}
			parts[seg] = s[:i] + string(c) + s[i+1:]
			return strings.Join(parts, ".")
		}
	}
	switch variant {
	case 0, 1, 2:
	case 3:
		kind, post = 32, flipIn(0)
	case 4:
		kind, post = 33, flipIn(1)
	case 5: // last signature character replaced by one with the same significant bits
		kind = 35
		post = func(tok string) string {
			i := strings.IndexByte(c06B64URL, tok[len(tok)-1])
			spare := map[string]int{"HS256": 4, "HS384": 1, "HS512": 16}[cfg.Alg]
			if spare == 1 {
				return tok + "="
			}
			j := i - i%spare + (i%spare+1+r.Intn(spare-1))%spare
			return tok[:len(tok)-1] + string(c06B64URL[j])
		}
	case 6:
		kind, post = 34, flipIn(2)
	case 7: // properly signed with another algorithm
		kind = 36
		for alg == cfg.Alg {
			alg = r.PickStr("HS256", "HS384", "HS512")
		}
		hdr = fmt.Sprintf(`{"alg":"%s","typ":"JWT"}`, alg)
	case 8:
		kind, alg = 37, "none"
		hdr = `{"alg":"none","typ":"JWT"}`
	case 9:
		kind = 38
		claims["exp"] = now - int64(r.PickInt(1, 2, 3600))
	case 10:
		kind = 39
		claims["nbf"] = now + int64(r.PickInt(1, 2, 3600))
	case 11:
		kind = 43
		claims["iat"] = now + int64(r.PickInt(1, 60))
	case 12:
		kind, secret = 40, "ff"+cfg.Secret
	case 13:
		kind = 42
		post = func(tok string) string { return tok + "=" }
	case 14: // exp exactly now (still valid), nbf exactly now
		kind = 44
		claims["exp"], claims["nbf"], claims["iat"] = now, now, now
	case 15: // header without typ, other key order, unknown alg name
		kind = 45
		hdr = r.PickStr(fmt.Sprintf(`{"typ":"JWT","alg":"%s"}`, cfg.Alg), fmt.Sprintf(`{"alg":"%s"}`, cfg.Alg), `{"alg":"HS999"}`, `{"alg":5}`, `{"typ":"JWT"}`, `not json`)
	case 16: // segment count
		kind = 46
		post = func(tok string) string { return r.PickStr(tok+".x", strings.Replace(tok, ".", "", 1), "", "..") }
	case 17: // signature removed / truncated
		kind = 47
		post = func(tok string) string { return tok[:strings.LastIndex(tok, ".")+1+r.Intn(3)] }
	case 18: // exp = 0 means "not set"
		kind = 48
		claims["exp"] = 0
	case 19: // claims not an object
		kind = 49
		claims = nil
	default: // a time claim in every JSON number shape, on both sides of now
		shapes := []string{"frac", "exp", "fracexp", "string", "neg", "zeroish", "huge", "fracsmall", "expup", "int"}
		si := r.Intn(len(shapes))
		name := r.PickStr("exp", "exp", "nbf", "nbf", "iat")
		t := now + int64(r.PickInt(-3600, -60, -2, -1, 0, 1, 2, 60, 3600))
		delete(claims, "exp")
		delete(claims, "nbf")
		delete(claims, "iat")
		claims[name] = json.RawMessage(c06NumLit(r, shapes[si], t))
		kind = 70 + si
	}
	cj, _ := json.Marshal(claims)
	if claims == nil {
		cj = []byte(`[1,2]`)
	}
	tok := post(c06Issue(alg, secret, hdr, string(cj)))
	scheme := "Bearer "
	if focus && r.Chance(1, 12) {
		scheme, kind = r.PickStr("bearer ", "Bearer", "Bearer  ", "Token "), 41
	}
	switch {
	case useCookie:
		ck := cfg.Cookie + "=" + tok
		if r.Chance(1, 2) {
			ck = "other=1; " + ck + "; z=2"
		}
		in.Req.Headers = append(in.Req.Headers, [2]string{"Cookie", ck})
		if kind == 30 {
			kind = 31
		}
	default:
		in.Req.Headers = append(in.Req.Headers, [2]string{"Authorization", scheme + tok})
		if cfg.Cookie != "" && r.Chance(1, 2) { // unrelated or empty cookie: falls back to the header
			in.Req.Headers = append(in.Req.Headers, [2]string{"Cookie", r.PickStr("other=1", cfg.Cookie+"=")})
		}
	}
	return kind
}

var c06Users = [][2]string{{"alice", "wonderland"}, {"bob", "pa"}, {"carol", "pässwörd"}, {"dave", "日本語"}, {"eve", "p w"},
	{"frank", "pa:ss"}, {"grace", "a:b:c"}, {"heidi", ":lead"}, {"ivan", "trail:"}, {"judy", "x"}, {"", "nouser"}, {"mallory", "::"}}

func c06AttachBasic(r *vfRand, in *c06In, focus, adv bool) int {
	var users [][2]string
	seen := map[string]bool{}
	for i, n := 0, r.Range(1, 4); i < n; i++ {
		u := c06Users[r.Intn(len(c06Users))]
		if !focus && strings.Contains(u[1], ":") {
			u = c06Users[r.Intn(5)]
		}
		if !seen[u[0]] {
			seen[u[0]] = true
			users = append(users, u)
		}
	}
	if focus && adv {
		for _, u := range [][2]string{c06Users[1], c06Users[5]} {
			if !seen[u[0]] {
				seen[u[0]] = true
				users = append(users, u)
			}
		}
	}
	in.Cfg.Basic = users
	u := users[r.Intn(len(users))]
	creds, kind := u[0]+":"+u[1], 50
	if strings.Contains(u[1], ":") {
		kind = 51
	} else if len(u[1]) != len([]rune(u[1])) {
		kind = 52
	}
	variant := 0
	if focus {
		variant = r.Intn(12)
		if adv && r.Chance(1, 2) {
			variant = 4
		}
	} else if r.Chance(1, 6) {
		variant = 3
	}
	scheme := "Basic "
	enc := func(s string) string { return base64.StdEncoding.EncodeToString([]byte(s)) }
	b64 := ""
	switch variant {
	case 0, 1, 2:
	case 3:
		creds, kind = u[0]+":"+u[1]+r.PickStr("x", " ", "é"), 53
	case 4: // right password followed by ':' and anything (accepted by an every-colon split)
		if !strings.Contains(u[1], ":") && focus {
			creds, kind = u[0]+":"+u[1]+":"+r.PickStr("zz", "", "x:y"), 54
		}
	case 5:
		creds, kind = "nobody:"+u[1], 55
	case 6:
		b64, kind = enc(creds)+"!", 56
	case 7:
		creds, kind = u[0], 57
	case 8:
		scheme, kind = r.PickStr("basic ", "Basic", "Basic  ", "Bearer "), 58
	case 9: // password truncated at its first colon / one character short
		if i := strings.IndexByte(u[1], ':'); i >= 0 && focus {
			creds = u[0] + ":" + u[1][:i]
		} else if len(u[1]) > 0 {
			creds = u[0] + ":" + u[1][:len(u[1])-1]
		}
		kind = 59
	case 10: // another user's password
		creds, kind = u[0]+":"+c06Users[(r.Intn(len(c06Users)))][1]+"~", 53
	default:
		creds, kind = u[0]+":", 53
		if u[1] == "" {
			kind = 50
		}
	}
	if b64 == "" {
		b64 = enc(creds)
	}
	in.Req.Headers = append(in.Req.Headers, [2]string{"Authorization", scheme + b64})
	return kind
}

var c06Keys = [][2]string{{"AKID", "SECRET"}, {"key2", "s3cr3t/with+chars="}, {"AKIDEXAMPLE", "wJalrXUtnFEMI/K7MDENG+bPxRfiCYEXAMPLEKEY"}, {"k-ü", "ключ"}}

func c06AttachSig(r *vfRand, in *c06In, focus, forceQuery, adv bool) int {
	cfg := &c06SigCfg{TTL: r.PickStr("", "10m", "10m", "1h", "600s", "10m0.5s", "600000ms", "0.5h", "0s", "0", "1.5m")}
	for i, n := 0, r.Range(1, 3); i < n; i++ {
		k := c06Keys[(r.Intn(3)+i)%3]
		if _, dup := cfg.secret(k[0]); !dup {
			cfg.Keys = append(cfg.Keys, k)
		}
	}
	if r.Chance(1, 8) {
		cfg.Keys = append(cfg.Keys, c06Keys[3])
	}
	if focus && r.Chance(1, 8) {
		cfg.ExcludeBody = true
	}
	if r.Chance(1, 8) {
		cfg.Literal = &c06Literal{"acme_request", "X-Acme-Algorithm", "ACME-HMAC-SHA256", "X-Acme-SignedHeaders", "X-Acme-Signature",
			"X-Acme-Date", "X-Acme-Expires", "X-Acme-Credential", "X-Acme-Content-Sha256", "ACME"}
	}
	in.Cfg.Sig = cfg
	l := cfg.lit()
	key := cfg.Keys[r.Intn(len(cfg.Keys))]
	pl := &c06SigPlan{Mode: "header", KeyID: key[0], Secret: key[1], AgeS: int64(r.PickInt(0, 0, 1, 30, 120, -20)), Expires: 300, BodyAs: "actual"}
	if forceQuery || r.Chance(1, 3) {
		pl.Mode = "query"
		pl.Expires = int64(r.PickInt(300, 900, 86400))
	}
	if cfg.ExcludeBody {
		pl.BodyAs = "unsigned"
	}
	for i, n := 0, r.Intn(3); i < n; i++ {
		pl.Scopes = append(pl.Scopes, r.PickStr("us-east-1", "s3", "eu", "svc"))
	}
	pl.Signed = []string{"host"}
	seen := map[string]bool{"authorization": true, "cookie": true, "user-agent": true}
	for _, h := range in.Req.Headers {
		n := strings.ToLower(h[0])
		if !seen[n] && r.Chance(3, 4) {
			seen[n] = true
			pl.Signed = append(pl.Signed, n)
		}
	}
	if pl.Mode == "header" {
		pl.Signed = append(pl.Signed, strings.ToLower(l.Date))
	}
	in.Plan = pl
	if !focus {
		if r.Chance(1, 6) {
			in.Muts = append(in.Muts, c06Mut{Op: "tagflip", N: r.Intn(64)})
			return 10
		}
		return 1
	}
	var signedCustom, unsigned []string
	for _, n := range pl.Signed {
		if n != "host" && n != strings.ToLower(l.Date) {
			signedCustom = append(signedCustom, n)
		}
	}
	for _, h := range in.Req.Headers {
		if !seen[strings.ToLower(h[0])] || strings.EqualFold(h[0], "user-agent") {
			unsigned = append(unsigned, h[0])
		}
	}
	hasBody := in.Req.Body != ""
	mut := func(m c06Mut) { in.Muts = append(in.Muts, m) }
	other := func(cur string, xs ...string) string {
		for {
			if x := xs[r.Intn(len(xs))]; x != cur {
				return x
			}
		}
	}
	variant := r.Intn(42)
	if adv && r.Chance(1, 2) {
		variant = r.PickInt(8, 9, 20, 20, 34, 35, 36, 37, 38, 39, 40)
	}
	if variant >= 34 { // requests that carry the precomputed payload hash header
		return c06SigHashHeader(r, in, cfg, pl, variant-34)
	}
	switch variant {
	case 0, 1, 2, 3:
		if hasBody {
			return 16
		}
		if pl.Mode == "query" {
			return 17
		}
		return 1
	case 4:
		mut(c06Mut{Op: "method", A: other(in.Req.Method, "GET", "POST", "PUT", "DELETE", "get")})
		return 2
	case 5:
		mut(c06Mut{Op: "path", A: other(in.Req.Path, c06Paths...)})
		return 3
	case 6: // a differently escaped spelling of the same resource
		in.Req.Path = "/a%20b/c"
		mut(c06Mut{Op: "path", A: r.PickStr("/a%20b/c/", "/a%2520b/c", "/a+b/c", "/A%20b/c", "/a%20b//c", "/a%20b/c%2F")})
		return 3
	case 7:
		kv := c06Pick2(r, c06QPairs)
		mut(c06Mut{Op: "qadd", A: kv[0], B: kv[1]})
		return 4
	case 8: // body changed / truncated / extended
		if !hasBody {
			in.Req.Body = c06Hex("payload-0")
		}
		b := c06UnHex(in.Req.Body)
		mut(c06Mut{Op: "body", A: c06Hex(r.PickStr(b+"x", b[:len(b)-1], "X"+b[1:], strings.ToUpper(b)+"!"))})
		return 8
	case 9: // a body appended to a request signed without one
		in.Req.Body = ""
		mut(c06Mut{Op: "body", A: c06Hex(r.PickStr(c06Bodies...))})
		return 9
	case 10:
		if len(in.Req.Query) == 0 {
			in.Req.Query = append(in.Req.Query, c06Pick2(r, c06QPairs))
		}
		mut(c06Mut{Op: "qdel", N: r.Intn(len(in.Req.Query))})
		return 5
	case 11:
		if len(in.Req.Query) == 0 {
			in.Req.Query = append(in.Req.Query, c06Pick2(r, c06QPairs))
		}
		i := r.Intn(len(in.Req.Query))
		mut(c06Mut{Op: "qset", N: i, B: other(in.Req.Query[i][1], "1", "2", "x%20y", "", "%C3%A9", "x+y+")})
		return 5
	case 12: // reordering parameters does not change the covered query
		in.Req.Query = append(in.Req.Query, [2]string{"k", "2"}, [2]string{"a", "1"}, [2]string{"k", "1"})
		mut(c06Mut{Op: "qrev"})
		return 6
	case 13:
		if len(signedCustom) > 0 {
			mut(c06Mut{Op: "hset", A: signedCustom[r.Intn(len(signedCustom))], B: r.PickStr("tampered", "v2", "a b c d", "")})
			return 7
		}
		return 1
	case 14: // white space inside a signed value is not significant
		in.Req.Headers = append(in.Req.Headers, [2]string{"X-Sp", "a b  c"})
		pl.Signed = append(pl.Signed, "x-sp")
		mut(c06Mut{Op: "hsp", A: "X-Sp"})
		return 11
	case 15:
		if len(unsigned) > 0 {
			mut(c06Mut{Op: "hset", A: unsigned[r.Intn(len(unsigned))], B: "changed"})
		} else {
			mut(c06Mut{Op: "hadd", A: "X-Unsigned", B: "new"})
		}
		return 12
	case 16: // a second value for a signed header
		if len(signedCustom) > 0 {
			mut(c06Mut{Op: "hadd", A: signedCustom[r.Intn(len(signedCustom))], B: r.PickStr("extra", "a")})
			return 13
		}
		return 1
	case 17:
		if len(signedCustom) > 0 {
			mut(c06Mut{Op: "hdel", A: signedCustom[r.Intn(len(signedCustom))]})
			return 13
		}
		return 1
	case 18:
		mut(c06Mut{Op: "tagflip", N: r.Intn(64)})
		return 10
	case 19:
		switch r.Intn(4) {
		case 0:
			mut(c06Mut{Op: "tagupper"})
		case 1:
			mut(c06Mut{Op: "tagcut", N: r.PickInt(0, 0, 1, 32, 63)})
		case 2:
			mut(c06Mut{Op: "tagext", A: r.PickStr("0", "00", " ", "a")})
		default:
			mut(c06Mut{Op: "tagflip", N: r.Intn(64)})
		}
		return 10
	case 20: // unknown access key ids: other name, EMPTY id with empty secret, blanks, other case, padded
		switch r.Intn(7) {
		case 0:
			pl.KeyID = "nokey"
		case 1:
			pl.KeyID, pl.Secret = "", ""
		case 2:
			pl.KeyID, pl.Secret = "", pl.Secret
		case 3:
			pl.KeyID, pl.Secret = " ", r.PickStr("", pl.Secret)
		case 4:
			if x := strings.ToLower(pl.KeyID); x != pl.KeyID {
				pl.KeyID = x
			} else {
				pl.KeyID = strings.ToUpper(pl.KeyID)
			}
		case 5:
			pl.KeyID += " "
		default:
			pl.KeyID = " " + pl.KeyID
		}
		return 14
	case 21: // known key id, wrong secret
		pl.Secret += "x"
		return 15
	case 22: // key id swapped to another configured one after signing
		if len(cfg.Keys) > 1 {
			mut(c06Mut{Op: "authsub", A: "=" + pl.KeyID + "/", B: "=" + other(pl.KeyID, cfg.Keys[0][0], cfg.Keys[1][0]) + "/"})
			mut(c06Mut{Op: "authsub", A: pl.KeyID + "%2F", B: other(pl.KeyID, cfg.Keys[0][0], cfg.Keys[1][0]) + "%2F"})
			return 14
		}
		return 1
	case 23: // outside the ttl window (both directions), ttl written in every unit / shape
		cfg.TTL = r.PickStr("10m", "10m", "600s", "9m59.5s", "600000ms", "600000000us", "0.1h", "900ms", "500000us", "0.9s", "1.5s", "1m0.5s", "999999999ns")
		pl.AgeS = int64(r.PickInt(660, 3600, -660, 86400*400))
		return 18
	case 24: // presigned url past its expiry
		pl.Mode, pl.Expires, pl.AgeS = "query", int64(r.PickInt(60, 300)), int64(r.PickInt(400, 500))
		pl.Signed = []string{"host"}
		cfg.TTL = r.PickStr("", "1h")
		return 19
	case 25:
		pl.Scopes = []string{"us-east-1", "s3"}
		mut(c06Mut{Op: "authsub", A: "us-east-1", B: r.PickStr("eu-west-1", "us-east-2", "")})
		return 20
	case 26:
		mut(c06Mut{Op: "dateshift", N: r.PickInt(1, -1, 86400, -86400)})
		return 21
	case 27: // lenient spellings of the signature parameters themselves (same parsed meaning)
		if pl.Mode == "query" && r.Chance(1, 2) {
			mut(c06Mut{Op: "expires", A: fmt.Sprintf("0x%x", pl.Expires)})
		} else {
			mut(c06Mut{Op: "credprefix"})
		}
		return 22
	case 28:
		mut(c06Mut{Op: "host", A: other(in.Req.Host, c06Hosts...)})
		return 23
	case 29: // same body, other transfer framing
		if !hasBody {
			in.Req.Body = c06Hex("framed body")
		}
		mut(c06Mut{Op: "chunk"})
		return 24
	case 30: // client hashed an empty body although it sends one
		if !hasBody {
			in.Req.Body = c06Hex("unsigned payload")
		}
		pl.BodyAs = "empty"
		return 25
	case 31: // excludeBody: the body is not covered
		cfg.ExcludeBody, pl.BodyAs = true, "unsigned"
		in.Req.Body = c06Hex("v1")
		mut(c06Mut{Op: "body", A: c06Hex("v2 tampered")})
		return 26
	case 32: // the algorithm token
		mut(c06Mut{Op: "authsub", A: l.AlgorithmValue, B: r.PickStr("AWS4-HMAC-SHA256", strings.ToLower(l.AlgorithmValue))})
		return 27
	default: // expiry of 0 seconds / huge expiry
		pl.Mode, pl.Signed = "query", []string{"host"}
		pl.Expires = int64(r.PickInt(0, 1, 9223372036, 9223372037, 18446744073))
		pl.AgeS = int64(r.PickInt(5, 30))
		return 28
	}
}

// c06SigHashHeader: the client sends <literal.ContentSHA256> (X-Me-Content-Sha256): right value, stale
// value or the UNSIGNED-PAYLOAD marker, listed among the signed headers or not; then the body or the
// header is changed. During verification only the forwarded body counts.
func c06SigHashHeader(r *vfRand, in *c06In, cfg *c06SigCfg, pl *c06SigPlan, variant int) int {
	l := cfg.lit()
	body := r.PickStr(c06Bodies...)
	if r.Chance(1, 5) {
		body = ""
	}
	in.Req.Body = c06Hex(body)
	if body != "" && in.Req.Method == "GET" {
		in.Req.Method = "POST"
	}
	name := l.ContentSHA256
	if r.Chance(1, 3) {
		name = strings.ToLower(name)
	}
	signedHdr := r.Chance(1, 2)
	if signedHdr {
		pl.Signed = append(pl.Signed, strings.ToLower(l.ContentSHA256))
	}
	pl.BodyAs = "header"
	cfg.ExcludeBody = false
	val := c06ShaHex(body)
	other := func() string { return c06Hex(r.PickStr("tampered", body+"x", "{}")) }
	mut := func(m c06Mut) { in.Muts = append(in.Muts, m) }
	switch variant {
	case 0: // announced hash is right, nothing changed
		in.Req.Headers = append(in.Req.Headers, [2]string{name, val})
		return 40
	case 1: // body replaced, announced hash kept
		in.Req.Headers = append(in.Req.Headers, [2]string{name, val})
		mut(c06Mut{Op: "body", A: other()})
		return 41
	case 2: // body removed, announced hash kept
		if body == "" {
			in.Req.Body = c06Hex("to be removed")
			val = c06ShaHex("to be removed")
		}
		in.Req.Headers = append(in.Req.Headers, [2]string{name, val})
		mut(c06Mut{Op: "body", A: ""})
		return 41
	case 3: // stale announced hash from the start (the client signed the announced value)
		in.Req.Headers = append(in.Req.Headers, [2]string{name, c06ShaHex(body + "-old")})
		return 42
	case 4: // the UNSIGNED-PAYLOAD marker although the verifier covers the body
		in.Req.Headers = append(in.Req.Headers, [2]string{name, "UNSIGNED-PAYLOAD"})
		if r.Chance(1, 2) {
			mut(c06Mut{Op: "body", A: other()})
		}
		return 43
	case 5: // announced hash changed after signing: matters only when the header is signed
		in.Req.Headers = append(in.Req.Headers, [2]string{name, val})
		mut(c06Mut{Op: "hset", A: l.ContentSHA256, B: c06ShaHex("something else")})
		return 44
	case 6: // header added by a third party to a request signed without it, body swapped
		pl.BodyAs = "actual"
		if signedHdr {
			pl.Signed = pl.Signed[:len(pl.Signed)-1]
		}
		mut(c06Mut{Op: "hadd", A: name, B: val})
		mut(c06Mut{Op: "body", A: other()})
		return 45
	default: // excludeBody configured: marker or hash announced, body free
		cfg.ExcludeBody = true
		in.Req.Headers = append(in.Req.Headers, [2]string{name, "UNSIGNED-PAYLOAD"})
		if r.Chance(1, 2) {
			mut(c06Mut{Op: "body", A: other()})
		}
		return 46
	}
}

func c06GenCase(r *vfRand, adv bool) c06In {
	in := c06In{JNow: 1700000000 + int64(r.Intn(1000000))}
	focus := r.PickStr("sig", "sig", "sig", "sig", "jwt", "jwt", "basic", "basic", "headers")
	set := map[string]bool{focus: true}
	if r.Chance(1, 3) { // several methods at once
		if r.Chance(1, 2) {
			set["headers"] = true
		}
		if r.Chance(1, 3) {
			set["jwt"] = true
		}
		if r.Chance(1, 6) {
			set["sig"] = true
		}
		if r.Chance(1, 8) {
			set["basic"] = true
		}
	}
	// the request body is exercised where the signature is the focus or absent (one defect site per case)
	bodyPct := 40
	if set["sig"] {
		bodyPct = 20
	}
	in.Req = c06BaseReq(r, focus == "sig" || !set["sig"], bodyPct)
	kind := 0
	if set["headers"] {
		k := c06AttachHeaders(r, &in, focus == "headers")
		if focus == "headers" {
			kind = k
		}
	}
	if set["jwt"] {
		k := c06AttachJWT(r, &in, focus == "jwt", set["sig"] || set["basic"], adv)
		if focus == "jwt" {
			kind = k
		}
	}
	if set["basic"] {
		k := c06AttachBasic(r, &in, focus == "basic", adv)
		if focus == "basic" {
			kind = k
		}
	}
	if set["sig"] { // last: it signs the headers attached above
		k := c06AttachSig(r, &in, focus == "sig", set["basic"] || (set["jwt"] && in.Cfg.JWT.Cookie == ""), adv)
		if focus == "sig" {
			kind = k
		}
	}
	if len(set) > 1 {
		kind += 100
	}
	in.Kind = kind
	if set["sig"] && r.Chance(1, 3) { // behind a filter that leaves the request alone
		in.Pre = r.PickStr("setpath", "trim", "regexp", "replace")
	}
	if set["sig"] && r.Chance(1, 3) { // the process lives in another time zone
		in.TZ = r.PickInt(-5*3600, 5*3600+1800, 14*3600, -12*3600, 3600, -1800)
	}
	return in
}

// c06Enum: exhaustive single mutations of one accepted request per method (every
// position of the token / tag / path / query value / signed header value /
// password), step > 1 samples the positions (quick tier).
func c06Enum(step int) []c06In {
	var out []c06In
	other := func(c byte) byte {
		if c == 'q' {
			return 'Z'
		}
		return 'q'
	}
	sub := func(s string, i int) string { return s[:i] + string(other(s[i])) + s[i+1:] }
	k := 0
	take := func() bool { k++; return k%step == 0 }
	// JWT: every byte of the token
	for _, alg := range []string{"HS256", "HS384", "HS512"} {
		cfg := c06Cfg{JWT: &c06JWTCfg{Alg: alg, Secret: "6d79736563726574"}}
		tok := c06Issue(alg, cfg.JWT.Secret, fmt.Sprintf(`{"alg":"%s","typ":"JWT"}`, alg), `{"sub":"alice","exp":1700003600}`)
		for i := 0; i <= len(tok); i++ {
			if !take() {
				continue
			}
			t, kind := tok, 30
			if i < len(tok) {
				t, kind = sub(tok, i), 29
			}
			out = append(out, c06In{Cfg: cfg, JNow: 1700000000, Kind: kind, Note: fmt.Sprintf("token byte %d", i),
				Req: c06Req{Method: "GET", Path: "/", Host: "example.com", Headers: [][2]string{{"Authorization", "Bearer " + t}}}})
		}
	}
	// JWT: exp / nbf / iat on both sides of now in every JSON number shape (always, not sampled)
	{
		const now = 1700000000
		cfg := c06Cfg{JWT: &c06JWTCfg{Alg: "HS256", Secret: "6d79736563726574"}}
		for _, name := range []string{"exp", "nbf", "iat"} {
			for _, lit := range []string{"1699999999", "1700000001", "1699999999.5", "1700000001.5", "1700000000.5", "1.699999999e9",
				"1.700000001e9", "1.6e9", "1.8e9", "16E8", "18E+8", "16999999995e-1", "17000000015e-1", `"1699999999"`, `"1700000001"`,
				"-1", "0", "0.5", "null", "1e12", "1600000000.000001"} {
				tok := c06Issue("HS256", cfg.JWT.Secret, `{"alg":"HS256","typ":"JWT"}`, fmt.Sprintf(`{"sub":"alice","%s":%s}`, name, lit))
				out = append(out, c06In{Cfg: cfg, JNow: now, Kind: 69, Note: name + "=" + lit,
					Req: c06Req{Method: "GET", Path: "/", Host: "example.com", Headers: [][2]string{{"Authorization", "Bearer " + tok}}}})
			}
		}
	}
	// header rules: values and patterns with commas / blanks, repeated field lines (always, not sampled)
	for _, rule := range []c06HRule{{Key: "X-Role", Values: []string{"admin", "auditor"}}, {Key: "X-Scope", Values: []string{"read,write"}},
		{Key: "X-Tenant", Regexp: "^tenant=[0-9]+, *zone=[a-z]+$"}, {Key: "X-Role", Values: []string{"a, b"}, Regexp: "^(admin|auditor)$"}} {
		for _, lines := range [][]string{{"admin"}, {"admin,guest"}, {"guest,admin"}, {"admin, auditor"}, {"admin", "guest"}, {"guest", "admin"},
			{"read,write"}, {"read, write"}, {"read"}, {"tenant=12, zone=eu"}, {"tenant=12,zone=eu"}, {"tenant=12"}, {"a, b"}, {"a,b"}, {"a", "b"}, {"admin,"}} {
			q := c06Req{Method: "GET", Path: "/", Host: "example.com"}
			for _, v := range lines {
				q.Headers = append(q.Headers, [2]string{rule.Key, v})
			}
			out = append(out, c06In{Cfg: c06Cfg{Headers: []c06HRule{rule}}, Req: q, JNow: 1700000000, Kind: 66, Note: "comma in header rule / value"})
		}
	}
	// signature: access key ids that are not configured (always, not sampled)
	for _, mode := range []string{"header", "query"} {
		for _, ks := range [][2]string{{"", ""}, {"", "SECRET"}, {" ", ""}, {"akid", "SECRET"}, {"AKID ", "SECRET"}, {" AKID", "SECRET"}, {"AKID", "SECRET"}, {"AKID", ""}} {
			pl := c06SigPlan{Mode: mode, KeyID: ks[0], Secret: ks[1], Scopes: []string{"svc"}, AgeS: 2, Expires: 300, Signed: []string{"host"}, BodyAs: "actual"}
			if mode == "header" {
				pl.Signed = append(pl.Signed, "x-me-date")
			}
			out = append(out, c06In{Cfg: c06Cfg{Sig: &c06SigCfg{Keys: [][2]string{{"AKID", "SECRET"}}}},
				Req: c06Req{Method: "GET", Path: "/k", Host: "example.com"}, Plan: &pl, JNow: 1700000000, Kind: 14, Note: "access key id " + fmt.Sprintf("%q", ks[0])})
		}
	}
	// signature ttl in the shapes time.ParseDuration accepts, signature dates on both sides (always, not sampled)
	for _, ta := range []struct {
		ttl string
		age int64
	}{{"900ms", 0}, {"900ms", 30}, {"900ms", -30}, {"500000us", 30}, {"0.9s", 3600}, {"1.5s", 1}, {"1.5s", 2}, {"1.5s", -30},
		{"1m0.5s", 30}, {"1m0.5s", 90}, {"1m0.5s", -90}, {"0s", 86400}, {"2.5m", 120}, {"2.5m", 180}, {"999999999ns", 30}} {
		for _, mode := range []string{"header", "query"} {
			pl := c06SigPlan{Mode: mode, KeyID: "AKID", Secret: "SECRET", AgeS: ta.age, Expires: 604800, Signed: []string{"host"}, BodyAs: "actual"}
			if mode == "header" {
				pl.Signed = append(pl.Signed, "x-me-date")
			} else if ta.age <= 2 && ta.age >= 0 {
				continue // one clock-aligned case per ttl is enough
			}
			out = append(out, c06In{Cfg: c06Cfg{Sig: &c06SigCfg{Keys: [][2]string{{"AKID", "SECRET"}}, TTL: ta.ttl}},
				Req: c06Req{Method: "GET", Path: "/ttl", Host: "example.com"}, Plan: &pl, JNow: 1700000000, Kind: 18,
				Note: fmt.Sprintf("ttl %s, signature %d s old", ta.ttl, ta.age)})
		}
	}
	// correctly signed requests behind a filter that does not change them; paths whose escaping is not
	// the one Go would produce (always, not sampled)
	for pi, path := range []string{"/a%2Fb/c", "/a%7Eb", "/a!b", "/a(b)", "/a%2fb", "/caf%C3%A9", "/a*b'c", "/plain", "/a%20b", "/a+b;c=1"} {
		for qi, pre := range []string{"setpath", "trim", "regexp", "replace"} {
			mode := []string{"header", "query"}[(pi+qi)%2]
			pl := c06SigPlan{Mode: mode, KeyID: "AKID", Secret: "SECRET", AgeS: 2, Expires: 300, Signed: []string{"host"}, BodyAs: "actual"}
			if mode == "header" {
				pl.Signed = append(pl.Signed, "x-me-date")
			}
			out = append(out, c06In{Cfg: c06Cfg{Sig: &c06SigCfg{Keys: [][2]string{{"AKID", "SECRET"}}, TTL: "10m"}},
				Req: c06Req{Method: "GET", Path: path, Host: "example.com", Query: [][2]string{{"q", "1"}}}, Plan: &pl, Pre: pre,
				JNow: 1700000000, Kind: 1, Note: "behind " + pre})
		}
	}
	// the zone of the process must not matter: ttl / presign expiry on both sides, several zones (always)
	for _, tz := range []int{-5 * 3600, 5*3600 + 1800, 14 * 3600, -12 * 3600} {
		for _, c := range []struct {
			mode string
			ttl  string
			age  int64
			exp  int64
		}{{"header", "10m", 2, 300}, {"header", "10m", 660, 300}, {"header", "10m", -660, 300}, {"query", "", 2, 300}, {"query", "", 400, 300},
			{"query", "1h", 30, 86400}, {"header", "", 86400, 300}} {
			pl := c06SigPlan{Mode: c.mode, KeyID: "AKID", Secret: "SECRET", AgeS: c.age, Expires: c.exp, Signed: []string{"host"}, BodyAs: "actual"}
			if c.mode == "header" {
				pl.Signed = append(pl.Signed, "x-me-date")
			}
			out = append(out, c06In{Cfg: c06Cfg{Sig: &c06SigCfg{Keys: [][2]string{{"AKID", "SECRET"}}, TTL: c.ttl}},
				Req: c06Req{Method: "GET", Path: "/tz", Host: "example.com"}, Plan: &pl, TZ: tz, JNow: 1700000000, Kind: 18,
				Note: fmt.Sprintf("process zone %+d s", tz)})
		}
	}
	// jwt on the real clock: time claims within +-90 s of now (always, not sampled)
	for _, o := range [][3]int64{{30, 99, 99}, {-30, 99, 99}, {59, -59, -59}, {-1, 99, 99}, {99, -30, 99}, {99, 30, 99}, {99, 99, -30}, {99, 99, 30}, {90, -90, -90}, {-90, 99, 99}} {
		jp := c06JPlan{Alg: "HS256", Secret: "6d79736563726574"}
		for k, dst := range []**int64{&jp.Exp, &jp.Nbf, &jp.Iat} {
			if o[k] != 99 {
				x := o[k]
				*dst = &x
			}
		}
		out = append(out, c06In{Cfg: c06Cfg{JWT: &c06JWTCfg{Alg: "HS256", Secret: "6d79736563726574"}}, JPlan: &jp,
			Req: c06Req{Method: "GET", Path: "/", Host: "example.com"}, Kind: 68, Note: "real clock"})
	}
	// signature with the announced payload hash header (always, not sampled)
	for _, mode := range []string{"header", "query"} {
		for _, signedHdr := range []bool{true, false} {
			for vi, variant := range []struct {
				val  string
				muts []c06Mut
			}{
				{c06ShaHex("hello"), nil},
				{c06ShaHex("hello"), []c06Mut{{Op: "body", A: c06Hex("HELLO")}}},
				{c06ShaHex("hello"), []c06Mut{{Op: "body", A: ""}}},
				{c06ShaHex("other"), nil},
				{"UNSIGNED-PAYLOAD", nil},
				{"UNSIGNED-PAYLOAD", []c06Mut{{Op: "body", A: c06Hex("HELLO")}}},
				{c06ShaHex("hello"), []c06Mut{{Op: "hset", A: "X-Me-Content-Sha256", B: c06ShaHex("zzz")}}},
			} {
				pl := c06SigPlan{Mode: mode, KeyID: "AKID", Secret: "SECRET", AgeS: 2, Expires: 300, Signed: []string{"host"}, BodyAs: "header"}
				if signedHdr {
					pl.Signed = append(pl.Signed, "x-me-content-sha256")
				}
				if mode == "header" {
					pl.Signed = append(pl.Signed, "x-me-date")
				}
				out = append(out, c06In{Cfg: c06Cfg{Sig: &c06SigCfg{Keys: [][2]string{{"AKID", "SECRET"}}, TTL: "10m"}},
					Req: c06Req{Method: "POST", Path: "/upload", Host: "example.com", Body: c06Hex("hello"),
						Headers: [][2]string{{"X-Me-Content-Sha256", variant.val}}},
					Plan: &pl, Muts: variant.muts, JNow: 1700000000, Kind: 40 + vi, Note: "announced payload hash"})
			}
		}
	}
	// Basic: every byte of user and password
	users := [][2]string{{"alice", "wonder:land"}, {"bob", "pässwörd"}}
	for _, u := range users {
		creds := u[0] + ":" + u[1]
		for i := 0; i <= len(creds); i++ {
			if !take() {
				continue
			}
			c, kind := creds, 50
			if i < len(creds) {
				c, kind = sub(creds, i), 53
			}
			out = append(out, c06In{Cfg: c06Cfg{Basic: users}, JNow: 1700000000, Kind: kind, Note: fmt.Sprintf("credential byte %d", i),
				Req: c06Req{Method: "GET", Path: "/", Host: "example.com",
					Headers: [][2]string{{"Authorization", "Basic " + base64.StdEncoding.EncodeToString([]byte(c))}}}})
		}
	}
	// signature: every position of tag, path, a query value, a signed header value, the method; both modes
	for _, mode := range []string{"header", "query"} {
		cfg := c06Cfg{Sig: &c06SigCfg{Keys: [][2]string{{"AKID", "SECRET"}}, TTL: "10m"}}
		req := c06Req{Method: "POST", Path: "/api/v1/items%20x", Host: "example.com", Query: [][2]string{{"a", "1"}, {"b", "x%20y"}, {"b", "w"}},
			Headers: [][2]string{{"X-Custom", "value 1"}, {"X-Free", "unsigned"}}}
		pl := c06SigPlan{Mode: mode, KeyID: "AKID", Secret: "SECRET", Scopes: []string{"svc"}, AgeS: 2, Expires: 300,
			Signed: []string{"host", "x-custom"}, BodyAs: "actual"}
		if mode == "header" {
			pl.Signed = append(pl.Signed, "x-me-date")
		}
		add := func(kind int, note string, m ...c06Mut) {
			if take() {
				p := pl
				out = append(out, c06In{Cfg: cfg, Req: c06CloneReq(req), Plan: &p, Muts: m, JNow: 1700000000, Kind: kind, Note: note})
			}
		}
		add(1, "as signed")
		for i := 0; i < 64; i++ {
			add(10, fmt.Sprintf("tag digit %d", i), c06Mut{Op: "tagflip", N: i})
		}
		for i := 1; i < len(req.Path); i++ {
			if req.Path[i] != '%' && req.Path[i-1] != '%' && (i < 2 || req.Path[i-2] != '%') {
				add(3, fmt.Sprintf("path byte %d", i), c06Mut{Op: "path", A: sub(req.Path, i)})
			}
		}
		for i := 0; i < len("value 1"); i++ {
			add(7, fmt.Sprintf("signed header byte %d", i), c06Mut{Op: "hset", A: "X-Custom", B: sub("value 1", i)})
		}
		for qi, v := range []string{"1", "w"} {
			add(5, "query value", c06Mut{Op: "qset", N: qi * 2, B: sub(v, 0)})
		}
		for _, m := range []string{"GET", "PUT", "POSt", "POS", "POSTT"} {
			add(2, "method", c06Mut{Op: "method", A: m})
		}
		add(12, "unsigned header", c06Mut{Op: "hset", A: "X-Free", B: "other"})
		add(6, "query order", c06Mut{Op: "qrev"})
	}
	return out
}

func TestVerifC06(t *testing.T) {
	out := vfOpen(t)
	defer out.Close()
	c06TmpDir = t.TempDir()
	seq := 0
	for _, sc := range vfStored("v") {
		var in c06In
		if err := json.Unmarshal(sc.In, &in); err != nil {
			t.Fatal(err)
		}
		seq++
		c := c06RunCase(in, sc.ID, seq)
		c.Src = sc.Src
		out.Emit(c)
	}
	if vfReplayOnly() {
		return
	}
	root := vfNewRand(vfSeed())
	adv := vfStream() == "adv"
	src := "gen"
	if adv {
		src = "adv"
	}
	step := 9
	if vfTier() == "thorough" {
		step = 1
	}
	for i, in := range c06Enum(step) {
		seq++
		c := c06RunCase(in, fmt.Sprintf("enum-v-%d", i), seq)
		c.Src = src
		out.Emit(c)
	}
	n := vfN(400)
	for i := 0; i < n; i++ {
		in := c06GenCase(root.Fork(i), adv)
		seq++
		c := c06RunCase(in, fmt.Sprintf("%s-v-%d", src, i), seq)
		c.Src = src
		out.Emit(c)
	}
}
