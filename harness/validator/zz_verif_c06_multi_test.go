//go:build verif

package validator

// C06 harness, part 5 (group "x"): several Validator instances and reload
// generations in one process. The same credentials (token, basic credentials,
// signed request) are presented to each of them in sequence - first to the one
// that accepts them - and again after a reload that rotates the secret / the
// users / the keys. Every verdict must be the one of THAT instance's current
// configuration: nothing may leak between instances or generations.

import (
	"encoding/base64"
	"encoding/json"
	"fmt"
	"testing"
)

type c06XStep struct {
	Inst   int     `json:"inst"`
	Reload *c06Cfg `json:"reload"` // non-nil: instance Inst is replaced by a new generation with this configuration (no request)
	Case   int     `json:"case"`   // request step: index into Cases (recipe presented)
	// Old: the request is presented to the PREVIOUS generation of the instance, the one the last reload
	// closed (a request that was in flight across the pipeline update); it answers as before its close
	Old bool `json:"old,omitempty"`
}

type c06XIn struct {
	Cfgs  []c06Cfg   `json:"cfgs"`  // initial configuration of each instance
	Cases []c06In    `json:"cases"` // request recipes (their Cfg field is ignored: the instance's configuration counts)
	Steps []c06XStep `json:"steps"`
}

type c06XObs struct {
	Steps []c06Obs `json:"steps"` // one per request step
}

func c06RunMulti(in c06XIn, seq *int) (obs c06XObs) {
	cfgs := append([]c06Cfg{}, in.Cfgs...)
	vs := make([]*Validator, len(cfgs))
	oldVs := make([]*Validator, len(cfgs))
	oldCfgs := make([]c06Cfg, len(cfgs))
	mk := func(i int, prev *Validator) {
		*seq++
		v, err := c06NewGeneration(&cfgs[i], *seq, prev)
		if err != nil {
			panic("verif: harness defect: invalid configuration in a multi-instance case: " + err.Error())
		}
		vs[i] = v
	}
	for i := range cfgs {
		mk(i, nil)
	}
	defer func() {
		for _, v := range vs {
			v.Close()
		}
	}()
	for _, st := range in.Steps {
		if st.Reload != nil {
			old := vs[st.Inst]
			oldVs[st.Inst], oldCfgs[st.Inst] = old, cfgs[st.Inst]
			cfgs[st.Inst] = *st.Reload
			mk(st.Inst, old)
			old.Close()
			continue
		}
		c := in.Cases[st.Case]
		if st.Old {
			if oldVs[st.Inst] == nil {
				panic("verif: harness defect: no previous generation to ask")
			}
			c.Cfg = oldCfgs[st.Inst]
			obs.Steps = append(obs.Steps, c06RunOn(oldVs[st.Inst], c))
			continue
		}
		c.Cfg = cfgs[st.Inst]
		obs.Steps = append(obs.Steps, c06RunOn(vs[st.Inst], c))
	}
	return
}

func c06CloneCfg(c c06Cfg) c06Cfg {
	b, _ := json.Marshal(c)
	var out c06Cfg
	json.Unmarshal(b, &out)
	return out
}

// c06Rotate: the same kind of validator with rotated secrets / algorithm / users / keys
func c06Rotate(r *vfRand, c c06Cfg) c06Cfg {
	n := c06CloneCfg(c)
	if n.JWT != nil {
		switch r.Intn(4) {
		case 0, 1:
			n.JWT.Secret = "ff" + n.JWT.Secret
		case 2:
			for n.JWT.Alg == c.JWT.Alg {
				n.JWT.Alg = r.PickStr("HS256", "HS384", "HS512")
			}
		default:
			n.JWT.Secret = "ab" + n.JWT.Secret
			n.JWT.Alg = r.PickStr("HS256", "HS384", "HS512")
		}
	}
	if n.Basic != nil {
		if r.Chance(1, 3) && len(n.Basic) > 1 {
			n.Basic = n.Basic[1:]
		} else {
			for i := range n.Basic {
				n.Basic[i][1] += "-rotated"
			}
		}
		if r.Chance(1, 3) {
			n.Basic = append(n.Basic, [2]string{"newuser", "newpw"})
		}
	}
	if n.Sig != nil {
		if r.Chance(1, 3) {
			for i := range n.Sig.Keys {
				n.Sig.Keys[i][0] += "2"
			}
		} else {
			for i := range n.Sig.Keys {
				n.Sig.Keys[i][1] += "-rotated"
			}
		}
	}
	if n.Headers != nil && r.Chance(1, 2) {
		n.Headers = append([]c06HRule{}, n.Headers...)
		n.Headers[0] = c06HRule{Key: n.Headers[0].Key, Values: []string{"only-this-now"}}
	}
	return n
}

// c06ValidBase: a request that its own configuration accepts
func c06ValidBase(r *vfRand) c06In {
	in := c06In{JNow: 1700000000 + int64(r.Intn(100000)), Req: c06Req{Method: "GET", Path: r.PickStr("/", "/a", "/api/v1/users"), Host: "example.com"}}
	switch r.Intn(6) {
	case 4, 5: // jwt judged on the real clock: time claims within +-90 s of now, both sides
		cfg := &c06JWTCfg{Alg: r.PickStr("HS256", "HS384", "HS512"), Secret: r.PickStr("6d79736563726574", "00ff10")}
		jp := &c06JPlan{Alg: cfg.Alg, Secret: cfg.Secret}
		off := func(xs ...int) *int64 { x := int64(xs[r.Intn(len(xs))]); return &x }
		switch r.Intn(4) {
		case 0:
			jp.Exp = off(5, 30, 59, 90, -5, -30, -59, -90)
		case 1:
			jp.Nbf = off(-5, -30, -59, -90, 5, 30, 59)
		case 2:
			jp.Iat = off(-5, -30, -59, -90, 5, 30)
		default:
			jp.Exp, jp.Nbf, jp.Iat = off(30, 59, 3600), off(-30, -59, -5), off(-30, -5)
		}
		if r.Chance(1, 4) {
			cfg.Cookie, jp.Cookie = "auth", "auth"
		}
		in.Cfg.JWT, in.JPlan, in.JNow, in.Kind = cfg, jp, 0, 83
	case 0, 1: // jwt
		cfg := &c06JWTCfg{Alg: r.PickStr("HS256", "HS384", "HS512"), Secret: r.PickStr("6d79736563726574", "00ff10", "a1b2")}
		exp := ""
		if r.Chance(2, 3) {
			exp = fmt.Sprintf(`,"exp":%d`, in.JNow+int64(r.PickInt(1, 60, 3600)))
		}
		tok := c06Issue(cfg.Alg, cfg.Secret, fmt.Sprintf(`{"alg":"%s","typ":"JWT"}`, cfg.Alg), fmt.Sprintf(`{"sub":"%s"%s}`, r.PickStr("alice", "bob"), exp))
		if r.Chance(1, 3) {
			cfg.Cookie = "auth"
			in.Req.Headers = append(in.Req.Headers, [2]string{"Cookie", "auth=" + tok})
		} else {
			in.Req.Headers = append(in.Req.Headers, [2]string{"Authorization", "Bearer " + tok})
		}
		in.Cfg.JWT = cfg
		in.Kind = 80
	case 2: // basic
		in.Cfg.Basic = [][2]string{c06Users[r.Intn(5)], {"zed", "zpw"}}
		if in.Cfg.Basic[0][0] == "zed" {
			in.Cfg.Basic = in.Cfg.Basic[:1]
		}
		u := in.Cfg.Basic[r.Intn(len(in.Cfg.Basic))]
		in.Req.Headers = append(in.Req.Headers, [2]string{"Authorization", "Basic " + base64.StdEncoding.EncodeToString([]byte(u[0]+":"+u[1]))})
		in.Kind = 81
	default: // signature
		k := c06Keys[r.Intn(3)]
		in.Cfg.Sig = &c06SigCfg{Keys: [][2]string{k}, TTL: r.PickStr("", "10m")}
		in.Plan = &c06SigPlan{Mode: r.PickStr("header", "query"), KeyID: k[0], Secret: k[1], AgeS: 1, Expires: 300, Signed: []string{"host"}, BodyAs: "actual"}
		if in.Plan.Mode == "header" {
			in.Plan.Signed = append(in.Plan.Signed, "x-me-date")
		}
		if r.Chance(1, 3) {
			in.Req.Method, in.Req.Body = "POST", c06Hex("body of the request")
		}
		in.Kind = 82
	}
	return in
}

// c06GenSigDays: one validator, one access key, correctly signed requests whose dates cross UTC
// midnights in every order (all inside a 96h ttl): each must be accepted whatever came before.
func c06GenSigDays(r *vfRand) c06XIn {
	k := c06Keys[r.Intn(3)]
	cfg := c06Cfg{Sig: &c06SigCfg{Keys: [][2]string{k, {"other", "othersecret"}}, TTL: "96h"}}
	x := c06XIn{Cfgs: []c06Cfg{cfg}}
	scopes := [][]string{nil, {"svc"}}[r.Intn(2)]
	stamps := []struct {
		d int
		c string
	}{{1, "00:00:30"}, {0, "23:59:40"}, {-1, "12:00:00"}, {2, "08:00:00"}, {0, "00:00:00"}, {0, "23:59:59"}, {1, "00:00:00"}, {-1, "23:59:59"},
		{-2, "23:59:59"}, {2, "23:59:58"}, {1, "23:59:59"}, {0, "12:34:56"}}
	n := r.Range(4, len(stamps))
	for i := 0; i < n; i++ { // a random order
		j := i + r.Intn(len(stamps)-i)
		stamps[i], stamps[j] = stamps[j], stamps[i]
	}
	for i := 0; i < n; i++ {
		mode := r.PickStr("header", "header", "query")
		pl := &c06SigPlan{Mode: mode, KeyID: k[0], Secret: k[1], Scopes: scopes, Expires: 604800, Signed: []string{"host"}, BodyAs: "actual",
			DayOff: stamps[i].d, Clock: stamps[i].c}
		if mode == "header" {
			pl.Signed = append(pl.Signed, "x-me-date")
		}
		c := c06In{Req: c06Req{Method: "GET", Path: "/day", Host: "example.com"}, Plan: pl, JNow: 1700000000, Kind: 84}
		if r.Chance(1, 8) { // a wrong one in between must stay wrong
			c.Muts = []c06Mut{{Op: "tagflip", N: r.Intn(64)}}
		}
		x.Cases = append(x.Cases, c)
		x.Steps = append(x.Steps, c06XStep{Inst: 0, Case: i})
	}
	for i := 0; i < n && i < 4; i++ { // and once more in reverse
		x.Steps = append(x.Steps, c06XStep{Inst: 0, Case: n - 1 - i})
	}
	return x
}

func c06ManyUsers(n int) [][2]string {
	us := make([][2]string, n)
	for i := range us {
		us[i] = [2]string{fmt.Sprintf("user%03d", i), fmt.Sprintf("pw-%03d-%d", i, i*7919%1000)}
	}
	return us
}

func c06BasicCase(user, pw string) c06In {
	return c06In{JNow: 1700000000, Kind: 85, Req: c06Req{Method: "GET", Path: "/", Host: "example.com",
		Headers: [][2]string{{"Authorization", "Basic " + base64.StdEncoding.EncodeToString([]byte(user+":"+pw))}}}}
}

// c06GenBasicMany: a user file with a few more than 64 users; everybody logs in, then earlier users
// present the passwords of later ones (k with the password of k+64, k+1, ...), before and after a reload.
func c06GenBasicMany(r *vfRand) c06XIn {
	n := r.PickInt(65, 66, 67, 70, 80)
	us := c06ManyUsers(n)
	x := c06XIn{Cfgs: []c06Cfg{{Basic: us}}}
	add := func(user, pw string) {
		x.Cases = append(x.Cases, c06BasicCase(user, pw))
		x.Steps = append(x.Steps, c06XStep{Inst: 0, Case: len(x.Cases) - 1})
	}
	for i := 0; i < n; i++ {
		add(us[i][0], us[i][1])
	}
	for k := 0; k < n-64 && k < 6; k++ {
		add(us[k][0], us[k+64][1])
		add(us[k][0], us[k][1])
		add(us[k+64][0], us[k][1])
	}
	for i := 0; i < 4; i++ {
		a, b := r.Intn(n), r.Intn(n)
		add(us[a][0], us[b][1])
	}
	same := c06Cfg{Basic: us}
	x.Steps = append(x.Steps, c06XStep{Inst: 0, Reload: &same})
	add(us[0][0], us[64][1])
	add(us[0][0], us[0][1])
	return x
}

func c06GenMulti(r *vfRand, adv bool) c06XIn {
	switch k := r.Intn(12); {
	case k == 0 || (adv && k < 4):
		return c06GenSigDays(r)
	case k == 1 && vfTier() == "thorough":
		return c06GenBasicMany(r)
	}
	var base c06In
	if r.Chance(2, 3) || adv {
		base = c06ValidBase(r)
	} else {
		base = c06GenCase(r, adv)
	}
	a := base.Cfg
	b := c06Rotate(r, a)
	x := c06XIn{Cfgs: []c06Cfg{a, b}, Cases: []c06In{base}}
	if r.Chance(1, 3) { // a third instance configured exactly like the first
		x.Cfgs = append(x.Cfgs, c06CloneCfg(a))
	}
	// an instance with an oauth2.jwt section lives in the same process (from the start, or it appears
	// at a reload); it is never asked anything
	oauth := c06Cfg{OAuth2: &c06JWTCfg{Alg: r.PickStr("HS256", "HS512"), Secret: "0a0b0c"}}
	oauthAt := -1
	if a.JWT != nil && (r.Chance(1, 2) || adv) {
		if r.Chance(1, 2) {
			x.Cfgs = append(x.Cfgs, oauth)
		} else {
			x.Cfgs = append(x.Cfgs, c06Cfg{Headers: []c06HRule{{Key: "X-Unused", Values: []string{"1"}}}})
			oauthAt = len(x.Cfgs) - 1
		}
	}
	req := func(i int) { x.Steps = append(x.Steps, c06XStep{Inst: i, Case: 0}) }
	first, second := 0, 1
	if r.Chance(1, 4) {
		first, second = 1, 0
	}
	req(first)
	if oauthAt >= 0 {
		o := oauth
		x.Steps = append(x.Steps, c06XStep{Inst: oauthAt, Reload: &o})
	}
	req(second)
	req(first)
	if len(x.Cfgs) > 2 && x.Cfgs[2].OAuth2 == nil && oauthAt != 2 {
		req(2)
	}
	// reload with rotated secrets, then back
	switch r.Intn(3) {
	case 0:
		nb := c06Rotate(r, a)
		x.Steps = append(x.Steps, c06XStep{Inst: 0, Reload: &nb})
		x.Steps = append(x.Steps, c06XStep{Inst: 0, Case: 0, Old: true}) // in flight on the closed generation
		req(0)
		req(1)
		back := c06CloneCfg(a)
		x.Steps = append(x.Steps, c06XStep{Inst: 0, Reload: &back})
		req(0)
	case 1: // the other instance takes over the first configuration
		na := c06CloneCfg(a)
		x.Steps = append(x.Steps, c06XStep{Inst: 1, Reload: &na})
		req(1)
		nb := c06CloneCfg(b)
		x.Steps = append(x.Steps, c06XStep{Inst: 0, Reload: &nb})
		req(0)
	default: // reload without change keeps the verdicts
		same := c06CloneCfg(a)
		x.Steps = append(x.Steps, c06XStep{Inst: 0, Reload: &same})
		req(0)
		x.Steps = append(x.Steps, c06XStep{Inst: 0, Case: 0, Old: true})
		req(1)
	}
	return x
}

func TestVerifC06Multi(t *testing.T) {
	out := vfOpen(t)
	defer out.Close()
	c06TmpDir = t.TempDir()
	seq := 100000
	for _, sc := range vfStored("x") {
		var in c06XIn
		if err := json.Unmarshal(sc.In, &in); err != nil {
			t.Fatal(err)
		}
		out.Emit(vfCase{ID: sc.ID, Src: sc.Src, Grp: "x", In: in, Obs: c06RunMulti(in, &seq)})
	}
	if vfReplayOnly() {
		return
	}
	root := vfNewRand(vfSeed() ^ 0x3A17)
	adv := vfStream() == "adv"
	src := "gen"
	if adv {
		src = "adv"
	}
	n := vfN(80)
	for i := 0; i < n; i++ {
		in := c06GenMulti(root.Fork(i), adv)
		out.Emit(vfCase{ID: fmt.Sprintf("%s-x-%d", src, i), Src: src, Grp: "x", In: in, Obs: c06RunMulti(in, &seq)})
	}
}
