//go:build verif

package validator

// C06 harness, part 1: case types, request delivery (as the HTTP server does:
// net/http parse -> ByteCountReader body -> httpprot.NewRequest -> FetchPayload
// -> Validator.Handle), observation.

import (
	"bufio"
	"bytes"
	"crypto/sha1"
	"encoding/base64"
	"encoding/hex"
	"fmt"
	"net/http"
	"net/textproto"
	"os"
	"path/filepath"
	"sort"
	"strings"
	"time"
	"unicode/utf8"

	"github.com/golang-jwt/jwt"

	"github.com/megaease/easegress/pkg/context"
	"github.com/megaease/easegress/pkg/filters"
	"github.com/megaease/easegress/pkg/filters/requestadaptor"
	"github.com/megaease/easegress/pkg/protocols/httpprot"
	"github.com/megaease/easegress/pkg/util/readers"
)

type c06HRule struct {
	Key    string   `json:"key"`
	Values []string `json:"values"`
	Regexp string   `json:"regexp"`
}

type c06JWTCfg struct {
	Alg    string `json:"alg"`
	Secret string `json:"secret"` // hex, as in the spec
	Cookie string `json:"cookie"`
}

type c06Literal struct {
	ScopeSuffix      string `json:"scopeSuffix"`
	AlgorithmName    string `json:"algorithmName"`
	AlgorithmValue   string `json:"algorithmValue"`
	SignedHeaders    string `json:"signedHeaders"`
	Signature        string `json:"signature"`
	Date             string `json:"date"`
	Expires          string `json:"expires"`
	Credential       string `json:"credential"`
	ContentSHA256    string `json:"contentSha256"`
	SigningKeyPrefix string `json:"signingKeyPrefix"`
}

var c06DefaultLiteral = c06Literal{"megaease_request", "X-Me-Algorithm", "ME-HMAC-SHA256", "X-Me-SignedHeaders",
	"X-Me-Signature", "X-Me-Date", "X-Me-Expires", "X-Me-Credential", "X-Me-Content-Sha256", "ME"}

type c06SigCfg struct {
	Keys        [][2]string `json:"keys"`
	TTL         string      `json:"ttl"`
	ExcludeBody bool        `json:"excludeBody"`
	Literal     *c06Literal `json:"literal"`
}

func (s *c06SigCfg) lit() *c06Literal {
	if s.Literal != nil {
		return s.Literal
	}
	return &c06DefaultLiteral
}

func (s *c06SigCfg) ttlNs() int64 {
	d, err := time.ParseDuration(s.TTL)
	if err != nil {
		return 0
	}
	return int64(d)
}

func (s *c06SigCfg) secret(id string) (string, bool) {
	for _, kv := range s.Keys {
		if kv[0] == id {
			return kv[1], true
		}
	}
	return "", false
}

type c06Cfg struct {
	Headers []c06HRule  `json:"headers"` // nil: not configured
	JWT     *c06JWTCfg  `json:"jwt"`
	Sig     *c06SigCfg  `json:"sig"`
	Basic   [][2]string `json:"basic"` // nil: not configured
	// OAuth2: an oauth2.jwt section. The method itself is not modelled: such an instance only EXISTS
	// in the process (group x), no request is presented to it.
	OAuth2 *c06JWTCfg `json:"oauth2,omitempty"`
}

type c06Req struct {
	Method  string      `json:"method"`
	Path    string      `json:"path"`  // as on the wire (escaped form)
	Query   [][2]string `json:"query"` // wire-encoded key, value
	Host    string      `json:"host"`
	Headers [][2]string `json:"headers"`
	Body    string      `json:"body"` // hex
	Chunked bool        `json:"chunked"`
}

// c06SigPlan: how the (independent) client signs the request at run time
// (the signature time is relative to the real clock the signer package reads).
type c06SigPlan struct {
	Mode    string   `json:"mode"` // header | query
	KeyID   string   `json:"keyId"`
	Secret  string   `json:"secret"`
	Scopes  []string `json:"scopes"`
	AgeS    int64    `json:"ageS"`
	// Clock != "": the signature time is UTC midnight of today + DayOff days + Clock ("15:04:05"), not now - AgeS
	DayOff int    `json:"dayOff,omitempty"`
	Clock  string `json:"clock,omitempty"`
	Expires int64    `json:"expires"`
	Signed  []string `json:"signed"`
	BodyAs  string   `json:"bodyAs"` // actual | empty | unsigned
}

// c06Mut: one mutation applied to the signed request before it is sent.
type c06Mut struct {
	Op string `json:"op"`
	A  string `json:"a"`
	B  string `json:"b"`
	N  int    `json:"n"`
}

// c06JPlan: a token issued at run time against the REAL clock (jwt.TimeFunc untouched): the time
// claims are offsets in seconds from the moment of issue.
type c06JPlan struct {
	Alg    string `json:"alg"`
	Secret string `json:"secret"`
	Exp    *int64 `json:"exp"`
	Nbf    *int64 `json:"nbf"`
	Iat    *int64 `json:"iat"`
	Cookie string `json:"cookie"` // "" = Authorization: Bearer
}

type c06In struct {
	Cfg   c06Cfg      `json:"cfg"`
	Req   c06Req      `json:"req"`
	Plan  *c06SigPlan `json:"plan"`
	JPlan *c06JPlan   `json:"jplan,omitempty"`
	// Pre: a filter that runs before the Validator and leaves the request as it is: "" none,
	// setpath = req.SetPath(req.Path()), trim / regexp / replace = RequestAdaptor with a path rule
	// that does not change this path
	Pre string `json:"pre,omitempty"`
	// TZ != 0: time.Local is a fixed zone of that many seconds east of UTC while the case runs
	// (the verdict must not depend on the zone of the process)
	TZ   int      `json:"tz,omitempty"`
	Muts []c06Mut `json:"muts"`
	// JNow: virtual unix time for jwt (jwt.TimeFunc); 0 = the real clock, jwt.TimeFunc untouched
	JNow int64 `json:"jnow"`
	Kind int         `json:"kind"`
	Note string      `json:"note"`
}

type c06KV struct {
	K string   `json:"k"`
	V []string `json:"v"`
}

type c06View struct {
	Method  string  `json:"method"`
	EscPath string  `json:"escPath"`
	Query   []c06KV `json:"query"`
	Host    string  `json:"host"`
	Headers []c06KV `json:"headers"`
	Payload string  `json:"payload"` // hex
	Cookie  *string `json:"cookie"`
}

func (v *c06View) hdr(key string) []string {
	for _, kv := range v.Headers {
		if kv.K == key {
			return kv.V
		}
	}
	return nil
}

func (v *c06View) hdr1(key string) string {
	if vs := v.hdr(key); len(vs) > 0 {
		return vs[0]
	}
	return ""
}

func (v *c06View) q1(key string) string {
	for _, kv := range v.Query {
		if kv.K == key && len(kv.V) > 0 {
			return kv.V[0]
		}
	}
	return ""
}

type c06Result struct {
	Res    string `json:"res"`
	Status int    `json:"status"`
	By     int    `json:"by"`
	Panic  bool   `json:"panic"`
}

type c06Obs struct {
	Delivered bool       `json:"delivered"`
	Why       string     `json:"why,omitempty"`
	NowNs     int64      `json:"nowNs"`
	JNow      int64      `json:"jnow"`      // the jwt clock (unix s) the verdict is judged against
	JNowAfter int64      `json:"jnowAfter"` // real-clock cases: the clock after Handle returned
	TTLNs     int64      `json:"ttlNs"` // time.ParseDuration of the configured ttl (cross-check of the encoder's own parse)
	Wire      string     `json:"wire,omitempty"` // hex of the request as sent (information only)
	View      *c06View   `json:"view"`
	Tabs      *c06Tables `json:"tabs"`
	Expect    bool       `json:"expect"`
	ExpectWhy string     `json:"expectWhy,omitempty"`
	Result    c06Result  `json:"result"`
}

func c06Hex(s string) string { return hex.EncodeToString([]byte(s)) }
func c06UnHex(s string) string {
	b, err := hex.DecodeString(s)
	if err != nil {
		panic("verif: bad hex in case: " + err.Error())
	}
	return string(b)
}

func c06MustUTF8(what, s string) {
	if !utf8.ValidString(s) {
		panic(fmt.Sprintf("verif: harness defect: %s is not valid UTF-8: %q", what, s))
	}
}

// ---------------------------------------------------------------------------
// validator construction

var c06TmpDir string

func c06NewValidator(cfg *c06Cfg, id int) (*Validator, error) { return c06NewGeneration(cfg, id, nil) }

// c06NewGeneration: prev != nil builds the next generation as the pipeline does (Inherit; the caller closes prev)
func c06NewGeneration(cfg *c06Cfg, id int, prev *Validator) (*Validator, error) {
	raw := map[string]interface{}{"kind": Kind, "name": "c06"}
	if cfg.Headers != nil {
		m := map[string]interface{}{}
		for _, r := range cfg.Headers {
			e := map[string]interface{}{}
			if len(r.Values) > 0 {
				e["values"] = r.Values
			}
			if r.Regexp != "" {
				e["regexp"] = r.Regexp
			}
			m[r.Key] = e
		}
		raw["headers"] = m
	}
	if cfg.JWT != nil {
		raw["jwt"] = map[string]interface{}{"algorithm": cfg.JWT.Alg, "secret": cfg.JWT.Secret, "cookieName": cfg.JWT.Cookie}
	}
	if cfg.Sig != nil {
		m := map[string]interface{}{"excludeBody": cfg.Sig.ExcludeBody}
		if cfg.Sig.TTL != "" {
			m["ttl"] = cfg.Sig.TTL
		}
		ks := map[string]string{}
		for _, kv := range cfg.Sig.Keys {
			ks[kv[0]] = kv[1]
		}
		m["accessKeys"] = ks
		if l := cfg.Sig.Literal; l != nil {
			m["literal"] = map[string]interface{}{
				"scopeSuffix": l.ScopeSuffix, "algorithmName": l.AlgorithmName, "algorithmValue": l.AlgorithmValue,
				"signedHeaders": l.SignedHeaders, "signature": l.Signature, "date": l.Date, "expires": l.Expires,
				"credential": l.Credential, "contentSha256": l.ContentSHA256, "signingKeyPrefix": l.SigningKeyPrefix}
		}
		raw["signature"] = m
	}
	if cfg.OAuth2 != nil {
		raw["oauth2"] = map[string]interface{}{"jwt": map[string]interface{}{"algorithm": cfg.OAuth2.Alg, "secret": cfg.OAuth2.Secret}}
	}
	if cfg.Basic != nil {
		// FILE mode with an htpasswd file ({SHA} entries: fast, exercises the real file cache)
		var b bytes.Buffer
		for _, up := range cfg.Basic {
			h := sha1.Sum([]byte(up[1]))
			fmt.Fprintf(&b, "%s:{SHA}%s\n", up[0], base64.StdEncoding.EncodeToString(h[:]))
		}
		p := filepath.Join(c06TmpDir, fmt.Sprintf("htpasswd-%d", id))
		if err := os.WriteFile(p, b.Bytes(), 0o600); err != nil {
			return nil, err
		}
		raw["basicAuth"] = map[string]interface{}{"mode": "FILE", "userFile": p}
	}
	spec, err := filters.NewSpec(nil, "", raw)
	if err != nil {
		return nil, err
	}
	v := &Validator{spec: spec.(*Spec)}
	if prev != nil {
		v.Inherit(prev)
	} else {
		v.Init()
	}
	return v, nil
}

// ---------------------------------------------------------------------------
// wire format (own serialiser: the client side is not net/http)

func c06Target(r *c06Req) string {
	t := r.Path
	if len(r.Query) > 0 {
		ps := make([]string, len(r.Query))
		for i, kv := range r.Query {
			ps[i] = kv[0] + "=" + kv[1]
		}
		t += "?" + strings.Join(ps, "&")
	}
	return t
}

func c06Wire(r *c06Req) []byte {
	var b bytes.Buffer
	fmt.Fprintf(&b, "%s %s HTTP/1.1\r\nHost: %s\r\n", r.Method, c06Target(r), r.Host)
	for _, h := range r.Headers {
		fmt.Fprintf(&b, "%s: %s\r\n", h[0], h[1])
	}
	body := c06UnHex(r.Body)
	if r.Chunked {
		b.WriteString("Transfer-Encoding: chunked\r\n\r\n")
		for len(body) > 0 {
			n := len(body)
			if n > 7 {
				n = 7
			}
			fmt.Fprintf(&b, "%x\r\n%s\r\n", n, body[:n])
			body = body[n:]
		}
		b.WriteString("0\r\n\r\n")
	} else {
		if len(body) > 0 {
			fmt.Fprintf(&b, "Content-Length: %d\r\n", len(body))
		}
		b.WriteString("\r\n")
		b.WriteString(body)
	}
	return b.Bytes()
}

func c06SortedKV(m map[string][]string) []c06KV {
	out := make([]c06KV, 0, len(m))
	for k, vs := range m {
		out = append(out, c06KV{K: k, V: append([]string{}, vs...)})
	}
	sort.Slice(out, func(i, j int) bool { return out[i].K < out[j].K })
	return out
}

// c06Parse: what net/http's server hands to the handler for these bytes.
func c06Parse(wire []byte) (*http.Request, error) {
	stdr, err := http.ReadRequest(bufio.NewReader(bytes.NewReader(wire)))
	if err != nil {
		return nil, err
	}
	if stdr.URL.Opaque != "" || stdr.URL.Scheme != "" || stdr.URL.Host != "" {
		return nil, fmt.Errorf("not an origin-form target")
	}
	return stdr, nil
}

func c06ViewOf(stdr *http.Request, payload []byte, cookieName string) *c06View {
	v := &c06View{Method: stdr.Method, EscPath: stdr.URL.EscapedPath(), Query: c06SortedKV(stdr.URL.Query()),
		Host: stdr.Host, Headers: c06SortedKV(stdr.Header), Payload: hex.EncodeToString(payload)}
	if cookieName != "" {
		if c, err := stdr.Cookie(cookieName); err == nil {
			val := c.Value
			v.Cookie = &val
		}
	}
	c06MustUTF8("method", v.Method)
	c06MustUTF8("path", v.EscPath)
	c06MustUTF8("host", v.Host)
	for _, kv := range append(append([]c06KV{}, v.Query...), v.Headers...) {
		c06MustUTF8("key", kv.K)
		for _, x := range kv.V {
			c06MustUTF8("value", x)
		}
	}
	return v
}

var c06TagPrefixes = []struct {
	p  string
	by int
}{{"header validator: ", 1}, {"JWT validator: ", 2}, {"signature validator: ", 3}, {"oauth2 validator: ", 4}, {"http basic validator: ", 5}}

// c06Deliver passes the wire bytes to the filter exactly along the server's
// path (mux.go: ByteCountReader body, NewRequest, FetchPayload, Handle).
func c06Deliver(v *Validator, wire []byte, jnow int64, cookieName string, pre string) (obs c06Obs) {
	stdr, err := c06Parse(wire)
	if err != nil {
		obs.Why = "net/http: " + err.Error()
		return
	}
	stdr.Body = readers.NewByteCountReader(stdr.Body)
	ctx := context.New(nil)
	req, _ := httpprot.NewRequest(stdr)
	ctx.SetRequest(context.DefaultNamespace, req)
	if err := req.FetchPayload(0); err != nil {
		obs.Why = "FetchPayload: " + err.Error()
		return
	}
	obs.Delivered = true
	// the view is the request as the server delivered it; a filter in front of the Validator that
	// does not change any covered part must not change the verdict
	obs.View = c06ViewOf(stdr, req.RawPayload(), cookieName)
	c06PreFilter(ctx, req, pre)
	if jnow != 0 {
		old := jwt.TimeFunc
		jwt.TimeFunc = func() time.Time { return time.Unix(jnow, 0) }
		defer func() { jwt.TimeFunc = old }()
		obs.JNow, obs.JNowAfter = jnow, jnow
	} else {
		obs.JNow = time.Now().Unix()
		defer func() { obs.JNowAfter = time.Now().Unix() }()
	}
	obs.NowNs = time.Now().UnixNano()
	func() {
		defer func() {
			if r := recover(); r != nil {
				obs.Result.Panic = true
			}
		}()
		obs.Result.Res = v.Handle(ctx)
	}()
	if obs.Result.Panic {
		return
	}
	if r := ctx.GetOutputResponse(); r != nil {
		if hr, ok := r.(*httpprot.Response); ok {
			obs.Result.Status = hr.StatusCode()
		}
	}
	tags := ctx.Tags()
	for _, tp := range c06TagPrefixes {
		if strings.HasPrefix(tags, tp.p) {
			obs.Result.By = tp.by
		}
	}
	return
}

// c06PreFilter: what a pipeline may run before the Validator without touching a covered part.
func c06PreFilter(ctx *context.Context, req *httpprot.Request, pre string) {
	var path map[string]interface{}
	switch pre {
	case "":
		return
	case "setpath":
		req.SetPath(req.Path())
		return
	case "trim":
		path = map[string]interface{}{"trimPrefix": "/zz-no-such-prefix"}
	case "regexp":
		path = map[string]interface{}{"regexpReplace": map[string]interface{}{"regexp": "^/zz-nomatch/(.*)$", "replace": "/$1"}}
	case "replace":
		path = map[string]interface{}{"replace": req.Path()}
	default:
		panic("verif: unknown pre filter " + pre)
	}
	spec, err := filters.NewSpec(nil, "", map[string]interface{}{"kind": requestadaptor.Kind, "name": "c06ra", "path": path})
	if err != nil {
		panic("verif: harness defect: request adaptor spec: " + err.Error())
	}
	f := filters.GetKind(requestadaptor.Kind).CreateInstance(spec)
	f.Init()
	defer f.Close()
	if res := f.Handle(ctx); res != "" {
		panic("verif: harness defect: request adaptor returned " + res)
	}
}

func c06CK(s string) string { return textproto.CanonicalMIMEHeaderKey(s) }
