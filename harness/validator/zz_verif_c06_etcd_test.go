//go:build verif

package validator

// C06 harness, part 4 (group "etcd"): Basic auth users kept in etcd. The
// validator is created in ETCD mode on a mocked cluster; the harness plays a
// history of user-set updates through the mocked syncer (add, change password,
// remove one, remove ALL, re-add) interleaved with requests.

import (
	"crypto/sha1"
	"encoding/base64"
	"encoding/json"
	"fmt"
	"os"
	"strings"
	"sync"
	"testing"
	"time"

	yaml "gopkg.in/yaml.v2"

	"github.com/megaease/easegress/pkg/cluster"
	"github.com/megaease/easegress/pkg/cluster/clustertest"
	"github.com/megaease/easegress/pkg/filters"
	"github.com/megaease/easegress/pkg/supervisor"
)

type c06ECred struct {
	Key      string `json:"key"`
	Username string `json:"username"`
	Password string `json:"password"` // clear; stored as {SHA} hash
	NoPass   bool   `json:"noPass"`   // the stored entry has an empty password field
}

func (c c06ECred) user() string {
	if c.Username != "" {
		return c.Username
	}
	return c.Key
}

type c06EOp struct {
	Op    string     `json:"op"` // update | req | reload (new generation: Inherit, close the old one)
	Users []c06ECred `json:"users"`
	Nil   bool       `json:"nil"`   // update delivered as a nil map
	Creds string     `json:"creds"` // req: user:password
	How   string     `json:"how,omitempty"`
}

type c06EIn struct {
	// Mode "file": the users live in an htpasswd file (FILE mode, fsnotify); an update rewrites the file
	// in place (how = inplace) or replaces it atomically: temp file + rename over the path (how = rename)
	Mode    string     `json:"mode,omitempty"`
	InitErr bool       `json:"initErr"` // the first GetPrefix fails
	Prefix  string     `json:"prefix"`
	Initial []c06ECred `json:"initial"`
	Ops     []c06EOp   `json:"ops"`
}

type c06EStep struct {
	B64    string    `json:"b64"`
	Expect bool      `json:"expect"`
	Result c06Result `json:"result"`
}

type c06EObs struct {
	Steps []c06EStep `json:"steps"` // one per req op
	Stuck bool       `json:"stuck"`
	B64   [][2]string `json:"b64tab"` // b64 -> hex(decoded)
}

func c06EKvs(prefix string, users []c06ECred) map[string]string {
	m := map[string]string{}
	for i, u := range users {
		e := map[string]string{}
		if u.Key != "" {
			e["key"] = u.Key
		}
		if u.Username != "" {
			e["username"] = u.Username
		}
		if !u.NoPass {
			h := sha1.Sum([]byte(u.Password))
			e["password"] = "{SHA}" + base64.StdEncoding.EncodeToString(h[:])
		}
		b, err := yaml.Marshal(e)
		if err != nil {
			panic(err)
		}
		m[fmt.Sprintf("/custom-data/%s%d-%s", prefix, i, u.Key)] = string(b)
	}
	return m
}

// the harness's own view of who is a user now
func c06EUsers(users []c06ECred) [][2]string {
	var out [][2]string
	for _, u := range users {
		if u.user() != "" && !u.NoPass {
			out = append(out, [2]string{u.user(), u.Password})
		}
	}
	return out
}

func c06FileContent(users []c06ECred) []byte {
	var b []byte
	for _, u := range c06EUsers(users) {
		h := sha1.Sum([]byte(u[1]))
		b = append(b, []byte(u[0]+":{SHA}"+base64.StdEncoding.EncodeToString(h[:])+"\n")...)
	}
	return b
}

// c06RunFile: FILE mode. After every rewrite the harness waits (bounded) until the marker user of that
// version is known to the cache; if that never happens the history goes on and the requests show it.
func c06RunFile(in c06EIn, dir string, id int) (obs c06EObs) {
	path := fmt.Sprintf("%s/users-%d", dir, id)
	if err := os.WriteFile(path, c06FileContent(in.Initial), 0o600); err != nil {
		panic(err)
	}
	newGen := func() *Validator {
		spec, err := filters.NewSpec(nil, "", map[string]interface{}{"kind": Kind, "name": "c06file",
			"basicAuth": map[string]interface{}{"mode": "FILE", "userFile": path}})
		if err != nil {
			panic("verif: harness defect: " + err.Error())
		}
		return &Validator{spec: spec.(*Spec)}
	}
	v := newGen()
	v.Init()
	defer func() { v.Close() }()
	current := c06EUsers(in.Initial)
	seen := map[string]bool{}
	for _, op := range in.Ops {
		switch op.Op {
		case "update":
			content := c06FileContent(op.Users)
			if op.How == "rename" {
				if err := os.WriteFile(path+".tmp", content, 0o600); err != nil {
					panic(err)
				}
				if err := os.Rename(path+".tmp", path); err != nil {
					panic(err)
				}
			} else if err := os.WriteFile(path, content, 0o600); err != nil {
				panic(err)
			}
			current = c06EUsers(op.Users)
			marker := ""
			for _, u := range op.Users {
				if strings.HasPrefix(u.Key, "marker-") {
					marker = u.Key
				}
			}
			for t0 := time.Now(); marker != "" && time.Since(t0) < 3*time.Second; time.Sleep(2 * time.Millisecond) {
				if v.basicAuth.authorizedUsersCache.Match(marker, "m") {
					break
				}
			}
		case "reload":
			nv := newGen()
			nv.Inherit(v)
			v.Close()
			v = nv
		case "req":
			b64 := base64.StdEncoding.EncodeToString([]byte(op.Creds))
			req := c06Req{Method: "GET", Path: "/", Host: "example.com", Headers: [][2]string{{"Authorization", "Basic " + b64}}}
			d := c06Deliver(v, c06Wire(&req), 1700000000, "", "")
			exp, _ := c06RefBasic(current, d.View)
			obs.Steps = append(obs.Steps, c06EStep{B64: b64, Expect: exp, Result: d.Result})
			if !seen[b64] {
				seen[b64] = true
				obs.B64 = append(obs.B64, [2]string{b64, c06Hex(op.Creds)})
			}
		}
	}
	return
}

// c06GenFile: FILE-mode history. The code watches the inode: after an atomic replacement only a reload
// (new generation) watches the new file, so a generation sees in-place rewrites and at most one replacement.
func c06GenFile(r *vfRand) c06EIn {
	in := c06EIn{Mode: "file"}
	ver := 0
	set := func() []c06ECred {
		ver++
		s := []c06ECred{{Key: fmt.Sprintf("marker-%d", ver), Password: "m"}}
		for _, n := range c06ENames {
			if r.Chance(1, 2) {
				s = append(s, c06ECred{Key: n, Password: r.PickStr(c06EPws...)})
			}
		}
		return s
	}
	cur := set()
	in.Initial = cur
	known := append([]c06ECred{}, cur...)
	request := func() {
		k := known[r.Intn(len(known))]
		creds := k.user() + ":" + k.Password
		if r.Chance(1, 5) {
			creds += "x"
		}
		in.Ops = append(in.Ops, c06EOp{Op: "req", Creds: creds})
	}
	request()
	watching := true
	for i, n := 0, r.Range(2, 5); i < n; i++ {
		if !watching || r.Chance(1, 4) {
			in.Ops = append(in.Ops, c06EOp{Op: "reload"})
			watching = true
			request()
			continue
		}
		op := c06EOp{Op: "update", Users: set(), How: r.PickStr("rename", "rename", "inplace")}
		if r.Chance(1, 4) {
			op.Users = op.Users[:1] // everybody but the marker removed
		}
		watching = op.How != "rename"
		in.Ops = append(in.Ops, op)
		cur = op.Users
		known = append(known, cur...)
		for j, m := 0, r.Range(2, 4); j < m; j++ {
			request()
		}
	}
	return in
}

func c06RunEtcd(in c06EIn) (obs c06EObs) {
	cl := clustertest.NewMockedCluster()
	sy := clustertest.NewMockedSyncer()
	// every SyncPrefix call (one per validator generation) gets its own channel; the content of
	// etcd is what the last update left there
	var ch chan map[string]string
	var chMu sync.Mutex
	content := c06EKvs(in.Prefix, in.Initial)
	cl.MockedSyncer = func(time.Duration) (cluster.Syncer, error) { return sy, nil }
	sy.MockedSyncPrefix = func(string) (<-chan map[string]string, error) {
		chMu.Lock()
		defer chMu.Unlock()
		ch = make(chan map[string]string)
		return ch, nil
	}
	cl.MockedGetPrefix = func(string) (map[string]string, error) {
		if in.InitErr {
			return nil, fmt.Errorf("etcd unavailable")
		}
		chMu.Lock()
		defer chMu.Unlock()
		return content, nil
	}
	var mm sync.Map
	super := supervisor.NewMock(nil, cl, mm, mm, nil, nil, false, nil, nil)
	newGen := func(prefix string) *Validator {
		spec, err := filters.NewSpec(super, "", map[string]interface{}{"kind": Kind, "name": "c06etcd",
			"basicAuth": map[string]interface{}{"mode": "ETCD", "etcdPrefix": prefix}})
		if err != nil {
			panic("verif: harness defect: " + err.Error())
		}
		return &Validator{spec: spec.(*Spec)}
	}
	v := newGen(in.Prefix)
	v.Init()
	defer func() { v.Close() }()

	// the channel is unbuffered and the watcher applies one map at a time: when
	// the second send of the same map returns, the first one has been applied
	// A send nobody takes within the timeout means that no watcher listens any more: etcd has
	// changed all the same, the history goes on (recorded as "stuck").
	deliver := func(m map[string]string) bool {
		chMu.Lock()
		content = m
		c := ch
		chMu.Unlock()
		for i := 0; i < 2; i++ {
			select {
			case c <- m:
			case <-time.After(3 * time.Second):
				return false
			}
		}
		return true
	}
	var current [][2]string
	if !in.InitErr {
		current = c06EUsers(in.Initial)
	}
	seen := map[string]bool{}
	for _, op := range in.Ops {
		switch op.Op {
		case "update":
			if in.InitErr {
				continue // nobody listens
			}
			var m map[string]string
			if !op.Nil {
				m = c06EKvs(in.Prefix, op.Users)
			}
			if !obs.Stuck && !deliver(m) {
				obs.Stuck = true
			} else if obs.Stuck {
				chMu.Lock()
				content = m
				chMu.Unlock()
			}
			current = c06EUsers(op.Users)
			if op.Nil {
				current = nil
			}
		case "reload": // as Pipeline.Inherit does: build, Inherit, close the previous generation
			nv := newGen(in.Prefix)
			nv.Inherit(v)
			v.Close()
			v = nv
		case "req":
			b64 := base64.StdEncoding.EncodeToString([]byte(op.Creds))
			req := c06Req{Method: "GET", Path: "/", Host: "example.com", Headers: [][2]string{{"Authorization", "Basic " + b64}}}
			d := c06Deliver(v, c06Wire(&req), 1700000000, "", "")
			exp, _ := c06RefBasic(current, d.View)
			obs.Steps = append(obs.Steps, c06EStep{B64: b64, Expect: exp, Result: d.Result})
			if !seen[b64] {
				seen[b64] = true
				obs.B64 = append(obs.B64, [2]string{b64, c06Hex(op.Creds)})
			}
		}
	}
	return
}

var c06ENames = []string{"alice", "bob", "carol", "dave", "erin"}
var c06EPws = []string{"pw1", "pa:ss", "pässwörd", "x", "secret two", "pw2"}

// c06GenEtcdMany: more than 64 (129, 257 ...) users; everybody logs in, then user k presents the
// password of user k+64 / k+128 / k+1, also after an update that leaves the users as they are.
func c06GenEtcdMany(r *vfRand, n int) c06EIn {
	in := c06EIn{Prefix: "credentials/"}
	us := c06ManyUsers(n)
	for _, u := range us {
		in.Initial = append(in.Initial, c06ECred{Key: u[0], Password: u[1]})
	}
	req := func(u, p string) { in.Ops = append(in.Ops, c06EOp{Op: "req", Creds: u + ":" + p}) }
	order := make([]int, n)
	for i := range order {
		order[i] = i
	}
	if r.Chance(1, 2) { // not always in index order
		for i := range order {
			j := i + r.Intn(n-i)
			order[i], order[j] = order[j], order[i]
		}
	}
	for _, i := range order {
		req(us[i][0], us[i][1])
	}
	for k := 0; k < 8; k++ {
		a := order[k]
		for _, d := range []int{64, 128, 256, 1} {
			if k+d < n {
				req(us[a][0], us[order[k+d]][1])
			}
		}
		req(us[a][0], us[a][1])
	}
	in.Ops = append(in.Ops, c06EOp{Op: "update", Users: in.Initial})
	req(us[order[0]][0], us[order[n-1]][1])
	req(us[order[0]][0], us[order[0]][1])
	return in
}

func c06GenEtcd(r *vfRand, adv bool) c06EIn {
	if k := r.Intn(40); k == 0 || (adv && k < 8) {
		sizes := []int{65, 66, 70, 129, 130}
		if vfTier() == "thorough" {
			sizes = append(sizes, 257, 300)
		}
		return c06GenEtcdMany(r, sizes[r.Intn(len(sizes))])
	}
	in := c06EIn{Prefix: r.PickStr("credentials/", "", "team-a/"), InitErr: r.Chance(1, 25)}
	mk := func(name string) c06ECred {
		c := c06ECred{Key: name, Password: r.PickStr(c06EPws...)}
		switch r.Intn(8) {
		case 0: // user name from the "username" field, key differs
			c.Key, c.Username = "k-"+name, name
		case 1:
			c.NoPass = true
		}
		return c
	}
	set := func() []c06ECred {
		var s []c06ECred
		for _, n := range c06ENames {
			if r.Chance(2, 5) {
				s = append(s, mk(n))
			}
		}
		return s
	}
	cur := set()
	if len(cur) == 0 {
		cur = []c06ECred{mk("alice")}
	}
	in.Initial = cur
	known := append([]c06ECred{}, cur...) // every credential that was valid at some time
	request := func() {
		var creds string
		switch {
		case len(known) > 0 && r.Chance(3, 4): // somebody who is or once was a user, right or stale password
			k := known[r.Intn(len(known))]
			creds = k.user() + ":" + k.Password
		case len(cur) > 0 && r.Chance(1, 2):
			k := cur[r.Intn(len(cur))]
			creds = k.user() + ":" + k.Password + r.PickStr("x", "", ":")
		default:
			creds = r.PickStr("nobody:pw1", "alice", ":pw1", "k-alice:pw1")
		}
		in.Ops = append(in.Ops, c06EOp{Op: "req", Creds: creds})
	}
	for i, n := 0, r.Range(1, 2); i < n; i++ {
		request()
	}
	if r.Chance(1, 3) {
		in.Ops = append(in.Ops, c06EOp{Op: "reload"})
	}
	for i, n := 0, r.Range(1, 5); i < n; i++ {
		op := c06EOp{Op: "update"}
		k := r.Intn(7)
		if adv && r.Chance(1, 2) {
			k = 3
		}
		switch k {
		case 0: // add
			op.Users = append(append([]c06ECred{}, cur...), mk(r.PickStr("frank", "grace", "heidi")))
		case 1: // change a password
			op.Users = append([]c06ECred{}, cur...)
			if len(op.Users) > 0 {
				j := r.Intn(len(op.Users))
				op.Users[j].Password += "-new"
				op.Users[j].NoPass = false
			}
		case 2: // remove one
			op.Users = append([]c06ECred{}, cur...)
			if len(op.Users) > 0 {
				j := r.Intn(len(op.Users))
				op.Users = append(op.Users[:j:j], op.Users[j+1:]...)
			}
		case 3: // remove ALL
			op.Users = []c06ECred{}
			op.Nil = r.Chance(1, 6)
		case 4: // same set again
			op.Users = append([]c06ECred{}, cur...)
		default: // a fresh set (re-add)
			op.Users = set()
		}
		// effective user names must be distinct inside one set (map order would decide otherwise)
		uniq := map[string]bool{}
		var us []c06ECred
		for _, u := range op.Users {
			if !uniq[u.user()] {
				uniq[u.user()] = true
				us = append(us, u)
			}
		}
		op.Users = us
		if op.Users == nil {
			op.Users = []c06ECred{}
		}
		in.Ops = append(in.Ops, op)
		cur = op.Users
		known = append(known, cur...)
		for j, m := 0, r.Range(1, 3); j < m; j++ {
			request()
		}
		if r.Chance(1, 3) || (adv && r.Chance(1, 2)) {
			in.Ops = append(in.Ops, c06EOp{Op: "reload"})
			if r.Chance(1, 2) {
				request()
			}
		}
	}
	return in
}

func TestVerifC06Etcd(t *testing.T) {
	out := vfOpen(t)
	defer out.Close()
	dir := t.TempDir()
	fileSeq := 0
	for _, sc := range vfStored("etcd") {
		var in c06EIn
		if err := json.Unmarshal(sc.In, &in); err != nil {
			t.Fatal(err)
		}
		if in.Mode == "file" {
			fileSeq++
			out.Emit(vfCase{ID: sc.ID, Src: sc.Src, Grp: "etcd", In: in, Obs: c06RunFile(in, dir, fileSeq)})
			continue
		}
		out.Emit(vfCase{ID: sc.ID, Src: sc.Src, Grp: "etcd", In: in, Obs: c06RunEtcd(in)})
	}
	if vfReplayOnly() {
		return
	}
	root := vfNewRand(vfSeed() ^ 0xE7CD)
	adv := vfStream() == "adv"
	src := "gen"
	if adv {
		src = "adv"
	}
	n := vfN(100)
	for i := 0; i < n; i++ {
		if i%5 == 4 { // FILE mode histories
			in := c06GenFile(root.Fork(i))
			fileSeq++
			out.Emit(vfCase{ID: fmt.Sprintf("%s-file-%d", src, i), Src: src, Grp: "etcd", In: in, Obs: c06RunFile(in, dir, fileSeq)})
			continue
		}
		in := c06GenEtcd(root.Fork(i), adv)
		out.Emit(vfCase{ID: fmt.Sprintf("%s-etcd-%d", src, i), Src: src, Grp: "etcd", In: in, Obs: c06RunEtcd(in)})
	}
}
