//go:build verif

package validator

// C06 harness, part 2: the INDEPENDENT side - own canonicalisation, signer,
// JWT issuer, reference verifier (payload as body, password = everything after
// the first ':', canonical token text) and the oracle tables for the Coq model.
// Nothing here calls pkg/util/signer or jwt.Parse.

import (
	"bytes"
	"crypto/hmac"
	"crypto/sha256"
	"crypto/sha512"
	"encoding/base64"
	"encoding/hex"
	"encoding/json"
	"fmt"
	"hash"
	"regexp"
	"sort"
	"strconv"
	"strings"
	"time"
)

const c06TimeFormat = "20060102T150405Z"

func c06Unreserved(c byte) bool {
	return c >= 'A' && c <= 'Z' || c >= 'a' && c <= 'z' || c >= '0' && c <= '9' || c == '-' || c == '.' || c == '_' || c == '~'
}

func c06Pct(s string, keepSlash, plus bool) string {
	var b strings.Builder
	for i := 0; i < len(s); i++ {
		c := s[i]
		switch {
		case c06Unreserved(c), keepSlash && c == '/':
			b.WriteByte(c)
		case plus && c == ' ':
			b.WriteByte('+')
		default:
			fmt.Fprintf(&b, "%%%02X", c)
		}
	}
	return b.String()
}

func c06CanonURI(escPath string) string {
	if escPath == "" {
		return "/"
	}
	return c06Pct(escPath, true, false)
}

func c06CanonHdrVal(vs []string) string {
	out := make([]string, len(vs))
	for i, v := range vs {
		var fs []string
		for _, f := range strings.Split(v, " ") {
			if f != "" {
				fs = append(fs, f)
			}
		}
		out[i] = strings.Join(fs, " ")
	}
	return strings.Join(out, ",")
}

func c06HostOf(host string) string {
	// a trailing empty port is dropped; scheme is unknown to the server side so 80/443 stay
	if i := strings.LastIndex(host, ":"); i >= 0 && i > strings.LastIndex(host, "]") && i == len(host)-1 {
		return host[:i]
	}
	return host
}

func c06ShaHex(s string) string { x := sha256.Sum256([]byte(s)); return hex.EncodeToString(x[:]) }

func c06Hmac(key, data string) string {
	h := hmac.New(sha256.New, []byte(key))
	h.Write([]byte(data))
	return string(h.Sum(nil))
}

// c06Params: the signing parameters (as the client chose them / as parsed from a request)
type c06Params struct {
	Presign  bool
	KeyID    string
	Scopes   []string
	Signed   string
	Tag      string
	Sec      int64
	Nsec     int64
	FTime    string
	FDate    string
	ExpireNs int64
}

func (p *c06Params) scope(l *c06Literal) string {
	return strings.Join(append(append([]string{p.FDate}, p.Scopes...), l.ScopeSuffix), "/")
}

// c06Canon: canonical request and string to sign of a parsed request.
func c06Canon(v *c06View, l *c06Literal, p *c06Params, bodyHash string) (string, string) {
	q := map[string][]string{}
	for _, kv := range v.Query {
		q[kv.K] = kv.V
	}
	delete(q, l.Signature)
	if p.Presign {
		q[l.AlgorithmName] = []string{l.AlgorithmValue}
		q[l.Date] = []string{p.FTime}
		q[l.Credential] = []string{p.KeyID + "/" + p.scope(l)}
		q[l.Expires] = []string{strconv.FormatInt(p.ExpireNs/1e9, 10)}
		q[l.SignedHeaders] = []string{p.Signed}
	} else {
		for _, k := range []string{l.AlgorithmName, l.Credential, l.Date, l.Expires, l.SignedHeaders} {
			delete(q, k)
		}
	}
	var pairs [][2]string
	for k, vs := range q {
		for _, x := range vs {
			pairs = append(pairs, [2]string{k, x})
		}
	}
	sort.Slice(pairs, func(i, j int) bool {
		if pairs[i][0] != pairs[j][0] {
			return pairs[i][0] < pairs[j][0]
		}
		return pairs[i][1] < pairs[j][1]
	})
	enc := make([]string, len(pairs))
	for i, kv := range pairs {
		enc[i] = c06Pct(kv[0], false, true) + "=" + c06Pct(kv[1], false, true)
	}
	var b bytes.Buffer
	b.WriteString(v.Method + "\n" + c06CanonURI(v.EscPath) + "\n" + strings.Join(enc, "&") + "\n")
	for _, name := range strings.Split(p.Signed, ";") {
		val := ""
		if name == "host" {
			val = c06HostOf(v.Host)
		} else {
			val = c06CanonHdrVal(v.hdr(c06CK(name)))
		}
		b.WriteString(name + ":" + val + "\n")
	}
	b.WriteString("\n" + p.Signed + "\n" + bodyHash)
	cr := b.String()
	sts := l.AlgorithmValue + "\n" + p.FTime + "\n" + p.scope(l) + "\n" + c06ShaHex(cr)
	return cr, sts
}

// c06Tag: key derivation chain + tag; every hmac step is recorded for the oracle table.
func c06Tag(l *c06Literal, p *c06Params, secret, sts string, rec func(key, data, out string)) string {
	step := func(k, d string) string {
		o := c06Hmac(k, d)
		if rec != nil {
			rec(k, d, o)
		}
		return o
	}
	k := step(l.SigningKeyPrefix+secret, p.FDate)
	for _, s := range p.Scopes {
		k = step(k, s)
	}
	k = step(k, l.ScopeSuffix)
	return hex.EncodeToString([]byte(step(k, sts)))
}

func c06BodyHash(cfg *c06SigCfg, body string) string {
	if cfg.ExcludeBody {
		return "UNSIGNED-PAYLOAD"
	}
	return c06ShaHex(body)
}

func c06ParseTime(s string) (sec, nsec int64, ft, fd string, ok bool) {
	t, err := time.ParseInLocation(c06TimeFormat, s, time.UTC)
	if err != nil {
		return 0, 0, "", "", false
	}
	return t.Unix(), int64(t.Nanosecond()), t.Format(c06TimeFormat), t.Format("20060102"), true
}

func c06TrimASCII(s string) string { return strings.Trim(s, " \t\n\v\f\r") }

// c06ParseParams: the reference reading of the signing parameters of a request.
func c06ParseParams(v *c06View, l *c06Literal) (*c06Params, string) {
	p := &c06Params{}
	var cred, date string
	if auth := v.hdr1("Authorization"); auth != "" {
		alg, rest, found := strings.Cut(auth, " ")
		if !found || alg != l.AlgorithmValue {
			return nil, "authorization scheme"
		}
		parts := strings.Split(rest, ",")
		if len(parts) != 3 {
			return nil, "authorization parts"
		}
		var ok [3]bool
		cred, ok[0] = strings.CutPrefix(c06TrimASCII(parts[0]), "Credential=")
		p.Signed, ok[1] = strings.CutPrefix(c06TrimASCII(parts[1]), "SignedHeaders=")
		p.Tag, ok[2] = strings.CutPrefix(c06TrimASCII(parts[2]), "Signature=")
		if !ok[0] || !ok[1] || !ok[2] {
			return nil, "authorization fields"
		}
		date = v.hdr1(c06CK(l.Date))
	} else {
		p.Presign = true
		if v.q1(l.AlgorithmName) != l.AlgorithmValue {
			return nil, "algorithm parameter"
		}
		cred = v.q1(l.Credential)
		date = v.q1(l.Date)
		p.Signed = v.q1(l.SignedHeaders)
		p.Tag = v.q1(l.Signature)
	}
	cs := strings.Split(cred, "/")
	if len(cs) < 3 {
		return nil, "credential scope"
	}
	p.KeyID = cs[0]
	p.Scopes = cs[2 : len(cs)-1]
	if !strings.HasPrefix(date, cs[1]) {
		return nil, "credential date"
	}
	var ok bool
	if p.Sec, p.Nsec, p.FTime, p.FDate, ok = c06ParseTime(date); !ok {
		return nil, "date format"
	}
	if p.Presign {
		u, err := strconv.ParseUint(v.q1(l.Expires), 0, 64)
		if err != nil {
			return nil, "expires"
		}
		p.ExpireNs = int64(u) * 1e9 // wraps like time.Duration arithmetic
	}
	return p, ""
}

func c06AgeNs(nowNs int64, p *c06Params) int64 {
	return time.Unix(0, nowNs).Sub(time.Unix(p.Sec, p.Nsec)).Nanoseconds()
}

// c06RefSig: reference verdict for the signature method (body = the buffered payload).
func c06RefSig(cfg *c06SigCfg, v *c06View, nowNs int64) (bool, string) {
	l := cfg.lit()
	p, why := c06ParseParams(v, l)
	if p == nil {
		return false, "sig: " + why
	}
	age := c06AgeNs(nowNs, p)
	if ttl := cfg.ttlNs(); ttl > 0 && (age < -ttl || age > ttl) {
		return false, "sig: outside ttl"
	}
	if p.Presign && age > p.ExpireNs {
		return false, "sig: presign expired"
	}
	secret, ok := cfg.secret(p.KeyID)
	if !ok {
		return false, "sig: unknown key"
	}
	_, sts := c06Canon(v, l, p, c06BodyHash(cfg, c06UnHex(v.Payload)))
	if c06Tag(l, p, secret, sts, nil) != p.Tag {
		return false, "sig: tag mismatch"
	}
	return true, ""
}

// ---------------------------------------------------------------------------
// JWT

func c06JHash(alg string) func() hash.Hash {
	switch alg {
	case "HS256":
		return sha256.New
	case "HS384":
		return sha512.New384
	case "HS512":
		return sha512.New
	}
	return nil
}

func c06JMac(alg, secretHex, msg string) string {
	key, _ := hex.DecodeString(secretHex)
	h := hmac.New(c06JHash(alg), key)
	h.Write([]byte(msg))
	return base64.RawURLEncoding.EncodeToString(h.Sum(nil))
}

// c06Issue: header.claims.signature for the given header/claims JSON
func c06Issue(alg, secretHex, hdrJSON, claimsJSON string) string {
	h := base64.RawURLEncoding.EncodeToString([]byte(hdrJSON))
	c := base64.RawURLEncoding.EncodeToString([]byte(claimsJSON))
	if c06JHash(alg) == nil {
		return h + "." + c + "."
	}
	return h + "." + c + "." + c06JMac(alg, secretHex, h+"."+c)
}

// lenient segment decoding as jwt.DecodeSegment does it (Go base64, external)
func c06SegDecode(seg string) ([]byte, error) {
	if l := len(seg) % 4; l > 0 {
		seg += strings.Repeat("=", 4-l)
	}
	return base64.URLEncoding.DecodeString(seg)
}

func c06JHdr(seg string) (string, bool) {
	b, err := c06SegDecode(seg)
	if err != nil {
		return "", false
	}
	var m map[string]interface{}
	if json.Unmarshal(b, &m) != nil {
		return "", false
	}
	alg, ok := m["alg"].(string)
	return alg, ok
}

// c06Num: a time claim as written in the claims JSON. Num=false: absent or not
// a JSON number (string, null, bool, ...). Otherwise the literal is M * 10^E.
type c06Num struct {
	Num bool   `json:"num"`
	M   string `json:"m"`
	E   int    `json:"e"`
	Lit string `json:"lit,omitempty"`
}

type c06Claims struct {
	OK  bool   `json:"ok"`
	Exp c06Num `json:"exp"`
	Iat c06Num `json:"iat"`
	Nbf c06Num `json:"nbf"`
}

var c06NumRe = regexp.MustCompile(`^(-?)([0-9]+)(?:\.([0-9]+))?(?:[eE]([+-]?[0-9]+))?$`)

func c06ParseNum(lit string) c06Num {
	m := c06NumRe.FindStringSubmatch(lit)
	if m == nil {
		panic("verif: harness defect: JSON number literal not understood: " + lit)
	}
	e := 0
	if m[4] != "" {
		e, _ = strconv.Atoi(m[4])
	}
	return c06Num{Num: true, M: m[1] + m[2] + m[3], E: e - len(m[3]), Lit: lit}
}

// c06Whole: the whole second the reference compares (the written number, truncated toward zero)
func (n c06Num) c06Whole() (int64, bool) {
	if !n.Num {
		return 0, false
	}
	f, err := strconv.ParseFloat(n.Lit, 64)
	if err != nil || f >= 9.2e18 || f <= -9.2e18 {
		panic("verif: harness defect: time claim outside the int64 range: " + n.Lit)
	}
	return int64(f), true
}

func c06JClaims(seg string) (c c06Claims) {
	b, err := c06SegDecode(seg)
	if err != nil {
		return
	}
	// the verdict "malformed" is the decoder's with float64 numbers (as jwt.Parse decodes)
	var probe map[string]interface{}
	if json.NewDecoder(bytes.NewBuffer(b)).Decode(&probe) != nil {
		return
	}
	var m map[string]interface{}
	dec := json.NewDecoder(bytes.NewBuffer(b))
	dec.UseNumber()
	if dec.Decode(&m) != nil {
		return
	}
	c.OK = true
	get := func(k string) c06Num {
		if n, ok := m[k].(json.Number); ok {
			return c06ParseNum(string(n))
		}
		return c06Num{}
	}
	c.Exp, c.Iat, c.Nbf = get("exp"), get("iat"), get("nbf")
	return
}

func c06JToken(cfg *c06JWTCfg, v *c06View) (string, bool) {
	if cfg.Cookie != "" && v.Cookie != nil && *v.Cookie != "" {
		return *v.Cookie, true
	}
	return strings.CutPrefix(v.hdr1("Authorization"), "Bearer ")
}

func c06RefJWT(cfg *c06JWTCfg, v *c06View, jnow int64) (bool, string) {
	tok, ok := c06JToken(cfg, v)
	if !ok {
		return false, "jwt: no token"
	}
	parts := strings.Split(tok, ".")
	if len(parts) != 3 {
		return false, "jwt: segments"
	}
	alg, ok := c06JHdr(parts[0])
	if !ok || alg != cfg.Alg || c06JHash(alg) == nil {
		return false, "jwt: alg"
	}
	cl := c06JClaims(parts[1])
	if !cl.OK {
		return false, "jwt: claims"
	}
	// a claim that is absent, not a number, or whose whole second is 0 does not restrict
	if x, ok := cl.Exp.c06Whole(); ok && x != 0 && jnow > x {
		return false, "jwt: expired"
	}
	if x, ok := cl.Iat.c06Whole(); ok && x != 0 && jnow < x {
		return false, "jwt: iat"
	}
	if x, ok := cl.Nbf.c06Whole(); ok && x != 0 && jnow < x {
		return false, "jwt: nbf"
	}
	if parts[2] != c06JMac(alg, cfg.Secret, parts[0]+"."+parts[1]) {
		return false, "jwt: signature text"
	}
	return true, ""
}

// ---------------------------------------------------------------------------
// Basic, header rules

func c06RefBasic(users [][2]string, v *c06View) (bool, string) {
	b64, ok := strings.CutPrefix(v.hdr1("Authorization"), "Basic ")
	if !ok {
		return false, "basic: scheme"
	}
	raw, err := base64.StdEncoding.DecodeString(b64)
	if err != nil {
		return false, "basic: base64"
	}
	user, pw, found := strings.Cut(string(raw), ":")
	if !found {
		return false, "basic: no colon"
	}
	for _, up := range users {
		if up[0] == user {
			if up[1] == pw {
				return true, ""
			}
			return false, "basic: password"
		}
	}
	return false, "basic: user"
}

func c06RefHeaders(rules []c06HRule, v *c06View) (bool, string) {
	for _, r := range rules {
		vs := v.hdr(c06CK(r.Key))
		if len(vs) == 0 {
			return false, "headers: missing " + r.Key
		}
		ok := false
		for _, x := range r.Values {
			ok = ok || x == vs[0]
		}
		if !ok && r.Regexp != "" {
			if re, err := regexp.Compile(r.Regexp); err == nil {
				ok = re.MatchString(vs[0])
			}
		}
		if !ok {
			return false, "headers: value of " + r.Key
		}
	}
	return true, ""
}

func c06Expect(cfg *c06Cfg, v *c06View, jnow, nowNs int64) (bool, string) {
	if cfg.Headers != nil {
		if ok, why := c06RefHeaders(cfg.Headers, v); !ok {
			return false, why
		}
	}
	if cfg.JWT != nil {
		if ok, why := c06RefJWT(cfg.JWT, v, jnow); !ok {
			return false, why
		}
	}
	if cfg.Sig != nil {
		if ok, why := c06RefSig(cfg.Sig, v, nowNs); !ok {
			return false, why
		}
	}
	if cfg.Basic != nil {
		if ok, why := c06RefBasic(cfg.Basic, v); !ok {
			return false, why
		}
	}
	return true, ""
}

// ---------------------------------------------------------------------------
// oracle tables

type c06OptStr struct {
	K  string `json:"k"`
	OK bool   `json:"ok"`
	V  string `json:"v"` // hex where binary
}
type c06ReEnt struct {
	P string `json:"p"`
	V string `json:"v"`
	M bool   `json:"m"`
}
type c06ClaimEnt struct {
	K string    `json:"k"`
	C c06Claims `json:"c"`
}
type c06TimeEnt struct {
	K     string `json:"k"`
	OK    bool   `json:"ok"`
	Sec   int64  `json:"sec"`
	Nsec  int64  `json:"nsec"`
	FTime string `json:"ftime"`
	FDate string `json:"fdate"`
}
type c06Tables struct {
	CK       [][2]string   `json:"ck"`
	RE       []c06ReEnt    `json:"re"`
	B64      []c06OptStr   `json:"b64"`      // v = hex of decoded bytes
	JHdr     []c06OptStr   `json:"jhdr"`     // v = alg
	JClaims  []c06ClaimEnt `json:"jclaims"`
	B64Canon []c06OptStr   `json:"b64canon"` // v = canonical text
	JMac     [][3]string   `json:"jmac"`     // alg, signing input, text
	PTime    []c06TimeEnt  `json:"ptime"`
	PUint    []c06OptStr   `json:"puint"` // v = decimal
	Sha      [][2]string   `json:"sha"`   // hex(data), digest hex
	Mac      [][3]string   `json:"mac"`   // hex key, hex data, hex out
}

func c06BuildTables(cfg *c06Cfg, v *c06View) *c06Tables {
	t := &c06Tables{}
	ckSeen := map[string]bool{}
	addCK := func(s string) {
		if !ckSeen[s] {
			ckSeen[s] = true
			t.CK = append(t.CK, [2]string{s, c06CK(s)})
		}
	}
	for _, r := range cfg.Headers {
		addCK(r.Key)
		if r.Regexp != "" {
			re, err := regexp.Compile(r.Regexp)
			for _, x := range v.hdr(c06CK(r.Key)) {
				t.RE = append(t.RE, c06ReEnt{P: r.Regexp, V: x, M: err == nil && re.MatchString(x)})
			}
		}
	}
	if b64, ok := strings.CutPrefix(v.hdr1("Authorization"), "Basic "); ok && cfg.Basic != nil {
		raw, err := base64.StdEncoding.DecodeString(b64)
		t.B64 = append(t.B64, c06OptStr{K: b64, OK: err == nil, V: hex.EncodeToString(raw)})
	}
	if cfg.JWT != nil {
		if tok, ok := c06JToken(cfg.JWT, v); ok {
			if parts := strings.Split(tok, "."); len(parts) == 3 {
				alg, ok := c06JHdr(parts[0])
				t.JHdr = append(t.JHdr, c06OptStr{K: parts[0], OK: ok, V: alg})
				t.JClaims = append(t.JClaims, c06ClaimEnt{K: parts[1], C: c06JClaims(parts[1])})
				raw, err := c06SegDecode(parts[2])
				t.B64Canon = append(t.B64Canon, c06OptStr{K: parts[2], OK: err == nil, V: base64.RawURLEncoding.EncodeToString(raw)})
				if c06JHash(cfg.JWT.Alg) != nil {
					msg := parts[0] + "." + parts[1]
					t.JMac = append(t.JMac, [3]string{cfg.JWT.Alg, msg, c06JMac(cfg.JWT.Alg, cfg.JWT.Secret, msg)})
				}
			}
		}
	}
	if s := cfg.Sig; s != nil {
		l := s.lit()
		addCK(l.Date)
		addTime := func(x string) {
			e := c06TimeEnt{K: x}
			e.Sec, e.Nsec, e.FTime, e.FDate, e.OK = c06ParseTime(x)
			t.PTime = append(t.PTime, e)
		}
		addTime(v.hdr1(c06CK(l.Date)))
		if qd := v.q1(l.Date); qd != v.hdr1(c06CK(l.Date)) {
			addTime(qd)
		}
		u, err := strconv.ParseUint(v.q1(l.Expires), 0, 64)
		t.PUint = append(t.PUint, c06OptStr{K: v.q1(l.Expires), OK: err == nil, V: strconv.FormatUint(u, 10)})
		shaSeen := map[string]bool{}
		addSha := func(d string) {
			if !shaSeen[d] {
				shaSeen[d] = true
				t.Sha = append(t.Sha, [2]string{c06Hex(d), c06ShaHex(d)})
			}
		}
		macSeen := map[string]bool{}
		addSha("")
		addSha(c06UnHex(v.Payload))
		if p, _ := c06ParseParams(v, l); p != nil {
			for _, n := range strings.Split(p.Signed, ";") {
				addCK(n)
			}
			for _, body := range []string{c06UnHex(v.Payload), ""} {
				cr, sts := c06Canon(v, l, p, c06BodyHash(s, body))
				addSha(cr)
				if secret, ok := s.secret(p.KeyID); ok {
					c06Tag(l, p, secret, sts, func(k, d, o string) {
						id := k + "\x00" + d
						if !macSeen[id] {
							macSeen[id] = true
							t.Mac = append(t.Mac, [3]string{c06Hex(k), c06Hex(d), c06Hex(o)})
						}
					})
				}
			}
		}
	}
	c06CheckInjective(t)
	return t
}

// the cryptographic tables must be injective (idealised-cryptography hypothesis of the theorems)
func c06CheckInjective(t *c06Tables) {
	seen := map[string]string{}
	chk := func(tab, k, v string) {
		id := tab + "\x00" + v
		if k0, ok := seen[id]; ok && k0 != k {
			panic(fmt.Sprintf("verif: %s table is not injective: %q and %q -> %q", tab, k0, k, v))
		}
		seen[id] = k
	}
	for _, e := range t.Sha {
		chk("sha", e[0], e[1])
	}
	for _, e := range t.Mac {
		chk("mac", e[0]+"/"+e[1], e[2])
	}
	for _, e := range t.JMac {
		chk("jmac", e[0]+"/"+e[1], e[2])
	}
}
