From EG.lib Require Import Base.
From EG.model Require Import Registry.
From EG.proofs Require Import RegistryProofs.
Open Scope N_scope.
