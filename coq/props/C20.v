(** C20 - property theorems only.  Each is closed by [exact] of a lemma proved in
    proofs/RegistryProofs*.v; nothing else lives here.

    Vocabulary (coq/model/Registry.v): a run is a list of (scheduling, snapshot);
    [run q pan steps] = (per-name cells, lifecycle log) of the model with quirks [q]
    under the panic oracle [pan]; [calls_of w n log] = the callbacks consumer [w]
    (0 = Supervisor, 1 = RawConfigTrafficController + TrafficController) made for
    name [n], tagged with snapshot indices; [spec_log] = the unique word of the
    per-name lifecycle automaton ([spec_calls]: absent -> Init; same spec -> nothing;
    same kind, other spec -> Inherit with the live generation as predecessor; other
    kind -> Close then Init; gone -> Close); [filt w] = what consumer [w] is meant to
    see of a snapshot entry (its categories); [good_steps n steps] = in every
    snapshot every range loop visits the key [n] exactly once (iteration ORDER,
    watcher order and consumer order are arbitrary: they are part of [steps]). *)
From EG.lib Require Import Base.
From EG.model Require Import Registry.
From EG.model Require Import RegistryCheck.
From EG.proofs Require Import RegistryProofs RegistryProofsB RegistryProofsC RegistryProofsD RegistryProofsE RegistryProofsF.
Open Scope N_scope.

(** for every snapshot sequence, every panic oracle and every scheduling, the calls a consumer
    makes for a name are exactly the word of the lifecycle automaton: Init exactly once when the
    name appears, Inherit exactly once per spec change with the previous live generation as
    predecessor, Close exactly once when it disappears, nothing when unchanged *)
Theorem C20_exactly_once : forall pan steps n w,
  w = 0 \/ w = 1 -> good_steps n steps ->
  calls_of w n (snd (run ideal pan steps)) = fst (spec_log 0 n None (snaps_for w n steps)).
Proof. exact exactly_once. Qed.
Print Assumptions C20_exactly_once.

(** after every snapshot: registry = snapshot; each watcher's entities and each consumer's live
    objects = snapshot filtered by its categories *)
Theorem C20_live_equals_snapshot : forall pan steps sc cfg n,
  good_steps n (steps ++ [(sc, cfg)]) ->
  let c := fst (run ideal pan (steps ++ [(sc, cfg)])) n in
  option_map e_spec (c_reg c) = cfg n /\
  option_map e_spec (c_w0 c) = filt 0 (cfg n) /\
  option_map e_spec (c_w1 c) = filt 1 (cfg n) /\
  forall w, w = 0 \/ w = 1 -> option_map e_spec (live w c) = filt w (cfg n).
Proof. exact live_equals_snapshot. Qed.
Print Assumptions C20_live_equals_snapshot.

(** the live generation is the one the automaton predicts (not merely one with the right spec) *)
Theorem C20_live_generation : forall pan steps n w,
  w = 0 \/ w = 1 -> good_steps n steps ->
  live w (fst (run ideal pan steps) n) = snd (spec_log 0 n None (snaps_for w n steps)).
Proof. exact live_is_spec_state. Qed.
Print Assumptions C20_live_generation.

(** (any quirks) the lifecycle log and the state of a name depend on the panic oracle only through
    its values at that name: whatever the callbacks of the other objects do, this one is reconciled
    in exactly the same way *)
Theorem C20_panic_isolated : forall q pan1 pan2 steps n,
  good_steps n steps ->
  (forall t op, pan1 t op n = pan2 t op n) ->
  log_of n (snd (run q pan1 steps)) = log_of n (snd (run q pan2 steps)) /\
  fst (run q pan1 steps) n = fst (run q pan2 steps) n.
Proof. exact panic_isolated. Qed.
Print Assumptions C20_panic_isolated.

(** a name whose kind changes (within one consumer): Close of the old live generation, then Init
    of the new one *)
Theorem C20_kind_change_is_close_then_init : forall pan steps sc cfg n w old s,
  w = 0 \/ w = 1 -> good_steps n (steps ++ [(sc, cfg)]) ->
  live w (fst (run ideal pan steps) n) = Some old ->
  filt w (cfg n) = Some s ->
  same_kind (e_spec old) s = false ->
  let t := N.of_nat (List.length steps) in
  calls_of w n (snd (run ideal pan (steps ++ [(sc, cfg)]))) =
    calls_of w n (snd (run ideal pan steps)) ++ [(t, Close n old); (t, Init n {| e_spec := s; e_born := t |})] /\
  live w (fst (run ideal pan (steps ++ [(sc, cfg)])) n) = Some {| e_spec := s; e_born := t |}.
Proof. exact kind_change_is_close_then_init. Qed.
Print Assumptions C20_kind_change_is_close_then_init.

(** ... and when the new kind belongs to the other consumer: the old consumer closes, the new one inits *)
Theorem C20_kind_change_across_consumers : forall pan steps sc cfg n w w' old s,
  (w = 0 /\ w' = 1) \/ (w = 1 /\ w' = 0) -> good_steps n (steps ++ [(sc, cfg)]) ->
  live w (fst (run ideal pan steps) n) = Some old ->
  filt w (cfg n) = None -> filt w' (cfg n) = Some s ->
  let t := N.of_nat (List.length steps) in
  calls_of w n (snd (run ideal pan (steps ++ [(sc, cfg)]))) =
    calls_of w n (snd (run ideal pan steps)) ++ [(t, Close n old)] /\
  live w (fst (run ideal pan (steps ++ [(sc, cfg)])) n) = None /\
  calls_of w' n (snd (run ideal pan (steps ++ [(sc, cfg)]))) =
    calls_of w' n (snd (run ideal pan steps)) ++ [(t, Init n {| e_spec := s; e_born := t |})] /\
  live w' (fst (run ideal pan (steps ++ [(sc, cfg)])) n) = Some {| e_spec := s; e_born := t |}.
Proof. exact kind_change_across_consumers. Qed.
Print Assumptions C20_kind_change_across_consumers.

(** the pinned code (quirk q_kind_change_as_update) violates the kind-change clause: closed witnesses *)
Theorem C20_refuted_kind_change :
  good_steps 0 wit_biz /\
  calls_of 0 0 (snd (run pinned_q never wit_biz)) =
    [(0, Init 0 (mk_ent ctlA 0)); (1, Inherit 0 (mk_ent ctlB 1) (mk_ent ctlA 0))] /\
  map l_pan (log_of 0 (snd (run pinned_q never wit_biz))) = [false; true] /\
  fst (spec_log 0 0 None (snaps_for 0 0 wit_biz)) =
    [(0, Init 0 (mk_ent ctlA 0)); (1, Close 0 (mk_ent ctlA 0)); (1, Init 0 (mk_ent ctlB 1))] /\
  calls_of 0 0 (snd (run pinned_q never wit_biz)) <> fst (spec_log 0 0 None (snaps_for 0 0 wit_biz)) /\
  good_steps 0 wit_gate /\
  calls_of 1 0 (snd (run pinned_q never wit_gate)) = [(0, Init 0 (mk_ent gate 0))] /\
  live 1 (fst (run pinned_q never wit_gate) 0) = Some (mk_ent gate 0) /\
  fst (spec_log 0 0 None (snaps_for 1 0 wit_gate)) =
    [(0, Init 0 (mk_ent gate 0)); (1, Close 0 (mk_ent gate 0)); (1, Init 0 (mk_ent pipe 1)); (2, Close 0 (mk_ent pipe 1))] /\
  calls_of 0 0 (snd (run ideal never wit_biz)) = fst (spec_log 0 0 None (snaps_for 0 0 wit_biz)) /\
  calls_of 1 0 (snd (run ideal never wit_gate)) = fst (spec_log 0 0 None (snaps_for 1 0 wit_gate)).
Proof. exact refuted_kind_change. Qed.
Print Assumptions C20_refuted_kind_change.

(** (any quirks) map iteration order, watcher order and consumer order inside the snapshots do not
    change the per-name cells nor any consumer's per-name calls *)
Theorem C20_order_independent : forall q pan steps steps' n,
  good_steps n steps -> good_steps n steps' ->
  Forall2 (fun a b => snd a n = snd b n) steps steps' ->
  fst (run q pan steps) n = fst (run q pan steps') n /\
  forall w, calls_of w n (snd (run q pan steps)) = calls_of w n (snd (run q pan steps')).
Proof. exact order_independent. Qed.
Print Assumptions C20_order_independent.

(** (any quirks) a name whose snapshot entry did not change is left untouched *)
Theorem C20_untouched_when_unchanged : forall q pan steps sc0 cfg0 sc cfg n,
  good_steps n (steps ++ [(sc0, cfg0)] ++ [(sc, cfg)]) ->
  cfg n = cfg0 n ->
  let before := run q pan (steps ++ [(sc0, cfg0)]) in
  let after := run q pan (steps ++ [(sc0, cfg0)] ++ [(sc, cfg)]) in
  log_of n (snd after) = log_of n (snd before) /\
  forall w, live w (fst after n) = live w (fst before n).
Proof. exact untouched_when_unchanged. Qed.
Print Assumptions C20_untouched_when_unchanged.

(** (any quirks) the model decomposes per name: cell and log of a name after any run are those
    of running the same loop bodies on that name alone *)
Theorem C20_model_is_per_name : forall q pan n steps,
  good_steps n steps ->
  fst (run q pan steps) n = fst (cell_exec q pan 0 n (map (proj n) steps) (cell0, [])) /\
  log_of n (snd (run q pan steps)) = snd (cell_exec q pan 0 n (map (proj n) steps) (cell0, [])).
Proof. exact model_is_per_name. Qed.
Print Assumptions C20_model_is_per_name.

(** a watcher that joins late: ObjectRegistry.NewWatcher is one atomic step between two snapshots
    (copy of the entities + registration under one lock).  Its first event is the snapshot applied
    last before it, filtered by its categories; after any further snapshots its entities are the
    latest snapshot, filtered: no snapshot is lost between the copy and the registration *)
Theorem C20_late_watcher_equals_snapshot : forall pan cats pre post sc cfg n,
  good_steps n (pre ++ post ++ [(sc, cfg)]) ->
  option_map e_spec (join_view cats (run ideal pan (pre ++ post ++ [(sc, cfg)])) n) = filtc cats (cfg n) /\
  option_map e_spec (late_run ideal pan cats (N.of_nat (List.length pre)) (post ++ [(sc, cfg)])
                              (run ideal pan pre) (join_view cats (run ideal pan pre)) n) = filtc cats (cfg n).
Proof. exact late_watcher_equals_snapshot. Qed.
Print Assumptions C20_late_watcher_equals_snapshot.

(** the Apply API of TrafficController (ApplyTrafficGate / ApplyPipeline / DeleteTrafficGate /
    DeletePipeline) driven by a reconciling caller (which replaces, not updates, an object whose kind
    changes): for every sequence of wanted specs of a name and every panic oracle the calls are the
    word of the same automaton - in particular an unchanged re-apply touches nothing and the
    predecessor passed to Inherit / the object closed is the live generation *)
Theorem C20_apply_exactly_once : forall pan n news,
  scalls (snd (apply_exec pan 0 n news ((None, None), []))) = fst (spec_log 0 n None news) /\
  ap_ent (fst (apply_exec pan 0 n news ((None, None), []))) = snd (spec_log 0 n None news).
Proof. exact apply_exactly_once. Qed.
Print Assumptions C20_apply_exactly_once.

(** *** SOUNDNESS of the trace-level property checker [prop_obs] (model/RegistryCheck.v), the function
    evaluated on the implementation's own observables in every run.

    Vocabulary (proofs/RegistryProofsF.v): [news_of w c n] = what consumer [w] is meant to see of
    name [n], snapshot by snapshot; [view news i] / [before news i] = its config at position [i] /
    [i-1] ([None] = absent); [run_start news i] = position of its latest config change
    ([C20_run_start_spec]); [gen news i] = the generation that must be live after snapshot [i]
    (latest config, born at [run_start]); [events_at i W] = the callbacks carrying snapshot index [i],
    in log order; [step_ok n news i ev] = one clause per case of the property (stay absent: nothing;
    appear / REappear: one Init of a fresh generation; disappear: one Close of the live generation;
    same bytes: untouched; changed, same kind: one Inherit with the live generation as predecessor;
    kind changed: Close of the old generation THEN Init of the new one). *)

(** for EVERY observed history (any names, any number and content of snapshots, any log, any
    per-snapshot observations) of the supervisor group: if the checker accepts it, then - with
    explicit quantifiers over names [n], positions [i] and log entries [e] - no panic escaped, there
    is no stray callback, every position of every name satisfies [step_ok] and the callbacks of
    position [i] sit after all those of earlier and before all those of later positions, after each
    snapshot the live set is exactly the snapshot's names each at the generation of its latest
    config (and registry / watcher entities are the snapshot), and a panicking callback leaves the
    other names of its snapshot reconciled *)
Theorem C20_checker_sound : forall c crash log obs,
  k_grp c = 0 ->
  prop_obs c crash log obs = true ->
  let names := k_names c in
  let len := List.length (k_steps c) in
  crash = false /\
  (forall e, In e log -> l_who e = 0 /\ In (entry_name e) names /\ (N.to_nat (l_step e) < len)%nat) /\
  (forall n, In n names -> forall i, (i < len)%nat ->
     let W := calls_of 0 n log in
     step_ok n (news_of 0 c n) i (events_at i W) /\
     exists Wpre Wpost,
       W = Wpre ++ map (pair (N.of_nat i)) (events_at i W) ++ Wpost /\
       (forall y, In y Wpre -> fst y < N.of_nat i) /\
       (forall y, In y Wpost -> N.of_nat i < fst y)) /\
  List.length obs = len /\
  (forall i, (i < len)%nat ->
     let o := nth i obs empty_obs in
     let cfg := cfg_of (nth i (k_steps c) []) in
     (forall n g, In (n, g) (drop_gen (so_sup o)) <-> In n names /\ gen (news_of 0 c n) i = Some g) /\
     (forall n s, In (n, s) (so_reg o) <-> In n names /\ cfg n = Some s) /\
     (forall n s, In (n, s) (so_w0 o) <-> In n names /\ filt 0 (cfg n) = Some s) /\
     (forall n s, In (n, s) (so_w1 o) <-> In n names /\ filt 1 (cfg n) = Some s)) /\
  (forall e, In e log -> l_pan e = true ->
     forall n, In n names -> n <> entry_name e ->
       step_ok n (news_of 0 c n) (N.to_nat (l_step e)) (events_at (N.to_nat (l_step e)) (calls_of 0 n log))).
Proof. exact checker_sound. Qed.
Print Assumptions C20_checker_sound.

(** any group (two consumers; the real Pipeline objects cannot record calls): the observed calls of
    every consumer are the visible part of the automaton's word - which satisfies [step_ok] at every
    position by [C20_spec_word_sound] - and the live sets are the predicted generations *)
Theorem C20_checker_sound_any_group : forall c crash log obs,
  prop_obs c crash log obs = true ->
  let names := k_names c in
  let len := List.length (k_steps c) in
  crash = false /\
  (forall e, In e log -> In (entry_name e) names /\ In (l_who e) (consumers (k_grp c))) /\
  (forall n w, In n names -> In w (consumers (k_grp c)) ->
     calls_of w n log = vis_calls (k_grp c) (fst (spec_log 0 n None (news_of w c n)))) /\
  List.length obs = len /\
  (forall i, (i < len)%nat ->
     let o := nth i obs empty_obs in
     (forall n g, In (n, g) (drop_gen (so_sup o)) <-> In n names /\ gen (news_of 0 c n) i = Some g) /\
     (k_grp c <> 0 ->
        (forall n g, In (n, g) (drop_gen (so_gate o)) <-> In n names /\ live_gate (gen (news_of 1 c n) i) = Some g) /\
        (forall n g, In (n, g) (drop_gen (so_pipe o)) <-> In n names /\ live_pipe (gen (news_of 1 c n) i) = Some g))).
Proof. exact checker_sound_any_group. Qed.
Print Assumptions C20_checker_sound_any_group.

(** the word of the lifecycle automaton itself (the specification every other C20 theorem refers to)
    satisfies the declarative clauses at every position, and its state is [gen] *)
Theorem C20_spec_word_sound : forall n news i,
  (i < List.length news)%nat ->
  let W := fst (spec_log 0 n None news) in
  step_ok n news i (events_at i W) /\
  (exists Wpre Wpost,
      W = Wpre ++ map (pair (N.of_nat i)) (events_at i W) ++ Wpost /\
      (forall y, In y Wpre -> fst y < N.of_nat i) /\
      (forall y, In y Wpost -> N.of_nat i < fst y)) /\
  snd (spec_log 0 n None (firstn (S i) news)) = gen news i.
Proof. exact spec_word_sound. Qed.
Print Assumptions C20_spec_word_sound.

(** "the generation of its latest config": [run_start news i] is the position of the latest change *)
Theorem C20_run_start_spec : forall news i,
  (run_start news i <= i)%nat /\
  (forall k, (run_start news i <= k <= i)%nat -> view news k = view news i) /\
  (run_start news i = O \/ view news (run_start news i - 1) <> view news i).
Proof. exact run_start_spec. Qed.
Print Assumptions C20_run_start_spec.

(** a reappearing name (present, absent, present with identical bytes) is created again *)
Theorem C20_checker_reappears : forall n news i ev s,
  step_ok n news i ev -> before news i = None -> view news i = Some s -> ev = [Init n (mk s i)].
Proof. exact step_ok_reappears. Qed.
Print Assumptions C20_checker_reappears.

(** non-vacuity of the soundness theorem: a concrete history that the checker accepts *)
Example C20_checker_nonvacuous :
  prop_obs nv_case false nv_log nv_obs = true /\
  calls_of 0 1 nv_log =
    [(0, Init 1 (mk nv_A1 0)); (1, Inherit 1 (mk nv_A2 1) (mk nv_A1 0)); (2, Close 1 (mk nv_A2 1));
     (3, Init 1 (mk nv_A2 3)); (4, Close 1 (mk nv_A2 3))] /\
  calls_of 0 0 nv_log =
    [(0, Init 0 (mk nv_A1 0)); (2, Close 0 (mk nv_A1 0)); (2, Init 0 (mk nv_B1 2)); (4, Close 0 (mk nv_B1 2))] /\
  List.length (filter l_pan nv_log) = 2%nat.
Proof. exact checker_nonvacuous. Qed.

(** non-vacuity: a concrete two-name, five-snapshot run with a firing panic oracle satisfies the
    hypotheses and produces a non-trivial log *)
Example C20_nonvacuous :
  good_steps 0 wit_run /\ good_steps 1 wit_run /\
  calls_of 0 0 (snd (run ideal wit_oracle wit_run)) =
    [(0, Init 0 (mk_ent ctlA 0)); (1, Inherit 0 (mk_ent (sp 0 cat_biz 2) 1) (mk_ent ctlA 0));
     (2, Close 0 (mk_ent (sp 0 cat_biz 2) 1)); (2, Init 0 (mk_ent ctlB 2)); (4, Close 0 (mk_ent ctlB 2))] /\
  calls_of 1 1 (snd (run ideal wit_oracle wit_run)) =
    [(1, Init 1 (mk_ent gate 1)); (3, Close 1 (mk_ent gate 1)); (3, Init 1 (mk_ent pipe 3))] /\
  existsb l_pan (snd (run ideal wit_oracle wit_run)) = true.
Proof. exact nonvacuous. Qed.
