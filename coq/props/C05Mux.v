(** C05, mux-level clauses on the FULL router model (coq/model/Mux.v, the model that the
    C01/C12 correspondence ties to pkg/object/httpserver/mux.go).  Property theorems only. *)
From EG.lib Require Import Base.
From EG.model Require Mux IPFilter.
From EG.proofs Require MuxProofs MuxProofsCache.

(** For every server, every regexp oracle, every IP-filter decision oracle, every request
    history and every eviction behaviour of the route cache (defect-free flags): a request
    denied by a filter applying to it (server filter, filters of the host-matching rules
    visited up to the decision, filter of the matched path) is refused with 403 and never
    dispatched ... *)
Theorem C05_denied_never_dispatched :
  forall (re_match : string -> string -> bool) (re_replace : string -> string -> string -> string)
         (ip_allow : N -> string -> bool) sv (steps : list ((Mux.key -> bool) * Mux.request)),
    Forall2 (fun s o => Mux.denied re_match ip_allow sv (snd s) = true -> o = Mux.Failed 403)
            steps (Mux.run_cached re_match re_replace ip_allow Mux.ideal sv [] steps).
Proof. exact MuxProofsCache.denied_never_dispatched. Qed.
Print Assumptions C05_denied_never_dispatched.

(** ... and a request that is not denied is routed exactly as by the same server with every
    IP filter erased and the cache off. *)
Theorem C05_not_denied_unaffected :
  forall (re_match : string -> string -> bool) (re_replace : string -> string -> string -> string)
         (ip_allow : N -> string -> bool) sv (steps : list ((Mux.key -> bool) * Mux.request)),
    Forall2 (fun s o => Mux.denied re_match ip_allow sv (snd s) = false ->
                        o = Mux.serve_nocache re_match re_replace ip_allow (Mux.erase_filters sv) (snd s))
            steps (Mux.run_cached re_match re_replace ip_allow Mux.ideal sv [] steps).
Proof. exact MuxProofsCache.not_denied_unaffected. Qed.
Print Assumptions C05_not_denied_unaffected.
