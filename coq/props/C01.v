(** C01 - property theorems only. *)
From EG.lib Require Import Base.
From EG.model Require Import Mux.
From EG.proofs Require Import MuxProofs.
Open Scope string_scope.

Theorem C01_unknown_backend_503 : forall re_match re_replace ip_allow sv rq p,
  search_nocache re_match ip_allow sv rq = Route p ->
  str_in (pe_backend p) (sv_backends sv) = false ->
  serve_nocache re_match re_replace ip_allow sv rq = Failed 503.
Proof. exact unknown_backend_503. Qed.
Print Assumptions C01_unknown_backend_503.
