(** C01 - HTTP routing, route cache off.  Property theorems only: each is closed by
    [exact] of a lemma proved in proofs/MuxProofs.v.  The oracles ([re_match] = Go
    regexp.MatchString, [re_replace] = ReplaceAllString, [ip_allow] = IPFilter.Allow)
    are universally quantified: every theorem holds for all of them. *)
From EG.lib Require Import Base.
From EG.model Require Import Mux.
From EG.proofs Require Import MuxProofs.
Open Scope string_scope.

Section C01.
  Variable re_match : string -> string -> bool.
  Variable re_replace : string -> string -> string -> string.
  Variable ip_allow : N -> string -> bool.

  (** the Go loops with the headerMismatch / methodMismatch flags and early 403 returns
      compute exactly the declarative router: 403 iff an applying IP filter denies the
      client, otherwise the first full match in rule-then-path order, otherwise
      400 > 405 > 404 ([search_spec]) *)
  Theorem C01_loop_refines_spec : forall sv rq,
    search_nocache re_match ip_allow sv rq =
    if denied re_match ip_allow sv rq then Status 403 else search_spec re_match sv rq.
  Proof. exact (loop_refines_spec re_match ip_allow). Qed.

  (** the request is routed to entry [p] iff [p] is the first entry, in configured
      rule-then-path order, whose host, path, method and header conditions all match:
      nothing earlier matches fully, nothing later is consulted *)
  Theorem C01_first_match : forall sv rq p,
    denied re_match ip_allow sv rq = false ->
    (search_nocache re_match ip_allow sv rq = Route p <->
     exists l1 r l2, entries sv = (l1 ++ (r, p) :: l2)%list /\ full_match re_match rq (r, p) = true /\
                     (forall e, In e l1 -> full_match re_match rq e = false)).
  Proof. exact (first_match re_match ip_allow). Qed.

  (** no entry matches fully: 400 when some entry (of a host-matching rule) matched path and
      method (so it failed its header condition), otherwise 405 when some entry matched the
      path (but not the method), otherwise 404 *)
  Theorem C01_failure_precedence : forall sv rq,
    denied re_match ip_allow sv rq = false ->
    (forall e, In e (entries sv) -> full_match re_match rq e = false) ->
    search_nocache re_match ip_allow sv rq =
      Status (if existsb (pm_match re_match rq) (entries sv) then 400
              else if existsb (p_match re_match rq) (entries sv) then 405 else 404).
  Proof. exact (failure_precedence re_match ip_allow). Qed.

  (** rewrite: exact path -> target; else prefix -> target ++ rest; else regexp ->
      ReplaceAllString; empty rewriteTarget -> unchanged *)
  Theorem C01_rewrite_exact : forall p path,
    pe_rewrite p <> "" -> pe_path p <> "" -> pe_path p = path ->
    rewrite re_replace p path = Some (pe_rewrite p).
  Proof. exact (rewrite_exact re_replace). Qed.

  Theorem C01_rewrite_prefix : forall p path rest,
    pe_rewrite p <> "" -> (pe_path p = "" \/ pe_path p <> path) ->
    pe_prefix p <> "" -> path = pe_prefix p ++ rest ->
    rewrite re_replace p path = Some (pe_rewrite p ++ rest).
  Proof. exact (rewrite_prefix re_replace). Qed.

  Theorem C01_rewrite_regexp : forall p path,
    pe_rewrite p <> "" -> (pe_path p = "" \/ pe_path p <> path) ->
    (pe_prefix p = "" \/ is_prefix (pe_prefix p) path = false) ->
    pe_regexp p <> "" ->
    rewrite re_replace p path = Some (re_replace (pe_regexp p) path (pe_rewrite p)).
  Proof. exact (rewrite_regexp re_replace). Qed.

  Theorem C01_rewrite_none : forall p path,
    pe_rewrite p = "" -> rewrite re_replace p path = Some path.
  Proof. exact (rewrite_none re_replace). Qed.

  (** the handler invoked is the backend of the matched entry and it sees the rewritten path *)
  Theorem C01_dispatch_backend_and_path : forall sv rq p,
    search_nocache re_match ip_allow sv rq = Route p ->
    str_in (pe_backend p) (sv_backends sv) = true ->
    serve_nocache re_match re_replace ip_allow sv rq =
      match rewrite re_replace p (rq_path rq) with
      | Some path' => if too_large sv p rq then Failed 413 else Dispatched (pe_backend p) path'
      | None => Panicked
      end.
  Proof. exact (dispatch_backend_and_path re_match re_replace ip_allow). Qed.

  (** ... unless the client sends more body bytes than the effective limit (the path's
      clientMaxBodySize, else the server's, else 4 MiB; negative = unlimited): 413 *)
  Theorem C01_body_limit : forall sv p rq,
    too_large sv p rq = true <-> (0 <= body_limit sv p < rq_body rq)%Z.
  Proof. exact too_large_iff. Qed.

  (** a matched backend name that does not exist yields 503 *)
  Theorem C01_unknown_backend_503 : forall sv rq p,
    search_nocache re_match ip_allow sv rq = Route p ->
    str_in (pe_backend p) (sv_backends sv) = false ->
    serve_nocache re_match re_replace ip_allow sv rq = Failed 503.
  Proof. exact (unknown_backend_503 re_match re_replace ip_allow). Qed.

  (** matchAllHeader: conjunction over the conditions (empty value list / empty regexp do not
      constrain); otherwise disjunction (an empty value list never matches by value) *)
  Theorem C01_match_all_header_semantics : forall p rq,
    let v h := hget (hc_key h) (rq_headers rq) in
    (pe_match_all p = true ->
       (headers_match re_match p rq = true <->
        forall h, In h (pe_headers p) ->
          (hc_values h = [] \/ In (v h) (hc_values h)) /\
          (hc_regexp h = "" \/ re_match (hc_regexp h) (v h) = true))) /\
    (pe_match_all p = false ->
       (headers_match re_match p rq = true <->
        exists h, In h (pe_headers p) /\
          (In (v h) (hc_values h) \/ (hc_regexp h <> "" /\ re_match (hc_regexp h) (v h) = true)))).
  Proof. exact (match_all_header_semantics re_match). Qed.

  (** port ignored: [name:port] is matched against a rule exactly like [name] *)
  Theorem C01_port_ignored : forall r rq1 rq2 name port,
    shas ":" name = false -> shas "[" name = false -> shas "]" name = false ->
    shas ":" port = false -> shas "[" port = false -> shas "]" port = false ->
    rq_host rq1 = name ++ ":" ++ port -> rq_host rq2 = name ->
    host_match re_match r rq1 = host_match re_match r rq2.
  Proof. exact (port_ignored re_match). Qed.

  (** host comparison is exact: a rule with only an exact host matches iff that host equals the
      port-stripped Host header byte for byte - `API.Example.com` does not match
      `api.example.com` and vice versa *)
  Theorem C01_host_exact : forall r rq,
    ru_host r <> "" -> ru_host_re r = "" ->
    (host_match re_match r rq = true <-> ru_host r = strip_port (rq_host rq)).
  Proof. exact (host_exact re_match). Qed.

  (** a validated configuration never reaches rewrite's nil-regexp dereference *)
  Theorem C01_valid_never_panics : forall sv rq,
    valid_server sv = true -> serve_nocache re_match re_replace ip_allow sv rq <> Panicked.
  Proof. exact (valid_never_panics re_match re_replace ip_allow). Qed.
  (** histories in which pipelines are created, deleted and replaced between requests (no
      HTTPServer reload): the mapper is read at every request - a matched backend name that
      does not exist NOW yields 503 whatever was served before, and an existing one is
      dispatched to the handler registered NOW (identity [h]) *)
  Theorem C01_mapper_history_503 : forall sv pre m rq p,
    search_nocache re_match ip_allow sv rq = Route p -> alookup (pe_backend p) m = None ->
    last (serve_hist re_match re_replace ip_allow sv (pre ++ [(m, rq)])%list) (Panicked, None)
      = (Failed 503, None).
  Proof. exact (mapper_history_503 re_match re_replace ip_allow). Qed.

  Theorem C01_mapper_history_dispatch : forall sv pre m rq p h path',
    search_nocache re_match ip_allow sv rq = Route p -> alookup (pe_backend p) m = Some h ->
    rewrite re_replace p (rq_path rq) = Some path' -> too_large sv p rq = false ->
    last (serve_hist re_match re_replace ip_allow sv (pre ++ [(m, rq)])%list) (Panicked, None)
      = (Dispatched (pe_backend p) path', Some h).
  Proof. exact (mapper_history_dispatch re_match re_replace ip_allow). Qed.
  (** the router matches, rewrites and keys its cache on the DECODED path (URL.Path) only, and on
      the Host header only: two requests that differ only in their wire encoding (URL.RawPath:
      %2F, %41 ...) or in the TLS server name of their connection ([rq_sni]) are answered
      alike and share the cache key *)
  Theorem C01_rawpath_irrelevant : forall sv a b,
    (rq_host a = rq_host b /\ rq_method a = rq_method b /\ rq_path a = rq_path b /\
     rq_headers a = rq_headers b /\ rq_ip a = rq_ip b /\ rq_body a = rq_body b) ->
    serve_nocache re_match re_replace ip_allow sv a = serve_nocache re_match re_replace ip_allow sv b /\
    (forall q, mk_key q a = mk_key q b).
  Proof. exact (rawpath_irrelevant re_match re_replace ip_allow). Qed.
  (** the server option xForwardedFor does not influence routing (the router matches the request
      as received, never the header the gateway itself writes); the handler sees the client
      address appended to X-Forwarded-For: the address alone when the header was absent,
      unchanged when it already contains the address, "v,addr" otherwise *)
  Theorem C01_xff_option_irrelevant_for_routing : forall b sv rq,
    serve_nocache re_match re_replace ip_allow (set_xff b sv) rq = serve_nocache re_match re_replace ip_allow sv rq.
  Proof. exact (xff_option_irrelevant re_match re_replace ip_allow). Qed.

  Theorem C01_forwarded_for : forall sv rq,
    (sv_xff sv = false -> forwarded_for sv rq = hget "X-Forwarded-For" (rq_headers rq)) /\
    (sv_xff sv = true -> alookup "X-Forwarded-For" (rq_headers rq) = None -> forwarded_for sv rq = rq_ip rq) /\
    (sv_xff sv = true -> forall v, alookup "X-Forwarded-For" (rq_headers rq) = Some v -> v <> "" ->
       forwarded_for sv rq = if str_contains (rq_ip rq) v then v else v ++ "," ++ rq_ip rq).
  Proof. exact forwarded_for_spec. Qed.
  (** only paths under "/.well-known/acme-challenge/" - trailing slash included - are withheld from
      routing (ACME HTTP-01); a path merely sharing a shorter prefix with it
      (/.well-known/acme-challenges.json, /.well-known/acme-challenge) is routed like any other *)
  Theorem C01_reserved_prefix_exact : forall sv rq,
    (reserved_path rq = true <-> exists rest, rq_path rq = acme_prefix ++ rest) /\
    (reserved_path rq = false ->
       mux_serve re_match re_replace ip_allow sv rq = serve_nocache re_match re_replace ip_allow sv rq).
  Proof. exact (reserved_exact re_match re_replace ip_allow). Qed.
End C01.

Print Assumptions C01_loop_refines_spec.
Print Assumptions C01_first_match.
Print Assumptions C01_failure_precedence.
Print Assumptions C01_rewrite_exact.
Print Assumptions C01_rewrite_prefix.
Print Assumptions C01_rewrite_regexp.
Print Assumptions C01_rewrite_none.
Print Assumptions C01_dispatch_backend_and_path.
Print Assumptions C01_body_limit.
Print Assumptions C01_unknown_backend_503.
Print Assumptions C01_match_all_header_semantics.
Print Assumptions C01_port_ignored.
Print Assumptions C01_host_exact.
Print Assumptions C01_valid_never_panics.
Print Assumptions C01_mapper_history_503.
Print Assumptions C01_mapper_history_dispatch.
Print Assumptions C01_rawpath_irrelevant.
Print Assumptions C01_xff_option_irrelevant_for_routing.
Print Assumptions C01_forwarded_for.
Print Assumptions C01_reserved_prefix_exact.

(** non-vacuity: a concrete rule set on which the clauses are exercised:
    first match skips a header-conditioned entry, 400 / 405 / 404 / 503, prefix and regexp rewrite *)
Example C01_nonvacuous :
  let re (p s : string) := String.eqb p "^/r" && is_prefix "/r" s in
  let rep (p s t : string) := t ++ sdrop 2 s in
  let ipa (f : N) (ip : string) := negb (N.eqb f 7 && String.eqb ip "10.0.0.8") in
  let e pth pre rgx ms rw b hs :=
    {| pe_path := pth; pe_prefix := pre; pe_regexp := rgx; pe_methods := ms; pe_rewrite := rw;
       pe_backend := b; pe_headers := hs; pe_match_all := false; pe_filter := None; pe_body := (if String.eqb b "C" then 4 else 0)%Z |} in
  let sv := {| sv_filter := Some 7%N;
               sv_rules := [ {| ru_host := "a.com"; ru_host_re := ""; ru_filter := None;
                                ru_paths := [ e "/a" "" "" ["GET"] "" "A" [ {| hc_key := "X"; hc_values := ["v1"]; hc_regexp := "" |} ];
                                              e "/a" "" "" ["GET"] "/new" "B" [];
                                              e "" "/p/" "" [] "/q/" "C" [];
                                              e "" "" "^/r" [] "/s" "D" [];
                                              e "/h" "" "" [] "" "A" [ {| hc_key := "X"; hc_values := ["v1"]; hc_regexp := "" |} ] ] |} ];
               sv_backends := ["A"; "B"; "C"]; sv_body := 0%Z; sv_xff := true |} in
  let rq h m p hs ip := {| rq_host := h; rq_method := m; rq_path := p; rq_rawpath := ""; rq_headers := hs; rq_ip := ip; rq_body := (if String.eqb m "PUT" then 3 else if String.eqb m "PATCH" then 5 else 0)%Z; rq_sni := "other.example" |} in
  valid_server sv = true /\
  map (serve_nocache re rep ipa sv)
      [ rq "a.com:80" "GET" "/a" [("X", "v1")] "1.1.1.1"; rq "a.com" "GET" "/a" [] "1.1.1.1";
        rq "a.com" "PUT" "/p/x" [] "1.1.1.1"; rq "a.com" "PATCH" "/p/x" [] "1.1.1.1"; rq "a.com" "GET" "/rr" [] "1.1.1.1";
        rq "a.com" "GET" "/h" [] "1.1.1.1"; rq "a.com" "POST" "/a" [] "1.1.1.1";
        rq "a.com" "GET" "/zz" [] "1.1.1.1"; rq "b.com" "GET" "/a" [] "1.1.1.1";
        rq "a.com" "GET" "/a" [] "10.0.0.8" ]
  = [ Dispatched "A" "/a"; Dispatched "B" "/new"; Dispatched "C" "/q/x"; Failed 413; Failed 503;
      Failed 400; Failed 405; Failed 404; Failed 404; Failed 403 ].
Proof. vm_compute. split; reflexivity. Qed.
