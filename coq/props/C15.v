(** C15 - property theorems only. Each is closed by [exact] of a lemma proved in
    proofs/BrokerProofsFan.v / proofs/BrokerProofsSess.v. *)
From EG.lib Require Import Base BrokerMap.
From EG.model Require Import RL Session Broker.
From EG.proofs Require Import BrokerProofsFan BrokerProofsSess.
From Coq Require Import Permutation.
Open Scope Z_scope.

(** For EVERY order in which the subscriber map is enumerated (and every choice the
    trie walk makes), the ideal fan-out calls Session.publish for exactly the
    connected clients that hold a matching subscription with QoS >= q. *)
Theorem C15_delivery_order_independent :
  forall (matches : string -> bool) subs connected qos choice order,
    (forall s, In s subs -> 0 <= snd s) ->
    (forall c, In c order <-> In c (subscribers matches subs)) ->
    forall c, In c (fanout matches ideal subs connected qos choice order)
              <-> eligible matches subs connected qos c.
Proof. exact delivery_order_independent. Qed.
Print Assumptions C15_delivery_order_independent.

(** two enumerations of the subscriber map serve the same clients, each exactly once *)
Theorem C15_delivery_same_set :
  forall (matches : string -> bool) subs connected qos choice1 choice2 o1 o2,
    (forall s, In s subs -> 0 <= snd s) ->
    NoDup o1 -> NoDup o2 ->
    (forall c, In c o1 <-> In c (subscribers matches subs)) ->
    (forall c, In c o2 <-> In c (subscribers matches subs)) ->
    Permutation (fanout matches ideal subs connected qos choice1 o1)
                (fanout matches ideal subs connected qos choice2 o2).
Proof. exact delivery_same_set. Qed.
Print Assumptions C15_delivery_same_set.

(** a QoS-0 copy is dropped only when that client's outbound queue is full *)
Theorem C15_qos0_drop_only_if_full : forall s m full,
  snd (publish s 0 m full) = [] <-> full = true.
Proof. exact qos0_drop_only_if_full. Qed.
Print Assumptions C15_qos0_drop_only_if_full.

(** While [id] is the oldest unacknowledged message, EVERY ticker firing of EVERY further
    history without its PUBACK re-emits it with the same id and payload (and it stays the oldest). *)
Theorem C15_resend_until_ack : forall s id m ops,
  wf s -> oldest s = Some (id, m) -> no_ack_no_reuse id s ops ->
  Forall (fun e => e = [Pkt id 1 m]) (tick_outputs s ops) /\ oldest (sfinal s ops) = Some (id, m).
Proof. exact resend_until_ack. Qed.
Print Assumptions C15_resend_until_ack.

(** every pending message becomes the oldest once its predecessors in the queue are acknowledged *)
Theorem C15_becomes_oldest : forall s id m l1 t,
  queue s = l1 ++ id :: t -> nonpending (pending s) l1 -> zget id (pending s) = Some m ->
  oldest s = Some (id, m).
Proof. exact becomes_oldest. Qed.
Print Assumptions C15_becomes_oldest.

(** a pending message stays pending with its payload through every history that does not acknowledge it *)
Theorem C15_pending_until_ack : forall s id ops,
  no_ack_no_assign id s ops -> zget id (pending (sfinal s ops)) = zget id (pending s).
Proof. exact pending_until_ack. Qed.
Print Assumptions C15_pending_until_ack.

(** after the PUBACK of [id] no packet carrying [id] is emitted by any further history (until the id is assigned again) *)
Theorem C15_no_resend_after_ack : forall s id ops,
  no_assign id (puback s id) ops -> forall q m, ~ In (Pkt id q m) (semits (puback s id) ops).
Proof. exact no_resend_after_ack. Qed.
Print Assumptions C15_no_resend_after_ack.

(** the id given to a message is not given to any of the next 2^16 - 1 messages *)
Theorem C15_ids_unique_while_pending : forall s ops,
  0 <= nextID s < 65536 -> 0 < count_pub ops < 65536 -> nextID (sfinal s ops) <> nextID s.
Proof. exact ids_unique_while_pending. Qed.
Print Assumptions C15_ids_unique_while_pending.

(** an admitted QoS-1 PUBLISH that the pipeline lets pass is handed to the backend once and PUBACKed with its own id *)
Theorem C15_puback_same_id : forall has_pipe lim p v,
  snd (mqtt_acquire lim 0 (cp_size p)) = true -> cp_qos p = 1 -> (has_pipe = true -> v = VPass) ->
  snd (fst (cpub_step has_pipe lim p v)) = (if has_pipe then [Backend (cp_tag p)] else []) ++ [Puback (cp_id p)].
Proof. exact puback_same_id. Qed.
Print Assumptions C15_puback_same_id.

(** the pinned code's defects *)
Theorem C15_refuted_lowqos_return :
  exists matches subs connected qos choice order c,
    (forall s, In s subs -> 0 <= snd s) /\
    (forall x, In x order <-> In x (subscribers matches subs)) /\
    eligible matches subs connected qos c /\
    ~ In c (fanout matches only_lowqos_return subs connected qos choice order).
Proof. exact refuted_lowqos_return. Qed.
Print Assumptions C15_refuted_lowqos_return.

Theorem C15_refuted_overlap_last_qos :
  exists matches subs connected qos choice order c,
    (forall s, In s subs -> 0 <= snd s) /\
    (forall x, In x order <-> In x (subscribers matches subs)) /\
    eligible matches subs connected qos c /\
    ~ In c (fanout matches only_overlap_last_qos subs connected qos choice order).
Proof. exact refuted_overlap_last_qos. Qed.
Print Assumptions C15_refuted_overlap_last_qos.
