(** C02 - property theorems only. Each is closed by [exact] of a lemma proved
    in proofs/PipelineProofs.v / proofs/PipelineVProofs.v; nothing else lives here.

    Vocabulary: model/Pipeline.v ([do_handle] = Pipeline.doHandle transcribed,
    [hba] = HandleWithBeforeAfter, [validate] = Spec.Validate, [next_spec] /
    [RefWalk] = the declarative successor and its iteration, [ideal] = no quirk
    flag) and model/PipelineSpec.v ([later_named], [first_later_named],
    [ValidDecls], [ValidJump], [ValidFlow], [side_run] ...).
    [res : nat -> string] assigns a result to every filter invocation; all
    theorems quantify over it, over every flow and every starting state. *)
From EG.lib Require Import Base.
From EG.model Require Import Pipeline PipelineSpec PipelineCheck.
From EG.proofs Require Import PipelineProofs PipelineVProofs PipelineCProofs.
Open Scope string_scope.
Open Scope list_scope.

(** the visited sequence, the returned result, the way the run stops and the
    number of invocations are exactly those of the iteration of [next_spec]
    from node 0 - and that iteration is unique *)
Theorem C02_run_is_reference_walk : forall flow res n act,
  let o := do_handle ideal res flow n act in
  RefWalk ideal flow res n (arrive flow 0) "" (map fst (visits o)) (result o) (fin_of o) (ninv o) /\
  (forall v r fin n', RefWalk ideal flow res n (arrive flow 0) "" v r fin n' ->
     v = map fst (visits o) /\ r = result o /\ fin = fin_of o /\ n' = ninv o).
Proof. exact thm_run_is_reference_walk. Qed.
Print Assumptions C02_run_is_reference_walk.

(** what the successor is: "" -> the next position; a result that is unmapped
    or mapped to END -> the pipeline ends; otherwise exactly the FIRST later
    filter node named by jumpIf, every node in between (END nodes included)
    being skipped; if no later node has that name the loop falls off *)
Theorem C02_successor_is_declarative : forall flow i nd r,
  nth_error flow i = Some nd ->
  (r = "" -> next_spec ideal flow i r = arrive flow (S i)) /\
  (r <> "" -> (target nd r = "" \/ target nd r = END) -> next_spec ideal flow i r = SEnd) /\
  (r <> "" -> target nd r <> "" -> target nd r <> END ->
     (exists j, first_later_named flow i j (target nd r) /\ next_spec ideal flow i r = SRun j) \/
     ((forall j, ~ later_named flow i j (target nd r)) /\ next_spec ideal flow i r = SFell)).
Proof. exact next_spec_declarative. Qed.
Print Assumptions C02_successor_is_declarative.

(** forward only: visited indices strictly increase, each is a filter node of
    the flow, and the successor of a node always lies strictly after it *)
Theorem C02_forward_only : forall flow res n act,
  let o := do_handle ideal res flow n act in
  Sorted.StronglySorted lt (map fst (visits o)) /\
  Forall (fun i => exists nd, nth_error flow i = Some nd /\ is_end nd = false) (map fst (visits o)) /\
  (forall i r j, next_spec ideal flow i r = SRun j -> i < j).
Proof. exact thm_forward_only. Qed.
Print Assumptions C02_forward_only.

(** nothing runs after END: when the run saw END there is a position k - an END
    node that was reached (everything that ran lies before it), or the filter
    that ran last and returned a result unmapped / mapped to END - such that no
    later position ran and the outcome does not depend on what follows k *)
Theorem C02_nothing_after_end : forall flow res n act,
  let o := do_handle ideal res flow n act in
  saw_end o = true ->
  exists k nd, nth_error flow k = Some nd /\
    ((is_end nd = true /\ Forall (fun v => fst v < k) (visits o)) \/
     (is_end nd = false /\ (exists a, In (k, a) (visits o)) /\ result o <> "" /\
      (target nd (result o) = "" \/ target nd (result o) = END))) /\
    Forall (fun v => fst v <= k) (visits o) /\
    forall tail', do_handle ideal res (firstn (S k) flow ++ tail') n act = o.
Proof. exact thm_nothing_after_end. Qed.
Print Assumptions C02_nothing_after_end.

(** the pipeline result is the result of the last filter run ("" if none ran) *)
Theorem C02_result_is_last_filter_result : forall flow res n act,
  let o := do_handle ideal res flow n act in
  ninv o = n + List.length (visits o) /\
  result o = match List.length (visits o) with 0 => "" | S k => res (n + k) end.
Proof. exact thm_result_is_last. Qed.
Print Assumptions C02_result_is_last_filter_result.

(** every filter ran with its node's configured namespace active *)
Theorem C02_namespace_per_node : forall flow res n act,
  let o := do_handle ideal res flow n act in
  Forall (fun v => exists nd, nth_error flow (fst v) = Some nd /\ is_end nd = false /\ snd v = eff_ns nd)
         (visits o).
Proof. exact thm_namespace_per_node. Qed.
Print Assumptions C02_namespace_per_node.

(** before / main / after: each flow runs under the same rules; an END in any of
    them stops everything, otherwise the visits are concatenated *)
Theorem C02_before_after : forall res before main after n act,
  let ob := side_run ideal res before n act in
  let om := do_handle ideal res main (n_after ob n) (act_after ob act) in
  let oa := side_run ideal res after (ninv om) (active om) in
  let h := hba ideal res before main after n act in
  (ended ob = true ->
     hvisits h = tagv_opt 0 ob /\ hsaw_end h = true /\ hresult h = res_after ob "" /\ hninv h = n_after ob n) /\
  (ended ob = false -> saw_end om = true ->
     hvisits h = tagv_opt 0 ob ++ tagv 1 om /\ hsaw_end h = true /\ hresult h = result om /\ hninv h = ninv om) /\
  (ended ob = false -> saw_end om = false ->
     hvisits h = tagv_opt 0 ob ++ tagv 1 om ++ tagv_opt 2 oa /\ hsaw_end h = ended oa /\
     hresult h = res_after oa (result om) /\ hninv h = n_after oa (ninv om)).
Proof. exact thm_before_after. Qed.
Print Assumptions C02_before_after.

(** with valid before and main flows the overall result is the result of the
    last filter run in any of the three flows *)
Theorem C02_before_after_result : forall kinds res (before : option (list decl * list node)) dm main after n act,
  valid_opt kinds before -> validate kinds dm main = true ->
  let h := hba ideal res (option_map snd before) main after n act in
  hninv h = n + List.length (hvisits h) /\
  hresult h = match List.length (hvisits h) with 0 => "" | S k => res (n + k) end.
Proof. exact thm_before_after_result. Qed.
Print Assumptions C02_before_after_result.

(** Spec.Validate accepts exactly the specs whose filter names are distinct,
    not reserved and well-formed, whose filter nodes name declared filters, whose
    jumpIf keys are results declared by the filter's kind and whose targets are
    END or the name of exactly one later filter node *)
Theorem C02_validate_characterisation : forall kinds ds flow,
  validate kinds ds flow = true <-> (ValidDecls kinds ds /\ ValidFlow kinds ds flow).
Proof. exact validate_characterisation. Qed.
Print Assumptions C02_validate_characterisation.

(** validation is sound for the run time: in a valid flow no step ever falls off
    the end with a pending jump, and a mapped result jumps to THE unique later
    filter node of that name (which is also the first one) *)
Theorem C02_validate_sound_for_runtime : forall kinds ds flow,
  validate kinds ds flow = true ->
  (forall i nd r, nth_error flow i = Some nd -> is_end nd = false ->
     next_spec ideal flow i r <> SFell /\
     (r <> "" -> target nd r <> "" -> target nd r <> END ->
        exists j, next_spec ideal flow i r = SRun j /\ first_later_named flow i j (target nd r) /\
                  forall j', later_named flow i j' (target nd r) -> j' = j)) /\
  (forall res n act, fin_of (do_handle ideal res flow n act) <> SFell).
Proof. exact thm_validate_sound. Qed.
Print Assumptions C02_validate_sound_for_runtime.

(** filter reuse: nodes naming the same filter (under whatever aliases) are bound
    to the same instance, and a flow that reuses one declared filter under any
    list of aliases / namespaces is accepted *)
Theorem C02_reuse_ok : forall kinds ds,
  (forall flow, validate kinds ds flow = true ->
     forall i j ndi ndj, nth_error flow i = Some ndi -> nth_error flow j = Some ndj ->
       is_end ndi = false -> is_end ndj = false -> fname ndi = fname ndj ->
       bound ds ndi = Some (fname ndi) /\ bound ds ndj = Some (fname ndi)) /\
  (forall d (ans : list (string * string)), validate kinds ds [] = true -> In d ds ->
     validate kinds ds (map (reuse_node (dname d)) ans) = true).
Proof. exact thm_reuse_ok. Qed.
Print Assumptions C02_reuse_ok.

(** the per-run property checker (model/PipelineCheck.v) is sound: its validity
    oracle [validspec_b] decides exactly [validate], and every observed trace
    accepted by [walk_obs] is, entry by entry, a reference walk under the
    observed results, stopping in the same status *)
Theorem C02_checker_sound :
  (forall k s, validspec_b k s = validate k (s_decls s) (s_flow s)) /\
  (forall E (matches : node -> E -> bool) (eres : E -> string) flow (res : nat -> string)
          (es : list E) s n last fin rest,
     (forall k e, nth_error es k = Some e -> res (n + k) = eres e) ->
     walk_obs matches eres flow s es = Some (fin, rest) ->
     exists v consumed r,
       RefWalk ideal flow res n s last v r fin (n + List.length v) /\
       es = consumed ++ rest /\
       Forall2 (fun j e => exists nd, nth_error flow j = Some nd /\ matches nd e = true) v consumed).
Proof. exact (conj validspec_b_validate (@walk_obs_sound)). Qed.
Print Assumptions C02_checker_sound.

(** known finding KF-C02-end-alias-jump-target: with the quirk flag on (the
    behaviour of the unchanged code) a spec accepted by validation ends on an
    aliased END node instead of reaching the node its jumpIf names *)
Theorem C02_refuted_q_end_alias_target :
  exists kinds ds flow res,
    validate kinds ds flow = true /\
    next_spec ideal flow 0 (res 0) = SRun 2 /\
    map fst (visits (do_handle ideal res flow 0 DEFAULT_NS)) = [0; 2] /\
    next_spec quirky flow 0 (res 0) = SEnd /\
    map fst (visits (do_handle quirky res flow 0 DEFAULT_NS)) = [0] /\
    saw_end (do_handle quirky res flow 0 DEFAULT_NS) = true.
Proof. exact thm_refuted_q_end_alias_target. Qed.
Print Assumptions C02_refuted_q_end_alias_target.

(** non-vacuity: a concrete valid spec (reuse, aliases, a skipped END node,
    namespaces) and its runs; concrete invalid specs *)
Example C02_nonvacuous :
  validate nv_kinds nv_decls nv_flow = true /\
  visits (do_handle ideal nv_res nv_flow 0 DEFAULT_NS) = [(0, "DEFAULT"); (3, "n2"); (5, "DEFAULT")] /\
  saw_end (do_handle ideal (fun _ => "r1") nv_flow 0 DEFAULT_NS) = true /\
  hvisits (hba ideal (fun _ => "r2") (Some nv_flow) nv_flow (Some nv_flow) 0 DEFAULT_NS) = [(0, 0, "DEFAULT")].
Proof. vm_compute. repeat split; reflexivity. Qed.
