(** C02 - property theorems only (being filled in). *)
From EG.lib Require Import Base.
From EG.model Require Import Pipeline.
From EG.proofs Require Import PipelineProofs.
