(** C08 - property theorems only. Each is closed by [exact] of a lemma proved in
    proofs/CBProofs*.v.  Model: model/CB.v ([cb_*] = the Go code's ring buffers and
    arithmetic, [sp_*] = the contract automaton over the log of recorded results). *)
From EG.lib Require Import Base.
From EG.model Require Import CB CBCheck.
From EG.proofs Require Import CBProofsWin CBProofsRef CBProofs CBProofsChk CBProofsSound CBProofsBurst.
Open Scope Z_scope.

(** *** refinement: ring buffers = abstract views, concrete breaker = automaton *)

(** after ANY sequence of pushes the count-based ring's running totals are the counts over
    the last [n] results *)
Theorem cb_count_window_refines : forall (n : nat) (rs : list res),
  (1 <= n)%nat ->
  exists w, cw_pushes (cw_new (Z.of_nat n)) rs = Some w /\
    cw_total w = Z.of_nat (List.length (firstn n (rev rs))) /\
    cw_slow w = cnt is_slow (firstn n (rev rs)) /\
    cw_fail w = cnt is_fail (firstn n (rev rs)).
Proof. exact count_window_refines. Qed.
Print Assumptions cb_count_window_refines.

(** after ANY sequence of pushes at non-decreasing times (evictions included) the time-based
    ring's running totals are the counts over the results of the last [n] seconds *)
Theorem cb_time_window_refines : forall (n : nat) (t0 : Z) (ps : list (Z * res)) (now : Z) (r : res),
  (1 <= n)%nat -> mono_times t0 (ps ++ [(now, r)]) ->
  exists w, tw_pushes (tw_new (Z.of_nat n) t0) (ps ++ [(now, r)]) = Some w /\
    let v := view (KTime (Z.of_nat n)) (sec_of now) (log_of (ps ++ [(now, r)])) in
    tw_total w = Z.of_nat (List.length v) /\ tw_slow w = cnt is_slow v /\ tw_fail w = cnt is_fail v.
Proof. exact time_window_refines. Qed.
Print Assumptions cb_time_window_refines.

(** the concrete breaker and the automaton show the same (permitted|panicked, state, stateID)
    at every step of every history with a non-decreasing clock ([bound] = 2^25) *)
Theorem cb_refines_spec : forall pol t0 ops,
  mono t0 ops ->
  p_perm pol < bound -> (p_time pol = false -> p_size pol < bound) ->
  (p_time pol = true -> Z.of_nat (List.length ops) < bound) ->
  cb_run pol (cb_new pol t0) ops = sp_run pol (sp_new pol t0) ops.
Proof. exact refines_spec. Qed.
Print Assumptions cb_refines_spec.

(** every state reachable by any history is well formed (window kind fixed by the state) *)
Theorem C08_reachable_well_formed : forall pol t0 ops, sp_wf pol (sp_final pol (sp_new pol t0) ops).
Proof. intros. apply sp_wf_final, sp_wf_new. Qed.
Print Assumptions C08_reachable_well_formed.

(** *** the clauses *)

(** while CLOSED every call passes (and nothing changes) *)
Theorem C08_closed_passes : forall pol now s,
  s_state s = Closed -> sp_acquire pol now s = (true, s).
Proof. exact closed_passes. Qed.
Print Assumptions C08_closed_passes.

(** after a result is recorded in CLOSED: OPEN iff at least minimumNumberOfCalls results are in
    the sliding window (last N results / results of the last N seconds of this epoch) and the
    failure rate or the slow rate (floor of 100*k/total) is at or above its threshold *)
Theorem C08_opens_at_threshold : forall pol now r s,
  sp_wf pol s -> s_state s = Closed -> 0 < p_size pol ->
  let log' := (sec_of now, r) :: s_log s in
  let v := view (pol_kind pol) (sec_of now) log' in
  let n := Z.of_nat (List.length v) in
  let s' := snd (sp_record pol now (s_id s) r s) in
  fst (sp_record pol now (s_id s) r s) = false /\
  (s_state s' = Open <->
     p_min pol <= n /\ (p_fthr pol <= 100 * cnt is_fail v / n \/ p_sthr pol <= 100 * cnt is_slow v / n)) /\
  (s_state s' = Open -> s_id s' = s_id s + 1 /\ s_transit s' = now) /\
  (s_state s' <> Open -> s' = sp_set_log s log').
Proof. exact opens_at_threshold. Qed.
Print Assumptions C08_opens_at_threshold.

(** OPEN short-circuits every call, whatever else happens, until waitDurationInOpenState has
    elapsed since the transition *)
Theorem C08_open_short_circuits_until_wait : forall pol ops s,
  s_state s = Open -> (forall o, In o ops -> op_now o - s_transit s < p_wait pol) ->
  Forall2 (fun o ob => snd (fst ob) = Open /\ snd ob = s_id s /\ (is_acq o = true -> fst (fst ob) = false))
          ops (sp_run pol s ops) /\
  s_state (sp_final pol s ops) = Open /\ s_id (sp_final pol s ops) = s_id s /\
  s_transit (sp_final pol s ops) = s_transit s.
Proof. exact open_short_circuits. Qed.
Print Assumptions C08_open_short_circuits_until_wait.

(** the first call after the wait enters HALF_OPEN (new id, empty log, count window of size
    permitted) and is itself the first trial *)
Theorem C08_wait_elapsed_enters_half_open : forall pol now s,
  s_state s = Open -> p_wait pol <= now - s_transit s ->
  sp_acquire pol now s = ((0 <? p_perm pol), half_open_entry pol now s).
Proof. exact acq_open_elapsed. Qed.
Print Assumptions C08_wait_elapsed_enters_half_open.

(** in a half-open epoch, over ANY continuation, the acquisitions made while the epoch lasts are
    admitted exactly while fewer than [permitted] have been admitted ([s_trials] = 0 at entry:
    exactly the first [permitted] ones) *)
Theorem C08_half_open_admits_first_permitted : forall pol ops s i b,
  s_state s = HalfOpen ->
  nth_error (epoch_admits pol (s_id s) s ops) i = Some b ->
  b = (s_trials s + Z.of_nat i <? p_perm pol).
Proof. exact half_open_admits. Qed.
Print Assumptions C08_half_open_admits_first_permitted.

(** the trials' recorded results decide: below min(minimum, permitted) results nothing happens;
    from then on a rate at/above threshold reopens, otherwise the breaker closes *)
Theorem C08_trials_decide : forall pol now r s,
  sp_wf pol s -> s_state s = HalfOpen -> 0 < p_perm pol ->
  let log' := (sec_of now, r) :: s_log s in
  let v := view (KCount (p_perm pol)) (sec_of now) log' in
  let n := Z.of_nat (List.length v) in
  let tripped := p_fthr pol <= 100 * cnt is_fail v / n \/ p_sthr pol <= 100 * cnt is_slow v / n in
  let s' := snd (sp_record pol now (s_id s) r s) in
  fst (sp_record pol now (s_id s) r s) = false /\
  (n < Z.min (p_min pol) (p_perm pol) -> s' = sp_set_log s log') /\
  (Z.min (p_min pol) (p_perm pol) <= n -> tripped -> s' = opened now s log') /\
  (Z.min (p_min pol) (p_perm pol) <= n -> ~ tripped -> s' = recovered pol now s).
Proof. exact trials_decide. Qed.
Print Assumptions C08_trials_decide.

(** a result carrying another id than the current one leaves the whole state unchanged *)
Theorem C08_stale_result_no_effect : forall pol now id r s,
  id <> s_id s -> sp_record pol now id r s = (false, s).
Proof. exact stale_ignored_local. Qed.
Print Assumptions C08_stale_result_no_effect.

(** ... and the id of a state is never current again once ANY transition has happened: a result
    of a call admitted in an earlier state (id obtained at [s], any history [ops] in which the
    observed state or id differed at least once) is ignored *)
Theorem C08_stale_results_ignored : forall pol ops s now r,
  (exists ob, In ob (sp_run pol s ops) /\ (snd (fst ob) <> s_state s \/ snd ob <> s_id s)) ->
  sp_record pol now (s_id s) r (sp_final pol s ops) = (false, sp_final pol s ops).
Proof. exact stale_results_ignored. Qed.
Print Assumptions C08_stale_results_ignored.

(** every step either leaves (id, state, transit time) alone or moves to a different state with
    id + 1 and transit time = the step's clock *)
Theorem C08_id_tracks_transitions : forall pol o s,
  unchanged s (snd (sp_step pol o s)) \/ transited (op_now o) s (snd (sp_step pol o s)).
Proof. exact step_id. Qed.
Print Assumptions C08_id_tracks_transitions.

(** maxWaitDurationInHalfOpenState, when set, reopens a stalled half-open breaker; when not set
    (or not yet exceeded) the breaker keeps short-circuiting in HALF_OPEN *)
Theorem C08_max_wait_reopens : forall pol now s,
  s_state s = HalfOpen -> p_perm pol <= s_trials s ->
  (0 < p_maxwait pol -> p_maxwait pol < now - s_transit s ->
     sp_acquire pol now s = (false, reopened now s)) /\
  (p_maxwait pol <= 0 \/ now - s_transit s <= p_maxwait pol ->
     sp_acquire pol now s = (false, s)).
Proof. exact max_wait_reopens. Qed.
Print Assumptions C08_max_wait_reopens.

(** *** the trace checker used as [prop] accepts every trace of the automaton and of the
    concrete model, for every policy and history *)
Theorem C08_checker_accepts_spec : forall pol t0 ops,
  chk_run pol (chk_init t0) ops (sp_run pol (sp_new pol t0) ops) = true.
Proof. exact checker_accepts_spec. Qed.
Print Assumptions C08_checker_accepts_spec.

Theorem C08_checker_accepts_model : forall pol t0 ops,
  mono t0 ops ->
  p_perm pol < bound -> (p_time pol = false -> p_size pol < bound) ->
  (p_time pol = true -> Z.of_nat (List.length ops) < bound) ->
  chk_run pol (chk_init t0) ops (cb_run pol (cb_new pol t0) ops) = true.
Proof. exact checker_accepts_model. Qed.
Print Assumptions C08_checker_accepts_model.


(** *** SOUNDNESS of the trace checker: what acceptance of an observed history means.

    History-derived notions (proofs/CBProofsSound.v; defined from the raw history, newest
    step first, not by running the checker): [cur] = (state, id) shown by the newest step
    ((CLOSED,1) initially); [entry] = the newest step whose shown (state,id) differs from its
    predecessor's, [entered] its clock (creation time in the initial epoch); [body] = the
    steps after it; [epoch_results] = the results recorded without panic with the current id
    in [body]; [trials] = acquisitions admitted in the epoch (entry step included).
    [history_before k] = the first k steps.  [C08_epoch_split] / [C08_epoch_results_spec]
    characterise these with explicit quantifiers. *)
Theorem C08_epoch_split : forall rp,
  (forall x, In x (body rp) -> shown x = cur rp) /\
  match entry rp with
  | Some e => exists older, rp = body rp ++ e :: older /\ shown e = cur rp /\ shown e <> cur older
  | None => rp = body rp /\ cur rp = (Closed, 1)
  end.
Proof. exact epoch_split. Qed.
Print Assumptions C08_epoch_split.

Theorem C08_epoch_results_spec : forall pol id l e,
  In e (results pol id l) <->
  exists now err dur s i, In (ORec now id err dur, (false, s, i)) l /\ e = (sec_of now, classify pol err dur).
Proof. exact results_spec. Qed.
Print Assumptions C08_epoch_results_spec.

(** every step of an accepted history satisfies its clause ([step_clause]: per state before
    the step, what flag / next (state, id) it may show) *)
Theorem C08_checker_sound : forall pol t0 ops obs,
  chk_run pol (chk_init t0) ops obs = true ->
  List.length ops = List.length obs /\
  forall k o ob, nth_error ops k = Some o -> nth_error obs k = Some ob ->
    step_clause pol t0 (history_before k ops obs) o ob.
Proof. exact checker_sound. Qed.
Print Assumptions C08_checker_sound.

(** a call is short-circuited only while OPEN, or HALF_OPEN with the permitted number of
    trials already admitted; while CLOSED every call passes; OPEN rejects until the wait elapsed *)
Theorem C08_sound_short_circuit_only_when_open : forall pol t0 ops obs,
  chk_run pol (chk_init t0) ops obs = true ->
  forall k now flag s' i',
  nth_error ops k = Some (OAcq now) -> nth_error obs k = Some (flag, s', i') ->
  let h := history_before k ops obs in
  (fst (cur h) = Closed -> flag = true /\ (s', i') = cur h) /\
  (flag = false -> fst (cur h) = Open \/ (fst (cur h) = HalfOpen /\ p_perm pol <= trials h)) /\
  (fst (cur h) = Open -> now - entered t0 h < p_wait pol -> flag = false /\ (s', i') = cur h).
Proof. exact sound_short_circuit_only_when_open. Qed.
Print Assumptions C08_sound_short_circuit_only_when_open.

(** a CLOSED breaker opens at a step exactly when that step records, with the current id, a
    result that brings the window (last slidingWindowSize results / results of the last
    window seconds, of this epoch) to >= minimumNumberOfCalls with a rate >= its threshold *)
Theorem C08_sound_opens_exactly_at_threshold : forall pol t0 ops obs,
  chk_run pol (chk_init t0) ops obs = true ->
  forall k o flag s' i', 0 < p_size pol ->
  nth_error ops k = Some o -> nth_error obs k = Some (flag, s', i') ->
  let h := history_before k ops obs in
  fst (cur h) = Closed ->
  (s' = Open <->
   exists now id err dur, o = ORec now id err dur /\ id = snd (cur h) /\
     let v := view (pol_kind pol) (sec_of now) ((sec_of now, classify pol err dur) :: epoch_results pol h) in
     p_min pol <= Z.of_nat (List.length v) /\ tripped pol v) /\
  (s' = Open -> i' = snd (cur h) + 1 /\ flag = false) /\
  (s' <> Open -> (s', i') = cur h).
Proof. exact sound_opens_exactly_at_threshold. Qed.
Print Assumptions C08_sound_opens_exactly_at_threshold.

(** after the wait the next call enters HALF_OPEN as the first trial; in HALF_OPEN a call is
    admitted iff fewer than [permitted] were admitted in the epoch; maxWait reopens *)
Theorem C08_sound_half_open_trials : forall pol t0 ops obs,
  chk_run pol (chk_init t0) ops obs = true ->
  forall k now flag s' i',
  nth_error ops k = Some (OAcq now) -> nth_error obs k = Some (flag, s', i') ->
  let h := history_before k ops obs in
  (fst (cur h) = Open -> p_wait pol <= now - entered t0 h ->
     flag = (0 <? p_perm pol) /\ (s', i') = (HalfOpen, snd (cur h) + 1)) /\
  (fst (cur h) = HalfOpen ->
     (flag = true <-> trials h < p_perm pol) /\
     (flag = true -> (s', i') = cur h) /\
     (flag = false -> maxwait_over pol t0 h now -> (s', i') = (Open, snd (cur h) + 1)) /\
     (flag = false -> ~ maxwait_over pol t0 h now -> (s', i') = cur h)).
Proof. exact sound_half_open_trials. Qed.
Print Assumptions C08_sound_half_open_trials.

(** ... and the trials' results decide *)
Theorem C08_sound_trials_decide : forall pol t0 ops obs,
  chk_run pol (chk_init t0) ops obs = true ->
  forall k now id err dur flag s' i', 0 < p_perm pol ->
  nth_error ops k = Some (ORec now id err dur) -> nth_error obs k = Some (flag, s', i') ->
  let h := history_before k ops obs in
  fst (cur h) = HalfOpen -> id = snd (cur h) ->
  let v := view (KCount (p_perm pol)) (sec_of now) ((sec_of now, classify pol err dur) :: epoch_results pol h) in
  let need := Z.min (p_min pol) (p_perm pol) in
  flag = false /\
  (Z.of_nat (List.length v) < need -> (s', i') = cur h) /\
  (need <= Z.of_nat (List.length v) -> tripped pol v -> (s', i') = (Open, snd (cur h) + 1)) /\
  (need <= Z.of_nat (List.length v) -> ~ tripped pol v -> (s', i') = (Closed, snd (cur h) + 1)).
Proof. exact sound_trials_decide. Qed.
Print Assumptions C08_sound_trials_decide.

(** a result carrying an id that was shown at an earlier step [y] whose (state, id) the breaker
    has since left changes nothing and never enters the window *)
Theorem C08_sound_stale_results_no_effect : forall pol t0 ops obs,
  chk_run pol (chk_init t0) ops obs = true ->
  forall k now id err dur flag s' i' y,
  nth_error ops k = Some (ORec now id err dur) -> nth_error obs k = Some (flag, s', i') ->
  In y (history_before k ops obs) -> snd (shown y) = id -> shown y <> cur (history_before k ops obs) ->
  id <> snd (cur (history_before k ops obs)) /\ flag = false /\ (s', i') = cur (history_before k ops obs) /\
  epoch_results pol (history_before (S k) ops obs) = epoch_results pol (history_before k ops obs).
Proof. exact sound_stale_results_no_effect. Qed.
Print Assumptions C08_sound_stale_results_no_effect.

(** the arithmetic shortcut of the "burst" group (many results within one second of a time-based
    window) is the unrolled fold: under [burst_guard], k+1 further recorded successes equal one
    [tw_add] of k+1 on the bucket of that second and on the window total *)
Theorem C08_burst_fold : forall pol now id (k : nat) c w i,
  burst_guard pol now id c = Some (w, i) ->
  Nat.iter (S k) (rec1 pol now id) c = set_win c (WT (tw_add i (Z.of_nat (S k)) w)).
Proof. exact burst_fold. Qed.
Print Assumptions C08_burst_fold.

(** *** wrapper and pool *)

(** an admitted call records exactly one result, a failure iff the handler returned an error or
    panicked (deferred record); a rejected call records nothing and does not run the handler *)
Theorem C08_wrapper_one_record_per_call : forall pol now h c,
  wrap_records h = [match h with HOk => false | _ => true end] /\
  let '(ok, c1) := cb_acquire pol now c in
  wrap_call pol now h c =
  if ok then (wrap_result h,
              snd (cb_record pol now (c_id c1) (classify pol (match h with HOk => false | _ => true end) 0) c1))
  else (WShort, c1).
Proof. intros. split; [apply wrapper_one_record | apply wrapper_call_shape]. Qed.
Print Assumptions C08_wrapper_one_record_per_call.

(** ... whatever the state of the call's context *)
Theorem C08_wrapper_context_independent : forall pol now cx h c,
  wrap_call_ctx pol now cx h c = wrap_call pol now h c /\
  wrap_records h = [match h with HOk => false | _ => true end] /\
  (fst (cb_acquire pol now c) = true ->
     snd (wrap_call_ctx pol now cx h c) =
     snd (cb_record pol now (c_id (snd (cb_acquire pol now c)))
            (classify pol (match h with HOk => false | _ => true end) 0) (snd (cb_acquire pol now c)))) /\
  (fst (cb_acquire pol now c) = false ->
     wrap_call_ctx pol now cx h c = (WShort, snd (cb_acquire pol now c))).
Proof. exact wrapper_context_independent. Qed.
Print Assumptions C08_wrapper_context_independent.

(** breakers created from one policy object (one per CreateWrapper call / server pool) are
    independent: instance [k] in a joint run behaves as when run alone on its own calls *)
Theorem C08_instances_independent : forall pol k idx calls f,
  pick k idx (wrapm_run pol f idx calls) = wrap_run pol (f k) (pick k idx calls).
Proof. exact instances_independent. Qed.
Print Assumptions C08_instances_independent.

(** a short-circuited call is answered 503 / shortCircuited and runs no handler (contacts no server) *)
Theorem C08_short_circuit_is_503 : forall pol now h c b,
  fst (cb_acquire pol now c) = false ->
  fst (wrap_call pol now h c) = WShort /\
  snd (wrap_call pol now h c) = snd (cb_acquire pol now c) /\
  pool_result (fst (wrap_call pol now h c)) b = (503, "shortCircuited"%string) /\
  wrap_handler_runs (fst (wrap_call pol now h c)) = 0.
Proof. exact short_circuit_503. Qed.
Print Assumptions C08_short_circuit_is_503.

(** ... for every request shape: stream or buffered body, with or without a retry policy *)
Theorem C08_short_circuit_every_shape : forall pol now h c retry stream b,
  (fst (cb_acquire pol now c) = false -> pool_contacts retry stream (fst (wrap_call pol now h c)) b = 0) /\
  (fst (cb_acquire pol now c) = true -> 1 <= pool_contacts retry stream (fst (wrap_call pol now h c)) b).
Proof. exact short_circuit_every_shape. Qed.
Print Assumptions C08_short_circuit_every_shape.

(** *** non-vacuity: a concrete history that opens at the exact 50% boundary (time window,
    minimum 2), short-circuits, re-enters HALF_OPEN after the wait, admits exactly 2 trials,
    ignores a stale result and recovers; the hypotheses of the theorems above hold along it *)
Definition ex_ms : Z := 1000000.
Definition ex_pol : policy :=
  {| p_fthr := 50; p_sthr := 100; p_time := true; p_size := 2; p_perm := 2; p_min := 2;
     p_slowdur := 1000 * ex_ms; p_maxwait := 5000 * ex_ms; p_wait := 3000 * ex_ms |}.
Definition ex_ops : list op :=
  [OAcq 700; ORec (100 * ex_ms) 1 true 0; OAcq (150 * ex_ms); ORec (200 * ex_ms) 1 false 0;
   OAcq (1000 * ex_ms); ORec (1100 * ex_ms) 1 true 0; OAcq (3200 * ex_ms); OAcq (3300 * ex_ms);
   OAcq (3400 * ex_ms); ORec (3500 * ex_ms) 3 false 0; ORec (3600 * ex_ms) 2 true 0;
   ORec (3700 * ex_ms) 3 false (2000 * ex_ms); OAcq (3800 * ex_ms)].

Example C08_nonvacuous :
  mono 500 ex_ops /\
  map obs_code (cb_run ex_pol (cb_new ex_pol 500) ex_ops) =
    [(1, 1, 1); (0, 1, 1); (1, 1, 1); (0, 3, 2); (0, 3, 2); (0, 3, 2); (1, 2, 3); (1, 2, 3);
     (0, 2, 3); (0, 2, 3); (0, 2, 3); (0, 1, 4); (1, 1, 4)] /\
  (let s := sp_final ex_pol (sp_new ex_pol 500) (firstn 3 ex_ops) in
   sp_wf ex_pol s /\ s_state s = Closed /\ 0 < p_size ex_pol /\
   s_state (snd (sp_record ex_pol (200 * ex_ms) (s_id s) RSucc s)) = Open) /\
  (let s := sp_final ex_pol (sp_new ex_pol 500) (firstn 7 ex_ops) in
   s_state s = HalfOpen /\ s_trials s = 1 /\
   epoch_admits ex_pol (s_id s) s (skipn 7 ex_ops) = [true; false]) /\
  (let s := sp_final ex_pol (sp_new ex_pol 500) (firstn 4 ex_ops) in
   s_state s = Open /\ p_wait ex_pol <= 3200 * ex_ms - s_transit s).
Proof.
  split; [cbn; unfold ex_ms; lia|]. split; [vm_compute; reflexivity|].
  split; [|split].
  - cbv zeta. split; [vm_compute; reflexivity|]. split; [vm_compute; reflexivity|].
    split; [vm_compute; reflexivity|]. vm_compute. reflexivity.
  - cbv zeta. split; [vm_compute; reflexivity|]. split; vm_compute; reflexivity.
  - cbv zeta. split; [vm_compute; reflexivity|]. vm_compute. discriminate.
Qed.

(** non-vacuity of the soundness theorems: the example history is accepted; position 3 is the
    record that opens the breaker from CLOSED (window view of 2 results, 50% failures, minimum 2),
    position 4 a call short-circuited while OPEN, position 5 a stale result (id 1, shown at
    position 0, state since left), position 6 the call entering HALF_OPEN, position 8 a call
    short-circuited in HALF_OPEN with both permits used, position 11 the deciding trial *)
Example C08_checker_sound_nonvacuous :
  let obs := sp_run ex_pol (sp_new ex_pol 500) ex_ops in
  let h k := history_before k ex_ops obs in
  chk_run ex_pol (chk_init 500) ex_ops obs = true /\
  0 < p_size ex_pol /\ 0 < p_perm ex_pol /\
  (cur (h 3%nat) = (Closed, 1) /\ nth_error obs 3%nat = Some (false, Open, 2) /\
   epoch_results ex_pol (h 3%nat) = [(0, RFail)]) /\
  (cur (h 4%nat) = (Open, 2) /\ nth_error obs 4%nat = Some (false, Open, 2) /\ entered 500 (h 4%nat) = 200 * ex_ms) /\
  (nth_error ex_ops 5%nat = Some (ORec (1100 * ex_ms) 1 true 0) /\ In (OAcq 700, (true, Closed, 1)) (h 5%nat) /\
   (Closed, 1) <> cur (h 5%nat)) /\
  (cur (h 6%nat) = (Open, 2) /\ nth_error obs 6%nat = Some (true, HalfOpen, 3)) /\
  (cur (h 8%nat) = (HalfOpen, 3) /\ trials (h 8%nat) = 2 /\ nth_error obs 8%nat = Some (false, HalfOpen, 3)) /\
  (cur (h 11%nat) = (HalfOpen, 3) /\ nth_error obs 11%nat = Some (false, Closed, 4) /\
   epoch_results ex_pol (h 11%nat) = [(3, RSucc)]).
Proof.
  cbv zeta. split; [vm_compute; reflexivity|]. split; [vm_compute; reflexivity|].
  split; [vm_compute; reflexivity|].
  repeat split; try (vm_compute; reflexivity); try (vm_compute; intuition congruence).
Qed.
