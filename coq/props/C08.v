(** C08 - property theorems only. *)
From EG.lib Require Import Base.
From EG.model Require Import CB.
From EG.proofs Require Import CBProofs.
Open Scope Z_scope.

Theorem C08_closed_passes : forall pol now s,
  s_state s = Closed -> sp_acquire pol now s = (true, s).
Proof. exact closed_passes. Qed.
Print Assumptions C08_closed_passes.

Theorem C08_stale_results_ignored : forall pol now id r s,
  id <> s_id s -> sp_record pol now id r s = (false, s).
Proof. exact stale_ignored_local. Qed.
Print Assumptions C08_stale_results_ignored.
