(** C06 - property theorems only. Each is closed by [exact] of a lemma proved in
    proofs/ValidatorProofs*.v.  Theorems about decisions are stated for [ideal]
    (no defect flag) unless they hold for every flag setting ([q] quantified).
    Cryptography is idealised: [oracle_ideal] = HMAC injective in (key, message),
    SHA-256 injective with newline-free (hex) output. *)
From EG.lib Require Import Base.
From EG.model Require Import Validator.
From EG.proofs Require Import ValidatorProofsStr ValidatorProofs ValidatorProofsWit.
Open Scope string_scope.

(** the canonical request encoding determines the covered tuple (method, canonical URI,
    sorted query pairs, signed header names and canonical values, body hash) *)
Theorem canonical_request_injective : forall c1 c2,
  cov_wf c1 -> cov_wf c2 -> canonical_request c1 = canonical_request c2 -> c1 = c2.
Proof. exact canonical_request_inj. Qed.
Print Assumptions canonical_request_injective.

(** completeness: a request that carries the tag the reference signer computes over the
    request's own covered tuple - the buffered payload included - with a known key and inside
    the ttl / expiry window is accepted *)
Theorem C06_sig_complete : forall o c r now p secret,
  init_from_request o (s_lit c) r = Some p -> time_ok c p now = true ->
  alookup (p_keyid p) (s_keys c) = Some secret ->
  p_tag p = expected_tag o (s_lit c) p secret (covered_of ideal o c p r) ->
  sig_ok ideal o c r now = true.
Proof. exact sig_complete. Qed.
Print Assumptions C06_sig_complete.

(** soundness: an accepted request has parsable signing parameters, is inside the window, names a
    known key and carries exactly the MAC of its own covered tuple (for [ideal]: the body that is
    forwarded) *)
Theorem C06_sig_sound : forall q o c r now,
  sig_ok q o c r now = true ->
  exists p secret,
    init_from_request o (s_lit c) r = Some p /\ time_ok c p now = true /\
    alookup (p_keyid p) (s_keys c) = Some secret /\
    p_tag p = expected_tag o (s_lit c) p secret (covered_of q o c p r).
Proof. exact sig_sound. Qed.
Print Assumptions C06_sig_sound.

(** every mutation is rejected: two accepted requests that carry the same tag have the same covered
    tuple; so a request obtained from an accepted one by changing a covered part while keeping the
    tag is not accepted.  [req_wf]: method, Host and header values contain no line feed (guaranteed by
    the HTTP parser); for presigned URLs the SignedHeaders query value must not contain one either *)
Theorem C06_sig_mutation_rejected : forall o c r1 r2 now1 now2 p1 p2,
  oracle_ideal o -> s_keys c <> [] -> req_wf r1 -> req_wf r2 ->
  init_from_request o (s_lit c) r1 = Some p1 -> init_from_request o (s_lit c) r2 = Some p2 ->
  (p_presign p1 = true -> nonl (p_signed p1)) -> (p_presign p2 = true -> nonl (p_signed p2)) ->
  sig_ok ideal o c r1 now1 = true -> sig_ok ideal o c r2 now2 = true ->
  p_tag p1 = p_tag p2 ->
  covered_of ideal o c p1 r1 = covered_of ideal o c p2 r2.
Proof. exact sig_mutation_rejected. Qed.
Print Assumptions C06_sig_mutation_rejected.

(** ... and equal covered tuples mean: same method, same escaped path, same sorted query, same signed
    header list with the same canonical values, same body (unless excludeBody is configured) *)
Theorem C06_covered_parts : forall o c p1 r1 p2 r2,
  oracle_ideal o ->
  covered_of ideal o c p1 r1 = covered_of ideal o c p2 r2 ->
  r_method r1 = r_method r2 /\
  (r_escpath r1 <> EmptyString -> r_escpath r2 <> EmptyString -> r_escpath r1 = r_escpath r2) /\
  norm_query (canon_query_map (s_lit c) p1 (r_query r1)) = norm_query (canon_query_map (s_lit c) p2 (r_query r2)) /\
  p_signed p1 = p_signed p2 /\
  (forall n, In n (split_on ";"%char (p_signed p1)) -> signed_header_value o r1 n = signed_header_value o r2 n) /\
  (s_exclude_body c = false -> r_payload r1 = r_payload r2).
Proof. exact covered_parts. Qed.
Print Assumptions C06_covered_parts.

(** the body hash that enters the canonical request during verification is the hash of the
    buffered payload (or the excludeBody marker): a payload hash announced in a header
    (X-Me-Content-Sha256) has no influence, whatever its value *)
Theorem C06_sig_body_hash_is_payload : forall o c r r',
  (r_payload r = r_payload r' -> body_hash ideal o c r = body_hash ideal o c r') /\
  body_hash ideal o c r = (if s_exclude_body c then "UNSIGNED-PAYLOAD" else o_sha o (r_payload r)).
Proof. exact (fun o c r r' => conj (body_hash_of_payload ideal o c r r') (body_hash_ideal o c r)). Qed.
Print Assumptions C06_sig_body_hash_is_payload.

(** JWT: accepted iff three segments, the header's alg is the configured HS algorithm, the claims
    are currently valid and the signature segment is exactly the MAC text of
    header.claims under the configured secret *)
Theorem C06_jwt_sound_complete : forall o c jnow tok,
  jwt_token_ok ideal o c jnow tok = true <->
  exists h cl s e i n,
    split_on "."%char tok = [h; cl; s] /\
    o_jhdr o h = Some (j_alg c) /\ is_hs (j_alg c) = true /\
    o_jclaims o cl = Some (e, i, n) /\ time_valid jnow (claim_value e) (claim_value i) (claim_value n) /\
    s = o_jmac o (j_alg c) (j_secret c) (h ++ "." ++ cl).
Proof. exact jwt_token_ok_iff. Qed.
Print Assumptions C06_jwt_sound_complete.

(** the token comes from the configured cookie when it is present and non-empty, else from
    "Authorization: Bearer " *)
Theorem C06_jwt_token_source : forall c r tok,
  jwt_token c r = Some tok <->
  (j_cookie c <> EmptyString /\ r_cookie r = Some tok /\ tok <> EmptyString) \/
  ((j_cookie c = EmptyString \/ r_cookie r = None \/ r_cookie r = Some EmptyString) /\
   mget "Authorization" (r_headers r) = bearer ++ tok).
Proof. exact jwt_token_source. Qed.
Print Assumptions C06_jwt_token_source.

(** changing token bytes: two accepted tokens that agree on header and claims, or on the signature
    segment, are the same token (MAC injective in the message) *)
Theorem C06_jwt_mutation_rejected : forall o c jnow tok tok' h cl s h' cl' s',
  (forall alg k m m', o_jmac o alg k m = o_jmac o alg k m' -> m = m') ->
  jwt_token_ok ideal o c jnow tok = true -> jwt_token_ok ideal o c jnow tok' = true ->
  split_on "."%char tok = [h; cl; s] -> split_on "."%char tok' = [h'; cl'; s'] ->
  (h = h' /\ cl = cl') \/ s = s' -> tok = tok'.
Proof. exact jwt_mutation. Qed.
Print Assumptions C06_jwt_mutation_rejected.

(** Basic: accepted iff the decoded credentials are user ":" password with a colon-free configured
    user and password = EVERYTHING after the first ':' equal to the configured one *)
Theorem C06_basic_exact : forall o users r,
  basic_ok ideal o users r = true <->
  exists b64 u p,
    mget "Authorization" (r_headers r) = basic_prefix ++ b64 /\
    o_b64std o b64 = Some (u ++ ":" ++ p) /\ nochar ":"%char u /\ alookup u users = Some p.
Proof. exact basic_ok_iff. Qed.
Print Assumptions C06_basic_exact.

Theorem C06_headers_exact : forall o r rules,
  headers_ok o r rules = true <->
  forall h, In h rules ->
    exists v rest, mget_all (o_ck o (h_key h)) (r_headers r) = v :: rest /\
      (In v (h_values h) \/ (h_regexp h <> EmptyString /\ o_re o (h_regexp h) v = true)).
Proof. exact headers_ok_iff. Qed.
Print Assumptions C06_headers_exact.

(** a request passes iff EVERY configured method accepts it *)
Theorem C06_all_methods_must_pass : forall q o cfg r now jnow,
  configured (c_sig cfg) (fun c => s_keys c <> []) ->
  (handle q o cfg r now jnow = Pass <->
   configured (c_headers cfg) (fun rules => headers_ok o r rules = true) /\
   configured (c_jwt cfg) (fun c => jwt_ok q o c r jnow = true) /\
   configured (c_sig cfg) (fun c => sig_ok q o c r now = true) /\
   configured (c_basic cfg) (fun users => basic_ok q o users r = true)).
Proof. exact handle_pass_iff. Qed.
Print Assumptions C06_all_methods_must_pass.

(** anything else is a rejection "invalid" with 400 (header rules) or 401 (the failing method);
    a panic only without a key store *)
Theorem C06_reject_is_invalid_4xx : forall q o cfg r now jnow,
  handle q o cfg r now jnow <> OracleMiss /\
  (handle q o cfg r now jnow = Panic -> exists c, c_sig cfg = Some c /\ s_keys c = []) /\
  forall st b, handle q o cfg r now jnow = Reject st b ->
    (st = 400%Z /\ b = 1%N /\ exists rules, c_headers cfg = Some rules /\ headers_ok o r rules = false) \/
    (st = 401%Z /\ b = 2%N /\ exists c, c_jwt cfg = Some c /\ jwt_ok q o c r jnow = false) \/
    (st = 401%Z /\ b = 3%N /\ exists c, c_sig cfg = Some c /\ sig_ok q o c r now = false) \/
    (st = 401%Z /\ b = 5%N /\ exists u, c_basic cfg = Some u /\ basic_ok q o u r = false).
Proof. exact reject_is_invalid_4xx. Qed.
Print Assumptions C06_reject_is_invalid_4xx.

(** Basic users kept in etcd: in every history of delivered user sets and requests, a request is
    judged against the user set in force, which after an update is exactly the delivered set - the
    empty one included, and then nobody is admitted *)
Theorem C06_basic_latest_users : forall q o alive init pre r post,
  etcd_run q o alive init (pre ++ EReq r :: post)%list =
  (etcd_run q o alive init pre ++
   handle q o (basic_cfg (current_users alive init pre)) r 0 0 ::
   etcd_run q o alive (current_users alive init pre) post)%list /\
  (forall l, current_users true init (pre ++ [EUpdate l])%list = users_of l) /\
  (forall u, basic_ok q o [] u = false).
Proof. exact basic_latest_users. Qed.
Print Assumptions C06_basic_latest_users.

(** several Validator instances / reload generations in one process: the verdict of a step depends on
    that step's instance configuration and request only (nothing carries over from earlier steps or other
    instances), and a step admitted by an instance with a jwt method carries the MAC of its token under
    THAT instance's secret and algorithm *)
Theorem C06_instances_independent : forall o pre s post c,
  configured (c_sig (vs_cfg s)) (fun sc => s_keys sc <> []) ->
  multi_run ideal o (pre ++ s :: post)%list = (multi_run ideal o pre ++ step_outcome ideal o s :: multi_run ideal o post)%list /\
  (step_outcome ideal o s = Pass -> c_jwt (vs_cfg s) = Some c ->
   exists tok h cl sg,
     jwt_token c (vs_req s) = Some tok /\ split_on "."%char tok = [h; cl; sg] /\
     o_jhdr o h = Some (j_alg c) /\ sg = o_jmac o (j_alg c) (j_secret c) (h ++ "." ++ cl)).
Proof. exact instances_independent. Qed.
Print Assumptions C06_instances_independent.

(** ** refutations: with one defect flag on, the property fails on a concrete request
       (injective oracle [toy], see proofs/ValidatorProofsWit.v) *)
Theorem C06_refuted_sig_verifies_drained_body :
  exists o cfg now r_tampered r_signed, oracle_ideal o /\
    handle q_sig o cfg r_tampered now 0 = Pass /\ handle ideal o cfg r_tampered now 0 = Reject 401 3 /\
    handle q_sig o cfg r_signed now 0 = Reject 401 3 /\ handle ideal o cfg r_signed now 0 = Pass.
Proof. exact (ex_intro _ toy (ex_intro _ wconfig (ex_intro _ 0%Z (ex_intro _ (wsent "" "{evil}")
         (ex_intro _ (wsent "{good}" "{good}") (conj toy_ideal refuted_sig)))))). Qed.
Print Assumptions C06_refuted_sig_verifies_drained_body.

Theorem C06_refuted_basic_split_all_colons :
  exists o cfg r_wrong r_right,
    handle q_basic o cfg r_wrong 0 0 = Pass /\ handle ideal o cfg r_wrong 0 0 = Reject 401 5 /\
    handle q_basic o cfg r_right 0 0 = Reject 401 5 /\ handle ideal o cfg r_right 0 0 = Pass.
Proof. exact (ex_intro _ toy (ex_intro _ wbasic_cfg (ex_intro _ (wbasic "bob:pa:zz")
         (ex_intro _ (wbasic "frank:pa:ss") refuted_basic)))). Qed.
Print Assumptions C06_refuted_basic_split_all_colons.

Theorem C06_refuted_jwt_sig_lenient_b64 :
  exists o cfg tok tok',
    handle ideal o cfg (wbearer tok) 0 0 = Pass /\ tok' <> tok /\
    handle q_jwt o cfg (wbearer tok') 0 0 = Pass /\ handle ideal o cfg (wbearer tok') 0 0 = Reject 401 2.
Proof. exact (ex_intro _ toy (ex_intro _ wjwt_cfg (ex_intro _ wtoken (ex_intro _ (wtoken ++ "=") refuted_jwt)))). Qed.
Print Assumptions C06_refuted_jwt_sig_lenient_b64.

(** non-vacuity: the hypotheses of the theorems above are satisfied by a concrete accepted request *)
Example C06_nonvacuous :
  oracle_ideal toy /\ req_wf (wsent "{good}" "{good}") /\ s_keys wcfg <> [] /\
  (exists p, init_from_request toy (s_lit wcfg) (wsent "{good}" "{good}") = Some p /\ nonl (p_signed p)) /\
  sig_ok ideal toy wcfg (wsent "{good}" "{good}") 0 = true /\
  sig_ok ideal toy wcfg (wsent "{good}" "{tampered}") 0 = false /\
  jwt_token_ok ideal toy wjwt 0 wtoken = true /\
  basic_ok ideal toy wusers (wbasic "carol:pässwörd") = true.
Proof. exact nonvacuous. Qed.

(** a fractional / exponent NumericDate counts with its whole second: 1600000000.5 and 1.6e9 *)
Example C06_claim_value_examples :
  claim_value (JNum 16000000005 (-1)) = Some 1600000000%Z /\ claim_value (JNum 16 8) = Some 1600000000%Z /\
  exp_ok 1700000000 (claim_value (JNum 16000000005 (-1))) = false /\
  notbefore_ok 1700000000 (claim_value (JNum 18 8)) = false /\ claim_value JAbsent = None.
Proof. vm_compute. repeat split; reflexivity. Qed.
