(** C07 - property theorems only. Each is closed by [exact] of a lemma proved in
    proofs/BodyProofs.v; nothing else lives here.

    Bodies are lists over an arbitrary byte type [A].  [fetch_list] is FetchPayload,
    [src_list] what net/http hands to it for a message framed as [EncCL d] (Content-Length),
    [EncChunked term], [EncNone], [EncClose]; [serve_list cfg req status resp] is the whole
    exchange client -> mux -> Proxy -> backend (answering [status]/[resp]) -> client.
    [client_limit]/[server_limit] are the effective limits (lower level unless 0, 0 = default). *)
From EG.lib Require Import Base.
From EG.gen Require Import GenBody.
From EG.model Require Import Body BodyCheck.
From EG.proofs Require Import BodyProofs.
Open Scope Z_scope.

(** a body of at most the limit - exactly the limit included - is buffered intact, whether its
    length is announced or it is chunked *)
Theorem C07_at_limit_passes : forall A limit (body : list A),
  0 <= norm_limit limit -> zlen body <= norm_limit limit ->
  fetch_list limit (src_list (cl_exact body)) = Payload body /\
  fetch_list limit (src_list (chunked_l body true)) = Payload body.
Proof. exact @l_at_limit. Qed.
Print Assumptions C07_at_limit_passes.

(** an announced length above the limit is refused whatever is sent; a chunked body longer
    than the limit is refused whether or not the last-chunk arrives *)
Theorem C07_over_limit_rejected : forall A limit, 0 <= norm_limit limit ->
  (forall d (sent : list A), norm_limit limit < d ->
     fetch_list limit (src_list {| w_enc := EncCL d; w_sent := sent |}) = TooLarge) /\
  (forall (sent : list A) term, norm_limit limit < zlen sent ->
     fetch_list limit (src_list (chunked_l sent term)) = TooLarge).
Proof. exact @l_over_limit. Qed.
Print Assumptions C07_over_limit_rejected.

Theorem C07_negative_streams : forall A limit (s : src (list A)), limit < 0 -> fetch_list limit s = Streamed.
Proof. exact @l_negative. Qed.
Print Assumptions C07_negative_streams.

(** 0 means DefaultMaxPayloadSize, the constant extracted from the source (gen/GenBody.v) *)
Theorem C07_zero_is_default : forall A (s : src (list A)), fetch_list 0 s = fetch_list default_max_payload s.
Proof. exact @l_zero_default. Qed.
Print Assumptions C07_zero_is_default.

(** ... and that constant is the 4 MB of the statement *)
Theorem C07_default_is_4MB : default_max_payload = 4 * 1024 * 1024.
Proof. exact default_is_spec. Qed.
Print Assumptions C07_default_is_4MB.

(** the lower-level value (path, pool) wins unless it is 0; the exchange depends on the four
    settings only through the two effective limits *)
Theorem C07_effective_limit_precedence : forall A,
  (forall inner outer, (inner <> 0 -> effective inner outer = inner) /\ (inner = 0 -> effective inner outer = outer)) /\
  (forall cfg cfg' (req : wire (list A)) st resp,
     effective (c_path cfg) (c_srv cfg) = effective (c_path cfg') (c_srv cfg') ->
     effective (c_pool cfg) (c_proxy cfg) = effective (c_pool cfg') (c_proxy cfg') ->
     serve_list cfg req st resp = serve_list cfg' req st resp).
Proof. exact @l_precedence. Qed.
Print Assumptions C07_effective_limit_precedence.

(** a request over the effective client limit (announced or chunked) is answered 413, the
    handler is not invoked and the backend receives nothing *)
Theorem C07_413_unforwarded : forall A cfg (req : wire (list A)) st resp,
  over zlen (client_limit cfg) req = true ->
  serve_list cfg req st resp =
  {| o_status := 413; o_body := []; o_frame_ok := true; o_dispatched := false; o_backend := None |}.
Proof. exact @l_413. Qed.
Print Assumptions C07_413_unforwarded.

(** a well-framed request within the limit (or any size when the limit is negative) reaches
    the backend with exactly its body *)
Theorem C07_within_limit_forwarded_intact : forall A cfg (req : wire (list A)) st resp,
  accepted_l cfg req ->
  o_dispatched (serve_list cfg req st resp) = true /\
  o_backend (serve_list cfg req st resp) = Some (wire_body ztake [] req).
Proof. exact @l_within. Qed.
Print Assumptions C07_within_limit_forwarded_intact.

(** a body shorter than its announced length: the request is answered with a 4xx and nothing
    is forwarded as a complete request; a short backend response becomes a 500 with an empty
    body, or - streamed (-1), where the status is already on the wire - a response whose
    framing is visibly broken; never a well-framed success *)
Theorem C07_short_body_is_error : forall A,
  (forall cfg (req : wire (list A)) st resp,
     enc_wf (w_enc req) = true -> wire_short zlen req = true ->
     400 <= o_status (serve_list cfg req st resp) < 500 /\ o_backend (serve_list cfg req st resp) = None /\
     o_body (serve_list cfg req st resp) = []) /\
  (forall cfg (req : wire (list A)) st resp, accepted_l cfg req ->
     enc_wf (w_enc resp) = true -> wire_short zlen resp = true ->
     let o := serve_list cfg req st resp in
     (o_status o = 500 /\ o_body o = []) \/ (server_limit cfg < 0 /\ o_frame_ok o = false)).
Proof. exact @l_short. Qed.
Print Assumptions C07_short_body_is_error.

Theorem C07_big_response_withheld : forall A cfg (req : wire (list A)) st resp,
  accepted_l cfg req -> over zlen (server_limit cfg) resp = true ->
  o_status (serve_list cfg req st resp) = 500 /\ o_body (serve_list cfg req st resp) = [].
Proof. exact @l_big_response. Qed.
Print Assumptions C07_big_response_withheld.

Theorem C07_response_within_limit_delivered : forall A cfg (req : wire (list A)) st resp,
  accepted_l cfg req ->
  enc_wf (w_enc resp) = true -> wire_complete zlen resp = true -> fits zlen (server_limit cfg) resp = true ->
  o_status (serve_list cfg req st resp) = st /\ o_body (serve_list cfg req st resp) = wire_body ztake [] resp /\
  o_frame_ok (serve_list cfg req st resp) = true.
Proof. exact @l_response_ok. Qed.
Print Assumptions C07_response_within_limit_delivered.

(** histories: any sequence of requests across reloads of the mux and of the pipeline, with or
    without a pool memoryCache ([hrun]: an update of the pool / proxy limits or of the cache
    spec starts with empty caches).  Whatever is delivered while the effective
    serverMaxBodySize of the generation serving the request is non-negative fits THAT limit -
    also an answer taken from the cache *)
Theorem C07_limit_in_force_across_reloads : forall A (l : list ((config * Z) * bool * wire (list A) * Z * wire (list A))),
  bounded zlen l (hrun zlen ztake [] None None l).
Proof. exact @l_limit_in_force. Qed.
Print Assumptions C07_limit_in_force_across_reloads.

(** the decidable checker that the run applies to the implementation's observables accepts
    every outcome of the model, for every representation of bodies satisfying [body_laws]
    (strings and lengths, the two that are executed, are instances: [string_laws], [len_laws]) *)
Theorem C07_checker_sound : forall B (blen : B -> Z) btake bnil beq,
  body_laws blen btake bnil -> (forall a b, beq a b = true <-> a = b) ->
  forall cfg req st resp heads,
  heads_ok (serve blen btake bnil cfg req st resp) heads = true ->
  prop_serve blen btake bnil beq cfg req st resp (obs_of bnil (serve blen btake bnil cfg req st resp) heads) = true.
Proof. exact @checker_sound. Qed.
Print Assumptions C07_checker_sound.

(** the length-only model used for the 4 MiB cases is the image of the byte-level model *)
Theorem C07_len_model_agrees : forall A cfg (req : wire (list A)) st resp,
  serve nlen ntake 0%N cfg (map_wire list_len_N req) st (map_wire list_len_N resp)
  = map_outcome list_len_N (serve zlen ztake [] cfg req st resp).
Proof. exact len_model_agrees. Qed.
Print Assumptions C07_len_model_agrees.

Example C07_instances : body_laws slen stake EmptyString /\ body_laws nlen ntake 0%N /\
                        (forall A, body_laws (@zlen A) (@ztake A) []).
Proof. exact (conj string_laws (conj len_laws (@list_laws))). Qed.
