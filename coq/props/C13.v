(** C13 - property theorems only.  Each is closed by [exact] of a lemma proved in
    proofs/SchemaProofs.v; nothing else lives here.

    Vocabulary (model/Schema.v):
      [validate_leaf o q cat raw]  the verdict of the validation entry point on raw document [raw]
                                   (yaml decode onto the defaults, TrimNull, JSON schema interpreted over the
                                   struct-tag schema GENERATED from /repo, format functions, Validate() methods);
      [ideal]                      every defect flag off = the code with the proposed repairs;
      [accepted o cat kind raw g]  [raw] has kind [kind], [validate_leaf o ideal] accepts it, its decoded image is [g];
      [may_init]/[may_handle]      a modelled panic site of Create+Init / Handle is reachable;
      [o]                          oracle tables (format checkers, regexp patterns, durations, template parsing): arbitrary. *)
From EG.lib Require Import Base SchemaTy.
From EG.gen Require Import GenSchema.
From EG.model Require Import Schema SchemaCheck.
From EG.model Require RL LB.
From EG.proofs Require Import SchemaProofs.
Open Scope string_scope.
Open Scope Z_scope.

(** what the generated tags say holds for every value reached by a path, for ANY spec type *)
Theorem C13_format_path_sound : forall o r s t m0 g v m t',
  format_ok o t g = true -> type_at t m0 (s :: r) = Some (m, t') -> reach (s :: r) g v -> is_null v = false ->
  format_ok o t' v = true /\ fmt_clause o m t' v.
Proof. exact format_ok_reach. Qed.
Print Assumptions C13_format_path_sound.

Theorem C13_schema_path_sound : forall o r s t m0 g v m t',
  schema_ok o t g = true -> type_at t m0 (s :: r) = Some (m, t') -> reach (s :: r) g v ->
  schema_ok o t' v = true /\ sch_clause o m t' v.
Proof. exact schema_ok_reach. Qed.
Print Assumptions C13_schema_path_sound.

(** every document of ANY filter / resilience kind accepted by the repaired validation reaches no modelled
    panic site (kinds without modelled sites: no null entry is dereferenced) *)
Theorem C13_leaf_valid_no_panic : forall o cat raw,
  let v := validate_leaf o ideal cat raw in
  v_accept v = true ->
  may_init o ideal (v_ty v) (raw_kind raw) (v_image v) = false /\
  may_handle o ideal (v_ty v) (raw_kind raw) (v_image v) = false.
Proof. exact leaf_valid_no_panic. Qed.
Print Assumptions C13_leaf_valid_no_panic.

(** RateLimiter: every URL rule is bound to a policy with a positive period, and its regexp compiles *)
Theorem C13_RateLimiter_valid_implies_precond : forall o cat raw g, accepted o cat "RateLimiter" raw g ->
  (forall u, In u (aget "urls" g) -> exists p, rl_bound_policy g u = Some p /\ 0 < rl_period o p) /\
  rl_regex_bad o g = false.
Proof. exact RateLimiter_valid_implies_precond. Qed.
Print Assumptions C13_RateLimiter_valid_implies_precond.

(** ... and then the limiter of C09's model never panics, for every state, time and count *)
Theorem C13_RateLimiter_precond_no_panic : forall o g u p T L,
  rl_bound_policy g u = Some p -> 0 < rl_period o p ->
  forall s el c, snd (RL.acquire {| RL.pT := T; RL.pP := rl_period o p; RL.pL := L |} s el c) <> RL.Panic.
Proof. exact RateLimiter_precond_no_panic. Qed.
Print Assumptions C13_RateLimiter_precond_no_panic.

(** CircuitBreaker: the sliding window has at least one bucket (minimum=1 of the generated schema) *)
Theorem C13_CircuitBreaker_valid_implies_precond : forall o cat raw g, accepted o cat "CircuitBreaker" raw g ->
  exists n, jfield "slidingWindowSize" g = Some (JNum n) /\ 1000 <= n.
Proof. exact CircuitBreaker_valid_implies_precond. Qed.
Print Assumptions C13_CircuitBreaker_valid_implies_precond.

Theorem C13_Retry_valid_implies_precond : forall o cat raw g, accepted o cat "Retry" raw g -> retry_jitter_ok o g = true.
Proof. exact Retry_valid_implies_precond. Qed.
Print Assumptions C13_Retry_valid_implies_precond.

(** the argument of rand.Intn in RetryPolicy.Wrap is a positive int64 *)
Theorem C13_Retry_precond_no_panic : forall o g, retry_jitter_ok o g = true -> 1 <= retry_intn_arg o g < 9223372036854775807.
Proof. exact Retry_precond_no_panic. Qed.
Print Assumptions C13_Retry_precond_no_panic.

(** Request/ResponseAdaptor: none of the four Init panics *)
Theorem C13_Adaptor_valid_implies_precond : forall o cat kind raw g,
  is_adaptor kind = true -> accepted o cat kind raw g -> codec_ok g = true.
Proof. exact Adaptor_valid_implies_precond. Qed.
Print Assumptions C13_Adaptor_valid_implies_precond.

(** Validator: a signature verifier has a key store *)
Theorem C13_Validator_valid_implies_precond : forall o cat raw g, accepted o cat "Validator" raw g -> sig_no_keys g = false.
Proof. exact Validator_valid_implies_precond. Qed.
Print Assumptions C13_Validator_valid_implies_precond.

Theorem C13_Builder_valid_implies_precond : forall o cat kind raw g,
  is_builder kind = true -> accepted o cat kind raw g -> tpl_bad o g = false.
Proof. exact Builder_valid_implies_precond. Qed.
Print Assumptions C13_Builder_valid_implies_precond.

Theorem C13_TopicMapper_valid_implies_precond : forall o cat raw g, accepted o cat "TopicMapper" raw g -> topic_index_ok g = true.
Proof. exact TopicMapper_valid_implies_precond. Qed.
Print Assumptions C13_TopicMapper_valid_implies_precond.

(** Proxy, PARTIAL: matcher regexps compile (format=regexp of the generated schema), exactly one main pool.
    Not covered: resilience policy names (Pipeline level), service-registry pools. *)
Theorem C13_Proxy_valid_implies_precond_partial : forall o cat raw g, accepted o cat "Proxy" raw g ->
  proxy_regex_bad o g = false /\
  List.length (filter (fun p => negb (jpresent (jfield "filter" p))) (aget "pools" g)) = 1%nat.
Proof. exact Proxy_valid_implies_precond_partial. Qed.
Print Assumptions C13_Proxy_valid_implies_precond_partial.

(** weightedRandom selection of C04's model under the repaired run time never panics on a non-empty server list *)
Theorem C13_Proxy_precond_no_panic : forall ws r,
  ws <> [] -> r < Z.max 1 (LB.total ws) -> LB.wr_choose LB.ideal ws r <> LB.Panic.
Proof. exact Proxy_precond_no_panic. Qed.
Print Assumptions C13_Proxy_precond_no_panic.

(** Pipeline, PARTIAL: accepted by the repaired Spec.Validate => every flow node names END or a declared filter,
    every nested filter reaches no modelled Init panic site (kinds outside [cv_leaf]: no null entry), the
    retry / circuit-breaker policy names of nested Proxy pools resolve to policies of the right kind, and only
    builders run in a namespace of their own.  Not covered: Handle-time panics of nested filters. *)
Theorem C13_Pipeline_valid_implies_precond_partial : forall o g,
  pipeline_validate o ideal g = true ->
  let fs := nested o ideal "filter" (aget "filters" g) (o_filters o) in
  let decls := map (fun f => let '(_, n, k, _) := f in (n, k)) fs in
  (forall n, In n (aget "flow" g) -> sget "filter" n = "END" \/ exists k, alookup (sget "filter" n) decls = Some k) /\
  pipeline_may_init o ideal g = false /\
  flow_namespace_bad decls g = false.
Proof. exact Pipeline_valid_implies_precond_partial. Qed.
Print Assumptions C13_Pipeline_valid_implies_precond_partial.

(** the hand-modelled Validate() methods are all the Validate() methods the code can reach for the modelled kinds
    (from the GENERATED list: a new Validate() method in /repo breaks this obligation) *)
Theorem C13_validators_modelled : validators_covered ("Pipeline" :: "MQTTProxy" :: cv_leaf) = true.
Proof. exact validators_modelled. Qed.
Print Assumptions C13_validators_modelled.

(** refutations: with that single defect flag on (= the unchanged code at that site) validation accepts a
    document whose instance panics; the repaired code does not fail on it *)
Theorem C13_refuted_wr_zero_total : exists c, refutes 1 c. Proof. exact refuted_wr_zero_total. Qed.
Theorem C13_refuted_rl_zero_period : exists c, refutes 2 c. Proof. exact refuted_rl_zero_period. Qed.
Theorem C13_refuted_sig_no_keystore : exists c, refutes 3 c. Proof. exact refuted_sig_no_keystore. Qed.
Theorem C13_refuted_adaptor_codec : exists c, refutes 4 c. Proof. exact refuted_adaptor_codec. Qed.
Theorem C13_refuted_policy_ref : exists c, refutes 5 c. Proof. exact refuted_policy_ref. Qed.
Theorem C13_refuted_fallback_nil_resp : exists c, refutes 6 c. Proof. exact refuted_fallback_nil_resp. Qed.
Theorem C13_refuted_null_entry : exists c, refutes 7 c. Proof. exact refuted_null_entry. Qed.
Theorem C13_refuted_retry_jitter : exists c, refutes 8 c. Proof. exact refuted_retry_jitter. Qed.
Theorem C13_refuted_builder_template : exists c, refutes 9 c. Proof. exact refuted_builder_template. Qed.
Theorem C13_refuted_topic_index : exists c, refutes 10 c. Proof. exact refuted_topic_index. Qed.
Theorem C13_refuted_flow_namespace : exists c, refutes 11 c. Proof. exact refuted_flow_namespace. Qed.
Theorem C13_refuted_stream_compress : exists c, refutes 12 c. Proof. exact refuted_stream_compress. Qed.
Theorem C13_refuted_mqtt_rules : exists c, refutes 13 c. Proof. exact refuted_mqtt_rules. Qed.
Print Assumptions C13_refuted_mqtt_rules.

(** non-vacuity: the hypotheses of the [accepted] theorems are satisfiable *)
Example C13_nonvacuous : exists o raw g, accepted o "filter" "RateLimiter" raw g /\ aget "urls" g <> [].
Proof.
  eexists (sc_orc SchemaWitness.w_rl_zero_period).
  eexists (JObj [("name", JStr "f1"); ("kind", JStr "RateLimiter");
                 ("policies", JArr [JObj [("name", JStr "p1"); ("limitForPeriod", JNum 1000)]]);
                 ("defaultPolicyRef", JStr "p1");
                 ("urls", JArr [JObj [("url", JObj [("prefix", JStr "/")])]])]).
  eexists. split.
  - unfold accepted. split; [reflexivity|]. split; [vm_compute; reflexivity|reflexivity].
  - vm_compute. discriminate.
Qed.
