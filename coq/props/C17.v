(** C17 - property theorems only. Each is closed by [exact] of a lemma proved in
    proofs/SemProofs*.v; nothing else lives here.

    Vocabulary (model/Sem.v): [reach sz n ls] = the state reached from
    NewLimitListener(_, n) (maxCapacity = sz) by the label sequence [ls] in the [ideal] model
    (labels = critical sections: LAcquire, LGot c, LFail, LClose c, LSetMax n, LRun i - the
    i-th pending SetMaxCount goroutine reaches the semaphore, ANY order); [used] = permits
    held by acceptors (inside the inner Accept + open connections); [settled] = no
    SetMaxCount goroutine outstanding (none pending, none queued) - the reading of "a change
    has been applied"; [applied_cap] = realCapacity - pending deltas + queued shrinks. *)
From EG.lib Require Import Base.
From EG.model Require Import Sem.
From EG.proofs Require Import SemProofs SemProofs2 SemProofs3 SemProofs4 SemProofs5.
Open Scope Z_scope.

(** accounting invariant of the pre-acquired semaphore, in every reachable state *)
Theorem sem_accounting : forall sz n ls, 0 < sz -> 0 <= n -> Forall label_ok ls ->
  let s := reach sz n ls in
  cur (ws s) = size (ws s) - applied_cap s + used s /\
  applied_cap s <= size (ws s) /\ 0 <= cur (ws s) <= size (ws s).
Proof. exact T_sem_accounting. Qed.
Print Assumptions sem_accounting.

(** no "released more than held": neither in a caller nor inside a SetMaxCount goroutine,
    and no goroutine blocked for ever (ideal model) *)
Theorem C17_ideal_never_panics : forall sz n ls, 0 < sz -> 0 <= n -> Forall label_ok ls ->
  let s := reach sz n ls in crashed s = false /\ panics s = 0 /\ doomed s = 0.
Proof. exact T_never_panics. Qed.
Print Assumptions C17_ideal_never_panics.

(** the HTTP cap, for all interleavings of accepts, closes, SetMaxConnection calls and of
    the SetMaxCount goroutines *)
Theorem C17_http_cap : forall sz n ls, 0 < sz -> 0 <= n -> Forall label_ok ls ->
  let s := reach sz n ls in
  (settled s = true -> used s <= real s) /\
  used s <= applied_cap s /\
  (only_shrinks (pend s) -> shrink_at_head s ->
     real s < used s /\ forall l, used (lstep ideal s l) <= used s) /\
  (0 < count_who WAdj (wq (ws s)) -> used (lstep ideal s LAcquire) = used s) /\
  (settled s = true -> real s <= used s -> forall l, used (lstep ideal s l) <= used s) /\
  (forall l c, In c (opened s) -> l <> LClose c -> In c (opened (lstep ideal s l))).
Proof. exact T_http_cap. Qed.
Print Assumptions C17_http_cap.

(** HTTPServer runtime: after ANY history of accepts, closes, hot reloads of maxConnections,
    SetMaxCount goroutines (any order) and listener replacements ([RRestart]: a reload that needs
    a restart, or the recovery of a failed server - the listener is rebuilt from the spec in
    force once Shutdown has drained the old one), the listener's realCapacity is the LAST
    configured maxConnections (clamped to maxCapacity) - a function of the latest spec only, not
    of the path of restarts; no connection is left on a replaced listener, and in every settled
    state the connections being served (listener in force + replaced ones) are within the cap *)
Theorem C17_cap_follows_latest_spec : forall sz n ls,
  0 < sz -> 0 <= n -> Forall rlabel_ok ls ->
  let r := rrun sz (rinit sz n) ls in
  real (r_l r) = Z.min (last_spec n ls) sz /\
  (settled (r_l r) = true -> r_serving r <= Z.min (last_spec n ls) sz) /\
  r_old r = 0.
Proof. exact cap_is_last_configured. Qed.
Print Assumptions C17_cap_follows_latest_spec.

(** documented: replacing the listener without waiting for it to drain (Shutdown cut short while
    a request is in flight) serves 2 connections with a cap of 1; the drained replacement does not *)
Theorem C17_undrained_restart_exceeds_cap :
  let pre := [RStep LAcquire; RStep (LGot 0%N)] in
  let post := [RStep LAcquire; RStep (LGot 1%N)] in
  r_serving (rrun 20000000 (rinit 20000000 1) (pre ++ [RRestartUndrained] ++ post)) = 2 /\
  r_serving (rrun 20000000 (rinit 20000000 1) (pre ++ [RRestart] ++ post)) = 1 /\
  r_serving (rrun 20000000 (rinit 20000000 1) (pre ++ [RStep (LClose 0%N); RRestart] ++ post)) = 1.
Proof. exact undrained_restart_exceeds_cap. Qed.
Print Assumptions C17_undrained_restart_exceeds_cap.

(** capacity released by a closed connection is usable again: in a settled state nobody
    waits while a permit is free; a Close hands the permit to the longest waiting acceptor
    in the same step; with nobody waiting the next Accept gets it immediately *)
Theorem C17_released_capacity_reusable : forall sz n ls, 0 < sz -> 0 <= n -> Forall label_ok ls ->
  let s := reach sz n ls in
  settled s = true ->
  (wq (ws s) <> [] -> used s = real s) /\
  (forall c t, In c (opened s) -> wq (ws s) = (WAcc, 1) :: t ->
     held (lstep ideal s (LClose c)) = held s + 1 /\ wq (ws (lstep ideal s (LClose c))) = t /\
     used (lstep ideal s (LClose c)) = used s) /\
  (forall c, In c (opened s) -> wq (ws s) = [] ->
     let s1 := lstep ideal s (LClose c) in
     used s1 = used s - 1 /\ held (lstep ideal s1 LAcquire) = held s1 + 1).
Proof. exact T_released_capacity_reusable. Qed.
Print Assumptions C17_released_capacity_reusable.

(** Close releases exactly once: a second Close is the identity (any quirks, any state); the
    Close of an already closed connection changes nothing; the Close of an open connection
    gives back exactly one permit (then wakes a prefix [wk] of the queue) *)
Theorem C17_close_releases_once :
  (forall q s c, lstep q (lstep q s (LClose c)) (LClose c) = lstep q s (LClose c)) /\
  (forall sz n ls c, 0 < sz -> 0 <= n -> Forall label_ok ls ->
     let s := reach sz n ls in
     (In c (closed s) -> lstep ideal s (LClose c) = s) /\
     (In c (opened s) ->
        exists wk, cur (ws (lstep ideal s (LClose c))) = cur (ws s) - 1 + wsum wk /\
                   wq (ws s) = wk ++ wq (ws (lstep ideal s (LClose c))))).
Proof. exact T_close_releases_once. Qed.
Print Assumptions C17_close_releases_once.

(** MQTT: |Broker.clients| <= maxAllowedConnection after ANY sequence of early checks,
    commits (incl. failed CONNACK writes), tear-downs and deleteSession calls, for ANY quirks;
    a takeover succeeds at any count - in particular at the cap - without raising it; a new id
    at the cap is refused (server unavailable) in either check and nothing is registered;
    below the cap it is admitted *)
Theorem C17_mqtt_cap :
  (forall q cap ls, 0 < cap -> clen (mrun q (minit cap) ls) <= cap) /\
  (forall q cap ls k cid k0, let s := mrun q (minit cap) ls in
     mem_N k (checked s) = true -> alookup cid (clients s) = Some k0 ->
     snd (mstep q s (MCommit k cid false)) = MAccepted /\
     clen (fst (mstep q s (MCommit k cid false))) = clen s /\
     alookup cid (clients (fst (mstep q s (MCommit k cid false)))) = Some k) /\
  (forall q s k cid wfail, mem_N k (checked s) = true -> alookup cid (clients s) = None -> at_cap s = true ->
     snd (mstep q s (MCommit k cid wfail)) = MRefused /\
     clients (fst (mstep q s (MCommit k cid wfail))) = clients s) /\
  (forall q s k, mem_N k (checked s) = false -> live_cid k (live s) = None -> at_cap s = true ->
     mstep q s (MCheck k) = (s, MRefused)) /\
  (forall q s k cid, mem_N k (checked s) = true -> at_cap s = false ->
     snd (mstep q s (MCommit k cid false)) = MAccepted).
Proof. exact T_mqtt_cap. Qed.
Print Assumptions C17_mqtt_cap.

(** MQTT (ideal): every registered client is a connection whose tear-down has not run; when
    all connections are gone the whole capacity is free again *)
Theorem C17_mqtt_released_capacity : forall cap ls,
  let s := mrun ideal (minit cap) ls in
  (forall cid k, In (cid, k) (clients s) -> live_cid k (live s) = Some cid) /\
  (live s = [] -> clients s = []).
Proof. exact T_mqtt_released_capacity. Qed.
Print Assumptions C17_mqtt_released_capacity.

(** MQTT: the connections the broker still SERVES (accepted, not torn down, Client.close() not
    run) are never more than maxAllowedConnection and each is the registered client of its id -
    for any quirks and any label sequence, including deleteSession executed as two critical
    sections ([MDelLookup] ... [MDelRemove], removal re-checked against the looked-up client)
    around same-id reconnects, takeovers and tear-downs *)
Theorem C17_mqtt_served_cap :
  (forall q cap ls, 0 < cap -> nserved (mrun q (minit cap) ls) <= cap) /\
  (forall q cap ls k cid, let s := mrun q (minit cap) ls in
     live_cid k (live s) = Some cid -> mem_N k (dead s) = false -> alookup cid (clients s) = Some k).
Proof. split; [exact mqtt_served_cap | exact mqtt_served_registered]. Qed.
Print Assumptions C17_mqtt_served_cap.

(** documented: with an unconditional removal in the second critical section the reconnected
    client loses its entry but stays served, and the cap of 2 admits a third client *)
Theorem C17_unguarded_delete_exceeds_cap :
  let s1 := mrun ideal (minit 2) [MCheck 0%N; MCommit 0%N "x" false; MDelLookup "x"; MCheck 1%N; MCommit 1%N "x" false] in
  let tail := [MCheck 2%N; MCommit 2%N "y" false; MCheck 3%N; MCommit 3%N "z" false] in
  nserved (mrun ideal (unguarded_remove s1 "x") tail) = 3 /\
  nserved (mrun ideal (fst (mstep ideal s1 (MDelRemove 0))) tail) = 2.
Proof. exact unguarded_delete_exceeds_cap. Qed.
Print Assumptions C17_unguarded_delete_exceeds_cap.

(** documented behaviour outside the "cap unchanged and applied" premise: while a shrink and
    a grow are outstanding, 7 (re-ordered goroutines) resp. 6 (in order, an acceptor queued
    beforehand) connections are open although no configured capacity ever exceeded 5;
    [used <= applied_cap] (C17_http_cap) is what holds meanwhile *)
Theorem C17_resize_reordering :
  (let s := lrun ideal (linit ideal MC 5)
                 (accept_n 5 0 ++ [LSetMax 2; LSetMax 4; LRun 1; LAcquire; LAcquire; LRun 0]) in
   used s = 7 /\ real s = 4 /\ applied_cap s = 7 /\ settled s = false /\ wq (ws s) = [(WAdj, 3)]) /\
  (let s := lrun ideal (linit ideal MC 5)
                 (accept_n 5 0 ++ [LAcquire; LSetMax 2; LRun 0; LSetMax 4; LRun 0]) in
   used s = 6 /\ real s = 4 /\ applied_cap s = 7 /\ settled s = false /\ wq (ws s) = [(WAdj, 3)]) /\
  (let s := lrun ideal (linit ideal MC 5)
                 (accept_n 5 0 ++ [LSetMax 2; LRun 0; LSetMax 4; LRun 0; LAcquire; LAcquire]) in
   used s = 5 /\ real s = 4 /\ wq (ws s) = [(WAdj, 3); (WAcc, 1); (WAcc, 1)]).
Proof. exact resize_reordering. Qed.
Print Assumptions C17_resize_reordering.

(** the pinned defect sites, each alone, break a clause (witnesses = corpus/C17/kf_*.json) *)
Theorem C17_refuted_q_newsem_unclamped :
  exists n ls, 0 <= n /\ Forall label_ok ls /\
    panics (lrun q1 (linit q1 MC n) ls) = 1 /\ panics (lrun ideal (linit ideal MC n) ls) = 0.
Proof. exact refuted_newsem_unclamped. Qed.
Print Assumptions C17_refuted_q_newsem_unclamped.

Theorem C17_refuted_q_grow_release_unchecked :
  exists ls, Forall label_ok ls /\
    crashed (lrun q2 (linit q2 MC 5) ls) = true /\ crashed (lrun ideal (linit ideal MC 5) ls) = false.
Proof. exact refuted_grow_release_unchecked. Qed.
Print Assumptions C17_refuted_q_grow_release_unchecked.

Theorem C17_refuted_q_mqtt_connack_fail_leaks :
  exists ls,
    let s := mrun q3 (minit 1) ls in
    live s = [] /\ clients s <> [] /\ snd (mstep q3 s (MCheck 7)) = MRefused /\
    snd (mstep ideal (mrun ideal (minit 1) ls) (MCheck 7)) = MPassed.
Proof. exact refuted_mqtt_connack_fail_leaks. Qed.
Print Assumptions C17_refuted_q_mqtt_connack_fail_leaks.

(** non-vacuity: concrete non-trivial states satisfying the hypotheses used above *)
Example C17_nonvacuous_settled :
  let s := lrun ideal (linit ideal MC 3)
                (accept_n 3 0 ++ [LAcquire; LSetMax 1; LRun 0; LClose 1; LClose 1; LClose 0; LClose 2]) in
  reachable s /\ settled s = true /\ used s = 1 /\ real s = 1 /\ opened s = [] /\ held s = 1.
Proof. exact http_nonvacuous. Qed.

Example C17_nonvacuous_shrink_at_head :
  let s := lrun ideal (linit ideal MC 3) (accept_n 3 0 ++ [LSetMax 1; LRun 0]) in
  reachable s /\ only_shrinks (pend s) /\ shrink_at_head s /\ used s = 3 /\ real s = 1.
Proof. exact shrink_head_nonvacuous. Qed.
