From EG.lib Require Import Base.
From EG.model Require Import Sem.
From EG.proofs Require Import SemProofs.
Open Scope Z_scope.

Theorem sem_accounting : forall sz n, 0 <= n -> 0 < sz ->
  cur (ws (linit ideal sz n)) = sz - real (linit ideal sz n).
Proof. exact sem_accounting_init. Qed.
Print Assumptions sem_accounting.
