(** C16 - property theorems only. Each is closed by [exact] of a lemma proved in
    proofs/BrokerProofsLife.v.  [cstate]/[cstep] is the broker's state machine for one
    client id; [C16_broker_is_product] lifts every statement to the broker-level model
    that the correspondence check runs against the real code. *)
From EG.lib Require Import Base BrokerMap.
From EG.model Require Import Broker.
From EG.proofs Require Import BrokerProofsLife.
Open Scope Z_scope.

(** For EVERY trace of connect / subscribe / unsubscribe / admin delete / teardown events - the
    teardown of any connection, superseded or not, placed at ANY later point - the connection
    registered for the client id is alive, its session is in the session map, open and stored, and
    the topic trie holds exactly that session's subscriptions. *)
Theorem C16_current_connection_intact : forall es,
  let cs := crun ideal cstate0 es in
  forall k, reg cs = Some k ->
  exists c s, zget k (conns cs) = Some c /\ c_live c = true /\ c_torn c = false /\
              smp cs = Some (c_sess c) /\ zget (c_sess c) (heap cs) = Some s /\ s_closed s = false /\
              (forall f, sget f (tri cs) = sget f (s_topics s)) /\
              dbv cs = Some (s_clean s, s_topics s).
Proof. exact current_connection_intact. Qed.
Print Assumptions C16_current_connection_intact.

(** the teardown of a superseded connection, whenever it happens, removes nothing: registration,
    session map, sessions, stored session and trie are unchanged *)
Theorem C16_superseded_teardown_is_noop : forall es k j,
  let cs := crun ideal cstate0 es in
  reg cs = Some j -> j <> k ->
  let cs' := cstep ideal cs (CTeardown k) in
  reg cs' = reg cs /\ smp cs' = smp cs /\ heap cs' = heap cs /\ dbv cs' = dbv cs /\ tri cs' = tri cs /\
  (forall k0, k0 <> k -> zget k0 (conns cs') = zget k0 (conns cs)).
Proof. exact superseded_teardown_is_noop. Qed.
Print Assumptions C16_superseded_teardown_is_noop.

(** reconnecting with cleanSession=false (after the old connection was dropped, or taking it over
    while it is still registered) gives the previous subscriptions back *)
Theorem C16_reconnect_restores_subscriptions : forall es k sid k' (drop_first : bool),
  let cs := crun ideal cstate0 es in
  reg cs = Some k -> smp cs = Some sid -> s_clean (get_sess cs sid) = false ->
  zget k' (conns cs) = None ->
  let tp := s_topics (get_sess cs sid) in
  let cs1 := if drop_first then cstep ideal cs (CTeardown k) else cs in
  let cs2 := cstep ideal cs1 (CConnect k' false) in
  reg cs2 = Some k' /\ (forall f, sget f (tri cs2) = sget f tp) /\
  (exists sid', smp cs2 = Some sid' /\ s_topics (get_sess cs2 sid') = tp) /\ dbv cs2 = Some (false, tp).
Proof. exact reconnect_restores_subscriptions. Qed.
Print Assumptions C16_reconnect_restores_subscriptions.

(** nobody connected, no live session object: a persistent session written into the storage is what the next
    cleanSession=false connect gets (the session manager must not answer from a stale cached copy) *)
Theorem C16_reconnect_reads_store : forall es tp k',
  let cs := crun ideal cstate0 es in
  reg cs = None -> smp cs = None -> zget k' (conns cs) = None ->
  let cs2 := cstep ideal (cstep ideal cs (CStorePut tp)) (CConnect k' false) in
  reg cs2 = Some k' /\ (forall f, sget f (tri cs2) = sget f (aset_all String.eqb tp [])).
Proof. exact reconnect_reads_store. Qed.
Print Assumptions C16_reconnect_reads_store.

(** connecting with cleanSession=true discards the previous session in every reachable state *)
Theorem C16_clean_discards : forall es k',
  let cs := crun ideal cstate0 es in
  zget k' (conns cs) = None ->
  let cs' := cstep ideal cs (CConnect k' true) in
  reg cs' = Some k' /\ tempty (tri cs') /\ dbv cs' = Some (true, []) /\
  exists sid, smp cs' = Some sid /\ s_topics (get_sess cs' sid) = [].
Proof. exact clean_discards. Qed.
Print Assumptions C16_clean_discards.

(** deleting the session through the admin endpoint unregisters and closes the client (any flags, any state) *)
Theorem C16_admin_delete_disconnects : forall q cs k c,
  reg cs = Some k -> zget k (conns cs) = Some c ->
  let cs' := cstep q cs CAdminDelete in
  reg cs' = None /\ dbv cs' = None /\ exists c', zget k (conns cs') = Some c' /\ c_live c' = false.
Proof. exact admin_delete_disconnects. Qed.
Print Assumptions C16_admin_delete_disconnects.

(** the admin delete is "close the registered connection" followed by "unregister", and the unregister step
    removes only the connection that was looked up: a connection that took the id in between stays registered *)
Theorem C16_admin_unregister_guarded :
  (forall q cs, cstep q cs CAdminDelete = admin_end (reg cs) (admin_begin cs)) /\
  (forall cs k looked_up, reg cs = Some k -> looked_up <> Some k -> admin_end looked_up cs = cs).
Proof. exact (conj admin_two_step admin_unregister_guarded). Qed.
Print Assumptions C16_admin_unregister_guarded.

(** a registration ends only by that connection's own teardown, a later CONNECT for the id, or an admin delete *)
Theorem C16_registration_survives : forall es k e,
  let cs := crun ideal cstate0 es in
  reg cs = Some k ->
  e <> CTeardown k -> (forall k' cl, e <> CConnect k' cl) -> e <> CAdminDelete ->
  reg (cstep ideal cs e) = Some k.
Proof. exact registration_survives. Qed.
Print Assumptions C16_registration_survives.

(** the broker-level model is the product of the per-id machines *)
Theorem C16_broker_is_product : forall q cid es st,
  cget (run q st es) cid = crun q (cget st cid) (project (owners st) cid es).
Proof. exact run_projection. Qed.
Print Assumptions C16_broker_is_product.

(** the pinned code: connect, subscribe, takeover, teardown of the old connection, publish -
    the live connection is still registered but receives nothing (the ideal model delivers) *)
Theorem C16_refuted_takeover :
  let m := fun f => String.eqb f "a/b" in
  let bad := run only_takeover state0 takeover_trace in
  let good := run ideal state0 takeover_trace in
  reg (cget bad "dev") = Some 2 /\ receivers m bad = [] /\ smp (cget bad "dev") = None /\
  reg (cget good "dev") = Some 2 /\ receivers m good = [2].
Proof. exact refuted_takeover. Qed.
Print Assumptions C16_refuted_takeover.
