(** C03 - property theorems only. Each is closed by [exact] of a lemma proved in
    proofs/ProxyProofs.v; nothing else lives here.

    Header maps are association lists keyed as net/http stores them; [h_values_exact k h] /
    [h_has_exact k h] read the map.  [clone_header] is cloneHeader, [forward] the request
    half (mux -> RequestAdaptor -> prepareRequest -> transport), [respond] the response half
    (transport -> compression -> FetchPayload -> ResponseAdaptor -> mux write-out).  gzip,
    gunzip and the URL functions are arbitrary ([fns]); [q] are the defect switches. *)
From EG.lib Require Import Base.
From EG.gen Require Import GenHop.
From EG.model Require Import Body BodyCheck Proxy ProxyCheck.
From EG.proofs Require Import ProxyProofs.
Open Scope string_scope.
Open Scope Z_scope.

(** cloneHeader removes exactly the keys of the source's hop-by-hop table and the keys named
    by Connection tokens (canonicalised); every other key keeps all its values in order *)
Theorem C03_hop_by_hop_stripped : forall h k,
  h_values_exact k (clone_header h) = (if stripped h k then [] else h_values_exact k h) /\
  h_has_exact k (clone_header h) = negb (stripped h k) && h_has_exact k h.
Proof. exact hop_by_hop_stripped. Qed.
Print Assumptions C03_hop_by_hop_stripped.

(** the table extracted from pool.go contains the nine names of the statement: none of them,
    and no header a Connection field names, survives cloneHeader *)
Theorem hop_table_complete :
  (forall n, In n ["Connection"; "Keep-Alive"; "Proxy-Connection"; "Proxy-Authenticate"; "Proxy-Authorization";
                   "TE"; "Trailer"; "Transfer-Encoding"; "Upgrade"] ->
     forall h, h_values_exact (canon_key n) (clone_header h) = [] /\ h_has_exact (canon_key n) (clone_header h) = false) /\
  (forall h t, In t (connection_tokens h) ->
     h_values_exact (canon_key t) (clone_header h) = [] /\ h_has_exact (canon_key t) (clone_header h) = false).
Proof. exact hop_table_complete_all. Qed.
Print Assumptions hop_table_complete.

Theorem C03_host_rule : forall f q c r b added cloned,
  forward q f c r = ReqSent b added cloned ->
  bq_host b = if negb (p_host_is_name c) || p_keep_host c then cq_host r else p_server_host c.
Proof. exact host_rule. Qed.
Print Assumptions C03_host_rule.

(** without the decoded-path defect and without a RequestAdaptor: method, decoded path, raw
    query and body reach the backend unchanged, every header that is neither hop-by-hop nor
    managed by the backend hop's own client (Content-Length, User-Agent, Accept-Encoding)
    keeps all its values, a client Accept-Encoding is passed on, and URL assembly cannot fail *)
Theorem C03_request_faithful : forall f q c,
  q_proxy_decoded_path q = false -> url_round_trip f -> ra_off c ->
  (forall r b added cloned, forward q f c r = ReqSent b added cloned ->
     bq_method b = cq_method r /\
     f_parse_target f (bq_target b) = f_parse_target f (cq_target r) /\
     bq_body b = cq_body r /\
     (forall k, transport_managed k = false ->
        h_values_exact k (bq_headers b) = if stripped (cq_headers r) k then [] else h_values_exact k (cq_headers r)) /\
     (stripped (cq_headers r) "Accept-Encoding" = false -> nonempty (h_get "Accept-Encoding" (cq_headers r)) = true ->
        h_values_exact "Accept-Encoding" (bq_headers b) = h_values_exact "Accept-Encoding" (cq_headers r))) /\
  (forall r p qy, f_parse_target f (cq_target r) = Some (p, qy) ->
     (exists t', f_build_target f (f_escaped_path f (cq_target r)) qy = Some t') ->
     exists b added cloned, forward q f c r = ReqSent b added cloned).
Proof. exact request_faithful_all. Qed.
Print Assumptions C03_request_faithful.

(** with a RequestAdaptor (body / compress / decompress) the body the backend receives decodes,
    per its Content-Encoding label, to the client's content or to the adaptor's body *)
Theorem C03_request_content : forall f,
  (forall x, f_gunzip f (f_gzip f x) = Some x) ->
  forall q c r b added cloned content,
  label_simple (cq_headers r) -> decode f (cq_headers r) (cq_body r) = Some content ->
  stripped (cq_headers r) CE = false ->
  forward q f c r = ReqSent b added cloned ->
  decode f (bq_headers b) (bq_body b) = Some (adapted (p_ra c) content).
Proof. exact request_content. Qed.
Print Assumptions C03_request_content.

(** the client receives the backend's status and end-to-end headers, and a body that decodes
    (per its Content-Encoding label) to what the backend's body decodes to - or to the
    ResponseAdaptor's body - for every compression / adaptor / stream setting; the gateway
    always answers; its only other answer is its own 500 *)
Theorem C03_response_content : forall f q c hs added b content,
  (forall x, f_gunzip f (f_gzip f x) = Some x) ->
  q_compress_keeps_length q = false -> q_adaptor_body_keeps_length q = false -> q_stream_compress_panics q = false ->
  backend_well_framed b -> label_simple (br_headers b) ->
  decode f (br_headers b) (br_body b) = Some content ->
  exists w, respond q f c hs added b = Some w /\
    (w = failure 500 \/
     (w_status w = br_status b /\ same_e2e (w_headers w) (br_headers b) /\
      decode f (w_headers w) (w_body w) = Some (owed c (br_status b) content))).
Proof. exact response_content_total. Qed.
Print Assumptions C03_response_content.

(** for EVERY combination of backend framing (Content-Length / chunked / close-delimited),
    transparent gunzip, compression on/off and minLength, ResponseAdaptor body / compress /
    decompress, buffered / stream mode - and whatever gzip does - a Content-Length sent to the
    client equals the number of body bytes written *)
Theorem C03_well_framed : forall f q c hs added b w,
  q_adaptor_body_keeps_length q = false -> backend_well_framed b ->
  respond q f c hs added b = Some w ->
  w_frame_ok w = true /\ (w_cl w = None \/ w_cl w = Some (slen (w_body w))).
Proof. exact well_framed. Qed.
Print Assumptions C03_well_framed.

(** histories of requests against ONE pipeline whose pool has a memoryCache (any cache
    policy, any number of steps): every response - served by the backend or from the cache -
    is the gateway's own failure or, well-framed, the status / end-to-end headers / (adapted)
    content of a backend answer given up to that step; the handler never dies *)
Theorem C03_history_faithful : forall f,
  (forall x, f_gunzip f (f_gzip f x) = Some x) ->
  forall q c s l,
  q_compress_keeps_length q = false -> q_adaptor_body_keeps_length q = false -> q_stream_compress_panics q = false ->
  Forall (fun rb => good_backend f (snd rb)) l ->
  all_ok f c [] l (run_steps q f c no_edit s [] l).
Proof. exact history_faithful. Qed.
Print Assumptions C03_history_faithful.

(** the cache hands out a copy: a hit answers from the stored entry and leaves the cache as it is *)
Theorem C03_cache_hit_immutable : forall f q c e s st r b path qy h body ent,
  f_parse_target f (cq_target r) = Some (path, qy) ->
  request_adaptor f (p_ra c) (cq_headers r) (cq_body r) = Some (h, body) ->
  loadable s (cq_method r) h = true ->
  alookup (cache_key (cq_host r) path (cq_method r)) st = Some ent ->
  step q f c e s st r b = (Answered (finish q f c e (resp_of_entry ent)) None, st).
Proof. exact cache_hit_immutable. Qed.
Print Assumptions C03_cache_hit_immutable.

(** one witness per defect of the unchanged code: with that single switch on, a clause fails *)
Theorem C03_refuted_compress_len :
  exists f c hs added b content w,
    (forall x, f_gunzip f (f_gzip f x) = Some x) /\ backend_well_framed b /\ label_simple (br_headers b) /\
    decode f (br_headers b) (br_body b) = Some content /\
    respond (with_flag 1) f c hs added b = Some w /\ w <> failure 500 /\
    w_status w = 200 /\ decode f (w_headers w) (w_body w) <> Some (adapted (p_rs c) content).
Proof. exact refuted_compress_len. Qed.
Print Assumptions C03_refuted_compress_len.

Theorem C03_refuted_adaptor_body_len :
  exists f c hs added b w,
    backend_well_framed b /\ respond (with_flag 2) f c hs added b = Some w /\
    w_frame_ok w = false /\ w_cl w = Some 5 /\ w_body w = "".
Proof. exact refuted_adaptor_body_len. Qed.
Print Assumptions C03_refuted_adaptor_body_len.

Theorem C03_refuted_decoded_path :
  exists f c, url_round_trip f /\ ra_off c /\
    (exists r p qy b added cloned,
       f_parse_target f (cq_target r) = Some (p, qy) /\
       forward (with_flag 3) f c r = ReqSent b added cloned /\
       f_parse_target f (bq_target b) <> Some (p, qy)) /\
    (exists r p qy, f_parse_target f (cq_target r) = Some (p, qy) /\
       (exists t', f_build_target f (f_escaped_path f (cq_target r)) qy = Some t') /\
       forward (with_flag 3) f c r = ReqReject 500).
Proof. exact refuted_decoded_path. Qed.
Print Assumptions C03_refuted_decoded_path.

Theorem C03_refuted_compress_replaces_label :
  exists f c hs added b w,
    backend_well_framed b /\ h_values_exact CE (br_headers b) = ["br"] /\
    respond (with_flag 5) f c hs added b = Some w /\ w_status w = 200 /\
    h_values_exact CE (w_headers w) = ["gzip"] /\ f_gunzip f (w_body w) = Some (br_body b).
Proof. exact refuted_compress_replaces_label. Qed.
Print Assumptions C03_refuted_compress_replaces_label.

(** the repaired labelling: compression appends "gzip" to the codings already named *)
Theorem C03_compress_appends_label : forall q h, q_compress_replaces_label q = false ->
  h_values_exact CE (label_gzip q h) = (h_values_exact CE h ++ ["gzip"])%list /\
  (forall k, k <> CE -> h_values_exact k (label_gzip q h) = h_values_exact k h).
Proof. exact compress_appends_label. Qed.
Print Assumptions C03_compress_appends_label.

Theorem C03_refuted_stream_compress_panics :
  exists f c hs added b, backend_well_framed b /\ respond (with_flag 4) f c hs added b = None.
Proof. exact refuted_stream_compress_panics. Qed.
Print Assumptions C03_refuted_stream_compress_panics.
