(** C04 - property theorems only. Each is closed by [exact] of a lemma proved
    in proofs/LBProofs.v; nothing else lives here. *)
From EG.lib Require Import Base.
From EG.model Require Import LB LBCheck.
From EG.proofs Require Import LBProofs LBCheckProofs LBSound.
From Coq Require Import Permutation.
Open Scope Z_scope.

(** after any k round-robin selections on n servers (tickets c0 .. c0+k-1 of the atomic
    counter), every server has been chosen floor(k/n) or floor(k/n)+1 times and exactly
    k mod n servers got the larger count; on tickets below 2^63 the model's selection
    function is c mod n ([run_lb_rr]) *)
Theorem C04_rr_balanced : forall n c0 k i,
  0 < n -> 0 <= i < n ->
  let cs := map (rr n) (tickets c0 k) in
  let q := Z.of_nat k / n in
  (count i cs = q \/ count i cs = q + 1) /\
  Z.of_nat (List.length (filter (fun j => count j cs =? q + 1) (zseq 0 (Z.to_nat n)))) = Z.of_nat k mod n.
Proof. exact rr_balanced. Qed.
Print Assumptions C04_rr_balanced.

Theorem C04_rr_model_is_mod : forall q l, l <> [] ->
  forall xs c0, 0 <= c0 -> c0 + Z.of_nat (List.length xs) <= two63 ->
  run_lb q RoundRobin l c0 xs = map (fun c => Chosen (rr (Z.of_nat (List.length l)) c)) (tickets c0 (List.length xs)).
Proof. exact run_lb_rr. Qed.
Print Assumptions C04_rr_model_is_mod.

(** concurrent selectors: whatever the schedule (order of the atomic adds) and however the
    tickets are distributed over goroutines and re-ordered ([l] is any permutation of the
    tickets handed out), the per-server counts are the closed form [rr_count], which depends
    only on n, the start value and the number of selections *)
Theorem C04_rr_schedule_independent : forall n c0 sched l i,
  0 < n -> 0 <= i < n ->
  Permutation l (map snd (run_sched c0 sched)) ->
  count i (map (rr n) l) = rr_count n c0 (Z.of_nat (List.length sched)) i.
Proof. exact rr_schedule_independent. Qed.
Print Assumptions C04_rr_schedule_independent.

(** ipHash / headerHash: equal keys go to the same server while the list is unchanged
    (whatever the counter, the draws, the history) *)
Theorem C04_hash_sticky : forall q p l x1 x2,
  p = IPHash \/ p = HeaderHash -> ky x1 = ky x2 -> choose q p l x1 = choose q p l x2.
Proof. exact hash_sticky. Qed.
Print Assumptions C04_hash_sticky.

(** every policy: a chosen index designates a member of the list the balancer was built from *)
Theorem C04_choice_in_list : forall q p l x i,
  sel_ok p l x -> choose q p l x = Chosen i ->
  0 <= i < Z.of_nat (List.length l) /\ exists s, nth_error l (Z.to_nat i) = Some s /\ In s l.
Proof. exact choice_in_list. Qed.
Print Assumptions C04_choice_in_list.

(** weightedRandom never picks a zero-weight server when some weight is positive *)
Theorem C04_wr_never_zero_weight : forall q l x,
  Forall (fun s => 0 <= s_w s) l -> Exists (fun s => 0 < s_w s) l ->
  sel_ok WeightedRandom l x ->
  exists i s, choose q WeightedRandom l x = Chosen i /\ nth_error l (Z.to_nat i) = Some s /\ In s l /\ 0 < s_w s.
Proof. exact wr_positive_server. Qed.
Print Assumptions C04_wr_never_zero_weight.

(** a selection fails for lack of a server only when the list is empty (every policy, every
    quirk setting, every environment) *)
Theorem C04_no_server_iff_empty : forall q p l x, choose q p l x = NoServer <-> l = [].
Proof. exact no_server_iff_empty. Qed.
Print Assumptions C04_no_server_iff_empty.

(** the pool's current list: the instances carrying one of the configured tags, else the static
    list; independent (up to order) of the map iteration order of the discovery event *)
Theorem C04_pool_list_spec : forall static tags insts,
  (forall s, In s (pool_list static (tagged tags insts)) <->
             (exists i, In i insts /\ (exists t, In t tags /\ In t (i_tags i)) /\ s = inst_server i) \/
             ((forall i, In i insts -> ~ exists t, In t tags /\ In t (i_tags i)) /\ In s static)) /\
  (forall insts', Permutation insts insts' ->
                  Permutation (pool_list static (tagged tags insts)) (pool_list static (tagged tags insts'))).
Proof. exact pool_list_spec. Qed.
Print Assumptions C04_pool_list_spec.

(** repaired code ([ideal]): no policy panics, for the static list of a validated pool or for
    any list reported by discovery (weights unconstrained) *)
Theorem C04_validated_never_panics : forall spec insts x,
  validate spec = true ->
  let l := pool_list (ps_static spec) (tagged (ps_tags spec) insts) in
  let p := policy_of_string (ps_policy spec) in
  sel_ok p l x -> choose ideal p l x <> Panic.
Proof. exact validated_never_panics. Qed.
Print Assumptions C04_validated_never_panics.

(** the pinned code: a pool that validation accepts on which weightedRandom panics *)
Theorem C04_refuted_wr_zero_total :
  exists spec x,
    validate spec = true /\
    (let l := pool_list (ps_static spec) (tagged (ps_tags spec) []) in
     let p := policy_of_string (ps_policy spec) in
     sel_ok p l x /\ choose pinned_code p l x = Panic /\ choose ideal p l x <> Panic).
Proof. exact refuted_wr_zero_total. Qed.
Print Assumptions C04_refuted_wr_zero_total.

(** list replacement concurrent with selection (any interleaving of Replace / Load / Choose
    events): every selection is [choose] on a list installed before it (the initial list or a
    replacement - "the old or the new list"), it reports no-server only if that list is empty
    and otherwise designates a member of that list *)
Theorem C04_replace_choice_in_loaded_list : forall q p l0 es os fin j b o,
  crun q p (cinit l0) es = (os, fin) ->
  nth_error os j = Some (Some (b, o)) ->
  exists l g c d k,
    nth_error es j = Some (CChoose g d k) /\
    nth_error (l0 :: replaced (firstn j es)) b = Some l /\
    o = choose q p l {| tk := c; dr := d; ky := k |} /\
    (o = NoServer <-> l = []) /\
    (forall i, sel_ok p l {| tk := c; dr := d; ky := k |} -> o = Chosen i ->
               exists s, nth_error l (Z.to_nat i) = Some s /\ In s l).
Proof. exact replace_choice_in_loaded_list. Qed.
Print Assumptions C04_replace_choice_in_loaded_list.

(** ... and that list is the one that was current when the selecting goroutine last loaded the
    pool's balancer: its index is the number of replacements that preceded that load *)
Theorem C04_replace_list_current_at_load : forall q p l0 es os fin j b o,
  crun q p (cinit l0) es = (os, fin) ->
  nth_error os j = Some (Some (b, o)) ->
  exists g d k m,
    nth_error es j = Some (CChoose g d k) /\
    (m < j)%nat /\ nth_error es m = Some (CLoad g) /\
    (forall m', (m < m' < j)%nat -> nth_error es m' <> Some (CLoad g)) /\
    b = List.length (replaced (firstn m es)).
Proof. exact replace_choice_current_at_load. Qed.
Print Assumptions C04_replace_list_current_at_load.

(** a retried request: every attempt loads the pool's balancer immediately before choosing
    ([attempt g d k] = [CLoad g; CChoose g d k], pool.go doHandle), so it selects from the list
    that is current at that moment - the last replacement that precedes the attempt, whatever
    happened while earlier attempts were in flight *)
Theorem C04_attempt_uses_current_list : forall q p l0 es os fin j g d k b o,
  crun q p (cinit l0) es = (os, fin) ->
  nth_error es j = Some (CLoad g) ->
  nth_error es (S j) = Some (CChoose g d k) ->
  nth_error os (S j) = Some (Some (b, o)) ->
  b = List.length (replaced (firstn j es)) /\
  exists c, o = choose q p (last (replaced (firstn j es)) l0) {| tk := c; dr := d; ky := k |}.
Proof. exact attempt_uses_current_list. Qed.
Print Assumptions C04_attempt_uses_current_list.

(** service discovery: the initial listing, the watcher's priming event and every later event are
    complete reports applied in order of delivery; after any sequence of reports the pool's list is
    the tagged instances of the LAST report (else the static list), none: the static list *)
Theorem C04_watch_last_report : forall static tags reports,
  watch_list static tags reports =
  match reports with
  | [] => static
  | _ => pool_list static (tagged tags (last reports []))
  end.
Proof. exact watch_list_last. Qed.
Print Assumptions C04_watch_last_report.

(** the decidable checkers applied to the implementation's observables raise no false alarm:
    the index sequence of any k contiguous tickets passes [balanced] (sequential groups) and the
    closed-form counts pass [balanced_counts] (concurrent group) *)
Theorem C04_checker_accepts_balanced : forall n c0 k,
  0 < n ->
  balanced n (Z.of_nat k) (map (rr n) (tickets c0 k)) = true /\
  balanced_counts n (Z.of_nat k) (map (rr_count n c0 (Z.of_nat k)) (zseq 0 (Z.to_nat n))) = true.
Proof. intros n c0 k Hn. split; [exact (tickets_balanced n c0 k Hn)|apply closed_form_balanced; [exact Hn|apply Nat2Z.is_nonneg]]. Qed.
Print Assumptions C04_checker_accepts_balanced.

(** ** SOUNDNESS of the decidable property checkers applied to the implementation's observables.

    One segment = the selections made while one list was current ([ws] its weights, [picks] the
    observed (hash key, chosen index) pairs in order, index -1 = "no server", -2 = panic, [c0] the
    balancer's counter before the first selection).  If the checker accepts, then:
    (1) "no server" is reported exactly when the list is empty, otherwise the chosen index designates
        a member of the list - with the single documented exception of a round-robin selection whose
        ticket is >= 2^63 (never inside the domain [in_domain c0 k], never for another policy);
    (2) roundRobin, n servers, k selections in the domain: every server was chosen floor(k/n) times or
        (only if n does not divide k) floor(k/n)+1 = ceil(k/n) times, and exactly k mod n servers got the
        larger count;
    (3) ipHash / headerHash: two selections with equal keys - any key, the empty one included - got
        the same server;
    (4) weightedRandom with non-negative weights, one of them positive: the chosen weight is positive. *)
Theorem C04_checker_sound_segment : forall p ws c0 picks,
  prop_sel p ws c0 picks = true ->
  let n := Z.of_nat (List.length ws) in
  let k := Z.of_nat (List.length picks) in
  (forall j key idx, nth_error picks j = Some (key, idx) ->
     (idx = -1 <-> ws = []) /\
     (ws <> [] ->
        (0 <= idx < n /\ exists w, nth_error ws (Z.to_nat idx) = Some w) \/
        (p = RoundRobin /\ idx = -2 /\
         exists t, nth_error (tickets64 c0 (List.length picks)) j = Some t /\ two63 <= t))) /\
  (p <> RoundRobin \/ in_domain c0 k = true ->
   forall key idx, In (key, idx) picks -> ws <> [] ->
     0 <= idx < n /\ exists w, nth_error ws (Z.to_nat idx) = Some w) /\
  (p = RoundRobin -> ws <> [] -> in_domain c0 k = true ->
     (forall i, 0 <= i < n ->
        count i (map snd picks) = k / n \/ (k mod n <> 0 /\ count i (map snd picks) = k / n + 1)) /\
     Z.of_nat (List.length (filter (fun i => count i (map snd picks) =? k / n + 1) (zseq 0 (Z.to_nat n)))) = k mod n) /\
  (p = IPHash \/ p = HeaderHash ->
     forall j1 j2 key i1 i2, nth_error picks j1 = Some (key, i1) -> nth_error picks j2 = Some (key, i2) -> i1 = i2) /\
  (p = WeightedRandom -> Forall (fun w => 0 <= w) ws -> Exists (fun w => 0 < w) ws ->
     forall key idx, In (key, idx) picks -> 0 < nthZ ws idx).
Proof. exact prop_sel_sound. Qed.
Print Assumptions C04_checker_sound_segment.

(** A whole observed history (groups pool, watch, and - per segment - lb and retry): requests
    [OReq] interleaved with any number of list replacements [OUse] (discovery reports), any length
    below 2^63, any policy.  [req_view] pairs every observed selection with the list current at
    that selection (declared by the last report before it: tagged instances, else static list;
    initially the static list); [segments] are the maximal runs of selections between replacements.
    If the checker accepts: every forwarded request went to a member of the list current at that
    selection; a request was failed for lack of a server ((503, internalError, no target)) exactly
    when that list was empty; nothing else (panic, other status) was observed while the list was
    non-empty; and every segment satisfies clauses (1)-(4) above with counter start 0, inside the
    round-robin domain. *)
Theorem C04_checker_sound_history : forall p static tags ops trs,
  Z.of_nat (List.length ops) <= two63 ->
  prop_pool p static tags ops trs = true ->
  (forall d key x, In (d, key, x) (req_view static tags static ops trs) ->
     (x = (503, "internalError"%string, ""%string) <-> d = []) /\
     (d <> [] -> exists s, In s d /\ x = (200, ""%string, s_url s))) /\
  (forall d picks, In (d, picks) (segments static tags static [] ops trs) -> seg_clauses p (weights d) 0 picks) /\
  (forall d picks, In (d, picks) (segments static tags static [] ops trs) ->
     in_domain 0 (Z.of_nat (List.length picks)) = true).
Proof. exact prop_pool_sound. Qed.
Print Assumptions C04_checker_sound_history.

(** Concurrent groups - what exactly is claimed.
    rrc: g goroutines made k = g * per selections on ONE round-robin balancer of n servers; the
    observable is the vector [cs] of per-server totals after ALL selections returned (no order, no
    intermediate moment, no per-goroutine claim).  Accepted => one total per server, each floor(k/n)
    or (n not dividing k) floor(k/n)+1, exactly k mod n of them the larger, and they add up to k
    (the checker also requires that no selection returned nil or panicked).
    swap: selections concurrent with list replacements; every selection is stamped with lo = the
    last installation completed before the call began and hi = the last installation started before
    it returned; the observations are aggregated as (lo, hi, chosen URL or "" for no server, count).
    Accepted => for every observed combination there is an installation j with lo <= j <= hi whose
    list contains the chosen server ("the old or the new list"), and "no server" was returned only if
    such a list is empty.  No balance claim is made across replacements. *)
Theorem C04_checker_sound_concurrent :
  (forall n k cs, 0 < n -> balanced_counts n k cs = true ->
     Z.of_nat (List.length cs) = n /\
     (forall c, In c cs -> c = k / n \/ (k mod n <> 0 /\ c = k / n + 1)) /\
     Z.of_nat (List.length (filter (fun c => c =? k / n + 1) cs)) = k mod n /\
     zsum cs = k) /\
  (forall urls hist, hist_ok urls hist = true ->
     forall lo hi u n, In (lo, hi, u, n) hist -> 0 < n ->
     exists j l, nth_error urls (Z.to_nat j) = Some l /\ lo <= j <= hi /\ 0 <= j /\
                 (u = ""%string -> l = []) /\ (u <> ""%string -> In u l)).
Proof. split; [exact balanced_counts_sound|exact hist_ok_sound]. Qed.
Print Assumptions C04_checker_sound_concurrent.

(** the comparison of the pool's observed list with the list the reports of discovery imply
    (groups pool, watch, retry): accepted => equal as multisets of (URL, weight) *)
Theorem C04_checker_sound_list : forall l1 l2, perm_eqb l1 l2 = true -> forall x, occ x l1 = occ x l2.
Proof. exact perm_eqb_sound. Qed.
Print Assumptions C04_checker_sound_list.

(** generations of a pool watching the same service (a pipeline update creates the next
    generation's pool - which subscribes - BEFORE the previous generation stops its watcher, and
    this repeats).  Once generation g has subscribed with id i, then whatever OTHER generations do
    with OTHER ids (subscribe, stop, in any order and number; the ids are never issued twice:
    uuid), the live generation is among the receivers of every report; together with
    [C04_watch_last_report] its list is the one of the last report. *)
Theorem C04_watch_generations_isolated : forall g i l st pre r,
  other_ids_differ g i st -> Forall (quiet_for g i) pre ->
  In (g, r) (snd (rstep (rfinal (fst (rstep st (WSub g i l))) pre) (WReport r))).
Proof. exact live_generation_receives. Qed.
Print Assumptions C04_watch_generations_isolated.

(** in particular ANY number of sibling watchers (65536 + k of them as well) that subscribe and stop
    next to the live generation - as long as none is given the live one's id - are a no-op for it:
    the next report still reaches it.  (The harness step [siblings n] runs n such pairs on the real
    registry; the checker treats the step as this no-op, it does not unroll the events.) *)
Theorem C04_watch_siblings_harmless : forall g i l l' st sibs r,
  other_ids_differ g i st ->
  (forall g' i', In (g', i') sibs -> g' <> g /\ i' <> i) ->
  In (g, r) (snd (rstep (rfinal (fst (rstep st (WSub g i l))) (siblings l' sibs)) (WReport r))).
Proof. exact siblings_harmless. Qed.
Print Assumptions C04_watch_siblings_harmless.

(** non-vacuity, and why the hypothesis "other ids" is needed: with ids re-used after a stop
    (gen 3 obtains gen 2's id) closing gen 2 deletes gen 3's subscription and a later report reaches
    nobody; with distinct ids it reaches generation 3 *)
Example C04_watch_generations_nonvacuous :
  let a := [{| i_url := "x"; i_tags := []; i_w := 0 |}] in
  snd (rstep (rfinal rinit [WSub 1 1 a; WSub 2 2 a; WStop 1; WSub 3 3 a; WStop 2]) (WReport a)) = [(3%nat, a)] /\
  snd (rstep (rfinal rinit [WSub 1 1 a; WSub 2 2 a; WStop 1; WSub 3 2 a; WStop 2]) (WReport a)) = [] /\
  Forall (quiet_for 3 3) [WStop 2; WSub 4 4 a; WStop 1] /\ other_ids_differ 3 3 (rfinal rinit [WSub 1 1 a; WSub 2 2 a; WStop 1]).
Proof.
  cbv zeta. split; [vm_compute; reflexivity|]. split; [vm_compute; reflexivity|]. split.
  - repeat constructor; cbn; lia.
  - intros g' i' H Hne. vm_compute in H.
    destruct g' as [|[|[|g']]]; try discriminate; inversion H; subst; lia.
Qed.

(** ONE request passing through several balancers (a mirror pool next to the main pool, several
    Proxy filters of one pipeline, candidate pools): every stage's outcome is [choose] applied to
    THAT stage's key ([stage_key]: the client address for ipHash, the value of the stage's own
    header for headerHash) and list, for any stages before or after it, any counters and draws -
    so two requests with equal keys at a hash stage get the same server there, whatever else they
    carry and whatever the other stages hashed or chose. *)
Theorem C04_chain_choice_depends_only_on_own_key :
  (forall q stages r envs s p hk l t d,
     nth_error stages s = Some (p, hk, l) -> nth_error envs s = Some (t, d) ->
     nth_error (chain_run q stages r envs) s = Some (choose q p l {| tk := t; dr := d; ky := stage_key p hk r |})) /\
  (forall q stages r1 r2 envs1 envs2 s p hk l t1 d1 t2 d2,
     nth_error stages s = Some (p, hk, l) ->
     p = IPHash \/ p = HeaderHash ->
     nth_error envs1 s = Some (t1, d1) -> nth_error envs2 s = Some (t2, d2) ->
     stage_key p hk r1 = stage_key p hk r2 ->
     nth_error (chain_run q stages r1 envs1) s = nth_error (chain_run q stages r2 envs2) s).
Proof. split; [exact chain_run_nth|exact chain_own_key]. Qed.
Print Assumptions C04_chain_choice_depends_only_on_own_key.

(** soundness of the chain checker: every stage's column of observations (its key and its choice
    for each request, in order) satisfies the segment clauses (1)-(4), and at a hash stage two
    requests with the same key AT THAT STAGE got the same server at that stage - nothing else the
    requests carry (other headers, client address, the other stages' keys and choices) matters *)
Theorem C04_checker_sound_chain : forall stages reqs,
  prop_chain stages reqs = true ->
  forall s pol hk n, nth_error stages s = Some (pol, hk, n) ->
    seg_clauses (policy_of_string pol) (stage_ws n) 0 (column s reqs) /\
    (policy_of_string pol = IPHash \/ policy_of_string pol = HeaderHash ->
     forall j1 j2 r1 r2, nth_error reqs j1 = Some r1 -> nth_error reqs j2 = Some r2 ->
       fst (nth s (snd r1) (""%string, -4)) = fst (nth s (snd r2) (""%string, -4)) ->
       snd (nth s (snd r1) (""%string, -4)) = snd (nth s (snd r2) (""%string, -4))).
Proof. exact prop_chain_sound. Qed.
Print Assumptions C04_checker_sound_chain.

Example C04_chain_nonvacuous :
  let st := [("ipHash", "", 3); ("headerHash", "X-User", 5)]%string in
  (* same X-User, different client address: same server at stage 1, different at stage 0: accepted *)
  prop_chain st [("bob", "", [("10.0.0.1", 1); ("bob", 4)]); ("bob", "", [("8.8.8.8", 2); ("bob", 4)])]%string = true /\
  (* stage 1 following stage 0's hash (the shape of a hash cached on the request): rejected *)
  prop_chain st [("bob", "", [("10.0.0.1", 1); ("bob", 4)]); ("bob", "", [("8.8.8.8", 2); ("bob", 2)])]%string = false /\
  chain_run ideal [(IPHash, "", mk_servers [0; 0; 0]); (HeaderHash, "X-User", mk_servers [0; 0; 0; 0; 0])]%string
            {| q_ip := "10.0.0.1"; q_hdr := fun _ => "bob"%string |} [(0, 0); (0, 0)]
  = [Chosen (Z.of_N (fnv32 "10.0.0.1") mod 3); Chosen (Z.of_N (fnv32 "bob") mod 5)].
Proof. vm_compute. repeat split; reflexivity. Qed.

(** non-vacuity of the soundness theorems: an accepted history with a replacement in the middle,
    round robin; an accepted ipHash segment with the EMPTY key; and histories the checker rejects
    (imbalance, a target outside the current list, no-server although the list is not empty,
    equal keys to different servers, a zero-weight choice) - the checker is not trivially true *)
Example C04_checker_nonvacuous :
  let a := {| s_url := "a"; s_w := 0 |} in let b := {| s_url := "b"; s_w := 0 |} in
  let i1 := {| i_url := "x"; i_tags := ["t"%string]; i_w := 0 |} in
  let rq := fun st rs tg => OReq "" "" "" 0 st rs tg in
  let h := [rq 200 "" "a"; rq 200 "" "b"; rq 200 "" "a"; OUse [i1] [("x"%string, 0)]; rq 200 "" "x"; OUse [] []; rq 200 "" "a"]%string in
  prop_pool RoundRobin [a; b] ["t"%string] h (obs_triples h) = true /\
  List.length (segments [a; b] ["t"%string] [a; b] [] h (obs_triples h)) = 3%nat /\
  prop_sel IPHash [0; 0; 0] 0 [(""%string, 2); ("k"%string, 0); (""%string, 2)] = true /\
  prop_sel RoundRobin [0; 0] 0 [(""%string, 0); (""%string, 0); (""%string, 0)] = false /\
  prop_pool RoundRobin [a; b] ["t"%string] [OUse [i1] []; rq 200 "" "a"]%string [(200, "", "a")]%string = false /\
  prop_pool RoundRobin [a; b] [] [rq 503 "internalError" ""]%string [(503, "internalError", "")]%string = false /\
  prop_sel HeaderHash [0; 0] 0 [(""%string, 0); (""%string, 1)] = false /\
  prop_sel WeightedRandom [0; 3] 0 [(""%string, 0)] = false /\
  balanced_counts 3 8 [3; 3; 2] = true /\ balanced_counts 3 8 [4; 2; 2] = false /\
  hist_ok [["u"]; ["v"]]%string [(0, 1, "v", 5); (1, 1, "v", 2)]%string = true /\
  hist_ok [["u"]; ["v"]]%string [(0, 0, "v", 1)]%string = false.
Proof. vm_compute. repeat split; reflexivity. Qed.

(** non-vacuity: concrete non-trivial instances *)
Example C04_nonvacuous_rr :
  map (rr 3) (tickets 7 8) = [1; 2; 0; 1; 2; 0; 1; 2] /\
  map (fun i => count i (map (rr 3) (tickets 7 8))) (zseq 0 3) = [2; 3; 3] /\
  map (rr_count 3 7 8) (zseq 0 3) = [2; 3; 3] /\ 8 mod 3 = 2.
Proof. vm_compute. repeat split; reflexivity. Qed.

Example C04_nonvacuous_wr :
  let l := [ {| s_url := "a"; s_w := 0 |}; {| s_url := "b"; s_w := 3 |}; {| s_url := "c"; s_w := 0 |}; {| s_url := "d"; s_w := 1 |} ] in
  sel_ok WeightedRandom l {| tk := 0; dr := 3; ky := "" |} /\
  map (fun r => choose ideal WeightedRandom l {| tk := 0; dr := r; ky := "" |}) [0; 1; 2; 3] = [Chosen 1; Chosen 1; Chosen 1; Chosen 3].
Proof. cbv zeta. split; [unfold sel_ok; vm_compute; repeat split; congruence|vm_compute; reflexivity]. Qed.

Example C04_nonvacuous_hash :
  fnv32 "10.0.0.1" = 4250619169%N /\
  choose ideal IPHash [ {| s_url := "a"; s_w := 0 |}; {| s_url := "b"; s_w := 0 |}; {| s_url := "c"; s_w := 0 |} ]
         {| tk := 0; dr := 0; ky := "10.0.0.1" |} = Chosen (4250619169 mod 3).
Proof. vm_compute. split; reflexivity. Qed.

Example C04_nonvacuous_retry :
  let a := {| s_url := "a"; s_w := 0 |} in let b := {| s_url := "b"; s_w := 0 |} in
  fst (crun ideal RoundRobin (cinit [a]) (attempt 1 0 "" ++ [CReplace [b]] ++ attempt 1 0 "" ++ attempt 1 0 ""))
  = [None; Some (0%nat, Chosen 0); None; None; Some (1%nat, Chosen 0); None; Some (1%nat, Chosen 0)].
Proof. vm_compute. reflexivity. Qed.

Example C04_nonvacuous_replace :
  let a := {| s_url := "a"; s_w := 0 |} in let b := {| s_url := "b"; s_w := 0 |} in
  fst (crun ideal RoundRobin (cinit [a]) [CLoad 1; CReplace [a; b]; CLoad 2; CChoose 1 0 ""; CChoose 2 0 ""; CChoose 2 0 ""])
  = [None; None; None; Some (0%nat, Chosen 0); Some (1%nat, Chosen 0); Some (1%nat, Chosen 1)].
Proof. vm_compute. reflexivity. Qed.
