(** C04 - property theorems only. Each is closed by [exact] of a lemma proved
    in proofs/LBProofs.v; nothing else lives here. *)
From EG.lib Require Import Base.
From EG.model Require Import LB LBCheck.
From EG.proofs Require Import LBProofs LBCheckProofs.
From Coq Require Import Permutation.
Open Scope Z_scope.

(** after any k round-robin selections on n servers (tickets c0 .. c0+k-1 of the atomic
    counter), every server has been chosen floor(k/n) or floor(k/n)+1 times and exactly
    k mod n servers got the larger count; on tickets below 2^63 the model's selection
    function is c mod n ([run_lb_rr]) *)
Theorem C04_rr_balanced : forall n c0 k i,
  0 < n -> 0 <= i < n ->
  let cs := map (rr n) (tickets c0 k) in
  let q := Z.of_nat k / n in
  (count i cs = q \/ count i cs = q + 1) /\
  Z.of_nat (List.length (filter (fun j => count j cs =? q + 1) (zseq 0 (Z.to_nat n)))) = Z.of_nat k mod n.
Proof. exact rr_balanced. Qed.
Print Assumptions C04_rr_balanced.

Theorem C04_rr_model_is_mod : forall q l, l <> [] ->
  forall xs c0, 0 <= c0 -> c0 + Z.of_nat (List.length xs) <= two63 ->
  run_lb q RoundRobin l c0 xs = map (fun c => Chosen (rr (Z.of_nat (List.length l)) c)) (tickets c0 (List.length xs)).
Proof. exact run_lb_rr. Qed.
Print Assumptions C04_rr_model_is_mod.

(** concurrent selectors: whatever the schedule (order of the atomic adds) and however the
    tickets are distributed over goroutines and re-ordered ([l] is any permutation of the
    tickets handed out), the per-server counts are the closed form [rr_count], which depends
    only on n, the start value and the number of selections *)
Theorem C04_rr_schedule_independent : forall n c0 sched l i,
  0 < n -> 0 <= i < n ->
  Permutation l (map snd (run_sched c0 sched)) ->
  count i (map (rr n) l) = rr_count n c0 (Z.of_nat (List.length sched)) i.
Proof. exact rr_schedule_independent. Qed.
Print Assumptions C04_rr_schedule_independent.

(** ipHash / headerHash: equal keys go to the same server while the list is unchanged
    (whatever the counter, the draws, the history) *)
Theorem C04_hash_sticky : forall q p l x1 x2,
  p = IPHash \/ p = HeaderHash -> ky x1 = ky x2 -> choose q p l x1 = choose q p l x2.
Proof. exact hash_sticky. Qed.
Print Assumptions C04_hash_sticky.

(** every policy: a chosen index designates a member of the list the balancer was built from *)
Theorem C04_choice_in_list : forall q p l x i,
  sel_ok p l x -> choose q p l x = Chosen i ->
  0 <= i < Z.of_nat (List.length l) /\ exists s, nth_error l (Z.to_nat i) = Some s /\ In s l.
Proof. exact choice_in_list. Qed.
Print Assumptions C04_choice_in_list.

(** weightedRandom never picks a zero-weight server when some weight is positive *)
Theorem C04_wr_never_zero_weight : forall q l x,
  Forall (fun s => 0 <= s_w s) l -> Exists (fun s => 0 < s_w s) l ->
  sel_ok WeightedRandom l x ->
  exists i s, choose q WeightedRandom l x = Chosen i /\ nth_error l (Z.to_nat i) = Some s /\ In s l /\ 0 < s_w s.
Proof. exact wr_positive_server. Qed.
Print Assumptions C04_wr_never_zero_weight.

(** a selection fails for lack of a server only when the list is empty (every policy, every
    quirk setting, every environment) *)
Theorem C04_no_server_iff_empty : forall q p l x, choose q p l x = NoServer <-> l = [].
Proof. exact no_server_iff_empty. Qed.
Print Assumptions C04_no_server_iff_empty.

(** the pool's current list: the instances carrying one of the configured tags, else the static
    list; independent (up to order) of the map iteration order of the discovery event *)
Theorem C04_pool_list_spec : forall static tags insts,
  (forall s, In s (pool_list static (tagged tags insts)) <->
             (exists i, In i insts /\ (exists t, In t tags /\ In t (i_tags i)) /\ s = inst_server i) \/
             ((forall i, In i insts -> ~ exists t, In t tags /\ In t (i_tags i)) /\ In s static)) /\
  (forall insts', Permutation insts insts' ->
                  Permutation (pool_list static (tagged tags insts)) (pool_list static (tagged tags insts'))).
Proof. exact pool_list_spec. Qed.
Print Assumptions C04_pool_list_spec.

(** repaired code ([ideal]): no policy panics, for the static list of a validated pool or for
    any list reported by discovery (weights unconstrained) *)
Theorem C04_validated_never_panics : forall spec insts x,
  validate spec = true ->
  let l := pool_list (ps_static spec) (tagged (ps_tags spec) insts) in
  let p := policy_of_string (ps_policy spec) in
  sel_ok p l x -> choose ideal p l x <> Panic.
Proof. exact validated_never_panics. Qed.
Print Assumptions C04_validated_never_panics.

(** the pinned code: a pool that validation accepts on which weightedRandom panics *)
Theorem C04_refuted_wr_zero_total :
  exists spec x,
    validate spec = true /\
    (let l := pool_list (ps_static spec) (tagged (ps_tags spec) []) in
     let p := policy_of_string (ps_policy spec) in
     sel_ok p l x /\ choose pinned_code p l x = Panic /\ choose ideal p l x <> Panic).
Proof. exact refuted_wr_zero_total. Qed.
Print Assumptions C04_refuted_wr_zero_total.

(** list replacement concurrent with selection (any interleaving of Replace / Load / Choose
    events): every selection is [choose] on a list installed before it (the initial list or a
    replacement - "the old or the new list"), it reports no-server only if that list is empty
    and otherwise designates a member of that list *)
Theorem C04_replace_choice_in_loaded_list : forall q p l0 es os fin j b o,
  crun q p (cinit l0) es = (os, fin) ->
  nth_error os j = Some (Some (b, o)) ->
  exists l g c d k,
    nth_error es j = Some (CChoose g d k) /\
    nth_error (l0 :: replaced (firstn j es)) b = Some l /\
    o = choose q p l {| tk := c; dr := d; ky := k |} /\
    (o = NoServer <-> l = []) /\
    (forall i, sel_ok p l {| tk := c; dr := d; ky := k |} -> o = Chosen i ->
               exists s, nth_error l (Z.to_nat i) = Some s /\ In s l).
Proof. exact replace_choice_in_loaded_list. Qed.
Print Assumptions C04_replace_choice_in_loaded_list.

(** ... and that list is the one that was current when the selecting goroutine last loaded the
    pool's balancer: its index is the number of replacements that preceded that load *)
Theorem C04_replace_list_current_at_load : forall q p l0 es os fin j b o,
  crun q p (cinit l0) es = (os, fin) ->
  nth_error os j = Some (Some (b, o)) ->
  exists g d k m,
    nth_error es j = Some (CChoose g d k) /\
    (m < j)%nat /\ nth_error es m = Some (CLoad g) /\
    (forall m', (m < m' < j)%nat -> nth_error es m' <> Some (CLoad g)) /\
    b = List.length (replaced (firstn m es)).
Proof. exact replace_choice_current_at_load. Qed.
Print Assumptions C04_replace_list_current_at_load.

(** a retried request: every attempt loads the pool's balancer immediately before choosing
    ([attempt g d k] = [CLoad g; CChoose g d k], pool.go doHandle), so it selects from the list
    that is current at that moment - the last replacement that precedes the attempt, whatever
    happened while earlier attempts were in flight *)
Theorem C04_attempt_uses_current_list : forall q p l0 es os fin j g d k b o,
  crun q p (cinit l0) es = (os, fin) ->
  nth_error es j = Some (CLoad g) ->
  nth_error es (S j) = Some (CChoose g d k) ->
  nth_error os (S j) = Some (Some (b, o)) ->
  b = List.length (replaced (firstn j es)) /\
  exists c, o = choose q p (last (replaced (firstn j es)) l0) {| tk := c; dr := d; ky := k |}.
Proof. exact attempt_uses_current_list. Qed.
Print Assumptions C04_attempt_uses_current_list.

(** service discovery: the initial listing, the watcher's priming event and every later event are
    complete reports applied in order of delivery; after any sequence of reports the pool's list is
    the tagged instances of the LAST report (else the static list), none: the static list *)
Theorem C04_watch_last_report : forall static tags reports,
  watch_list static tags reports =
  match reports with
  | [] => static
  | _ => pool_list static (tagged tags (last reports []))
  end.
Proof. exact watch_list_last. Qed.
Print Assumptions C04_watch_last_report.

(** the decidable checkers applied to the implementation's observables raise no false alarm:
    the index sequence of any k contiguous tickets passes [balanced] (sequential groups) and the
    closed-form counts pass [balanced_counts] (concurrent group) *)
Theorem C04_checker_accepts_balanced : forall n c0 k,
  0 < n ->
  balanced n (Z.of_nat k) (map (rr n) (tickets c0 k)) = true /\
  balanced_counts n (Z.of_nat k) (map (rr_count n c0 (Z.of_nat k)) (zseq 0 (Z.to_nat n))) = true.
Proof. intros n c0 k Hn. split; [exact (tickets_balanced n c0 k Hn)|apply closed_form_balanced; [exact Hn|apply Nat2Z.is_nonneg]]. Qed.
Print Assumptions C04_checker_accepts_balanced.

(** non-vacuity: concrete non-trivial instances *)
Example C04_nonvacuous_rr :
  map (rr 3) (tickets 7 8) = [1; 2; 0; 1; 2; 0; 1; 2] /\
  map (fun i => count i (map (rr 3) (tickets 7 8))) (zseq 0 3) = [2; 3; 3] /\
  map (rr_count 3 7 8) (zseq 0 3) = [2; 3; 3] /\ 8 mod 3 = 2.
Proof. vm_compute. repeat split; reflexivity. Qed.

Example C04_nonvacuous_wr :
  let l := [ {| s_url := "a"; s_w := 0 |}; {| s_url := "b"; s_w := 3 |}; {| s_url := "c"; s_w := 0 |}; {| s_url := "d"; s_w := 1 |} ] in
  sel_ok WeightedRandom l {| tk := 0; dr := 3; ky := "" |} /\
  map (fun r => choose ideal WeightedRandom l {| tk := 0; dr := r; ky := "" |}) [0; 1; 2; 3] = [Chosen 1; Chosen 1; Chosen 1; Chosen 3].
Proof. cbv zeta. split; [unfold sel_ok; vm_compute; repeat split; congruence|vm_compute; reflexivity]. Qed.

Example C04_nonvacuous_hash :
  fnv32 "10.0.0.1" = 4250619169%N /\
  choose ideal IPHash [ {| s_url := "a"; s_w := 0 |}; {| s_url := "b"; s_w := 0 |}; {| s_url := "c"; s_w := 0 |} ]
         {| tk := 0; dr := 0; ky := "10.0.0.1" |} = Chosen (4250619169 mod 3).
Proof. vm_compute. split; reflexivity. Qed.

Example C04_nonvacuous_retry :
  let a := {| s_url := "a"; s_w := 0 |} in let b := {| s_url := "b"; s_w := 0 |} in
  fst (crun ideal RoundRobin (cinit [a]) (attempt 1 0 "" ++ [CReplace [b]] ++ attempt 1 0 "" ++ attempt 1 0 ""))
  = [None; Some (0%nat, Chosen 0); None; None; Some (1%nat, Chosen 0); None; Some (1%nat, Chosen 0)].
Proof. vm_compute. reflexivity. Qed.

Example C04_nonvacuous_replace :
  let a := {| s_url := "a"; s_w := 0 |} in let b := {| s_url := "b"; s_w := 0 |} in
  fst (crun ideal RoundRobin (cinit [a]) [CLoad 1; CReplace [a; b]; CLoad 2; CChoose 1 0 ""; CChoose 2 0 ""; CChoose 2 0 ""])
  = [None; None; None; Some (0%nat, Chosen 0); Some (1%nat, Chosen 0); Some (1%nat, Chosen 1)].
Proof. vm_compute. reflexivity. Qed.
