(** C19 - property theorems only. Each is closed by [exact] of a lemma proved in
    proofs/SyncerProofs.v.  [run s0 evs] = the snapshots the syncer's run loop hands to
    its consumer when the watched content is [s0] at subscription and [evs] is ANY
    interleaving of store writes, successful/failed pulls, watch responses, watch
    cancellations and ticks.  [wf d] = the keys of [d] are unique (a content is a map). *)
From EG.lib Require Import Base.
From EG.model Require Import Syncer.
From EG.proofs Require Import SyncerProofs.

(** the code's comparison of two pulled maps is map equality *)
Theorem is_data_equal_spec : forall d1 d2,
  wf d1 -> wf d2 -> (is_data_equal d1 d2 = true <-> forall k, alookup k d1 = alookup k d2).
Proof. exact is_data_equal_spec. Qed.
Print Assumptions is_data_equal_spec.

(** every delivered snapshot is a content the store actually had (at or after subscription) *)
Theorem C19_snapshots_are_store_states : forall s0 evs x,
  In x (run s0 evs) -> In x (s0 :: writes evs).
Proof. exact snapshots_are_store_states. Qed.
Print Assumptions C19_snapshots_are_store_states.

(** ... and the snapshots can be assigned store positions that never go backwards *)
Theorem C19_monotone : forall s0 evs,
  exists idx : list nat,
    Forall2 (fun i x => nth_error (s0 :: writes evs) i = Some x) idx (run s0 evs) /\
    (forall i j a b, (i < j)%nat -> nth_error idx i = Some a -> nth_error idx j = Some b -> (a <= b)%nat).
Proof. exact monotone. Qed.
Print Assumptions C19_monotone.

(** consecutive snapshots differ (the first one from the consumer's implicit empty content) *)
Theorem C19_consecutive_differ : forall s0 evs pre a b post,
  Forall wf (s0 :: writes evs) ->
  [] :: run s0 evs = pre ++ a :: b :: post ->
  is_data_equal a b = false /\ ~ (forall k, alookup k a = alookup k b).
Proof. exact consecutive_differ_both. Qed.
Print Assumptions C19_consecutive_differ.

(** the first snapshot is the content found by a successful pull after subscription, and
    the first successful pull delivers the then-current content unless it is empty *)
Theorem C19_first_is_current : forall s0,
  (forall evs x rest, run s0 evs = x :: rest ->
     exists pre e post, evs = pre ++ e :: post /\ is_pull e = true /\ run s0 pre = [] /\
                        x = store_after s0 pre) /\
  (forall pre e post,
     is_pull e = true -> forallb (fun e => negb (is_pull e)) pre = true ->
     is_data_equal [] (store_after s0 pre) = false ->
     hd_error (run s0 (pre ++ e :: post)) = Some (store_after s0 pre)).
Proof. exact first_is_current. Qed.
Print Assumptions C19_first_is_current.

(** convergence: whatever happened before ([evs1]: writes, failed pulls, cancelled watches,
    lost or late watch responses ...), once the writes have stopped and one more pull
    succeeds ([evs2] - the ticker guarantees it), the last delivered snapshot (or the
    implicit empty one) is the final store content.  No further write is needed. *)
Theorem C19_converges : forall s0 evs1 evs2,
  Forall wf (s0 :: writes (evs1 ++ evs2)) ->
  writes evs2 = [] -> existsb is_pull evs2 = true ->
  forall k, alookup k (last (run s0 (evs1 ++ evs2)) []) = alookup k (store_after s0 (evs1 ++ evs2)).
Proof. exact converges_run. Qed.
Print Assumptions C19_converges.

(** the decidable trace checker used on the implementation's traces accepts exactly the
    possible outputs of the model (with [fin]: of runs in which a pull follows the last write) *)
Theorem C19_checker_complete : forall fin s0 ws obs,
  Forall wf (s0 :: ws) ->
  (check_trace fin s0 ws obs = true <->
   exists evs, writes evs = ws /\ run s0 evs = obs /\ (fin = true -> pulled false evs = true)).
Proof. exact checker_complete. Qed.
Print Assumptions C19_checker_complete.

(** [pulled false evs = true] says: a successful pull follows the last write *)
Theorem C19_pulled_meaning : forall evs,
  pulled false evs = true <->
  exists e1 e2, evs = e1 ++ e2 /\ writes e2 = [] /\ existsb is_pull e2 = true.
Proof. exact pulled_split. Qed.
Print Assumptions C19_pulled_meaning.

(** an accepted trace satisfies every clause of the property *)
Theorem C19_checker_sound : forall s0 ws obs,
  Forall wf (s0 :: ws) -> check_trace true s0 ws obs = true ->
  (exists idx : list nat,
      Forall2 (fun i x => nth_error (s0 :: ws) i = Some x) idx obs /\
      (forall i j a b, (i < j)%nat -> nth_error idx i = Some a -> nth_error idx j = Some b -> (a <= b)%nat)) /\
  (forall pre a b post, [] :: obs = pre ++ a :: b :: post -> ~ (forall k, alookup k a = alookup k b)) /\
  (forall k, alookup k (last obs []) = alookup k (last ws s0)).
Proof. exact checker_sound. Qed.
Print Assumptions C19_checker_sound.

(** the linear-time variant of the checker that the harness evaluates (needed for prefixes of
    thousands of keys) decides the same thing for contents with unique keys *)
Theorem C19_fast_checker_equiv : forall fin s0 ws obs,
  Forall wf (s0 :: ws) -> check_trace_fast fin s0 ws obs = check_trace fin s0 ws obs.
Proof. exact check_trace_fast_eq. Qed.
Print Assumptions C19_fast_checker_equiv.

(** multi-member store: availability is the quorum, not one endpoint.  A client that holds the
    endpoints of all [n] members can reach a live member for every set of stopped members that
    leaves the quorum intact (so the pulls of C19_converges keep succeeding while one server of
    three is stopped); a client pinned to a single member cannot (refutation witness). *)
Theorem C19_all_endpoints_survive_minority_stop : forall n down,
  NoDup down -> quorum n (List.length down) = true -> reachable (all_members n) down = true.
Proof. exact all_endpoints_reach. Qed.
Print Assumptions C19_all_endpoints_survive_minority_stop.

Theorem C19_refuted_single_endpoint :
  quorum 3 1 = true /\ reachable [1] [1] = false /\ reachable (all_members 3) [1] = true.
Proof. exact single_endpoint_unreachable. Qed.
Print Assumptions C19_refuted_single_endpoint.

(** non-vacuity: a concrete history with a burst, a same-value put, a delete-then-recreate,
    a failed pull and a cancelled watch; three snapshots, the last one the final content *)
Example C19_nonvacuous :
  let a := [("k", "1")]%string in
  let b := [("k", "1"); ("m", "x")]%string in
  let evs := [Pull; Write a; Write b; WatchEvent; Write b; WatchEvent; PullFails; Write a;
              WatchCanceled; Write []; Write a; Tick] in
  Forall wf ([] :: writes evs) /\ run [] evs = [b; a] /\ pulled false evs = true /\
  check_trace true [] (writes evs) [b; a] = true /\ check_trace true [] (writes evs) [a; b] = false.
Proof.
  cbv zeta. split.
  - repeat constructor; simpl; intuition discriminate.
  - vm_compute. repeat split; reflexivity.
Qed.
