(** C05 - property theorems only. Each is closed by [exact] of a lemma proved in
    proofs/IPFilterProofs.v; nothing else lives here.

    The router-level clauses over the full router and the route cache (real match
    conditions, arbitrary cache) are proved over model/Mux.v (C01/C12) and
    re-exported here by the coordinator; the [C05_mini_*] theorems below state
    them for the mini router of model/IPFilter.v (match conditions abstract, i.e.
    for every possible outcome of host/path/method/header matching) whose control
    flow the C05 harness ties to muxInstance.search. *)
From EG.lib Require Import Base.
From EG.model Require Import IPFilter.
From EG.proofs Require Import IPFilterProofs.
Open Scope N_scope.

(** IPv4, IPv6 and CIDR entries follow standard prefix semantics: an address lies in
    an entry iff it has the entry's family and agrees with the prefix on the first
    [e_len] bits (bit [bits-1] is the first bit as written). *)
Theorem contains_is_prefix_equality : forall e a, wf_entry e -> wf_addr a ->
  (contains e a = true <->
   e_fam e = a_fam a /\
   forall i, i < e_len e ->
     N.testbit (a_val a) (fam_bits (e_fam e) - 1 - i) = N.testbit (e_pre e) (fam_bits (e_fam e) - 1 - i)).
Proof. exact contains_prefix. Qed.
Print Assumptions contains_is_prefix_equality.

(** An address is denied iff it lies in a blocked address/CIDR and in no allowed one,
    or lies in neither or in both and blockByDefault is set. *)
Theorem C05_decision_table : forall f a,
  allow ideal f (Some a) = false <->
  (lies_in (f_block f) a /\ ~ lies_in (f_allow f) a) \/
  (((~ lies_in (f_block f) a /\ ~ lies_in (f_allow f) a) \/
    (lies_in (f_block f) a /\ lies_in (f_allow f) a)) /\ f_block_default f = true).
Proof. exact decision_table. Qed.
Print Assumptions C05_decision_table.

(** a client address that does not parse gets the default (as the code has it) *)
Theorem C05_unparsable_gets_default : forall q f, allow q f None = negb (f_block_default f).
Proof. exact unparsable_default. Qed.
Print Assumptions C05_unparsable_gets_default.

(** the server / rule / path chain denies iff one of its filters denies *)
Theorem C05_chain_allow : forall q fs oa,
  (chain_allow q fs oa = true <-> forall f, In f fs -> allow q f oa = true) /\
  (chain_allow q fs oa = false <-> exists f, In f fs /\ allow q f oa = false).
Proof. intros q fs oa. exact (conj (chain_allow_spec q fs oa) (chain_denied_spec q fs oa)). Qed.
Print Assumptions C05_chain_allow.

(** non-vacuity: a /20 entry, the two boundary addresses (bit len-1 and bit len
    flipped), an overlapping allow entry and both defaults *)
Example C05_nonvacuous :
  let blk := {| e_fam := V4; e_pre := 167837696; e_len := 20; e_mapped := false |} in   (* 10.1.0.0/20 *)
  let alw := {| e_fam := V4; e_pre := 167838208; e_len := 23; e_mapped := false |} in   (* 10.1.2.0/23 *)
  let f d := {| f_block_default := d; f_allow := [alw]; f_block := [blk] |} in
  let a v := Some {| a_fam := V4; a_val := v |} in
  wf_entry blk /\ wf_entry alw /\
  allow ideal (f false) (a 167837697) = false /\      (* 10.1.0.1   blocked only *)
  allow ideal (f false) (a 167838209) = true /\       (* 10.1.2.1   both, default allow *)
  allow ideal (f true) (a 167838209) = false /\       (* 10.1.2.1   both, blockByDefault *)
  allow ideal (f false) (a 167841792) = true /\       (* 10.1.16.0  bit len-1 flipped: outside *)
  allow ideal (f true) (a 167841792) = false /\       (*            neither, blockByDefault *)
  allow ideal (f false) (a 167839744) = false.        (* 10.1.8.0   bit len flipped: still inside *)
Proof. cbv zeta. unfold wf_entry. cbn [e_len e_fam e_pre fam_bits]. repeat split; try lia; vm_compute; reflexivity. Qed.

(** ** enforcement, cache-less mini router (all servers, all requests) *)

(** a request is refused with 403 and reaches no backend iff an applying filter denies it *)
Theorem C05_mini_denied_never_dispatched : forall q s r,
  (search_nocache q s r = OForbidden <-> denied q s r = true) /\
  (denied q s r = true -> serve s (search_nocache q s r) = (403, 0)).
Proof. intros q s r. exact (conj (nocache_forbidden_iff_denied q s r) (nocache_denied_refused q s r)). Qed.
Print Assumptions C05_mini_denied_never_dispatched.

(** a request that no applying filter denies is routed exactly as on the twin server
    with every filter erased *)
Theorem C05_mini_not_denied_unaffected : forall q s r,
  denied q s r = false ->
  serve s (search_nocache q s r) = serve (erase s) (search_nocache q (erase s) r).
Proof. exact nocache_not_denied_as_twin. Qed.
Print Assumptions C05_mini_not_denied_unaffected.

(** ** enforcement with the route cache (mini router), every history

    For every server, every request history and every eviction behaviour (the hit
    oracle [rq_hit] is arbitrary, except that a hit is reported only for a key that
    was put before): provided the twin's routing decision depends on the cache key
    only ([key_det]: no key collision, no header-dependent answer under one key -
    the concern of C12), every request denied by an applying filter is refused with a
    4xx status (403 whenever the twin finds a route) and reaches no backend, and every
    other request gets exactly the twin's outcome.  [good] spells this out. *)
Theorem C05_mini_cached_enforced : forall s reqs,
  key_det ideal s reqs -> hits_present ideal s [] reqs ->
  Forall2 (fun r out =>
             (denied ideal s r = true ->
                400 <= fst out < 500 /\ snd out = 0 /\
                (forall ri pi, search_nocache ideal (erase s) r = ORoute ri pi -> fst out = 403)) /\
             (denied ideal s r = false -> out = serve (erase s) (search_nocache ideal (erase s) r)))
          reqs (run ideal s [] reqs).
Proof. exact run_enforced_ideal. Qed.
Print Assumptions C05_mini_cached_enforced.

(** the same from any sound cache, for any quirk record with the hit flag off *)
Theorem C05_mini_cached_enforced_general : forall q, q_hit_skips_visited_rules q = false ->
  forall s reqs c, key_det q s reqs -> cache_ok q s c reqs -> hits_present q s c reqs ->
  Forall2 (good q s) reqs (run q s c reqs).
Proof. exact run_enforced. Qed.
Print Assumptions C05_mini_cached_enforced_general.

Example C05_cached_nonvacuous :
  key_det ideal wit_server wit_reqs /\ cache_ok ideal wit_server [] wit_reqs /\
  hits_present ideal wit_server [] wit_reqs /\
  run ideal wit_server [] wit_reqs = [(200, 2); (403, 0)].
Proof. exact run_enforced_nonvacuous. Qed.

(** ** refutations: the unchanged code's defects, one flag each *)

(** [::ffff:a.b.c.d] entries: an address lying in an allowed entry and in no blocked
    one is denied (contradicts [C05_decision_table]) *)
Theorem C05_refuted_q_mapped_entry_dead :
  exists f a, lies_in (f_allow f) a /\ ~ lies_in (f_block f) a /\ allow q_mapped f (Some a) = false.
Proof. exact refuted_mapped. Qed.
Print Assumptions C05_refuted_q_mapped_entry_dead.

(** cached route: a request denied by the filter of an earlier host-matching rule is
    dispatched (200, backend 2) on a hit; cache-less and ideal servers answer 403 *)
Theorem C05_refuted_q_hit_skips_visited_rules :
  exists s reqs r,
    nth_error reqs 1 = Some r /\ denied ideal s r = true /\
    nth_error (run q_hitskip s [] reqs) 1 = Some (200, 2) /\
    nth_error (run_nocache q_hitskip s reqs) 1 = Some (403, 0) /\
    nth_error (run ideal s [] reqs) 1 = Some (403, 0).
Proof. exact refuted_hitskip. Qed.
Print Assumptions C05_refuted_q_hit_skips_visited_rules.
