(** C05 - property theorems only. Each is closed by [exact] of a lemma proved in
    proofs/IPFilterProofs.v; nothing else lives here.

    The router-level clauses over the full router and the route cache
    ("denied never dispatched" / "not denied unaffected" for every eviction
    behaviour and request history) are proved over model/Mux.v (C01/C12) and
    re-exported here by the coordinator; the [C05_mini_*] theorems below state
    them for the mini router of model/IPFilter.v whose control flow the C05
    harness ties to muxInstance.search. *)
From EG.lib Require Import Base.
From EG.model Require Import IPFilter.
From EG.proofs Require Import IPFilterProofs.
Open Scope N_scope.

(** IPv4, IPv6 and CIDR entries follow standard prefix semantics: an address lies in
    an entry iff it has the entry's family and agrees with the prefix on the first
    [e_len] bits (bit [bits-1] is the first bit as written). *)
Theorem contains_is_prefix_equality : forall e a, wf_entry e -> wf_addr a ->
  (contains e a = true <->
   e_fam e = a_fam a /\
   forall i, i < e_len e ->
     N.testbit (a_val a) (fam_bits (e_fam e) - 1 - i) = N.testbit (e_pre e) (fam_bits (e_fam e) - 1 - i)).
Proof. exact contains_prefix. Qed.
Print Assumptions contains_is_prefix_equality.

(** An address is denied iff it lies in a blocked address/CIDR and in no allowed one,
    or lies in neither or in both and blockByDefault is set. *)
Theorem C05_decision_table : forall f a,
  allow ideal f (Some a) = false <->
  (lies_in (f_block f) a /\ ~ lies_in (f_allow f) a) \/
  (((~ lies_in (f_block f) a /\ ~ lies_in (f_allow f) a) \/
    (lies_in (f_block f) a /\ lies_in (f_allow f) a)) /\ f_block_default f = true).
Proof. exact decision_table. Qed.
Print Assumptions C05_decision_table.

(** a client address that does not parse gets the default (as the code has it) *)
Theorem C05_unparsable_gets_default : forall q f, allow q f None = negb (f_block_default f).
Proof. exact unparsable_default. Qed.
Print Assumptions C05_unparsable_gets_default.

(** the server / rule / path chain denies iff one of its filters denies *)
Theorem C05_chain_allow : forall q fs oa,
  (chain_allow q fs oa = true <-> forall f, In f fs -> allow q f oa = true) /\
  (chain_allow q fs oa = false <-> exists f, In f fs /\ allow q f oa = false).
Proof. intros q fs oa. exact (conj (chain_allow_spec q fs oa) (chain_denied_spec q fs oa)). Qed.
Print Assumptions C05_chain_allow.

(** non-vacuity: a /20 entry, the two boundary addresses (bit len-1 and bit len
    flipped), an overlapping allow entry and both defaults *)
Example C05_nonvacuous :
  let blk := {| e_fam := V4; e_pre := 167837696; e_len := 20; e_mapped := false |} in   (* 10.1.0.0/20 *)
  let alw := {| e_fam := V4; e_pre := 167838208; e_len := 23; e_mapped := false |} in   (* 10.1.2.0/23 *)
  let f d := {| f_block_default := d; f_allow := [alw]; f_block := [blk] |} in
  let a v := Some {| a_fam := V4; a_val := v |} in
  wf_entry blk /\ wf_entry alw /\
  allow ideal (f false) (a 167837697) = false /\      (* 10.1.0.1   blocked only *)
  allow ideal (f false) (a 167838209) = true /\       (* 10.1.2.1   both, default allow *)
  allow ideal (f true) (a 167838209) = false /\       (* 10.1.2.1   both, blockByDefault *)
  allow ideal (f false) (a 167841792) = true /\       (* 10.1.16.0  bit len-1 flipped: outside *)
  allow ideal (f true) (a 167841792) = false /\       (*            neither, blockByDefault *)
  allow ideal (f false) (a 167839744) = false.        (* 10.1.8.0   bit len flipped: still inside *)
Proof. cbv zeta. unfold wf_entry. cbn [e_len e_fam e_pre fam_bits]. repeat split; try lia; vm_compute; reflexivity. Qed.

(** ** enforcement, cache-less mini router (all servers, all requests) *)

(** a request is refused with 403 and reaches no backend iff an applying filter denies it *)
Theorem C05_mini_denied_never_dispatched : forall q s r,
  (search_nocache q s r = OForbidden <-> denied q s r = true) /\
  (denied q s r = true -> serve s (search_nocache q s r) = (403, 0)).
Proof. intros q s r. exact (conj (nocache_forbidden_iff_denied q s r) (nocache_denied_refused q s r)). Qed.
Print Assumptions C05_mini_denied_never_dispatched.

(** a request that no applying filter denies is routed exactly as on the twin server
    with every filter erased *)
Theorem C05_mini_not_denied_unaffected : forall q s r,
  denied q s r = false ->
  serve s (search_nocache q s r) = serve (erase s) (search_nocache q (erase s) r).
Proof. exact nocache_not_denied_as_twin. Qed.
Print Assumptions C05_mini_not_denied_unaffected.
