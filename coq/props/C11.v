(** C11 - property theorems only. Each is closed by [exact] of a lemma proved in
    proofs/ReloadProofs.v; nothing else lives here. *)
From EG.lib Require Import Base.
From EG.model Require Import RL Reload ReloadCheck.
From EG.proofs Require Import ReloadProofs ReloadCheckProofs.
Open Scope Z_scope.

(** For every interleaving of request steps (LoadInst, Search, GetHandler, Rewrite, XFF, Limit,
    Handle), arriving requests and instance stores (mux.reload), the whole state of every request
    thread - routing result, handler, rewritten path, X-Forwarded-For, body-limit verdict, response
    - is the state of a sequential execution under ONE generation [g] that was published at some
    time (the one it loaded); a finished request has exactly that generation's answer. *)
Theorem C11_one_generation_per_request : forall g0 ls t,
  In t (mw_threads (mx_run (mx_init g0) ls)) ->
  t = mx_fresh (t_req t) \/
  exists g n, In g (mw_hist (mx_run (mx_init g0) ls)) /\ t_snap t = Some g /\
              t = mx_seq g (t_req t) (S n) /\
              (t_pc t = PDone -> t_out t = mx_serve g (t_req t)).
Proof. exact one_generation_per_request. Qed.
Print Assumptions C11_one_generation_per_request.

(** once the update has been applied ([LStore g], no later store) every request that loads the
    instance afterwards holds the new generation *)
Theorem C11_new_requests_see_new : forall g0 ls1 g ls2 i t,
  Forall no_store ls2 ->
  let w1 := mx_step (mx_run (mx_init g0) ls1) (LStore g) in
  match nth_error (mw_threads w1) i with None => True | Some t1 => t_pc t1 = PStart end ->
  nth_error (mw_threads (mx_run w1 ls2)) i = Some t ->
  t_pc t <> PStart -> t_snap t = Some g.
Proof. exact new_requests_see_new. Qed.
Print Assumptions C11_new_requests_see_new.

(** RateLimiter (the one kind whose Inherit moves state), ideal model: no history of
    Init/Inherit/Handle - requests on superseded generations included - ever panics, and an Inherit
    leaves every existing generation in place, answering its next request as without the Inherit *)
Theorem C11_old_generation_completes :
  (forall ops, Forall op_ok ops ->
     Forall (fun ob => ob <> OHandle FPanic /\ ob <> OInheritPanic) (frun ideal fworld0 ops)) /\
  (forall w s from now w' ob,
     fwf w -> spec_ok s -> fstep ideal w (FInherit s from now) = (w', ob) ->
     forall gi g, nth_error (w_gens w) gi = Some g ->
       nth_error (w_gens w') gi = Some g /\
       forall now' m, snd (flt_handle (w_heap w') g now' m) = snd (flt_handle (w_heap w) g now' m)).
Proof. exact old_generation_completes. Qed.
Print Assumptions C11_old_generation_completes.

(** kinds whose Inherit is Init (Proxy, Validator, adaptors, Mock, ...), for every behaviour
    function of (spec, own request history): whatever else happens (Inherit from it, Close of it,
    traffic on other generations), an existing generation answers like a lone instance *)
Theorem C11_old_generation_completes_pure_kinds :
  forall (O : Type) (behave : nat -> list nat -> O) ops gs g x,
  nth_error gs g = Some x ->
  answers g ops (pk_run behave gs ops) =
  solo_from behave (kg_spec x) (kg_hist x) (handled g (List.length gs) ops).
Proof. exact @pure_kind_generation_is_solo. Qed.
Print Assumptions C11_old_generation_completes_pure_kinds.

(** pipeline generations (ideal): no Init/Inherit/Handle ever panics; and a request that holds a
    generation [x]: whatever pipeline operations follow (updates inheriting from it, its Close,
    traffic on any generation), [x] stays in place, no existing filter instance is modified
    (instances are only appended, so interleaving at filter granularity changes nothing), and [x]
    handles the request exactly as it would have at the start, without panic *)
Theorem C11_old_pipeline_generation_completes :
  (forall specs ops, Forall obs_fine (pl_run rideal specs pl_world0 ops)) /\
  (forall specs ops w g x, pl_wf w -> nth_error (pw_gens w) g = Some x ->
     nth_error (pw_gens (pl_final rideal specs w ops)) g = Some x /\
     (exists more, pw_insts (pl_final rideal specs w ops) = pw_insts w ++ more) /\
     pl_flow_run (pw_insts (pl_final rideal specs w ops)) (pg_flow x) [] = pl_flow_run (pw_insts w) (pg_flow x) [] /\
     snd (pl_flow_run (pw_insts w) (pg_flow x) []) <> PPanic).
Proof. exact old_pipeline_generation_completes. Qed.
Print Assumptions C11_old_pipeline_generation_completes.

(** the pinned code ([prev.rl = nil]): a valid history on which the superseded generation panics *)
Theorem C11_refuted_rl_inherit :
  exists ops, Forall op_ok ops /\
    In (OHandle FPanic) (frun {| q_rl_inherit_steals_limiter := true |} fworld0 ops) /\
    ~ In (OHandle FPanic) (frun ideal fworld0 ops).
Proof. exact refuted_rl_inherit. Qed.
Print Assumptions C11_refuted_rl_inherit.

(** the pinned code (Inherit from a filter of another kind): the update panics, the stored pipeline
    generation serves nothing *)
Theorem C11_refuted_pipeline_foreign_kind :
  pl_run {| rq_steal := false; rq_foreign := true |} w_pspecs pl_world0 [PlInit 0; PlInherit 1 0; PlHandle 1] =
    [PoLife false [EInit 0 "f0"; EInit 1 "f1"]; PoLife true [EInherit 2 "f0" 0]; PoHandle [] (PRes "" 0)] /\
  pl_run rideal w_pspecs pl_world0 [PlInit 0; PlInherit 1 0; PlHandle 1] =
    [PoLife false [EInit 0 "f0"; EInit 1 "f1"]; PoLife false [EInherit 2 "f0" 0; EClose 0 "f0"; EClose 1 "f1"];
     PoHandle [EHandle 2 "f0"] (PRes "" 0)].
Proof. exact refuted_pipeline_foreign_kind. Qed.
Print Assumptions C11_refuted_pipeline_foreign_kind.

(** applying an unchanged spec is a no-op: same state, no Init/Inherit/Close, previous entity returned *)
Theorem C11_unchanged_apply_noop : forall st c ns name e,
  ns <> ""%string -> tc_lookup st c ns name = Some e ->
  tc_step st (TApply c ns name (e_tag e)) = (st, {| tr_err := false; tr_ret := e_id e; tr_evs := [] |}).
Proof. exact unchanged_apply_noop. Qed.
Print Assumptions C11_unchanged_apply_noop.

(** creating, updating, applying, deleting or fetching one object leaves every other object's live
    entity untouched and raises lifecycle events about that object only; Clean touches one namespace *)
Theorem C11_other_objects_untouched : forall st o,
  (forall c ns name, tc_target o = Some (c, ns, name) ->
     (forall c' ns' name', (c', ns', name') <> (c, ns, name) ->
        tc_lookup (fst (tc_step st o)) c' ns' name' = tc_lookup st c' ns' name') /\
     Forall (fun e => match e with
                      | TInit c2 _ n _ | TInherit c2 _ n _ _ | TClose c2 _ n _ => c2 = c /\ n = name
                      | THandle _ n _ => c = CP /\ n = name
                      end) (tr_evs (snd (tc_step st o)))) /\
  (forall ns, o = TClean ns -> forall c' ns' name', ns' <> ns ->
     tc_lookup (fst (tc_step st o)) c' ns' name' = tc_lookup st c' ns' name').
Proof. exact other_objects_untouched. Qed.
Print Assumptions C11_other_objects_untouched.

(** updating never makes the object (or any other) unavailable: the update is a two-step transition
    (lifecycle callback under tc.mutex, then publish); requests do not take the mutex.  While the
    Init/Inherit callback of a Create / Update / Apply runs ([tc_during]) every name that resolved
    before still resolves to the same entity - in particular the object being updated still serves
    its previous generation -, and after the publish it still resolves. *)
Theorem C11_update_never_unavailable : forall st o c ns name tag,
  o = TCreate c ns name tag \/ o = TUpdate c ns name tag \/ o = TApply c ns name tag ->
  forall c' ns' name' e, tc_lookup st c' ns' name' = Some e ->
    tc_lookup (tc_during st o) c' ns' name' = Some e /\
    tc_lookup (fst (tc_step st o)) c' ns' name' <> None.
Proof. exact update_never_unavailable. Qed.
Print Assumptions C11_update_never_unavailable.

(** runtime.reload: whatever changes in rules, server-level ipFilter, XFF, cache size and
    maxConnections, if the listener-relevant part of the spec is unchanged the listener is not
    restarted and the clients' keep-alive connections survive the update *)
Theorem C11_hot_update_no_restart : forall l h1 h2,
  need_restart {| rs_listen := l; rs_hot := h1 |} {| rs_listen := l; rs_hot := h2 |} = false /\
  rt_reload {| rs_listen := l; rs_hot := h1 |} {| rs_listen := l; rs_hot := h2 |} = (0, true).
Proof. exact hot_update_no_restart. Qed.
Print Assumptions C11_hot_update_no_restart.

(** ObjectRegistry.applyConfig: an entry that cannot be decoded (unknown kind, malformed YAML,
    spec failing validation) never affects another object of the same round: every name whose own
    entry is decodable (or that is absent) gets the event and ends with the entity it would have got
    had the undecodable entries not been there *)
Theorem C11_registry_bad_entry_frame : forall ents snap n,
  slookup n snap <> Some None ->
  reg_event ents (reg_healthy snap) n = reg_event ents snap n /\
  reg_after ents (reg_healthy snap) n = reg_after ents snap n.
Proof. exact registry_bad_entry_frame. Qed.
Print Assumptions C11_registry_bad_entry_frame.

(** an update storm: after any number of stores the live generation is the LAST one stored, and
    the generations were live in the order in which they were stored (never backwards) *)
Theorem C11_update_storm_last_wins : forall g0 gs,
  mw_inst (mx_run (mx_init g0) (map LStore gs)) = last gs g0 /\
  mw_hist (mx_run (mx_init g0) (map LStore gs)) = rev gs ++ [g0].
Proof. exact update_storm_last_wins. Qed.
Print Assumptions C11_update_storm_last_wins.

(** * Soundness of the trace-level property checkers ([prop] of coq/model/ReloadCheck.v): what an
    accepted observed history - of any length, whatever produced it - satisfies, position by position.
    Non-vacuity: [pipe_prop_nonvacuous], [tc_prop_nonvacuous], [tcreal_reg_nonvacuous] in
    proofs/ReloadCheckProofs.v (accepted non-trivial histories, and rejected near-misses). *)

(** pipeline histories: no lifecycle panic; every request handled by generation [g] completes
    without panic, invokes only filter instances created by [g] (ONE generation per request), and -
    whatever Inherit / Close / younger generations happened in between - is observed exactly like
    every other request of [g] (in flight during an update = completes on the old generation with
    the result that generation gives) *)
Theorem C11_checker_sound_pipe : forall ops obs, pipe_prop ops obs = true ->
  List.length ops = List.length obs /\
  (* no Init / Inherit of a pipeline generation panics *)
  (forall i o, nth_error ops i = Some o -> (forall g, o <> PlHandle g) ->
     exists evs, nth_error obs i = Some (PoLife false evs)) /\
  (forall i g, nth_error ops i = Some (PlHandle g) ->
     exists evs r, nth_error obs i = Some (PoHandle evs r) /\
       (* the request completes: no panic *)
       r <> PPanic /\
       (* ONE generation per request: every filter invocation of this request is an invocation of an
          instance created by generation [g] itself *)
       (forall e, In e evs -> exists id n, e = EHandle id n /\ In id (nth g (pipe_owned ops obs) [])) /\
       (* whatever updates (Inherit from [g], Close of [g], younger generations) happened before, in
          between or after: every request handled by [g] at any position [j] of the history has the
          very same observation - same instances visited in the same order, same result *)
       (forall j, nth_error ops j = Some (PlHandle g) -> nth_error obs j = nth_error obs i)).
Proof. exact pipe_prop_sound. Qed.
Print Assumptions C11_checker_sound_pipe.

(** concurrent mux sampling: every response is entirely ONE generation's answer; the initial one
    before the first reload, the last one after the last reload returned *)
Theorem C11_checker_sound_conc : forall c, forallb (conc_prop_one c) (cc_seen c) = true ->
  forall k ph ri got, nth_error (cc_seen c) k = Some (ph, ri, got) ->
    exists s, got = nth ri (nth s (cc_expect c) []) resp0 /\
              mapper_ok (nth s (cc_gens c) gen0) got = true /\
              (ph = 0 -> s = O) /\ (ph = 2 -> s = last_flip c) /\
              (s = O \/ In s (cc_flips c)).
Proof. exact conc_prop_sound. Qed.
Print Assumptions C11_checker_sound_conc.

(** TrafficController histories: other objects keep their generation (after and INSIDE every
    operation), the name being updated resolves to the previous generation until the new one is
    published and to the returned one afterwards (never to nothing), an unchanged Apply creates no
    new generation, a request gets the live generation *)
Theorem C11_checker_sound_tc : forall ops obs, tc_prop_all [] [] ops obs = true ->
  List.length ops = List.length obs /\
  forall i op o, nth_error ops i = Some op -> nth_error obs i = Some o ->
    let prev := fst (tc_ctx [] [] obs i) in
    let tags := snd (tc_ctx [] [] obs i) in
    (* the operation does not panic, and the next operation starts from what this one left *)
    to_panic o = false /\ fst (tc_ctx [] [] obs (S i)) = to_snap o /\
    (* objects not named in the operation keep their generation (instance): after it ... *)
    (forall k, tc_target op = Some k -> forall a, sent_key_eqb a k = false -> (In a prev <-> In a (to_snap o))) /\
    (forall ns, op = TClean ns -> forall a, sent_ns a <> ns -> (In a prev <-> In a (to_snap o))) /\
    (* ... and at every instant INSIDE it (seen from its lifecycle callbacks) *)
    (forall k m, tc_target op = Some k -> In m (to_mid o) ->
       (forall a, sent_key_eqb a k = false -> (In a prev <-> In a m)) /\
       (* there is no instant during a create-over / update / apply at which the name resolves to
          nothing: it resolves to the PREVIOUS generation until the new one is published *)
       (is_put op -> forall id, find_ent prev k = Some id -> find_ent m k = Some id)) /\
    (* ... and once a create / update / changed apply has returned successfully the name resolves to
       the generation it returned *)
    (forall k, tc_target op = Some k -> is_put op -> to_err o = false ->
       (exists id, find_ent prev k = Some id /\ (exists tag c ns n, op = TApply c ns n tag /\ zlookup id tags = Some tag)) \/
       find_ent (to_snap o) k = Some (to_ret o)) /\
    (* applying an unchanged config creates no new generation: no Init, no Inherit, no Close, the live
       instance is returned and every entry stays *)
    (forall c ns n tag id, op = TApply c ns n tag -> find_ent prev (c, ns, n) = Some id -> zlookup id tags = Some tag ->
       to_err o = false /\ to_ret o = id /\ to_evs o = [] /\ forall a, In a prev <-> In a (to_snap o)) /\
    (* a request (GetHandler) is served by the live generation - after an update has returned that is
       the new one - and fails exactly when the name is not there *)
    (forall ns n, op = TGet ns n ->
       (forall id, find_ent prev (CP, ns, n) = Some id -> to_err o = false /\ to_ret o = id) /\
       (find_ent prev (CP, ns, n) = None -> to_err o = true)).
Proof. exact tc_prop_sound. Qed.
Print Assumptions C11_checker_sound_tc.

Theorem C11_checker_sound_tcreal : forall ops obs live, tcreal_prop live ops obs = true ->
  List.length ops = List.length obs /\
  forall i n sp err ret nev, nth_error ops i = Some (n, sp) -> nth_error obs i = Some (err, ret, nev) ->
    err = false /\
    match slookup n (tcreal_ctx live ops obs i) with
    | Some (sp0, id0) => (sp0 = sp -> nev = 0 /\ ret = id0) /\ (sp0 <> sp -> nev <> 0 /\ ret <> id0)
    | None => nev <> 0
    end.
Proof. exact tcreal_prop_sound. Qed.
Print Assumptions C11_checker_sound_tcreal.

Theorem C11_checker_sound_reg : forall rs tainted, reg_prop tainted rs = true ->
  forall i r, nth_error rs i = Some r ->
    rr_panic r = false /\
    forall n, ~ In n (reg_tainted tainted rs i) ->
      (forall v, In (n, v) (rr_create r) <-> In (n, v) (rr_tcreate r)) /\
      (forall v, In (n, v) (rr_update r) <-> In (n, v) (rr_tupdate r)) /\
      (In n (rr_delete r) <-> In n (rr_tdelete r)).
Proof. exact reg_prop_sound. Qed.
Print Assumptions C11_checker_sound_reg.

(** non-vacuity: see [mux_nonvacuous], [tc_nonvacuous], [w_spec_ok] and the refutation witnesses in
    proofs/ReloadProofs.v *)
Example C11_nonvacuous :
  spec_ok w_spec /\ fwf fworld0 /\ pl_wf pl_world0 /\
  tc_lookup (fst (tc_step tc_state0 (TApply CP "n1" "a" 1))) CP "n1" "a" = Some {| e_id := 1; e_tag := 1 |}.
Proof. split; [exact w_spec_ok | split; [exact fwf0 | split; [exact pl_wf0 | vm_compute; reflexivity]]]. Qed.
