(** C11 - property theorems only. Each is closed by [exact] of a lemma proved in
    proofs/ReloadProofs.v; nothing else lives here. *)
From EG.lib Require Import Base.
From EG.model Require Import RL Reload.
From EG.proofs Require Import ReloadProofs.
Open Scope Z_scope.

(** For every interleaving of request steps (LoadInst, Search, GetHandler, Rewrite, XFF, Limit,
    Handle), arriving requests and instance stores (mux.reload), the whole state of every request
    thread - routing result, handler, rewritten path, X-Forwarded-For, body-limit verdict, response
    - is the state of a sequential execution under ONE generation [g] that was published at some
    time (the one it loaded); a finished request has exactly that generation's answer. *)
Theorem C11_one_generation_per_request : forall g0 ls t,
  In t (mw_threads (mx_run (mx_init g0) ls)) ->
  t = mx_fresh (t_req t) \/
  exists g n, In g (mw_hist (mx_run (mx_init g0) ls)) /\ t_snap t = Some g /\
              t = mx_seq g (t_req t) (S n) /\
              (t_pc t = PDone -> t_out t = mx_serve g (t_req t)).
Proof. exact one_generation_per_request. Qed.
Print Assumptions C11_one_generation_per_request.

(** once the update has been applied ([LStore g], no later store) every request that loads the
    instance afterwards holds the new generation *)
Theorem C11_new_requests_see_new : forall g0 ls1 g ls2 i t,
  Forall no_store ls2 ->
  let w1 := mx_step (mx_run (mx_init g0) ls1) (LStore g) in
  match nth_error (mw_threads w1) i with None => True | Some t1 => t_pc t1 = PStart end ->
  nth_error (mw_threads (mx_run w1 ls2)) i = Some t ->
  t_pc t <> PStart -> t_snap t = Some g.
Proof. exact new_requests_see_new. Qed.
Print Assumptions C11_new_requests_see_new.

(** RateLimiter (the one kind whose Inherit moves state), ideal model: no history of
    Init/Inherit/Handle - requests on superseded generations included - ever panics, and an Inherit
    leaves every existing generation in place, answering its next request as without the Inherit *)
Theorem C11_old_generation_completes :
  (forall ops, Forall op_ok ops ->
     Forall (fun ob => ob <> OHandle FPanic /\ ob <> OInheritPanic) (frun ideal fworld0 ops)) /\
  (forall w s from now w' ob,
     fwf w -> spec_ok s -> fstep ideal w (FInherit s from now) = (w', ob) ->
     forall gi g, nth_error (w_gens w) gi = Some g ->
       nth_error (w_gens w') gi = Some g /\
       forall now' m, snd (flt_handle (w_heap w') g now' m) = snd (flt_handle (w_heap w) g now' m)).
Proof. exact old_generation_completes. Qed.
Print Assumptions C11_old_generation_completes.

(** kinds whose Inherit is Init (Proxy, Validator, adaptors, Mock, ...), for every behaviour
    function of (spec, own request history): whatever else happens (Inherit from it, Close of it,
    traffic on other generations), an existing generation answers like a lone instance *)
Theorem C11_old_generation_completes_pure_kinds :
  forall (O : Type) (behave : nat -> list nat -> O) ops gs g x,
  nth_error gs g = Some x ->
  answers g ops (pk_run behave gs ops) =
  solo_from behave (kg_spec x) (kg_hist x) (handled g (List.length gs) ops).
Proof. exact @pure_kind_generation_is_solo. Qed.
Print Assumptions C11_old_generation_completes_pure_kinds.

(** pipeline generations (ideal): no Init/Inherit/Handle ever panics; and a request that holds a
    generation [x]: whatever pipeline operations follow (updates inheriting from it, its Close,
    traffic on any generation), [x] stays in place, no existing filter instance is modified
    (instances are only appended, so interleaving at filter granularity changes nothing), and [x]
    handles the request exactly as it would have at the start, without panic *)
Theorem C11_old_pipeline_generation_completes :
  (forall specs ops, Forall obs_fine (pl_run rideal specs pl_world0 ops)) /\
  (forall specs ops w g x, pl_wf w -> nth_error (pw_gens w) g = Some x ->
     nth_error (pw_gens (pl_final rideal specs w ops)) g = Some x /\
     (exists more, pw_insts (pl_final rideal specs w ops) = pw_insts w ++ more) /\
     pl_flow_run (pw_insts (pl_final rideal specs w ops)) (pg_flow x) [] = pl_flow_run (pw_insts w) (pg_flow x) [] /\
     snd (pl_flow_run (pw_insts w) (pg_flow x) []) <> PPanic).
Proof. exact old_pipeline_generation_completes. Qed.
Print Assumptions C11_old_pipeline_generation_completes.

(** the pinned code ([prev.rl = nil]): a valid history on which the superseded generation panics *)
Theorem C11_refuted_rl_inherit :
  exists ops, Forall op_ok ops /\
    In (OHandle FPanic) (frun {| q_rl_inherit_steals_limiter := true |} fworld0 ops) /\
    ~ In (OHandle FPanic) (frun ideal fworld0 ops).
Proof. exact refuted_rl_inherit. Qed.
Print Assumptions C11_refuted_rl_inherit.

(** the pinned code (Inherit from a filter of another kind): the update panics, the stored pipeline
    generation serves nothing *)
Theorem C11_refuted_pipeline_foreign_kind :
  pl_run {| rq_steal := false; rq_foreign := true |} w_pspecs pl_world0 [PlInit 0; PlInherit 1 0; PlHandle 1] =
    [PoLife false [EInit 0 "f0"; EInit 1 "f1"]; PoLife true [EInherit 2 "f0" 0]; PoHandle [] (PRes "" 0)] /\
  pl_run rideal w_pspecs pl_world0 [PlInit 0; PlInherit 1 0; PlHandle 1] =
    [PoLife false [EInit 0 "f0"; EInit 1 "f1"]; PoLife false [EInherit 2 "f0" 0; EClose 0 "f0"; EClose 1 "f1"];
     PoHandle [EHandle 2 "f0"] (PRes "" 0)].
Proof. exact refuted_pipeline_foreign_kind. Qed.
Print Assumptions C11_refuted_pipeline_foreign_kind.

(** applying an unchanged spec is a no-op: same state, no Init/Inherit/Close, previous entity returned *)
Theorem C11_unchanged_apply_noop : forall st c ns name e,
  ns <> ""%string -> tc_lookup st c ns name = Some e ->
  tc_step st (TApply c ns name (e_tag e)) = (st, {| tr_err := false; tr_ret := e_id e; tr_evs := [] |}).
Proof. exact unchanged_apply_noop. Qed.
Print Assumptions C11_unchanged_apply_noop.

(** creating, updating, applying, deleting or fetching one object leaves every other object's live
    entity untouched and raises lifecycle events about that object only; Clean touches one namespace *)
Theorem C11_other_objects_untouched : forall st o,
  (forall c ns name, tc_target o = Some (c, ns, name) ->
     (forall c' ns' name', (c', ns', name') <> (c, ns, name) ->
        tc_lookup (fst (tc_step st o)) c' ns' name' = tc_lookup st c' ns' name') /\
     Forall (fun e => match e with
                      | TInit c2 _ n _ | TInherit c2 _ n _ _ | TClose c2 _ n _ => c2 = c /\ n = name
                      | THandle _ n _ => c = CP /\ n = name
                      end) (tr_evs (snd (tc_step st o)))) /\
  (forall ns, o = TClean ns -> forall c' ns' name', ns' <> ns ->
     tc_lookup (fst (tc_step st o)) c' ns' name' = tc_lookup st c' ns' name').
Proof. exact other_objects_untouched. Qed.
Print Assumptions C11_other_objects_untouched.

(** updating never makes the object (or any other) unavailable: the update is a two-step transition
    (lifecycle callback under tc.mutex, then publish); requests do not take the mutex.  While the
    Init/Inherit callback of a Create / Update / Apply runs ([tc_during]) every name that resolved
    before still resolves to the same entity - in particular the object being updated still serves
    its previous generation -, and after the publish it still resolves. *)
Theorem C11_update_never_unavailable : forall st o c ns name tag,
  o = TCreate c ns name tag \/ o = TUpdate c ns name tag \/ o = TApply c ns name tag ->
  forall c' ns' name' e, tc_lookup st c' ns' name' = Some e ->
    tc_lookup (tc_during st o) c' ns' name' = Some e /\
    tc_lookup (fst (tc_step st o)) c' ns' name' <> None.
Proof. exact update_never_unavailable. Qed.
Print Assumptions C11_update_never_unavailable.

(** runtime.reload: whatever changes in rules, server-level ipFilter, XFF, cache size and
    maxConnections, if the listener-relevant part of the spec is unchanged the listener is not
    restarted and the clients' keep-alive connections survive the update *)
Theorem C11_hot_update_no_restart : forall l h1 h2,
  need_restart {| rs_listen := l; rs_hot := h1 |} {| rs_listen := l; rs_hot := h2 |} = false /\
  rt_reload {| rs_listen := l; rs_hot := h1 |} {| rs_listen := l; rs_hot := h2 |} = (0, true).
Proof. exact hot_update_no_restart. Qed.
Print Assumptions C11_hot_update_no_restart.

(** ObjectRegistry.applyConfig: an entry that cannot be decoded (unknown kind, malformed YAML,
    spec failing validation) never affects another object of the same round: every name whose own
    entry is decodable (or that is absent) gets the event and ends with the entity it would have got
    had the undecodable entries not been there *)
Theorem C11_registry_bad_entry_frame : forall ents snap n,
  slookup n snap <> Some None ->
  reg_event ents (reg_healthy snap) n = reg_event ents snap n /\
  reg_after ents (reg_healthy snap) n = reg_after ents snap n.
Proof. exact registry_bad_entry_frame. Qed.
Print Assumptions C11_registry_bad_entry_frame.

(** non-vacuity: see [mux_nonvacuous], [tc_nonvacuous], [w_spec_ok] and the refutation witnesses in
    proofs/ReloadProofs.v *)
Example C11_nonvacuous :
  spec_ok w_spec /\ fwf fworld0 /\ pl_wf pl_world0 /\
  tc_lookup (fst (tc_step tc_state0 (TApply CP "n1" "a" 1))) CP "n1" "a" = Some {| e_id := 1; e_tag := 1 |}.
Proof. split; [exact w_spec_ok | split; [exact fwf0 | split; [exact pl_wf0 | vm_compute; reflexivity]]]. Qed.
