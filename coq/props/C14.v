(** C14 - property theorems only. Each is closed by [exact] of a lemma proved in
    proofs/TopicProofs*.v; nothing else lives here.

    [run ideal ops]  state of the (repaired) broker model after history [ops]; histories are
                     lists of Conn c cleanSession | Sub | Unsub | Disc (connection end)
    [live ops]       declarative spec: finite map (client, filter) -> qos by naive replay
                     (subscriptions of connected clients; a persistent session's
                     subscriptions are suspended while it is offline)
    [matches]        MQTT 3.1.1 matching of filter levels against topic-name levels
    [find n T]       findSubscribers: [None] = error, [Some r] = every (client, qos) written
                     into the answer map (Go keeps one of them per client) *)
From EG.lib Require Import Base.
From EG.model Require Import Topic TopicCheck.
From EG.proofs Require Import TopicProofsSplit TopicProofsTrie TopicProofsHist.
Open Scope string_scope.
Open Scope list_scope.

(** for every history and every topic name (no wildcard character) findSubscribers
    succeeds; the clients returned are exactly those holding a live subscription whose
    filter matches; every QoS listed for a client is that of one of ITS OWN matching
    live subscriptions *)
Theorem C14_find_correct : forall (ops : list op) (T : string),
  has_wild T = false ->
  exists r, find (trie (run ideal ops)) T = Some r /\
    (forall c, (exists q, In (c, q) r) <->
               (exists f q, In ((c, f), q) (live ops) /\ matches (split_slash f) (split_slash T))) /\
    (forall c q, In (c, q) r ->
               exists f, In ((c, f), q) (live ops) /\ matches (split_slash f) (split_slash T)).
Proof. exact find_correct. Qed.
Print Assumptions C14_find_correct.

(** no residue: routing of every topic string is determined by the live map alone *)
Theorem C14_no_residue : forall ops1 ops2 : list op,
  (forall k v, In (k, v) (live ops1) <-> In (k, v) (live ops2)) ->
  forall T, same_result (find (trie (run ideal ops1)) T) (find (trie (run ideal ops2)) T).
Proof. exact no_residue. Qed.
Print Assumptions C14_no_residue.

(** ... in particular, once the last subscriber of filter [f] is gone, routing equals
    that of the same history with every mention of [f] erased *)
Theorem C14_no_residue_after_removal : forall (ops : list op) (f : string),
  wf_filter f = true ->
  (forall c q, ~ In ((c, f), q) (live ops)) ->
  forall T, same_result (find (trie (run ideal ops)) T) (find (trie (run ideal (strip f ops))) T).
Proof. exact no_residue_after_removal. Qed.
Print Assumptions C14_no_residue_after_removal.

Theorem C14_resubscribe_overwrites_qos : forall (ops : list op) (c : cid) (f : string) (q : qos),
  wf_filter f = true ->
  let ops' := ops ++ [Sub c [(f, q)]] in
  (forall q', In ((c, f), q') (live ops') <-> q' = q) /\
  (forall q', In (c, q') (at_path (split_slash f) (trie (run ideal ops'))) <-> q' = q).
Proof. exact resubscribe_overwrites_qos. Qed.
Print Assumptions C14_resubscribe_overwrites_qos.

Theorem C14_unsub_unknown_is_noop : forall (ops : list op) (c : cid) (f : string),
  (forall q, ~ In ((c, f), q) (live ops)) ->
  let ops' := ops ++ [Unsub c [f]] in
  (forall k v, In (k, v) (live ops') <-> In (k, v) (live ops)) /\
  (forall fl, at_path fl (trie (run ideal ops')) = at_path fl (trie (run ideal ops))) /\
  (forall T, same_result (find (trie (run ideal ops')) T) (find (trie (run ideal ops)) T)).
Proof. exact unsub_unknown_is_noop. Qed.
Print Assumptions C14_unsub_unknown_is_noop.

(** malformed filters are rejected: by splitTopic, and a SUBSCRIBE carrying one gets no
    SUBACK and changes neither the trie nor the live subscriptions *)
Theorem C14_malformed_rejected :
  (forall f, wf_filter f = false -> split_topic f = None) /\
  (forall ops c fqs, forallb (fun fq => wf_filter (fst fq)) fqs = false ->
     snd (step ideal (run ideal ops) (Sub c fqs)) = Ack false /\
     trie (run ideal (ops ++ [Sub c fqs])) = trie (run ideal ops) /\
     forall x, In x (live (ops ++ [Sub c fqs])) <-> In x (live ops)).
Proof. exact malformed_rejected. Qed.
Print Assumptions C14_malformed_rejected.

(** connections: a client whose connection ended (any way) holds no live subscription;
    a persistent session that reconnects holds exactly what was live at the drop *)
Theorem C14_offline_not_live : forall (ops : list op) (c : cid) (f : string) (q : qos),
  ~ In ((c, f), q) (live (ops ++ [Disc c])).
Proof. exact offline_not_live. Qed.
Print Assumptions C14_offline_not_live.

Theorem C14_reconnect_restores : forall (ops : list op) (c : cid),
  alookup c (sp_on (spec ops)) = Some false ->
  forall x, In x (live (ops ++ [Disc c; Conn c false])) <-> In x (live ops).
Proof. exact reconnect_restores. Qed.
Print Assumptions C14_reconnect_restores.

(** splitTopic (the Go loop) = well-formedness test + split at '/', for strings of ANY
    length: [wf_filter] only looks at the placement of '+' and '#' *)
Theorem C14_split_topic_spec : forall s : string,
  split_topic s = if wf_filter s then Some (split_slash s) else None.
Proof. exact split_topic_spec. Qed.
Print Assumptions C14_split_topic_spec.

(** ... so length alone never makes a filter or topic name malformed; the 65535-byte
    maximum of the MQTT two-byte length prefix is accepted (closed instances by vm_compute) *)
Theorem C14_length_never_malformed :
  (forall s, wf_filter s = true -> split_topic s = Some (split_slash s)) /\
  (forall T, has_wild T = false -> split_topic T = Some (split_slash T)) /\
  accepts_as (srep "x" 65535) [srep "x" 65535] = true /\
  accepts_as (sx [("dev/", 1%N); ("x", 65525%N); ("/state", 1%N)]) ["dev"; srep "x" 65525; "state"] = true /\
  accepts_as (srep "/" 65535) (repeat "" (N.to_nat 65536)) = true.
Proof. exact length_never_malformed. Qed.
Print Assumptions C14_length_never_malformed.

Theorem C14_matches_dec_correct : forall fs ts : list level,
  matchesb fs ts = true <-> matches fs ts.
Proof. exact matches_dec_correct. Qed.
Print Assumptions C14_matches_dec_correct.

Theorem C14_insert_spec : forall ls ls' c q n,
  at_path ls' (insert ls c q n) =
    if lev_eq_dec ls' ls then aset c q (at_path ls n) else at_path ls' n.
Proof. exact insert_spec. Qed.
Print Assumptions C14_insert_spec.

Theorem C14_remove_spec : forall ls ls' c n,
  at_path ls' (remove ls c n) =
    if lev_eq_dec ls' ls then aremove c (at_path ls n) else at_path ls' n.
Proof. exact remove_spec. Qed.
Print Assumptions C14_remove_spec.

Theorem C14_remove_prunes : forall ls c q, remove ls c (insert ls c q empty_node) = empty_node.
Proof. exact remove_prunes. Qed.
Print Assumptions C14_remove_prunes.

Theorem C14_find_frontier_eq_find1 : forall ts n x,
  In x (find_frontier ts [n] []) <-> In x (find1 ts n).
Proof. exact find_frontier_eq_find1. Qed.
Print Assumptions C14_find_frontier_eq_find1.

Theorem C14_history_repr : forall (ops : list op) (fl : list level) (c : cid) (q : qos),
  In (c, q) (at_path fl (trie (run ideal ops))) <->
  exists f, split_topic f = Some fl /\ In ((c, f), q) (live ops).
Proof. exact history_repr. Qed.
Print Assumptions C14_history_repr.

(** the decidable per-run checker [prop_trace] accepts every trace of the repaired model *)
Theorem C14_prop_checker_sound : forall ops : list tr_op,
  prop_trace sp0 ops (model_trace ideal st0 ops) = true.
Proof. exact prop_checker_sound. Qed.
Print Assumptions C14_prop_checker_sound.

(** the code before the fix (quirk flag on) violates the property *)
Theorem C14_refuted_q_abort_on_malformed :
  exists ops T c q,
    has_wild T = false /\ live ops = [] /\
    exists r, find (trie (run pinned_code ops)) T = Some r /\ In (c, q) r.
Proof. exact refuted_q_abort_on_malformed. Qed.
Print Assumptions C14_refuted_q_abort_on_malformed.

(** ... and that is the only deviation of the modelled code: on histories in which no
    multi-filter packet carries a malformed filter, the unchanged code (flag on) reaches
    exactly the states of the repaired model, so all theorems above apply to it *)
Theorem C14_unchanged_code_on_clean_histories : forall ops : list op,
  forallb clean_op ops = true -> run pinned_code ops = run ideal ops.
Proof. exact unchanged_code_on_clean_histories. Qed.
Print Assumptions C14_unchanged_code_on_clean_histories.
