(** placeholder while the proofs are being written *)
From EG.lib Require Import Base.
From EG.model Require Import Topic.
