(** C18 - property theorems only.  The transition system is model/Mutex.v:
    interleavings ([sched], any list of (thread, label), including the member-level
    fault step LRegrant = lease granted again) of the atomic steps of ANY
    number of threads ([cfg : tid -> thr], arbitrary) on ANY number of members over
    etcd modelled as a linearizable store whose lock keys are ordered by create
    revision.  All theorems are for the [ideal] quirks; [C18_refuted_local_per_handle]
    shows that the pinned defect (flag on) breaks mutual exclusion. *)
From EG.lib Require Import Base.
From EG.model Require Import Mutex.
From EG.model Require Import MutexCheck.
From EG.proofs Require Import MutexProofs MutexProofsApi MutexProofsThm MutexCheckSound.
From Coq Require Import Permutation.
Open Scope Z_scope.

(** at most one thread anywhere is between a successful Lock and its Unlock *)
Theorem C18_mutual_exclusion : forall (cfg : tid -> thr) (st : store) sched s t1 t2,
  run ideal cfg (init st) sched = Some s ->
  in_cs (pcs s t1) = true -> in_cs (pcs s t2) = true -> t1 = t2.
Proof. exact mutual_exclusion. Qed.
Print Assumptions C18_mutual_exclusion.

(** the step with which Lock fails (deadline / lost key) leaves the failing thread without the
    process-local lock and its member without an etcd key, and touches neither objects nor version *)
Theorem C18_failed_lock_leaves_free : forall (cfg : tid -> thr) (st : store) sched s t l s',
  run ideal cfg (init st) sched = Some s ->
  is_fail_label l = true -> step ideal cfg s t l = Some s' ->
  pcs s' t = PFail /\ local s' (t_mem (cfg t)) O = None /\ ~ In (t_mem (cfg t)) (queue s') /\
  objs s' = objs s /\ ver s' = ver s.
Proof. exact failed_step_releases. Qed.
Print Assumptions C18_failed_lock_leaves_free.

(** ... and in every later state a failed thread holds nothing; a key of its member, if any,
    belongs to another thread of that member *)
Theorem C18_failed_thread_holds_nothing : forall (cfg : tid -> thr) (st : store) sched s t,
  run ideal cfg (init st) sched = Some s -> pcs s t = PFail ->
  (forall m h, local s m h <> Some t) /\
  (In (t_mem (cfg t)) (queue s) ->
     exists t', t' <> t /\ t_mem (cfg t') = t_mem (cfg t) /\ has_key (pcs s t') = true).
Proof. exact failed_holds_nothing. Qed.
Print Assumptions C18_failed_thread_holds_nothing.

(** once every attempt has ended - with success or with an error - the lock is free: no etcd key,
    no process-local lock held; and a free lock can be taken by any idle thread *)
Theorem C18_quiescent_lock_is_free : forall (cfg : tid -> thr) (st : store) sched s,
  run ideal cfg (init st) sched = Some s ->
  (forall t, quiescent (pcs s t) = true) ->
  queue s = [] /\ (forall m h, local s m h = None) /\
  (forall t, pcs s t = PIdle -> is_get (t_req (cfg t)) = false ->
     exists s', run ideal cfg s [(t, LLocalLock); (t, LPut); (t, LAcquire)] = Some s' /\
                in_cs (pcs s' t) = true).
Proof. exact quiescent_lock_is_free. Qed.
Print Assumptions C18_quiescent_lock_is_free.

(** successful mutations receive v0+1, v0+2, ... each exactly once *)
Theorem C18_versions_gap_free : forall (cfg : tid -> thr) (st0 : store) sched s,
  run ideal cfg (init st0) sched = Some s ->
  let oks := filter is_ok (log s) in
  map ver_of oks = zseq (snd st0 + 1) (List.length oks) /\
  NoDup (map ver_of oks) /\
  NoDup (map e_tid (log s)) /\
  (forall t r, is_mut (t_req (cfg t)) = true ->
     (fin_result (pcs s t) = Some r <-> In (t, t_req (cfg t), r) (log s))) /\
  (forall t1 t2 c1 c2 v1 v2,
     is_mut (t_req (cfg t1)) = true -> is_mut (t_req (cfg t2)) = true ->
     fin_result (pcs s t1) = Some (ROk c1 v1) -> fin_result (pcs s t2) = Some (ROk c2 v2) ->
     t1 <> t2 -> v1 <> v2) /\
  ((forall t, mid_write (pcs s t) = false) -> ver s = snd st0 + Z.of_nat (List.length oks)).
Proof. exact versions_gap_free. Qed.
Print Assumptions C18_versions_gap_free.

(** no step of a request that ends with 409 / 400 / 404 changes objects or version (any quirks,
    any start state); and in the sequential specification a failing request is the identity *)
Theorem C18_failures_modify_nothing : forall (cfg : tid -> thr) q pre t l post s0 s1 s2 s3 c,
  run q cfg s0 pre = Some s1 -> step q cfg s1 t l = Some s2 -> run q cfg s2 post = Some s3 ->
  fin_result (pcs s3 t) = Some (RFail c) ->
  objs s2 = objs s1 /\ ver s2 = ver s1.
Proof. exact failures_modify_nothing. Qed.
Print Assumptions C18_failures_modify_nothing.

Theorem C18_failure_is_identity_in_spec : forall st r c, spec_result st r = RFail c -> spec_apply st r = st.
Proof. exact spec_apply_fail. Qed.
Print Assumptions C18_failure_is_identity_in_spec.

(** every decided result is the result of the sequential execution in log order (a handler cut short by
    a failing cluster operation - LFault - is an entry too: it keeps its object write if already done and
    never writes a version); the successes in that order carry increasing versions; whenever no handler
    is between its object write and its version write, (objects, version) is the replay of the entries
    with an effect - and, if no handler was cut short after its object write, of exactly the successful
    requests in version order *)
Theorem C18_store_is_sequential_replay : forall (cfg : tid -> thr) (st0 : store) sched s,
  run ideal cfg (init st0) sched = Some s ->
  let oks := filter is_ok (log s) in
  legal st0 (log s) /\
  legal st0 (filter has_effect (log s)) /\
  map ver_of oks = zseq (snd st0 + 1) (List.length oks) /\
  ((forall t, mid_write (pcs s t) = false) ->
     (objs s, ver s) = replay st0 (filter has_effect (log s)) /\
     ((forall e, In e (log s) -> e_res e <> RErr true) -> (objs s, ver s) = replay st0 oks)).
Proof. exact store_is_replay. Qed.
Print Assumptions C18_store_is_sequential_replay.

(** the clause as stated in the property: schedules without failing cluster operations *)
Theorem C18_store_is_replay_of_successes : forall (cfg : tid -> thr) (st0 : store) sched s,
  run ideal cfg (init st0) sched = Some s ->
  (forall t, ~ In (t, LFault) sched) ->
  (forall t, mid_write (pcs s t) = false) ->
  (objs s, ver s) = replay st0 (filter is_ok (log s)).
Proof. exact store_is_replay_no_fault. Qed.
Print Assumptions C18_store_is_replay_of_successes.

(** the pinned code: cluster.Mutex(name) builds a new process-local lock per call; two handles on
    one member hold the lock at the same time (witness of KF-C18-handle-local-lock) *)
Theorem C18_refuted_local_per_handle :
  exists cfg sched s,
    run quirk_local_per_handle cfg (init ([], 0)) sched = Some s /\
    in_cs (pcs s 0%nat) = true /\ in_cs (pcs s 1%nat) = true /\
    run ideal cfg (init ([], 0)) sched = None.
Proof. exact refuted_local_per_handle. Qed.
Print Assumptions C18_refuted_local_per_handle.

(** the lease re-grant step ([LRegrant], part of every schedule quantified above) must keep the member's
    lock key: a variant that drops it (session replaced, old lease revoked) admits two holders *)
Theorem C18_refuted_regrant_revokes :
  exists cfg sched s,
    run quirk_regrant_revokes cfg (init ([], 0)) sched = Some s /\
    in_cs (pcs s 0%nat) = true /\ in_cs (pcs s 1%nat) = true /\
    run ideal cfg (init ([], 0)) sched = None.
Proof. exact refuted_regrant_revokes. Qed.
Print Assumptions C18_refuted_regrant_revokes.

(** non-vacuity: five threads on three members, interleaved; two successes (versions 8, 9),
    a 409, a 404, a timed-out Lock *)
Example C18_nonvacuous :
  match run ideal ex_cfg (init ([], 7)) ex_sched with
  | Some s => map e_res (log s) = [ROk 201 8; RFail 409; ROk 200 9; RFail 404] /\
              map e_tid (log s) = [1; 0; 3; 2]%nat /\ objs s = [] /\ ver s = 9 /\ pcs s 4%nat = PFail /\
              queue s = []
  | None => False
  end.
Proof. exact nonvacuous. Qed.

Example C18_nonvacuous_fault :
  match run ideal (fun t => match t with 2%nat => {| t_mem := 0%nat; t_hnd := 0%nat; t_req := RUpdate "a" "K1" "z"; t_to := false |} | _ => ex_cfg t end)
            (init ([], 7)) ex_fault_sched with
  | Some s => map e_res (log s) = [ROk 201 8; RErr true; RErr false; RFail 409] /\
              objs s = [("a"%string, ("K1"%string, "z"%string))] /\ ver s = 8 /\ queue s = []
  | None => False
  end.
Proof. exact nonvacuous_fault. Qed.

(** ** soundness of the trace-level checkers (the `prop` bit evaluated on the implementation's own histories)

    [holding pre a]: attempt a's acquisition is in the prefix [pre] of the event log with no release of a
    after it in [pre].  [replay_ops]: sequential replay; [answer_explained]: the answer is the one of the
    sequential specification, and a failed mutation is the identity there. *)

(** every event log (any length) accepted by [mx_prop] satisfies: (a) at most one holder after every prefix,
    releases by the holder, acquisitions only of a free lock; (b) only short-time-out attempts fail, a failing
    attempt never holds, every ample-time-out attempt acquired and every acquisition was released, no key and
    no holder at the snapshots and at the end; distinct member identities *)
Theorem C18_checker_sound_mutex : forall c,
  mx_prop c = true ->
  let ev := x_ev c in
  (forall pre post a b, ev = pre ++ post -> holding pre a -> holding pre b -> a = b) /\
  (forall pre post a, ev = pre ++ (1, a) :: post -> holding pre a) /\
  (forall pre post a b, ev = pre ++ (0, a) :: post -> ~ holding pre b) /\
  NoDup (map snd (filter acqfail ev)) /\
  (x_maxov c <= 1) /\
  (forall a, In (2, a) ev ->
     is_short c a = true /\ ~ In (0, a) ev /\ forall pre post, ev = pre ++ post -> ~ holding pre a) /\
  (forall a, (a < List.length (x_thr c))%nat -> is_short c a = false -> In (0, a) ev) /\
  (forall l1 l2 a, ev = l1 ++ (0, a) :: l2 -> In (1, a) l2) /\
  (forall pre n post, ev = pre ++ (3, n) :: post -> n = O /\ forall a, ~ holding pre a) /\
  (forall a, ~ holding ev a) /\
  (forall l, In l (x_ids c) -> NoDup l).
Proof. exact mx_prop_sound. Qed.
Print Assumptions C18_checker_sound_mutex.

(** every request history (any length) accepted by [api_prop] satisfies: the successes ordered by returned
    version carry v0+1, v0+2, ... (strictly increasing by one, no gap, no duplicate); there is a sequential
    order - those successes in version order (plus, in fault-injection cases only, the mutations cut short
    after their object write) - in which every success is legal, returns the specified code and the next
    version; the final listing and version are the replay of that sequence alone, the final version is
    v0 + number of successes; every failed request / read is answered as the specification answers at some
    point of the replay, where a failed mutation changes neither store nor version *)
Theorem C18_checker_sound_api : forall c,
  api_prop c = true ->
  let ops := index_from 0 (a_ops c) in
  let st0 := (a_init c, a_v0 c) in
  let succ := api_succ c in
  (forall acq rel f, In (acq, rel) (a_holds c) -> In f (a_ops c) -> locked_done f = true ->
     ~ (acq < o_call f /\ o_ret f < rel)) /\
  Permutation succ (filter succP ops) /\
  map (fun x => o_ver (snd x)) succ = zseq (a_v0 c + 1) (List.length succ) /\
  NoDup (map (fun x => o_ver (snd x)) succ) /\
  exists seq,
    filter succP seq = succ /\
    (forall x, In x seq -> In x ops /\ (is_succ (snd x) = true \/ is_part (snd x) = true)) /\
    ((forall x, In x ops -> is_part (snd x) = false) -> seq = succ) /\
    (forall l1 x l2, seq = l1 ++ x :: l2 ->
       let st := replay_ops st0 l1 in
       if is_part (snd x)
       then precheck (fst st) (o_req (snd x)) = None /\
            replay_ops st0 (l1 ++ [x]) = (apply_objs (o_req (snd x)) (fst st), snd st)
       else spec_result st (o_req (snd x)) = ROk (o_status (snd x)) (o_ver (snd x)) /\
            o_ver (snd x) = snd st + 1 /\
            replay_ops st0 (l1 ++ [x]) = (apply_objs (o_req (snd x)) (fst st), snd st + 1)) /\
    (forall l1 x l2 y, seq = l1 ++ x :: l2 -> In y l2 -> o_call (snd x) <= o_ret (snd y)) /\
    (forall n, alookup n (fst (replay_ops st0 seq)) = alookup n (a_final c)) /\
    snd (replay_ops st0 seq) = a_finalver c /\
    a_finalver c = a_v0 c + Z.of_nat (List.length succ) /\
    ((forall x, In x ops -> is_part (snd x) = false) ->
       replay_ops st0 seq = fold_left spec_apply (map (fun x => o_req (snd x)) succ) st0) /\
    (forall x, In x ops -> in_seq (snd x) = false -> no_thread (snd x) = false -> o_hit (snd x) = false ->
       exists l1 l2, seq = l1 ++ l2 /\ answer_explained (replay_ops st0 l1) (snd x)) /\
    (forall x, In x ops -> in_seq (snd x) = false -> o_hit (snd x) = true -> 500 <= o_status (snd x)) /\
    (forall x, In x ops -> in_seq (snd x) = false -> o_bad (snd x) = true -> o_hit (snd x) = false ->
       o_status (snd x) = 400).
Proof. exact api_prop_sound. Qed.
Print Assumptions C18_checker_sound_api.

(** non-vacuity: concrete non-trivial histories accepted by the checkers (a lease re-grant under the holder,
    a timed-out Lock, three members; two clients with 409 / 400 / concurrent read / delete on another member) *)
Example C18_checker_nonvacuous_mutex :
  mx_prop ex_mx_case = true /\ holding [(0, 0%nat); (5, 0%nat); (2, 1%nat)] 0%nat.
Proof. exact mx_prop_nonvacuous. Qed.

Example C18_checker_nonvacuous_api :
  api_prop ex_api_case = true /\
  map (fun x => (fst x, o_ver (snd x))) (api_succ ex_api_case) = [(0%nat, 8); (3%nat, 9); (5%nat, 10)].
Proof. exact api_prop_nonvacuous. Qed.
