(** C10 - property theorems only. Each is closed by [exact] of a lemma proved
    in proofs/RetryProofs.v; nothing else lives here.

    Quantification: all policies [p] (maxAttempts, waitDuration, randomisation
    factor fnum/fden, random|exponential), all handler behaviours [h : nat ->
    outcome] (outcome of the i-th attempt: nil / error / panic / never returns),
    all random draws, all cancellation points [c] and all resolutions [pick] of
    the select race.  [fvalid p] = 0 <= factor <= 1; [valid p] adds maxAttempts >= 1
    (both enforced by the jsonschema tags of RetryPolicy). *)
From EG.lib Require Import Base.
From EG.model Require Import Retry.
From EG.model Require Import RetryCheck.
From EG.proofs Require Import RetryProofs RetryCheckProofs.
Open Scope Z_scope.

(** a failing call is attempted at most maxAttempts times; attempts are numbered 0..n-1;
    with maxAttempts >= 1 there is at least one *)
Theorem C10_attempts_le_max : forall p h draws c pick, fvalid p ->
  attempts_of (retry_run p h draws c pick) = seq 0 (n_attempts (retry_run p h draws c pick)) /\
  Z.of_nat (n_attempts (retry_run p h draws c pick)) <= Z.max 0 (p_max p) /\
  (1 <= p_max p -> (1 <= n_attempts (retry_run p h draws c pick))%nat).
Proof. exact attempts_le_max. Qed.
Print Assumptions C10_attempts_le_max.

(** stops at the first success: whenever attempt j is made, every earlier attempt
    returned an error (so nothing follows a nil return, a panic or a hang) *)
Theorem C10_stops_at_first_success : forall p h draws c pick, fvalid p ->
  forall i j, In (Attempt j) (retry_run p h draws c pick) -> (i < j)%nat ->
  exists code r, h i = OErr code r.
Proof. exact stops_at_first_success. Qed.
Print Assumptions C10_stops_at_first_success.

(** the caller sees the outcome of the last attempt; the trace ends with that single Return *)
Theorem C10_final_is_last_attempt : forall p h draws c pick, valid p ->
  let tr := retry_run p h draws c pick in
  final_of tr = Some (h (n_attempts tr - 1)%nat) /\
  exists pre, tr = pre ++ [Return (Some (h (n_attempts tr - 1)%nat))] /\
              forall e, In e pre -> match e with Return _ => False | _ => True end.
Proof. exact final_is_last_attempt. Qed.
Print Assumptions C10_final_is_last_attempt.

(** between attempt j and attempt j+1 there is exactly one completed wait, of length
    trunc(base_j (1-f)) + draw, hence >= floor(base_j (1-f)) (and <= floor(base_j (1+f)));
    base_j = waitDuration * 1.5^j (exponential) or waitDuration *)
Theorem C10_backoff_lower_bound : forall p h draws c pick, fvalid p ->
  let tr := retry_run p h draws c pick in
  forall k j, nth_error tr k = Some (Attempt (S j)) ->
  exists d, nth_error tr (k - 1) = Some (Wait d) /\ nth_error tr (k - 2) = Some (Attempt j) /\
            (2 <= k)%nat /\ d = wait_at p draws j /\ lo_wait p j <= d <= hi_wait p j.
Proof. exact backoff_lower_bound. Qed.
Print Assumptions C10_backoff_lower_bound.

(** every completed wait of the run (including the one the code makes after the last
    failed attempt) obeys the same bounds *)
Theorem C10_all_waits_bounded : forall p h draws c pick, fvalid p ->
  forall m d, nth_error (waits_of (retry_run p h draws c pick)) m = Some d ->
  d = wait_at p draws m /\ lo_wait p m <= d <= hi_wait p m.
Proof. exact all_waits_bounded. Qed.
Print Assumptions C10_all_waits_bounded.

(** once the context is done at the select after attempt k, no further attempt is made -
    provided the wait there is positive, or the select resolves the tie for ctx.Done() *)
Theorem C10_no_attempt_after_cancel : forall p h draws k pick, fvalid p ->
  (0 < wait_at p draws k \/ pick k = false) ->
  forall j, In (Attempt j) (retry_run p h draws (Some k) pick) -> (j <= k)%nat.
Proof. exact no_attempt_after_cancel. Qed.
Print Assumptions C10_no_attempt_after_cancel.

(** in particular whenever the back-off lower bound is positive (every draw, every pick) *)
Theorem C10_no_attempt_after_cancel_positive_backoff : forall p h draws k pick, fvalid p ->
  0 < lo_wait p k ->
  forall j, In (Attempt j) (retry_run p h draws (Some k) pick) -> (j <= k)%nat.
Proof. exact no_attempt_after_cancel_lo. Qed.
Print Assumptions C10_no_attempt_after_cancel_positive_backoff.

(** the stated exception is real: with wait 0 both select cases are ready and an attempt
    after the cancellation is possible (waitDuration 1ns, factor 1/4: trunc(0.75) = 0) *)
Theorem C10_zero_wait_select_race :
  exists p h draws k pick,
    valid p /\ wait_at p draws k = 0 /\
    In (Attempt (S k)) (retry_run p h draws (Some k) pick).
Proof. exact zero_wait_select_race. Qed.
Print Assumptions C10_zero_wait_select_race.

(** streamed request bodies are never re-sent: one attempt whatever the retry policy *)
Theorem C10_stream_single_attempt : forall pl rq,
  rq_stream rq = true -> po_attempts (pool_handle pl true rq) = 1%nat.
Proof. exact stream_single_attempt. Qed.
Print Assumptions C10_stream_single_attempt.

(** pool timeout: if the last attempt's backend never answers (and the client did not
    cancel), the request ends with result timeout / 408 ... *)
Theorem C10_timeout_is_408 : forall pl rq, pool_ok pl -> pl_timeout pl = true ->
  rq_script rq (po_attempts (pool_handle pl true rq) - 1)%nat = SBlock ->
  ctx_done (rq_cancel rq) (po_attempts (pool_handle pl true rq) - 1)%nat = false ->
  po_result (pool_handle pl true rq) = PResult RTimeout 408.
Proof. exact timeout_is_408. Qed.
Print Assumptions C10_timeout_is_408.

(** ... and with a pool timeout no request hangs, whatever the backend does *)
Theorem C10_timeout_never_hangs : forall pl rq,
  (match pl_retry pl with Some p => fvalid p | None => True end) ->
  pl_timeout pl = true -> po_result (pool_handle pl true rq) <> PHang.
Proof. exact timeout_never_hangs. Qed.
Print Assumptions C10_timeout_never_hangs.

(** "the client finally sees the outcome of the last attempt": whenever a request ends with a
    failure result other than failureCode, the client gets the gateway's own failure response
    for that result - never the backend response of any attempt (e.g. one whose header arrived
    but whose body broke, stalled past the deadline or exceeded the size limit) *)
Theorem C10_failure_response_is_gateways : forall pl rq r s, pool_ok pl ->
  po_result (pool_handle pl true rq) = PResult r s -> r <> RNone -> r <> RFailureCode ->
  po_visible (pool_handle pl true rq) = VGateway s.
Proof. exact failure_response_is_gateways. Qed.
Print Assumptions C10_failure_response_is_gateways.

(** a backend response reaches the client only as the response of the LAST attempt, and only
    with the empty result or failureCode *)
Theorem C10_backend_response_is_last_attempts : forall pl rq j, pool_ok pl ->
  po_visible (pool_handle pl true rq) = VBackend j ->
  j = (po_attempts (pool_handle pl true rq) - 1)%nat /\
  exists s, po_result (pool_handle pl true rq) = PResult RNone s \/
            po_result (pool_handle pl true rq) = PResult RFailureCode s.
Proof. exact backend_response_is_last_attempts. Qed.
Print Assumptions C10_backend_response_is_last_attempts.

(** a CircuitBreaker around the call records exactly one outcome per client request,
    however many attempts the request contained (panic path included); the record is a
    failure iff the request did not end with the empty result *)
Theorem C10_breaker_records_once : forall pl rq, pl_cb pl = true -> pool_ok pl ->
  po_result (pool_handle pl true rq) <> PHang ->
  po_records (pool_handle pl true rq) = [presult_failed (po_result (pool_handle pl true rq))].
Proof. exact breaker_records_once. Qed.
Print Assumptions C10_breaker_records_once.

(** the wrapper itself, for an arbitrary inner trace *)
Theorem C10_breaker_wrapper_records_once : forall inner,
  final_of inner <> Some OHang ->
  records_of (cb_wrap true inner) = [is_failure (final_of inner)] /\
  inner_of (cb_wrap true inner) = inner.
Proof. exact cb_wrap_records_once. Qed.
Print Assumptions C10_breaker_wrapper_records_once.

(** over any sequence of client requests: as many records as client requests *)
Theorem C10_breaker_run_records : forall pl rqs, pl_cb pl = true -> pool_ok pl ->
  (forall rq, In rq rqs -> po_result (pool_handle pl true rq) <> PHang) ->
  total_records (pool_run pl rqs) = List.length rqs /\
  failed_records (pool_run pl rqs) =
    List.length (filter (fun o => presult_failed (po_result o)) (pool_run pl rqs)).
Proof. exact breaker_run_records. Qed.
Print Assumptions C10_breaker_run_records.

(** a short-circuited request contacts no server and records nothing *)
Theorem C10_breaker_rejected : forall pl rq, pl_cb pl = true ->
  po_result (pool_handle pl false rq) = PResult RShortCircuited 503 /\
  po_attempts (pool_handle pl false rq) = 0%nat /\
  po_records (pool_handle pl false rq) = [].
Proof. exact breaker_rejected. Qed.
Print Assumptions C10_breaker_rejected.

(** the decidable checker run as [prop] on the implementation's traces (group "retry")
    accepts every behaviour of the model: all validated policies, scripts, cancellation
    points, breaker modes (0 none, 1 closed, 2 forced open), draws, select resolutions *)
Theorem C10_prop_checker_sound : forall p script cancel cb draws pick,
  valid p -> cb = 0 \/ cb = 1 \/ cb = 2 ->
  prop_retry (model_retry_case p script cancel cb draws pick) = true.
Proof. exact prop_retry_sound. Qed.
Print Assumptions C10_prop_checker_sound.

(** the same for the checker of group "pool" (a pool configuration serving any list of client
    requests), provided no request hangs - automatic when the pool has a timeout *)
Theorem C10_pool_checker_sound : forall retry p timeout cb fcodes smax (xs : list xs_t),
  (retry = true -> valid p) ->
  let c := model_pool_case retry p timeout cb fcodes smax xs in
  (forall x, In x xs -> po_result (pool_handle (pool_of c) true (model_pool_rq x)) <> PHang) ->
  prop_pool c = true.
Proof. exact prop_pool_sound. Qed.
Print Assumptions C10_pool_checker_sound.

Theorem C10_pool_checker_sound_with_timeout : forall retry p timeout cb fcodes smax (xs : list xs_t),
  (retry = true -> valid p) -> 0 < timeout ->
  prop_pool (model_pool_case retry p timeout cb fcodes smax xs) = true.
Proof. exact prop_pool_sound_timeout. Qed.
Print Assumptions C10_pool_checker_sound_with_timeout.

(** non-vacuity: exponential policy, three failures then success, four attempts allowed:
    waits 2ms*(1-1/4), 3ms*(1-1/4)+draw.., success returned *)
Example C10_nonvacuous :
  let p := {| p_max := 4; p_wait := 2000000; p_fnum := 1; p_fden := 4; p_expo := true |} in
  let h := fun i : nat => if (i <? 2)%nat then OErr (Z.of_nat i) RServerError else ONil 200 in
  valid p /\
  retry_run p h (fun i => 7 + Z.of_nat i) None (fun _ => true) =
    [Attempt 0; Wait 1500007; Attempt 1; Wait 2250008; Attempt 2; Return (Some (ONil 200))] /\
  lo_wait p 1 = 2250000 /\ hi_wait p 1 = 3750000.
Proof. cbv zeta. split; [unfold valid; cbn; lia|]. vm_compute. repeat split; reflexivity. Qed.
