(** C09 - property theorems only. Each is closed by [exact] of a lemma proved
    in proofs/RLProofs.v; nothing else lives here. *)
From EG.lib Require Import Base.
From EG.model Require Import RL.
From EG.proofs Require Import RLProofs.
Open Scope Z_scope.

(** no admitted request is made to wait longer than timeoutDuration (nor a negative time) *)
Theorem C09_wait_bound : forall p s el c s' w,
  valid p -> 0 <= el -> acquire p s el c = (s', Permit w) -> 0 <= w <= pT p.
Proof. exact wait_bound. Qed.
Print Assumptions C09_wait_bound.

(** a request arriving while the current period still has a spare permit proceeds immediately *)
Theorem C09_spare_permit_immediate : forall p s el c,
  valid p -> 0 <= el -> cur_tokens p s (el / pP p) < pL p -> snd (acquire p s el c) = Permit 0.
Proof. exact spare_immediate. Qed.
Print Assumptions C09_spare_permit_immediate.

(** for every arrival sequence (non-decreasing times) and every grid period k, at most
    limitForPeriod admitted requests are released in period k.  The release period of an
    admitted request, (arrival + wait) / P, is its slot / L ([release_period]). *)
Theorem C09_release_bound : forall p els k,
  valid p -> nondecr 0 els ->
  Z.of_nat (List.length (filter (in_block (pL p) k) (admitted (slots p rl0 els)))) <= pL p.
Proof. exact release_bound. Qed.
Print Assumptions C09_release_bound.

Theorem C09_release_period_is_slot_block : forall p s el s' w,
  valid p -> 0 <= el -> acquire p s el 1 = (s', Permit w) ->
  (el + w) / pP p = slot_of p s el / pL p /\ next_slot p s' = slot_of p s el + 1 /\
  cyc s' = el / pP p /\ 0 <= tok s'.
Proof. exact release_period. Qed.
Print Assumptions C09_release_period_is_slot_block.

(** a request is rejected only when every permit of every period from the current one up
    to the timeout horizon (T/P further periods) is already reserved *)
Theorem C09_reject_only_when_horizon_full : forall p pre el s' w,
  valid p -> nondecr 0 (pre ++ [el]) ->
  acquire p (final p rl0 pre) el 1 = (s', Reject w) ->
  forall x, (el / pP p) * pL p <= x < (el / pP p + pT p / pP p + 1) * pL p ->
            In x (admitted (slots p rl0 pre)).
Proof. exact reject_horizon_full. Qed.
Print Assumptions C09_reject_only_when_horizon_full.

(** non-vacuity: the hypotheses are satisfiable by a concrete non-trivial history *)
Example C09_nonvacuous :
  let p := {| pT := 25; pP := 10; pL := 2 |} in
  valid p /\ nondecr 0 [0; 0; 0; 3; 3; 3; 3; 31] /\
  map (fun o => match o with Some x => x | None => -1 end) (slots p rl0 [0; 0; 0; 3; 3; 3; 3; 31])
    = [0; 1; 2; 3; 4; 5; -1; 6].
Proof. cbv zeta. split; [unfold valid; cbn; lia|]. split; [cbn; lia|]. vm_compute. reflexivity. Qed.
