(** C09 - property theorems only. Each is closed by [exact] of a lemma proved
    in proofs/RLProofs.v; nothing else lives here. *)
From EG.lib Require Import Base.
From EG.model Require Import RL.
From EG.model Require Import RLCheck.
From EG.proofs Require Import RLProofs RLCheckProofs.
Open Scope Z_scope.

(** no admitted request is made to wait longer than timeoutDuration (nor a negative time) *)
Theorem C09_wait_bound : forall p s el c s' w,
  valid p -> 0 <= el -> acquire p s el c = (s', Permit w) -> 0 <= w <= pT p.
Proof. exact wait_bound. Qed.
Print Assumptions C09_wait_bound.

(** a request arriving while the current period still has a spare permit proceeds immediately *)
Theorem C09_spare_permit_immediate : forall p s el c,
  valid p -> 0 <= el -> cur_tokens p s (el / pP p) < pL p -> snd (acquire p s el c) = Permit 0.
Proof. exact spare_immediate. Qed.
Print Assumptions C09_spare_permit_immediate.

(** for every arrival sequence (non-decreasing times) and every grid period k, at most
    limitForPeriod admitted requests are released in period k.  The release period of an
    admitted request, (arrival + wait) / P, is its slot / L ([release_period]). *)
Theorem C09_release_bound : forall p els k,
  valid p -> nondecr 0 els ->
  Z.of_nat (List.length (filter (in_block (pL p) k) (admitted (slots p rl0 els)))) <= pL p.
Proof. exact release_bound. Qed.
Print Assumptions C09_release_bound.

Theorem C09_release_period_is_slot_block : forall p s el s' w,
  valid p -> 0 <= el -> acquire p s el 1 = (s', Permit w) ->
  (el + w) / pP p = slot_of p s el / pL p /\ next_slot p s' = slot_of p s el + 1 /\
  cyc s' = el / pP p /\ 0 <= tok s'.
Proof. exact release_period. Qed.
Print Assumptions C09_release_period_is_slot_block.

(** a request is rejected only when every permit of every period from the current one up
    to the timeout horizon (T/P further periods) is already reserved *)
Theorem C09_reject_only_when_horizon_full : forall p pre el s' w,
  valid p -> nondecr 0 (pre ++ [el]) ->
  acquire p (final p rl0 pre) el 1 = (s', Reject w) ->
  forall x, (el / pP p) * pL p <= x < (el / pP p + pT p / pP p + 1) * pL p ->
            In x (admitted (slots p rl0 pre)).
Proof. exact reject_horizon_full. Qed.
Print Assumptions C09_reject_only_when_horizon_full.

(** MQTT limiters (timeout 0), arbitrary non-negative packet sizes: every admitted packet
    found strictly less than the limit already admitted in its period - so per period at
    most [limit] unit requests are admitted and admitted bytes exceed bytesRate by less than
    one packet. Single-dimension limiter (requestRate only / bytesRate only): *)
Theorem C09_mqtt_single : forall p ops,
  valid p -> pT p = 0 -> nondecr_ops 0 ops -> hist_ok p (snd (run_hist p rl0 ops [])).
Proof. exact mqtt_single_limit. Qed.
Print Assumptions C09_mqtt_single.

(** both rates set: the two-dimensional limiter [macquire] on [1; bytes] *)
Theorem C09_mqtt_multi : forall P L0 L1 ops,
  0 < P -> 0 < L0 -> 0 < L1 -> nondecr_ops 0 ops ->
  hist2_ok L0 L1 (mrun_hist P L0 L1 0 0 0 ops []).
Proof. exact mqtt_multi_limit. Qed.
Print Assumptions C09_mqtt_multi.

(** requests to URLs that match no rule are never limited (and touch no limiter) *)
Theorem C09_unmatched_url_unlimited : forall h now lims matches i,
  existsb (fun b : bool => b) matches = false ->
  flt_handle_aux h now lims matches i = (h, FPass 0 None).
Proof. exact handle_unmatched. Qed.
Print Assumptions C09_unmatched_url_unlimited.

(** what "matches a rule" means (urlrule.URLRule.Match): method in the list (or no list) and
    path = exact, or path starts with prefix, or the regexp matches - every configured
    alternative counts; and a request matching no rule under THAT meaning is never limited *)
Theorem C09_url_rule_match_spec : forall u m p rx,
  url_match u m p rx = true <->
  (fu_methods u = [] \/ In m (fu_methods u)) /\
  ((fu_exact u <> ""%string /\ p = fu_exact u) \/
   (fu_prefix u <> ""%string /\ exists rest, p = (fu_prefix u ++ rest)%string) \/
   (fu_regex u <> ""%string /\ rx = true)).
Proof. exact url_match_spec. Qed.
Print Assumptions C09_url_rule_match_spec.

Theorem C09_unmatched_request_unlimited : forall h now lims us m p rxs i,
  (forall u rx, In (u, rx) (combine us rxs) -> url_match u m p rx = false) ->
  flt_handle_aux h now lims (match_row us m p rxs) i = (h, FPass 0 None).
Proof. exact unmatched_request_unlimited. Qed.
Print Assumptions C09_unmatched_request_unlimited.

(** reloading with an unchanged rule (same URL rule, same policy) keeps the limiter object
    with its accumulated state; no limiter object is modified by the reload and the previous
    generation keeps its references (ideal = without the pinned `prev.rl = nil` defect) *)
Theorem C09_reload_keeps_state : forall snew sold now urls h oldl next h' r o n pk,
  reload_urls ideal snew sold now urls h oldl next = (h', r, o, n, pk) ->
  (forall x, In x oldl -> x <> None) ->
  pk = false /\ o = oldl /\ next <= n /\
  (forall k, k < next -> hget h' k = hget h k) /\
  List.length r = List.length urls /\
  (forall j u, nth_error urls j = Some u ->
     forall i k, find_prev snew sold u (combine (fs_urls sold) oldl) 0 = Some (i, Some k) ->
     nth_error r j = Some (Some k)).
Proof. exact reload_ideal. Qed.
Print Assumptions C09_reload_keeps_state.

(** the pinned code (quirk on) loses the carried-over state: Inherit panics on a spec with
    two identical rules (witness of KF-C09-rl-inherit-nil-limiter) *)
Theorem C09_refuted_rl_inherit_steals_limiter :
  exists s now, let q := {| q_rl_inherit_steals_limiter := true |} in
    frun q fworld0 [FInit s 0; FInherit s 0 now] = [OGen [Some 0; Some 1]; OInheritPanic] /\
    frun ideal fworld0 [FInit s 0; FInherit s 0 now] = [OGen [Some 0; Some 1]; OGen [Some 0; Some 0]].
Proof.
  exists {| fs_policies := [{| fp_name := "p0"; fp_T := "3ms"; fp_P := "1ms"; fp_L := 3; fp_Tns := 3000000; fp_Pns := 1000000 |}];
            fs_default := "p0";
            fs_urls := [{| fu_methods := []; fu_exact := "/a"; fu_prefix := ""; fu_regex := ""; fu_ref := "p0" |};
                        {| fu_methods := []; fu_exact := "/a"; fu_prefix := ""; fu_regex := ""; fu_ref := "p0" |}] |}, 1000.
  vm_compute. split; reflexivity.
Qed.
Print Assumptions C09_refuted_rl_inherit_steals_limiter.

(** the decidable trace checker that the harness applies to the IMPLEMENTATION's observables
    (wait bound, immediate-when-spare, per-period release bound, reject-only-when-horizon-full)
    accepts every history of the model: it cannot raise an alarm on model-conformant code *)
Theorem C09_model_passes_checker : forall p els,
  valid p -> nondecr 0 els ->
  prop_unit p [] (map (fun el => (el, 1)) els)
            (map out_code (run p rl0 (map (fun el => (el, 1)) els))) = true.
Proof. exact model_passes_checker. Qed.
Print Assumptions C09_model_passes_checker.

(** ... and conversely it is SOUND: whatever produced the observed trace (the implementation,
    not the model), if the checker accepts it then the clauses of the property hold of that
    trace, stated over its positions: (1) no period receives more than limitForPeriod releases,
    (2) every arrival is admitted with a wait in [0, timeout] or rejected, (3) an admitted
    arrival whose own period still has a spare permit waits 0, its release period had a spare
    permit, and a rejection happens only when every period up to the timeout horizon is fully
    reserved ([releases] lists the release periods of the admitted prefix) *)
Theorem C09_trace_checker_sound : forall p ops obs,
  prop_unit p [] ops obs = true -> 0 <= pL p ->
  (forall k, count_eq k (releases p ops obs) <= pL p) /\
  Forall2 (fun (_ : Z * Z) (o : Z * Z) => (fst o = 1 /\ 0 <= snd o <= pT p) \/ fst o = 0) ops obs /\
  (forall ops1 obs1 el c ops2 code w obs2,
     ops = ops1 ++ (el, c) :: ops2 -> obs = obs1 ++ (code, w) :: obs2 -> List.length ops1 = List.length obs1 ->
     let cnt k := count_eq k (releases p ops1 obs1) in
     (code = 1 -> cnt (el ÷ pP p) < pL p -> w = 0) /\
     (code = 1 -> cnt ((el + w) ÷ pP p) < pL p) /\
     (code = 0 -> forall k, el ÷ pP p <= k <= el ÷ pP p + Z.of_nat (Z.to_nat (pT p ÷ pP p)) -> cnt k = pL p)).
Proof. exact trace_checker_sound. Qed.
Print Assumptions C09_trace_checker_sound.

Example C09_trace_checker_nonvacuous :
  let p := {| pT := 25; pP := 10; pL := 2 |} in
  let ops := [(0, 1); (0, 1); (0, 1); (3, 1); (3, 1); (3, 1); (3, 1)] in
  let obs := [(1, 0); (1, 0); (1, 10); (1, 7); (1, 17); (1, 17); (0, 0)] in
  prop_unit p [] ops obs = true /\ releases p ops obs = [0; 0; 1; 1; 2; 2].
Proof. vm_compute. split; reflexivity. Qed.

(** non-vacuity: the hypotheses are satisfiable by a concrete non-trivial history *)
Example C09_nonvacuous :
  let p := {| pT := 25; pP := 10; pL := 2 |} in
  valid p /\ nondecr 0 [0; 0; 0; 3; 3; 3; 3; 31] /\
  map (fun o => match o with Some x => x | None => -1 end) (slots p rl0 [0; 0; 0; 3; 3; 3; 3; 31])
    = [0; 1; 2; 3; 4; 5; -1; 6].
Proof. cbv zeta. split; [unfold valid; cbn; lia|]. split; [cbn; lia|]. vm_compute. reflexivity. Qed.

Example C09_mqtt_nonvacuous :
  nondecr_ops 0 [(0, 40); (0, 70); (5, 1); (1000000000, 64)] /\
  mrun_hist 1000000000 2 100 0 0 0 [(0, 40); (0, 70); (5, 1); (1000000000, 64)] [] = [(1, 64); (0, 70); (0, 40)].
Proof. split; [cbn; lia | vm_compute; reflexivity]. Qed.
