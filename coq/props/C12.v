(** C12 - property theorems only. *)
From EG.lib Require Import Base.
From EG.model Require Import Mux.
From EG.proofs Require Import MuxProofs.
Open Scope string_scope.

Theorem C12_tmp : True. Proof. exact I. Qed.
