(** C12 - route cache transparency.  Property theorems only: each is closed by
    [exact] of a lemma proved in proofs/MuxProofsCache.v.  The cache is an
    arbitrary partial map key -> (result, filters to re-check); before every
    request an arbitrary predicate [keep] decides which keys survive (this covers
    every cache size and every replacement policy, ARC included).  [ideal] is the
    flag set without the four defects of the unchanged code (the KF-C12 entries). *)
From EG.lib Require Import Base.
From EG.model Require Import Mux.
From EG.proofs Require Import MuxProofs MuxProofsCache.
Open Scope string_scope.

Section C12.
  Variable re_match : string -> string -> bool.
  Variable re_replace : string -> string -> string -> string.
  Variable ip_allow : N -> string -> bool.

  (** two requests share a cache key iff they agree on host, method and path *)
  Theorem C12_key_injective : forall rq1 rq2,
    mk_key ideal rq1 = mk_key ideal rq2 <->
    (rq_host rq1 = rq_host rq2 /\ rq_method rq1 = rq_method rq2 /\ rq_path rq1 = rq_path rq2).
  Proof. exact key_injective. Qed.

  (** invariant: along every run (any requests, any evictions) every cached value answers
      every request carrying its key exactly like the cache-less router *)
  Theorem C12_cache_sound_invariant : forall sv (steps : list ((key -> bool) * request)) k v,
    clookup k (run_cache re_match re_replace ip_allow ideal sv [] steps) = Some v ->
    forall rq, mk_key ideal rq = k ->
    hit_result ip_allow rq v = search_nocache re_match ip_allow sv rq.
  Proof. exact (cache_sound_invariant re_match re_replace ip_allow). Qed.

  (** on a sound cache the hit branch returns what the miss branch would compute *)
  Theorem C12_hit_equals_miss : forall sv c rq v,
    cache_sound re_match ip_allow sv c -> clookup (mk_key ideal rq) c = Some v ->
    fst (search_cached re_match ip_allow ideal sv c rq) = search_nocache re_match ip_allow sv rq.
  Proof. exact (hit_equals_miss re_match ip_allow). Qed.

  (** transparency: for all servers, all request sequences and all eviction behaviours the
      outcomes (status, handler invoked, path seen by it) with the cache are those of the
      cache-less router *)
  Theorem C12_transparent : forall sv (steps : list ((key -> bool) * request)),
    run_cached re_match re_replace ip_allow ideal sv [] steps =
    map (fun s => serve_nocache re_match re_replace ip_allow sv (snd s)) steps.
  Proof. exact (transparent re_match re_replace ip_allow). Qed.

  (** an earlier history - whatever requests it contains, colliding or not - never changes how
      a later request is answered *)
  Theorem C12_no_cross_request_influence : forall sv h1 h2 keep1 keep2 rq,
    last (run_cached re_match re_replace ip_allow ideal sv [] (h1 ++ [(keep1, rq)])%list) Panicked =
    last (run_cached re_match re_replace ip_allow ideal sv [] (h2 ++ [(keep2, rq)])%list) Panicked.
  Proof. exact (no_cross_request_influence re_match re_replace ip_allow). Qed.
  (** transparency over histories with reloads and MuxMapper changes: [OMap m] steps (pipelines
      created, deleted, replaced - no reload, the cache is kept) and [OReload sv'] steps
      (identical spec, changed options/filters, different rules - any [sv']), arbitrary
      eviction before every request: the cached server answers like the cache-less twin that
      is reloaded at the same points *)
  Theorem C12_transparent_across_reloads : forall sv (ops : list op),
    run_ops re_match re_replace ip_allow ideal sv [] ops = ref_ops re_match re_replace ip_allow sv ops.
  Proof. exact (transparent_ops re_match re_replace ip_allow). Qed.
End C12.

(** each defect flag of the unchanged code, switched on alone, breaks transparency on a
    concrete request sequence (which [ideal] answers transparently) *)
Theorem C12_refuted_q_cache_key_concat :
  exists re_match re_replace ip_allow sv (steps : list ((key -> bool) * request)),
    let q := {| q_cache_key_concat := true; q_cache_headerless_after_header := false;
                q_cache_status_before_ipfilter := false; q_cache_rule_filter_skipped := false |} in
    run_cached re_match re_replace ip_allow q sv [] steps
      <> map (fun s => serve_nocache re_match re_replace ip_allow sv (snd s)) steps /\
    run_cached re_match re_replace ip_allow ideal sv [] steps
      = map (fun s => serve_nocache re_match re_replace ip_allow sv (snd s)) steps.
Proof. exact refuted_key_concat. Qed.

Theorem C12_refuted_q_cache_headerless_after_header :
  exists re_match re_replace ip_allow sv (steps : list ((key -> bool) * request)),
    let q := {| q_cache_key_concat := false; q_cache_headerless_after_header := true;
                q_cache_status_before_ipfilter := false; q_cache_rule_filter_skipped := false |} in
    run_cached re_match re_replace ip_allow q sv [] steps
      <> map (fun s => serve_nocache re_match re_replace ip_allow sv (snd s)) steps /\
    run_cached re_match re_replace ip_allow ideal sv [] steps
      = map (fun s => serve_nocache re_match re_replace ip_allow sv (snd s)) steps.
Proof. exact refuted_headerless_after_header. Qed.

Theorem C12_refuted_q_cache_status_before_ipfilter :
  exists re_match re_replace ip_allow sv (steps : list ((key -> bool) * request)),
    let q := {| q_cache_key_concat := false; q_cache_headerless_after_header := false;
                q_cache_status_before_ipfilter := true; q_cache_rule_filter_skipped := false |} in
    run_cached re_match re_replace ip_allow q sv [] steps
      <> map (fun s => serve_nocache re_match re_replace ip_allow sv (snd s)) steps /\
    run_cached re_match re_replace ip_allow ideal sv [] steps
      = map (fun s => serve_nocache re_match re_replace ip_allow sv (snd s)) steps.
Proof. exact refuted_status_before_ipfilter. Qed.

Theorem C12_refuted_q_cache_rule_filter_skipped :
  exists re_match re_replace ip_allow sv (steps : list ((key -> bool) * request)),
    let q := {| q_cache_key_concat := false; q_cache_headerless_after_header := false;
                q_cache_status_before_ipfilter := false; q_cache_rule_filter_skipped := true |} in
    run_cached re_match re_replace ip_allow q sv [] steps
      <> map (fun s => serve_nocache re_match re_replace ip_allow sv (snd s)) steps /\
    run_cached re_match re_replace ip_allow ideal sv [] steps
      = map (fun s => serve_nocache re_match re_replace ip_allow sv (snd s)) steps.
Proof. exact refuted_rule_filter_skipped. Qed.

Print Assumptions C12_key_injective.
Print Assumptions C12_cache_sound_invariant.
Print Assumptions C12_hit_equals_miss.
Print Assumptions C12_transparent.
Print Assumptions C12_no_cross_request_influence.
Print Assumptions C12_transparent_across_reloads.
Print Assumptions C12_refuted_q_cache_key_concat.
Print Assumptions C12_refuted_q_cache_headerless_after_header.
Print Assumptions C12_refuted_q_cache_status_before_ipfilter.
Print Assumptions C12_refuted_q_cache_rule_filter_skipped.

(** non-vacuity: on a server with filters at two levels and a header-conditioned entry ahead
    of a header-less one, a sequence with hits, a collision attempt, a blocked client and an
    eviction of everything before the last request is answered as by the cache-less router,
    and the cache really is used (the final cache holds entries) *)
Example C12_nonvacuous :
  let rq := w_rq in
  let all (_ : key) := true in let none (_ : key) := false in
  let steps := [ (all, rq "a.com" "GET" "/a" [] "10.0.1.1"); (all, rq "a.com" "GET" "/a" [("X", "v1")] "10.0.1.1");
                 (all, rq "a.co" "mGET" "/a" [] "10.0.1.1"); (all, rq "a.com" "GET" "/zz" [] "10.0.1.1");
                 (all, rq "a.com" "GET" "/zz" [] "10.0.0.9"); (all, rq "a.com" "GET" "/a" [] "10.0.0.8");
                 (none, rq "a.com" "GET" "/zz" [] "10.0.1.1") ] in
  run_cached w_re w_rep w_ip ideal (w_sv true) [] steps =
    [Dispatched "B" "/a"; Dispatched "A" "/a"; Failed 404; Failed 404; Failed 403; Failed 403; Failed 404] /\
  List.length (run_cache w_re w_rep w_ip ideal (w_sv false) [] (firstn 4 steps)) = 3%nat.
Proof. vm_compute. split; reflexivity. Qed.
