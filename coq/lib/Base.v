(** Shared base: imports, byte/string helpers used by the case encoder. *)
From Coq Require Export List ZArith NArith Lia String Ascii Bool.
Export ListNotations.

(** [bytes_to_string] lets the encoder emit arbitrary bytes (non printable,
    quotes, UTF-8) as a list of numerals. *)
Fixpoint bytes_to_string (l : list N) : string :=
  match l with
  | [] => EmptyString
  | b :: t => String (ascii_of_N b) (bytes_to_string t)
  end.

Definition string_eqb := String.eqb.

(** association lists keyed by strings *)
Fixpoint alookup {A} (k : string) (l : list (string * A)) : option A :=
  match l with
  | [] => None
  | (k', v) :: t => if String.eqb k k' then Some v else alookup k t
  end.

Definition Zeqb_pair (a b : Z * Z) : bool := (fst a =? fst b)%Z && (snd a =? snd b)%Z.

Fixpoint list_eqb {A} (eqb : A -> A -> bool) (l1 l2 : list A) : bool :=
  match l1, l2 with
  | [], [] => true
  | a :: t1, b :: t2 => eqb a b && list_eqb eqb t1 t2
  | _, _ => false
  end.

Lemma list_eqb_spec {A} (eqb : A -> A -> bool) :
  (forall a b, eqb a b = true <-> a = b) ->
  forall l1 l2, list_eqb eqb l1 l2 = true <-> l1 = l2.
Proof.
  intros H l1; induction l1 as [|a t IH]; intros [|b t2]; simpl; split; intro E;
    try reflexivity; try discriminate.
  - apply andb_true_iff in E as [E1 E2]. apply H in E1. apply IH in E2. congruence.
  - inversion E; subst. apply andb_true_iff; split; [apply H | apply IH]; reflexivity.
Qed.
