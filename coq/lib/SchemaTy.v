(** Shared data types of C13 (validation soundness).

    - [jvalue]  : JSON/YAML documents.  Numbers are stored in THOUSANDTHS
                  ([JNum 5000] is the number 5, [JNum 500] is 0.5) so that the few
                  float fields (randomizationFactor, sampleRate) need no rationals.
    - [gty]     : the Go type of a spec struct together with the per-field
                  [yaml:]/[jsonschema:] tag content.  Terms of this type are
                  GENERATED from /repo by tools/specgen (coq/gen/GenSchema.v).
    - [kind_info] : one registered kind (filter / object / resilience policy). *)
From EG.lib Require Import Base.

Inductive jvalue :=
| JNull
| JBool (b : bool)
| JNum (milli : Z)
| JStr (s : string)
| JArr (l : list jvalue)
| JObj (kv : list (string * jvalue)).

(** tag content of one struct field *)
Record fmeta := mkF {
  f_req : bool;          (* jsonschema:"required" *)
  f_jomit : bool;        (* jsonschema:"omitempty" (format check skipped on zero value) *)
  f_yomit : bool;        (* yaml:",omitempty" (zero value not marshalled) *)
  f_unique : bool;       (* uniqueItems=true *)
  f_noschema : bool;     (* jsonschema:"-" : marshalled but not part of the schema *)
  f_min : option Z;      (* minimum=n  (as written in the tag) *)
  f_max : option Z;      (* maximum=n *)
  f_minitems : Z;        (* minItems=n, 0 = none *)
  f_enum : list string;  (* enum=a,enum=b *)
  f_format : string;     (* format=xxx, "" = none *)
  f_pattern : string     (* pattern=xxx, "" = none *)
}.

Inductive gty :=
| TBool
| TInt (lo hi : Z)       (* Go integer kind, value range *)
| TFloat
| TStr
| TBytes                 (* []byte *)
| TAny                   (* interface{} or a type specgen does not follow *)
| TPtr (t : gty)
| TSlice (t : gty)
| TMap (t : gty)         (* map[string]T *)
| TStruct (fs : list (string * fmeta * gty)).

Record kind_info := mkKind {
  k_name : string;
  k_cat : string;                          (* "filter" | "object" | "resilience" | "meta" *)
  k_gotype : string;                       (* pkg.Type, documentation only *)
  k_ty : gty;
  k_defaults : list (string * jvalue);     (* literal fields of DefaultSpec()/DefaultPolicy(), by yaml name *)
  k_results : list string                  (* filters.Kind.Results (filters only) *)
}.

Definition plain : fmeta := mkF false false false false false None None 0 [] "" "".
