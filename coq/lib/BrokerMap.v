(** Association maps with a boolean key equality, used by the MQTT broker models
    (C15/C16).  Keys are unique by construction: [aset] replaces in place. *)
From EG.lib Require Import Base.

Section AMap.
  Context {K V : Type}.
  Variable eqb : K -> K -> bool.
  Hypothesis eqb_spec : forall a b, eqb a b = true <-> a = b.

  Fixpoint aget (k : K) (l : list (K * V)) : option V :=
    match l with
    | [] => None
    | (k', v) :: t => if eqb k k' then Some v else aget k t
    end.

  Fixpoint aset (k : K) (v : V) (l : list (K * V)) : list (K * V) :=
    match l with
    | [] => [(k, v)]
    | (k', v') :: t => if eqb k k' then (k, v) :: t else (k', v') :: aset k v t
    end.

  Fixpoint adel (k : K) (l : list (K * V)) : list (K * V) :=
    match l with
    | [] => []
    | (k', v') :: t => if eqb k k' then adel k t else (k', v') :: adel k t
    end.

  Definition akeys (l : list (K * V)) : list K := map fst l.

  Lemma eqb_refl k : eqb k k = true.
  Proof. apply eqb_spec. reflexivity. Qed.

  Lemma eqb_neq a b : a <> b -> eqb a b = false.
  Proof. intro H. destruct (eqb a b) eqn:E; [apply eqb_spec in E; contradiction | reflexivity]. Qed.

  Lemma aget_aset_same k v l : aget k (aset k v l) = Some v.
  Proof.
    induction l as [|[k' v'] t IH]; simpl.
    - rewrite eqb_refl. reflexivity.
    - destruct (eqb k k') eqn:E; simpl; [rewrite eqb_refl; reflexivity | rewrite E; exact IH].
  Qed.

  Lemma aget_aset_other k k2 v l : k2 <> k -> aget k2 (aset k v l) = aget k2 l.
  Proof.
    intro N. induction l as [|[k' v'] t IH]; simpl.
    - rewrite (eqb_neq _ _ N). reflexivity.
    - destruct (eqb k k') eqn:E; simpl.
      + apply eqb_spec in E. subst k'. rewrite (eqb_neq _ _ N). reflexivity.
      + destruct (eqb k2 k'); [reflexivity | exact IH].
  Qed.

  Lemma aget_adel_same k l : aget k (adel k l) = None.
  Proof.
    induction l as [|[k' v'] t IH]; simpl; [reflexivity|].
    destruct (eqb k k') eqn:E; simpl; [exact IH | rewrite E; exact IH].
  Qed.

  Lemma aget_adel_other k k2 l : k2 <> k -> aget k2 (adel k l) = aget k2 l.
  Proof.
    intro N. induction l as [|[k' v'] t IH]; simpl; [reflexivity|].
    destruct (eqb k k') eqn:E; simpl.
    - apply eqb_spec in E. subst k'. rewrite (eqb_neq _ _ N). exact IH.
    - destruct (eqb k2 k'); [reflexivity | exact IH].
  Qed.

  Lemma aget_In k v l : aget k l = Some v -> In (k, v) l.
  Proof.
    induction l as [|[k' v'] t IH]; simpl; [discriminate|].
    destruct (eqb k k') eqn:E; intro H.
    - apply eqb_spec in E. inversion H; subst. left. reflexivity.
    - right. apply IH. exact H.
  Qed.

  Lemma aget_None_notin k l : aget k l = None -> forall v, ~ In (k, v) l.
  Proof.
    induction l as [|[k' v'] t IH]; simpl; intros H v I; [exact I|].
    destruct I as [E|I].
    - inversion E; subst. rewrite eqb_refl in H. discriminate.
    - destruct (eqb k k'); [discriminate | exact (IH H v I)].
  Qed.

  (** removing / adding a list of keys *)
  Definition adel_all (ks : list K) (l : list (K * V)) : list (K * V) :=
    fold_left (fun acc k => adel k acc) ks l.

  Definition aset_all (kvs : list (K * V)) (l : list (K * V)) : list (K * V) :=
    fold_left (fun acc kv => aset (fst kv) (snd kv) acc) kvs l.

  Lemma aget_adel_all k ks l :
    aget k (adel_all ks l) = if existsb (eqb k) ks then None else aget k l.
  Proof.
    unfold adel_all. revert l. induction ks as [|k0 t IH]; intro l; simpl; [reflexivity|].
    rewrite IH. destruct (eqb k k0) eqn:E; simpl.
    - apply eqb_spec in E. subst k0. destruct (existsb (eqb k) t); [reflexivity | apply aget_adel_same].
    - destruct (existsb (eqb k) t); [reflexivity|].
      apply aget_adel_other. intro H. subst. rewrite eqb_refl in E. discriminate.
  Qed.

  Lemma aget_aset_all_notin k kvs l :
    existsb (eqb k) (map fst kvs) = false -> aget k (aset_all kvs l) = aget k l.
  Proof.
    unfold aset_all. revert l. induction kvs as [|[k0 v0] t IH]; intro l; simpl; [reflexivity|].
    intro H. apply orb_false_iff in H as [H1 H2]. rewrite IH by exact H2.
    apply aget_aset_other. intro E. subst. rewrite eqb_refl in H1. discriminate.
  Qed.
  Lemma aget_some_key k v l : aget k l = Some v -> existsb (eqb k) (map fst l) = true.
  Proof.
    induction l as [|[k' v'] t IH]; simpl; [discriminate|].
    destruct (eqb k k'); [reflexivity | exact IH].
  Qed.

  Lemma aget_none_key k l : aget k l = None -> existsb (eqb k) (map fst l) = false.
  Proof.
    induction l as [|[k' v'] t IH]; simpl; [reflexivity|].
    destruct (eqb k k'); [discriminate | exact IH].
  Qed.

  Lemma existsb_eqb_In k ks : existsb (eqb k) ks = true <-> In k ks.
  Proof.
    rewrite existsb_exists. split.
    - intros [y [I E]]. apply eqb_spec in E. subst. exact I.
    - intro I. exists k. split; [exact I | apply eqb_refl].
  Qed.

  Lemma akeys_aset k v l x : In x (map fst (aset k v l)) <-> x = k \/ In x (map fst l).
  Proof.
    induction l as [|[k' v'] t IH]; simpl.
    - split; [intros [H|[]]; left; symmetry; exact H | intros [H|[]]; left; symmetry; exact H].
    - destruct (eqb k k') eqn:E; simpl.
      + apply eqb_spec in E. subst k'. split; [intros [H|H]; [left; symmetry; exact H | right; right; exact H] |].
        intros [H|[H|H]]; [left; symmetry; exact H | left; exact H | right; exact H].
      + rewrite IH. split; [intros [H|[H|H]]; tauto | intros [H|[H|H]]; tauto].
  Qed.

  Lemma akeys_adel k l x : In x (map fst (adel k l)) <-> x <> k /\ In x (map fst l).
  Proof.
    induction l as [|[k' v'] t IH]; simpl; [tauto|].
    destruct (eqb k k') eqn:E; simpl.
    - apply eqb_spec in E. subst k'. rewrite IH. split; [tauto|]. intros [N [H|H]]; [congruence | tauto].
    - rewrite IH. split.
      + intros [H|H]; [|tauto]. subst x. split; [|left; reflexivity].
        intro H. subst k'. rewrite eqb_refl in E. discriminate.
      + tauto.
  Qed.

  Lemma NoDup_keys_aset k v l : NoDup (map fst l) -> NoDup (map fst (aset k v l)).
  Proof.
    induction l as [|[k' v'] t IH]; simpl; intro N.
    - constructor; [intros [] | constructor].
    - inversion N as [|? ? N1 N2]; subst. destruct (eqb k k') eqn:E; simpl.
      + apply eqb_spec in E. subst k'. constructor; assumption.
      + constructor; [|apply IH; exact N2]. rewrite akeys_aset. intros [H|H]; [|contradiction].
        subst k'. rewrite eqb_refl in E. discriminate.
  Qed.

  Lemma NoDup_keys_adel k l : NoDup (map fst l) -> NoDup (map fst (adel k l)).
  Proof.
    induction l as [|[k' v'] t IH]; simpl; intro N; [constructor|].
    inversion N as [|? ? N1 N2]; subst. destruct (eqb k k'); simpl; [apply IH; exact N2|].
    constructor; [|apply IH; exact N2]. rewrite akeys_adel. tauto.
  Qed.

  Lemma NoDup_keys_aset_all kvs l : NoDup (map fst l) -> NoDup (map fst (aset_all kvs l)).
  Proof.
    unfold aset_all. revert l. induction kvs as [|[k v] t IH]; intros l N; simpl; [exact N|].
    apply IH. apply NoDup_keys_aset. exact N.
  Qed.

  Lemma NoDup_keys_adel_all ks l : NoDup (map fst l) -> NoDup (map fst (adel_all ks l)).
  Proof.
    unfold adel_all. revert l. induction ks as [|k t IH]; intros l N; simpl; [exact N|].
    apply IH. apply NoDup_keys_adel. exact N.
  Qed.

  (** lookups after [aset_all] of a list with unique keys *)
  Lemma aget_aset_all_ukeys kvs l k :
    NoDup (map fst kvs) ->
    aget k (aset_all kvs l) = if existsb (eqb k) (map fst kvs) then aget k kvs else aget k l.
  Proof.
    unfold aset_all. revert l. induction kvs as [|[k0 v0] t IH]; intros l N; simpl; [reflexivity|].
    inversion N as [|? ? N1 N2]; subst. rewrite IH by exact N2.
    destruct (eqb k k0) eqn:E; simpl.
    - apply eqb_spec in E. subst k0.
      destruct (existsb (eqb k) (map fst t)) eqn:X; [apply existsb_eqb_In in X; contradiction|].
      apply aget_aset_same.
    - destruct (existsb (eqb k) (map fst t)); [reflexivity|].
      apply aget_aset_other. intro H. subst. rewrite eqb_refl in E. discriminate.
  Qed.

  Lemma aset_all_ext kvs a b :
    (forall k, aget k a = aget k b) -> forall k, aget k (aset_all kvs a) = aget k (aset_all kvs b).
  Proof.
    unfold aset_all. revert a b. induction kvs as [|[k0 v0] t IH]; intros a b H; simpl; [exact H|].
    apply IH. intro k. destruct (eqb k k0) eqn:E.
    - apply eqb_spec in E. subst. rewrite !aget_aset_same. reflexivity.
    - assert (k <> k0) as N by (intro X; subst; rewrite eqb_refl in E; discriminate).
      rewrite !aget_aset_other by exact N. apply H.
  Qed.

  Lemma adel_all_ext ks a b :
    (forall k, aget k a = aget k b) -> forall k, aget k (adel_all ks a) = aget k (adel_all ks b).
  Proof. intros H k. rewrite !aget_adel_all, H. reflexivity. Qed.

End AMap.

Arguments aget {K V} eqb k l.
Arguments aset {K V} eqb k v l.
Arguments adel {K V} eqb k l.
Arguments adel_all {K V} eqb ks l.
Arguments aset_all {K V} eqb kvs l.

Lemma string_eqb_spec : forall a b : string, String.eqb a b = true <-> a = b.
Proof. intros. apply String.eqb_eq. Qed.

Lemma z_eqb_spec : forall a b : Z, Z.eqb a b = true <-> a = b.
Proof. intros. apply Z.eqb_eq. Qed.

Notation sget := (aget String.eqb).
Notation sset := (aset String.eqb).
Notation sdel := (adel String.eqb).
Notation zget := (aget Z.eqb).
Notation zset := (aset Z.eqb).
Notation zdel := (adel Z.eqb).
