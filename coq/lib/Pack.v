(** Compact transport of byte strings in generated case files: 7 bytes per primitive
    63-bit integer (big-endian), unpacked to [string] by [vm_compute].  Only the
    correspondence check uses this; no theorem depends on it. *)
From Coq Require Import List String Ascii NArith ZArith Uint63.
Import ListNotations.

Definition ascii_of_int (i : int) : ascii := ascii_of_N (Z.to_N (Uint63.to_Z (Uint63.land i 255%uint63))).

(** the [n] low bytes of [w], most significant first, in front of [acc] *)
Fixpoint unpack_word (n : nat) (w : int) (acc : string) : string :=
  match n with
  | O => acc
  | S n' => unpack_word n' (Uint63.lsr w 8%uint63) (String (ascii_of_int w) acc)
  end.

(** [last] = number of bytes carried by the last word (1..7) *)
Fixpoint unpack (ws : list int) (last : nat) : string :=
  match ws with
  | [] => EmptyString
  | [w] => unpack_word last w EmptyString
  | w :: t => unpack_word 7 w (unpack t last)
  end.

Example unpack_ok :
  unpack [29099075147620729%uint63; 139442745956%uint63] 5 = "gateway word"%string.
Proof. vm_compute. reflexivity. Qed.

(** [n] copies of byte [c] (bodies of more than a megabyte are not listed) *)
Definition srep (c : N) (n : N) : string := N.iter n (String (ascii_of_N c)) EmptyString.
