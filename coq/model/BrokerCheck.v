(** Case types and per-case check functions for C15 (groups fan, sess, cpub) and
    C16 (group life), evaluated by vm_compute on the traces of the real broker.
    Result: (corr, prop, class, attributed-flag), see RLCheck.v. *)
From EG.lib Require Import Base BrokerMap.
From EG.model Require Import RL Session Broker.
Require EG.model.Topic.
Open Scope Z_scope.

(** filter/topic matching: the declarative MQTT matcher of C14's model (EG.model.Topic, proved equal to the
    inductive relation there) - independent of the code under test.  The harness' table computed with the real
    TopicManager is only cross-checked against it. *)
Definition mqtt_matches (topic f : string) : bool :=
  Topic.matchesb (Topic.split_slash f) (Topic.split_slash topic).

Definition result := (bool * bool * N * N)%type.
Definition bN (b : bool) (n : N) : N := if b then n else 0%N.

Definition smem (x : string) (l : list string) : bool := existsb (String.eqb x) l.
Definition zmem (x : Z) (l : list Z) : bool := existsb (Z.eqb x) l.
Definition sseteq (a b : list string) : bool := forallb (fun x => smem x b) a && forallb (fun x => smem x a) b.
Definition zseteq (a b : list Z) : bool := forallb (fun x => zmem x b) a && forallb (fun x => zmem x a) b.

(** order-insensitive comparison of association maps with unique keys *)
Definition amap_eqb {K V} (keqb : K -> K -> bool) (veqb : V -> V -> bool) (a b : list (K * V)) : bool :=
  Nat.eqb (List.length a) (List.length b) &&
  forallb (fun '(k, v) => match aget keqb k b with Some v' => veqb v v' | None => false end) a.

Definition topics_eqb (a b : topics) : bool := amap_eqb String.eqb Z.eqb a b.

(** * fan: fan-out of HTTP-published messages *)

(** the harness' own record of one client's history before the publishes: SUBSCRIBEs, then UNSUBSCRIBEs,
    then possibly a disconnect ([fcl_left]) or an admin delete ([fcl_connected] = false, subscriptions stay) *)
Record fan_client := { fcl_cid : string; fcl_connected : bool; fcl_subs : list (string * Z);
                       fcl_unsubs : list string; fcl_left : bool }.
Record fan_pub := { fp_topic : string; fp_qos : Z; fp_match : list (string * bool); fp_recv : list string }.
Record fan_case := { fc_clients : list fan_client; fc_pubs : list fan_pub; fc_bad : bool }.

(** live subscriptions of one client at publish time (spec-level replay of its history) *)
Definition live_subs (cl : fan_client) : list (string * Z) :=
  if fcl_left cl then []
  else filter (fun '(f, _) => negb (smem f (fcl_unsubs cl)))
              (aset_all String.eqb (fcl_subs cl) []).       (* a later SUBSCRIBE of the same filter replaces its QoS *)

Definition fan_subs (c : fan_case) : list sub :=
  flat_map (fun cl => map (fun '(f, q) => (fcl_cid cl, f, q)) (live_subs cl)) (fc_clients c).

Definition fan_connected (c : fan_case) (cid : string) : bool :=
  existsb (fun cl => String.eqb (fcl_cid cl) cid && fcl_connected cl && negb (fcl_left cl)) (fc_clients c).

Definition row_matches (row : list (string * bool)) (f : string) : bool :=
  match sget f row with Some b => b | None => false end.

(** cross-check only: the real TopicManager holding a single subscription agrees with the matcher *)
Definition oracle_complete (c : fan_case) (p : fan_pub) : bool :=
  forallb (fun '(f, b) => Bool.eqb b (mqtt_matches (fp_topic p) f)) (fp_match p).

Fixpoint insert_all {A} (x : A) (l : list A) : list (list A) :=
  match l with
  | [] => [[x]]
  | y :: t => (x :: l) :: map (cons y) (insert_all x t)
  end.

Fixpoint perms {A} (l : list A) : list (list A) :=
  match l with
  | [] => [[]]
  | x :: t => flat_map (insert_all x) (perms t)
  end.

(** every way the trie walk can pick "the last visited" matching subscription per client *)
Fixpoint choice_tables (q : quirks) (matches : string -> bool) (subs : list sub) (cs : list string)
  : list (list (string * nat)) :=
  match cs with
  | [] => [[]]
  | c :: t =>
      let n := if q_mqtt_overlap_last_qos q then List.length (msubs matches subs c) else 1%nat in
      flat_map (fun i => map (cons (c, i)) (choice_tables q matches subs t)) (seq 0 n)
  end.

Definition choice_of (tbl : list (string * nat)) (c : string) : nat :=
  match sget c tbl with Some i => i | None => 0%nat end.

(** what the subscribers' connections receive: nothing at QoS 2 (Session.publish only logs) *)
Definition fan_received (q : quirks) (c : fan_case) (p : fan_pub) (tbl : list (string * nat)) (order : list string)
  : list string :=
  if 1 <? fp_qos p then []
  else fanout (mqtt_matches (fp_topic p)) q (fan_subs c) (fan_connected c) (fp_qos p) (choice_of tbl) order.

(** does SOME visit order / choice make the model produce exactly the observed receivers? *)
Definition fan_explains (q : quirks) (c : fan_case) (p : fan_pub) : bool :=
  let m := mqtt_matches (fp_topic p) in
  let cs := subscribers m (fan_subs c) in
  existsb (fun tbl => existsb (fun order => sseteq (fan_received q c p tbl order) (fp_recv p)) (perms cs))
          (choice_tables q m (fan_subs c) cs).

(** the property on the implementation's own observation: every connected client with a matching
    subscription of QoS >= q received the message *)
Definition fan_prop_pub (c : fan_case) (p : fan_pub) : bool :=
  (1 <? fp_qos p) ||
  forallb (fun cl =>
             if fcl_connected cl && negb (fcl_left cl) &&
                existsb (fun '(f, qs) => mqtt_matches (fp_topic p) f && (fp_qos p <=? qs)) (live_subs cl)
             then smem (fcl_cid cl) (fp_recv p) else true)
          (fc_clients c).

Definition set_f1 (b : bool) (q : quirks) : quirks :=
  {| q_mqtt_lowqos_return := b; q_mqtt_overlap_last_qos := q_mqtt_overlap_last_qos q;
     q_takeover_teardown_unguarded := q_takeover_teardown_unguarded q |}.
Definition set_f2 (b : bool) (q : quirks) : quirks :=
  {| q_mqtt_lowqos_return := q_mqtt_lowqos_return q; q_mqtt_overlap_last_qos := b;
     q_takeover_teardown_unguarded := q_takeover_teardown_unguarded q |}.

(** attribution of one failing publish: the open finding whose flag is necessary to reproduce the
    observation; when neither is necessary on its own, the first that suffices on its own *)
Definition fan_attrib_pub (pinned : quirks) (c : fan_case) (p : fan_pub) : N :=
  if negb (fan_explains pinned c p) then 0%N else
  let f1 := q_mqtt_lowqos_return pinned in
  let f2 := q_mqtt_overlap_last_qos pinned in
  if f1 && negb (fan_explains (set_f1 false pinned) c p) then 1%N
  else if f2 && negb (fan_explains (set_f2 false pinned) c p) then 2%N
  else if f1 && fan_explains (set_f2 false pinned) c p then 1%N
  else if f2 && fan_explains (set_f1 false pinned) c p then 2%N
  else 0%N.

Definition fan_attrib (pinned : quirks) (c : fan_case) : N :=
  let failing := filter (fun p => negb (fan_prop_pub c p)) (fc_pubs c) in
  let atts := map (fan_attrib_pub pinned c) failing in
  match atts with
  | [] => 0%N
  | a :: _ => if existsb (N.eqb 0) atts then 0%N else a
  end.

Definition fan_class (c : fan_case) : N :=
  let any_match := existsb (fun p => negb (Nat.eqb (List.length (subscribers (mqtt_matches (fp_topic p)) (fan_subs c))) 0)) (fc_pubs c) in
  if negb any_match then 0%N else
  let mixed := existsb (fun p => existsb (fun cl => existsb (fun '(f, qs) => mqtt_matches (fp_topic p) f && (qs <? fp_qos p)) (live_subs cl)) (fc_clients c)) (fc_pubs c) in
  let overlap := existsb (fun p => existsb (fun cl => Nat.ltb 1 (List.length (msubs (mqtt_matches (fp_topic p)) (fan_subs c) (fcl_cid cl)))) (fc_clients c)) (fc_pubs c) in
  let gone := existsb (fun cl => negb (fcl_connected cl) || fcl_left cl || negb (Nat.eqb (List.length (fcl_unsubs cl)) 0)) (fc_clients c) in
  let multi := existsb (fun p => Nat.ltb 1 (List.length (fp_recv p))) (fc_pubs c) in
  (1 + bN mixed 1 + bN overlap 2 + bN gone 4 + bN multi 8)%N.

Definition check_fan (pinned : quirks) (c : fan_case) : result :=
  let corr := negb (fc_bad c) &&
              forallb (fun p => oracle_complete c p && fan_explains pinned c p) (fc_pubs c) in
  let prop := forallb (fan_prop_pub c) (fc_pubs c) in
  (corr, prop, fan_class c, if prop then 0%N else fan_attrib pinned c).

(** for replay files: per publish (explained by pinned?, explained by ideal?, property holds?) *)
Definition explain_fan (pinned : quirks) (c : fan_case) :=
  map (fun p => (fan_explains pinned c p, fan_explains ideal c p, fan_prop_pub c p,
                 subscribers (mqtt_matches (fp_topic p)) (fan_subs c))) (fc_pubs c).

(** * sess: QoS 1 retransmission *)

Inductive sess_op := OPub (q : Z) | OAck | OAwait | OQuiet.

Record sess_step := {
  ss_op : sess_op;
  ss_recv : list (Z * Z * Z);      (* (packet id, qos, message index) in order of arrival during the step *)
  ss_acked : Z;                    (* id acknowledged by this step, -1 = none *)
  ss_res : Z                       (* 0 ok | 1 skipped | 2 no retransmission seen before the deadline | 3 anomaly *)
}.
(** [sc_start]: Session.nextID when the scenario begins (the harness may start near the uint16 wrap-around) *)
Record sess_case := { sc_subqos : Z; sc_start : Z; sc_steps : list sess_step; sc_bad : bool }.

Definition to_emit (p : Z * Z * Z) : emit := let '(id, q, m) := p in Pkt id q m.

(** a QoS-0 PUBLISH carries no packet id on the wire (the codec reads it as 0) *)
Definition wire (e : emit) : emit :=
  match e with Pkt id q m => Pkt (if q =? 0 then 0 else id) q m end.

Definition is_tick (s : sess) (p : emit) : bool :=
  match snd (tick s) with
  | [e] => emit_eqb e p
  | _ => false
  end.

Fixpoint prefix_eqb (e r : list emit) : bool :=
  match e, r with
  | [], _ => true
  | a :: e', b :: r' => emit_eqb a b && prefix_eqb e' r'
  | _ :: _, [] => false
  end.

(** the packets seen during a step = retransmissions in the state before the step's effect,
    then what the step itself emits, then retransmissions in the state after it *)
Fixpoint split_ok (pre post : sess) (e : list emit) (r : list emit) : bool :=
  (prefix_eqb e r && forallb (is_tick post) (skipn (List.length e) r)) ||
  match r with
  | p :: t => is_tick pre p && split_ok pre post e t
  | [] => false
  end.

Definition sess_effect (subqos : Z) (s : sess) (npub : Z) (st : sess_step) : sess * list emit * Z :=
  match ss_op st with
  | OPub q =>
      if subqos <? q then (s, [], npub + 1)
      else let '(s', e) := publish s q npub false in (s', map wire e, npub + 1)
  | OAck => if 0 <=? ss_acked st then (puback s (ss_acked st), [], npub) else (s, [], npub)
  | _ => (s, [], npub)
  end.

Fixpoint sess_corr (subqos : Z) (s : sess) (npub : Z) (steps : list sess_step) : bool :=
  match steps with
  | [] => true
  | st :: t =>
      let '(s', e, npub') := sess_effect subqos s npub st in
      split_ok s s' e (map to_emit (ss_recv st)) && sess_corr subqos s' npub' t
  end.

Definition all_recv (steps : list sess_step) : list (Z * Z * Z) := flat_map ss_recv steps.

(** (a) one id, one message *)
Definition sess_same_payload (steps : list sess_step) : bool :=
  let l := filter (fun '(_, q, _) => q =? 1) (all_recv steps) in
  forallb (fun '(id, _, m) => forallb (fun '(id', _, m') => negb (id =? id') || (m =? m')) l) l.

(** (b) retransmitted until acknowledged: every wait for a retransmission of an outstanding message succeeded;
    (c) not afterwards: no packet carries an id after the step that acknowledged it;
    (d) every publish the subscription is entitled to arrives in its step *)
Fixpoint sess_walk (subqos : Z) (npub : Z) (steps : list sess_step) : bool :=
  match steps with
  | [] => true
  | st :: t =>
      (match ss_op st with
       | OAwait => (ss_res st =? 0) || (ss_res st =? 1)
       | OPub q =>
           if (q <=? subqos) && (q <=? 1)
           then existsb (fun '(_, q', m) => (q' =? q) && (m =? npub)) (ss_recv st)
           else negb (existsb (fun '(_, _, m) => m =? npub) (all_recv (st :: t)))
       | _ => true
       end) &&
      (if 0 <=? ss_acked st
       then negb (existsb (fun '(id, q, _) => (q =? 1) && (id =? ss_acked st)) (all_recv t))
       else true) &&
      sess_walk subqos (match ss_op st with OPub _ => npub + 1 | _ => npub end) t
  end.

Definition sess_prop (c : sess_case) : bool :=
  sess_same_payload (sc_steps c) && sess_walk (sc_subqos c) 0 (sc_steps c).

Fixpoint has_dup_id (seen : list Z) (l : list (Z * Z * Z)) : bool :=
  match l with
  | [] => false
  | (id, q, _) :: t => if q =? 1 then zmem id seen || has_dup_id (id :: seen) t else has_dup_id seen t
  end.

Definition sess_class (c : sess_case) : N :=
  match sc_steps c with
  | [] => 0%N
  | _ =>
      let dup := has_dup_id [] (all_recv (sc_steps c)) in
      let ack := existsb (fun st => 0 <=? ss_acked st) (sc_steps c) in
      let quiet := existsb (fun st => match ss_op st with OQuiet => true | _ => false end) (sc_steps c) in
      let q0 := sc_subqos c =? 0 in
      (1 + bN dup 1 + bN ack 2 + bN quiet 4 + bN q0 8)%N
  end.

Definition sess_from (start : Z) : sess := {| pending := []; queue := []; nextID := wrap16 start |}.

Definition check_sess (c : sess_case) : result :=
  (negb (sc_bad c) && forallb (fun st => negb (ss_res st =? 3)) (sc_steps c) &&
   sess_corr (sc_subqos c) (sess_from (sc_start c)) 0 (sc_steps c),
   sess_prop c, sess_class c, 0%N).

Fixpoint explain_sess_aux (subqos : Z) (s : sess) (npub : Z) (steps : list sess_step) :=
  match steps with
  | [] => []
  | st :: t =>
      let '(s', e, npub') := sess_effect subqos s npub st in
      (e, snd (tick s), snd (tick s'), split_ok s s' e (map to_emit (ss_recv st))) :: explain_sess_aux subqos s' npub' t
  end.
Definition explain_sess (c : sess_case) := explain_sess_aux (sc_subqos c) (sess_from (sc_start c)) 0 (sc_steps c).

(** * cpub: client PUBLISH *)

Record cpub_case := {
  cc_pipe : bool; cc_req : Z; cc_bytes : Z; cc_period : Z;
  cc_pubs : list (cpkt * verdict);       (* cp_tag = index of the publish *)
  cc_calls : list Z;                     (* indices of the packets the backend pipeline saw (-1: unknown packet) *)
  cc_pubacks : list Z;
  cc_eof : bool;
  cc_bad : bool
}.

Definition couts_calls (l : list cout) : list Z :=
  flat_map (fun o => match o with Backend t => [t] | _ => [] end) l.
Definition couts_acks (l : list cout) : list Z :=
  flat_map (fun o => match o with Puback i => [i] | _ => [] end) l.
Definition couts_closed (l : list cout) : bool :=
  existsb (fun o => match o with Closed => true | _ => false end) l.

Definition zlist_eqb (a b : list Z) : bool := list_eqb Z.eqb a b.
Definition zcount (x : Z) (l : list Z) : nat := List.length (filter (Z.eqb x) l).

(** the property, on the observation: every QoS 1 PUBLISH admitted by the limiter (C09's model of it) and
    not stopped by the pipeline was handed to the backend pipeline and PUBACKed with its own id *)
Definition cpub_prop_final (calls acks need_calls need_acks : list Z) : bool :=
  forallb (fun t => Nat.leb (zcount t need_calls) (zcount t calls)) need_calls &&
  forallb (fun i => Nat.leb (zcount i need_acks) (zcount i acks)) need_acks &&
  Nat.eqb (List.length acks) (List.length need_acks).

Fixpoint cpub_prop_walk (has_pipe : bool) (lim : mqtt_lim) (ps : list (cpkt * verdict))
         (calls acks : list Z) (need_calls need_acks : list Z) : bool :=
  match ps with
  | [] => cpub_prop_final calls acks need_calls need_acks
  | (p, v) :: t =>
      let '(lim', ok) := mqtt_acquire lim 0 (cp_size p) in
      if negb ok then cpub_prop_walk has_pipe lim' t calls acks need_calls need_acks else
      let nc := if has_pipe then need_calls ++ [cp_tag p] else need_calls in
      let passes := negb has_pipe || match v with VPass => true | _ => false end in
      let na := if passes && (cp_qos p =? 1) then need_acks ++ [cp_id p] else need_acks in
      if has_pipe && match v with VDisconnect => true | _ => false end
      then cpub_prop_final calls acks nc na
      else cpub_prop_walk has_pipe lim' t calls acks nc na
  end.

Definition check_cpub (c : cpub_case) : result :=
  let lim := mqtt_new (cc_req c) (cc_bytes c) (cc_period c) in
  let outs := cpub_run (cc_pipe c) lim (cc_pubs c) in
  let corr := negb (cc_bad c) && zlist_eqb (couts_calls outs) (cc_calls c) &&
              zlist_eqb (couts_acks outs) (cc_pubacks c) && Bool.eqb (couts_closed outs) (cc_eof c) in
  let prop := cpub_prop_walk (cc_pipe c) lim (cc_pubs c) (cc_calls c) (cc_pubacks c) [] [] in
  let cls := match cc_pubs c with
             | [] => 0%N
             | _ => (1 + bN (negb (Nat.eqb (List.length (cc_pubacks c)) 0)) 1
                       + bN (Nat.ltb (List.length (cc_calls c)) (List.length (cc_pubs c))) 2
                       + bN (cc_eof c) 4 + bN (negb (cc_pipe c)) 8)%N
             end in
  (corr, prop, cls, 0%N).

Definition explain_cpub (c : cpub_case) :=
  cpub_run (cc_pipe c) (mqtt_new (cc_req c) (cc_bytes c) (cc_period c)) (cc_pubs c).

(** * slow: a client that stops reading while more than the write queue's 50 packets are waiting for it, for longer
    than any give-up timer, then drains - observations only, no model *)
Record slow_case := {
  sl_full : bool;               (* the harness saw the broker's write queue of the client full *)
  sl_subs_sent : Z; sl_subacks : Z;
  sl_ids : list Z;              (* packet ids of the QoS 1 PUBLISHes the client sent while stalled *)
  sl_pubacks : list Z;
  sl_http1 : Z; sl_q1 : Z;      (* QoS 1 messages published to it over HTTP while stalled / of those received (distinct) *)
  sl_q0sent : Z; sl_q0recv : Z;
  sl_bad : bool
}.

Definition zcount_eq (a b : list Z) : bool :=
  Nat.eqb (List.length a) (List.length b) && forallb (fun x => Nat.eqb (zcount x a) (zcount x b)) a.

(** every SUBSCRIBE gets its SUBACK and every QoS 1 PUBLISH its PUBACK with the same id, however long the client
    did not read; QoS 1 deliveries arrive (retransmitted until acknowledged); only QoS 0 copies may be missing *)
Definition slow_prop (c : slow_case) : bool :=
  (sl_subacks c =? sl_subs_sent c) && zcount_eq (sl_pubacks c) (sl_ids c) &&
  (sl_q1 c =? sl_http1 c) && (sl_q0recv c <=? sl_q0sent c).

Definition check_slow (c : slow_case) : result :=
  let has_ids := negb (Nat.eqb (List.length (sl_ids c)) 0) in
  let has_q1 := 0 <? sl_http1 c in
  let dropped := sl_q0recv c <? sl_q0sent c in
  (negb (sl_bad c) && sl_full c && slow_prop c, slow_prop c,
   (1 + bN has_ids 1 + bN has_q1 2 + bN dropped 4)%N, 0%N).

Definition explain_slow (c : slow_case) := (slow_prop c, c).

(** * gen: object life cycle (Init, then spec updates through Inherit) - observations only, no model *)
Record gen_case := {
  gc_subqos : Z;
  gc_pubs : list (Z * Z * bool * Z);     (* generation, message QoS, delivered to the current generation's subscriber, HTTP status *)
  gc_expected : nat;                     (* publishes the scenario asked for *)
  gc_bad : bool
}.

(** every message posted to the registered route is delivered to the subscriber of the CURRENT generation
    when its subscription QoS allows it *)
Definition gen_prop (c : gen_case) : bool :=
  forallb (fun '(_, q, d, _) => if q <=? gc_subqos c then d else true) (gc_pubs c).

Definition check_gen (c : gen_case) : result :=
  (negb (gc_bad c) && Nat.eqb (List.length (gc_pubs c)) (gc_expected c) &&
   forallb (fun '(_, q, d, st) => (st =? 200) && Bool.eqb d (q <=? gc_subqos c)) (gc_pubs c),
   gen_prop c,
   match gc_pubs c with [] => 0%N | _ => (1 + N.of_nat (List.length (gc_pubs c)))%N end, 0%N).

Definition explain_gen (c : gen_case) := (gen_prop c, gc_pubs c).

(** * life: connect / subscribe / drop / reconnect / takeover / admin delete histories (C16) *)

Record snap := {
  sn_clients : list (string * Z);                        (* Broker.clients: client id -> connection index *)
  sn_live : list (Z * bool);                             (* per connection: statusFlag = Connected *)
  sn_smap : list (string * (bool * bool * topics));      (* sessionMap: (cleanFlag, done closed, topics) *)
  sn_db : list (string * (bool * topics));               (* session store *)
  sn_trie : list (string * topics)                       (* TopicManager per client id *)
}.

Inductive life_op :=
| LConnect (k : Z) (cid : string) (clean : bool)
| LSub (k : Z) (fs : topics)
| LUnsub (k : Z) (fs : list string)
| LDrop (k : Z) (poke : bool) (eof : bool)      (* close the socket / DISCONNECT, or (poke) send PINGREQ and see whether the broker cuts the connection *)
| LAdmin (cid : string)
| LWatchLoss (listing_fails : bool) (closed : bool)  (* the delete-watch was lost, a session deleted in the gap, the watch re-established
                                                        (catch-up listing failing once or not): was that session's client closed? *)
| LKeepalive (ka : Z) (dl_ms : Z)                (* a throw-away client with this keep-alive: the read deadline the broker armed, in ms (-1 none) *)
| LExtPut (cid : string) (tp : topics)          (* a persistent session written straight into the store (another broker instance) *)
| LPub (topic : string) (row : list (string * bool)) (recv : list Z).

(** a step without snapshot: the harness could not observe a quiescent state there (it forced the next steps into
    the middle of this one); the next snapshot covers it *)
Record life_case := { lc_steps : list (life_op * option snap); lc_bad : bool }.

Definition life_events (o : life_op) : list ev :=
  match o with
  | LConnect k cid clean => [Connect k cid clean; Resubscribe k]
  | LSub k fs => [Subscribe k fs]
  | LUnsub k fs => [Unsubscribe k fs]
  | LDrop k _ _ => [Teardown k]
  | LAdmin cid => [AdminDelete cid]
  | LExtPut cid tp => [StorePut cid tp]
  | LKeepalive _ _ => []
  | LWatchLoss _ _ => []
  | LPub _ _ _ => []
  end.

Definition pair_bt_eqb (a b : bool * topics) : bool := Bool.eqb (fst a) (fst b) && topics_eqb (snd a) (snd b).

Definition smap_v_eqb (a b : bool * bool * topics) : bool :=
  let '(c1, d1, t1) := a in let '(c2, d2, t2) := b in Bool.eqb c1 c2 && Bool.eqb d1 d2 && topics_eqb t1 t2.

(** the model's state in the harness' snapshot format *)
Definition model_snap (st : state) : snap :=
  {| sn_clients := flat_map (fun '(cid, cs) => match reg cs with Some k => [(cid, k)] | None => [] end) (cids st);
     sn_live := flat_map (fun '(_, cs) => map (fun '(k, c) => (k, c_live c)) (conns cs)) (cids st);
     sn_smap := flat_map (fun '(cid, cs) => match smp cs with
                                            | Some sid => let s := get_sess cs sid in [(cid, (s_clean s, s_closed s, s_topics s))]
                                            | None => []
                                            end) (cids st);
     sn_db := flat_map (fun '(cid, cs) => match dbv cs with Some v => [(cid, v)] | None => [] end) (cids st);
     sn_trie := flat_map (fun '(cid, cs) => match tri cs with [] => [] | tp => [(cid, tp)] end) (cids st) |}.

Definition bool_eqb_v (a b : bool) : bool := Bool.eqb a b.

Definition snap_eqb (a b : snap) : bool :=
  amap_eqb String.eqb Z.eqb (sn_clients a) (sn_clients b) &&
  amap_eqb Z.eqb bool_eqb_v (sn_live a) (sn_live b) &&
  amap_eqb String.eqb smap_v_eqb (sn_smap a) (sn_smap b) &&
  amap_eqb String.eqb pair_bt_eqb (sn_db a) (sn_db b) &&
  amap_eqb String.eqb topics_eqb (sn_trie a) (sn_trie b).

Definition snap_agrees (st : state) (sn : snap) : bool := snap_eqb (model_snap st) sn.

Definition conn_live (st : state) (k : Z) : bool :=
  match zget k (owners st) with
  | Some cid => match zget k (conns (cget st cid)) with Some c => c_live c | None => false end
  | None => false
  end.

(** MQTT-3.1.2-24: the broker waits one and a half keep-alive periods for the next packet (no deadline for 0);
    200 ms of slack for the measurement *)
Definition keepalive_ok (ka dl : Z) : bool :=
  if ka =? 0 then dl =? -1
  else (1500 * ka - 200 <=? dl) && (dl <=? 1500 * ka + 200).

Definition op_agrees (st_before st_after : state) (o : life_op) : bool :=
  match o with
  | LKeepalive ka dl => keepalive_ok ka dl
  | LWatchLoss _ closed => closed      (* deleting a session disconnects that client, also when the notification was missed *)
  | LPub topic row recv =>
      zseteq (receivers (mqtt_matches topic) st_after) recv &&
      forallb (fun '(f, b) => Bool.eqb b (mqtt_matches topic f)) row
  | LDrop k poke eof =>
      (* a PINGREQ on a connection the broker has already closed ends its read loop (EOF at the client);
         the harness only pokes closed ones *)
      if poke then eof && negb (conn_live st_before k) else true
  | _ => true
  end.

Fixpoint life_corr (q : quirks) (st : state) (steps : list (life_op * option snap)) : bool :=
  match steps with
  | [] => true
  | (o, sn) :: t =>
      let st' := run q st (life_events o) in
      match sn with Some x => snap_agrees st' x | None => true end && op_agrees st st' o && life_corr q st' t
  end.

(** ** the property, replayed on the implementation's own snapshots (no model involved) *)

Record spec_cid := {
  sp_cur : option Z;            (* the connection that currently owns the client id *)
  sp_sess : option bool;        (* a session exists for the id, with this cleanSession flag *)
  sp_subs : option topics;      (* the subscriptions it must have; None = not determined by the property *)
  sp_zombie : option Z          (* a connection closed by an admin delete whose end is still pending *)
}.
Definition spec0 : spec_cid := {| sp_cur := None; sp_sess := None; sp_subs := Some []; sp_zombie := None |}.
Definition spec_get (sp : list (string * spec_cid)) (cid : string) : spec_cid :=
  match sget cid sp with Some x => x | None => spec0 end.

Definition owner_of (sp : list (string * spec_cid)) (k : Z) : option string :=
  match find (fun '(_, x) => match sp_cur x with Some j => j =? k | None => false end) sp with
  | Some (cid, _) => Some cid
  | None => None
  end.

Definition zombie_of (sp : list (string * spec_cid)) (k : Z) : option string :=
  match find (fun '(_, x) => match sp_zombie x with Some j => j =? k | None => false end) sp with
  | Some (cid, _) => Some cid
  | None => None
  end.

Definition spec_step (sp : list (string * spec_cid)) (o : life_op) : list (string * spec_cid) :=
  match o with
  | LConnect k cid clean =>
      let x := spec_get sp cid in
      let keep := negb clean && match sp_sess x with Some false => true | _ => false end in
      sset cid {| sp_cur := Some k; sp_sess := Some clean; sp_subs := if keep then sp_subs x else Some [];
                  sp_zombie := sp_zombie x |} sp
  | LSub k fs =>
      match owner_of sp k with
      | Some cid => let x := spec_get sp cid in
                    sset cid {| sp_cur := sp_cur x; sp_sess := sp_sess x;
                                sp_subs := option_map (aset_all String.eqb fs) (sp_subs x); sp_zombie := sp_zombie x |} sp
      | None => sp
      end
  | LUnsub k fs =>
      match owner_of sp k with
      | Some cid => let x := spec_get sp cid in
                    sset cid {| sp_cur := sp_cur x; sp_sess := sp_sess x;
                                sp_subs := option_map (adel_all String.eqb fs) (sp_subs x); sp_zombie := sp_zombie x |} sp
      | None => sp
      end
  | LDrop k _ _ =>
      match owner_of sp k with
      | Some cid =>
          let x := spec_get sp cid in
          match sp_sess x with
          | Some true => sset cid {| sp_cur := None; sp_sess := None; sp_subs := Some []; sp_zombie := sp_zombie x |} sp   (* a clean session ends with its connection *)
          | _ => sset cid {| sp_cur := None; sp_sess := sp_sess x; sp_subs := sp_subs x; sp_zombie := sp_zombie x |} sp    (* a persistent one is kept: exactly the live set at this moment *)
          end
      | None =>
          match zombie_of sp k with
          | Some cid =>
              (* the deleted connection finally ends: if nobody took the id meanwhile, the deleted session is gone for good *)
              let x := spec_get sp cid in
              match sp_cur x with
              | None => sset cid {| sp_cur := None; sp_sess := None; sp_subs := Some []; sp_zombie := None |} sp
              | Some _ => sset cid {| sp_cur := sp_cur x; sp_sess := sp_sess x; sp_subs := sp_subs x; sp_zombie := None |} sp
              end
          | None => sp                                                                             (* superseded connection: nothing may change *)
          end
      end
  | LAdmin cid =>
      let x := spec_get sp cid in
      match sp_cur x with
      | Some k => sset cid {| sp_cur := None; sp_sess := Some false; sp_subs := None; sp_zombie := Some k |} sp
      | None =>
          match sp_zombie x with
          | Some _ => sp
          | None => sset cid {| sp_cur := None; sp_sess := None; sp_subs := Some []; sp_zombie := None |} sp   (* the stored session is deleted *)
          end
      end
  | LKeepalive _ _ => sp
  | LWatchLoss _ _ => sp
  | LExtPut cid tp =>
      let x := spec_get sp cid in
      match sp_cur x, sp_zombie x with
      | None, None => sset cid {| sp_cur := None; sp_sess := Some false; sp_subs := Some (aset_all String.eqb tp []); sp_zombie := None |} sp
      | _, _ => sset cid {| sp_cur := sp_cur x; sp_sess := sp_sess x; sp_subs := None; sp_zombie := sp_zombie x |} sp
      end
  | LPub _ _ _ => sp
  end.

(** what must hold in a snapshot for one client id *)
Definition spec_holds_cid (sn : snap) (cid : string) (x : spec_cid) : bool :=
  match sp_cur x with
  | Some k =>
      (match sget cid (sn_clients sn) with Some j => j =? k | None => false end) &&
      (match zget k (sn_live sn) with Some b => b | None => false end) &&
      (match sget cid (sn_smap sn) with
       | Some (_, closed, tp) =>
           negb closed && match sp_subs x with Some e => topics_eqb tp e | None => true end
       | None => false
       end) &&
      (match sget cid (sn_db sn) with
       | Some (_, tp) => match sp_subs x with Some e => topics_eqb tp e | None => true end
       | None => false
       end) &&
      (match sp_subs x with
       | Some e => topics_eqb (match sget cid (sn_trie sn) with Some tp => tp | None => [] end) e
       | None => true
       end)
  | None =>
      (* nobody owns the id: it is not registered, and (unless a deleted connection is still around) no
         subscription of it routes anything *)
      (match sget cid (sn_clients sn) with Some _ => false | None => true end) &&
      (match sp_zombie x with
       | Some _ => true
       | None => match sget cid (sn_trie sn) with Some (_ :: _) => false | _ => true end
       end)
  end.

Definition spec_holds (sn : snap) (sp : list (string * spec_cid)) : bool :=
  forallb (fun '(cid, x) => spec_holds_cid sn cid x) sp.

Definition spec_op_holds (sp_before sp_after : list (string * spec_cid)) (sn : snap) (o : life_op) : bool :=
  match o with
  | LKeepalive ka dl => keepalive_ok ka dl
  | LWatchLoss _ closed => closed      (* deleting a session disconnects that client, also when the notification was missed *)
  | LAdmin cid =>
      (* deleting the session disconnects the client *)
      match sp_cur (spec_get sp_before cid) with
      | Some k => match zget k (sn_live sn) with Some b => negb b | None => false end
      | None => true
      end
  | LDrop _ poke eof => if poke then eof else true
  | LPub topic row recv =>
      forallb (fun '(cid, x) =>
                 match sp_cur x, sp_subs x with
                 | Some k, Some e => Bool.eqb (zmem k recv) (existsb (fun '(f, _) => mqtt_matches topic f) e)
                 | _, _ => true
                 end) sp_after
  | _ => true
  end.

Fixpoint life_prop (sp : list (string * spec_cid)) (steps : list (life_op * option snap)) : bool :=
  match steps with
  | [] => true
  | (o, sn) :: t =>
      let sp' := spec_step sp o in
      match sn with
      | Some x => spec_holds x sp' && spec_op_holds sp sp' x o
      | None => match o with                     (* checks that need no snapshot *)
                | LWatchLoss _ closed => closed
                | LKeepalive ka dl => keepalive_ok ka dl
                | _ => true
                end
      end && life_prop sp' t
  end.

Definition poke_of_live (st : state) (o : life_op) : bool :=
  match o with
  | LDrop k true _ => conn_live st k
  | _ => false
  end.

(** a history recorded against the pinned code may poke a connection that the model under other flags
    still has alive: there the PINGREQ is an ordinary ping and the step is void *)
Fixpoint model_steps (q : quirks) (st : state) (steps : list (life_op * option snap)) : list (life_op * option snap) :=
  match steps with
  | [] => []
  | (o, _) :: t =>
      if poke_of_live st o then model_steps q st t else
      let st' := run q st (life_events o) in
      let o' := match o with
                | LPub topic row _ => LPub topic row (receivers (mqtt_matches topic) st')
                | LDrop k poke _ => LDrop k poke poke
                | _ => o
                end in
      (o', Some (model_snap st')) :: model_steps q st' t
  end.

Definition life_class (c : life_case) : N :=
  let ops := map fst (lc_steps c) in
  match ops with
  | [] => 0%N
  | _ =>
      let cids := flat_map (fun o => match o with LConnect k cid _ => [(k, cid)] | _ => [] end) ops in
      let takeover :=
        (fix go (sp : list (string * spec_cid)) (l : list life_op) : bool :=
           match l with
           | [] => false
           | o :: t =>
               match o with
               | LConnect _ cid _ => match sp_cur (spec_get sp cid) with Some _ => true | None => go (spec_step sp o) t end
               | _ => go (spec_step sp o) t
               end
           end) [] ops in
      let stale_drop :=
        (fix go (sp : list (string * spec_cid)) (l : list life_op) : bool :=
           match l with
           | [] => false
           | o :: t =>
               match o with
               | LDrop k _ _ => match owner_of sp k with None => true | Some _ => go (spec_step sp o) t end
               | _ => go (spec_step sp o) t
               end
           end) [] ops in
      let admin := existsb (fun o => match o with LAdmin _ => true | _ => false end) ops in
      let pub := existsb (fun o => match o with LPub _ _ (_ :: _) => true | _ => false end) ops in
      let restore := existsb (fun o => match o with LConnect _ _ false => true | _ => false end) ops in
      (1 + bN takeover 1 + bN stale_drop 2 + bN admin 4 + bN pub 8 + bN restore 16)%N
  end.

Definition set_f3 (b : bool) (q : quirks) : quirks :=
  {| q_mqtt_lowqos_return := q_mqtt_lowqos_return q; q_mqtt_overlap_last_qos := q_mqtt_overlap_last_qos q;
     q_takeover_teardown_unguarded := b |}.

Definition check_life (pinned : quirks) (c : life_case) : result :=
  let ideal_ok := life_prop [] (model_steps (set_f3 false pinned) state0 (lc_steps c)) in
  let corr := negb (lc_bad c) && life_corr pinned state0 (lc_steps c) && ideal_ok in
  let prop := life_prop [] (lc_steps c) in
  (corr, prop, life_class c,
   if prop then 0%N
   else if q_takeover_teardown_unguarded pinned && life_corr pinned state0 (lc_steps c) && ideal_ok then 1%N else 0%N).

Definition explain_life (pinned : quirks) (c : life_case) :=
  (life_prop [] (model_steps (set_f3 false pinned) state0 (lc_steps c)),
   map snd (model_steps pinned state0 (lc_steps c))).
