(** Executable model of the MQTT broker's fan-out (C15) and of its connection /
    session life cycle (C16).

    - [deliver]        : pkg/object/mqttproxy/broker.go  sendMsgToClient
                         (+ topic.go findSubscribers/addClients for the QoS it reports per client)
    - [step]           : broker.go handleConn (locked section, setSession, re-subscription),
                         deleteSession (delete-watch of the session store), httpDeleteSessionHandler;
                         client.go readLoop's deferred closeAndDelSession + removeClient,
                         processSubscribe / processUnsubscribe; session_manager.go get/delLocal/delDB

    Subscriptions are modelled at the specification level, a finite map
    (client id, filter) -> QoS; whether a filter matches the published topic is an
    oracle ([matches]); the topic trie itself is the subject of C14.
    Go map iteration order is an explicit parameter ([order], [choice]).  No proofs here. *)
From EG.lib Require Import Base BrokerMap.
Open Scope Z_scope.

(** one boolean per defect site of the pinned code; [ideal] = all off *)
Record quirks := {
  (* sendMsgToClient: [return] instead of [continue] at a subscriber whose subscription QoS < message QoS *)
  q_mqtt_lowqos_return : bool;
  (* findSubscribers/addClients: a client with several matching subscriptions is reported with the QoS of
     whichever was visited last instead of the maximum *)
  q_mqtt_overlap_last_qos : bool;
  (* a connection's deferred teardown cleans up by client id without checking that it still owns the id;
     a discarded previous session's subscriptions are left to that teardown; the re-subscription after
     CONNECT happens outside the broker lock *)
  q_takeover_teardown_unguarded : bool
}.

Definition ideal : quirks :=
  {| q_mqtt_lowqos_return := false; q_mqtt_overlap_last_qos := false; q_takeover_teardown_unguarded := false |}.

(** * C15: fan-out *)

Definition sub := (string * string * Z)%type.          (* client id, filter, subscription QoS *)

Section Fan.
  Variable matches : string -> bool.                    (* does the filter match the published topic? *)

  (** QoS values of [c]'s subscriptions that match *)
  Definition msubs (subs : list sub) (c : string) : list Z :=
    map (fun s => snd s)
        (filter (fun s => String.eqb (fst (fst s)) c && matches (snd (fst s))) subs).

  Fixpoint nodup_s (l : list string) : list string :=
    match l with
    | [] => []
    | a :: t => if existsb (String.eqb a) t then nodup_s t else a :: nodup_s t
    end.

  (** the key set of the map returned by findSubscribers *)
  Definition subscribers (subs : list sub) : list string :=
    nodup_s (map (fun s => fst (fst s)) (filter (fun s => matches (snd (fst s))) subs)).

  Definition max_list (l : list Z) : Z := fold_right Z.max 0 l.

  (** the QoS findSubscribers reports for [c]: the maximum of its matching
      subscriptions, or (pinned) the one the trie walk happened to visit last,
      chosen by [choice] *)
  Definition reported (q : quirks) (subs : list sub) (choice : string -> nat) (c : string) : Z :=
    let l := msubs subs c in
    if q_mqtt_overlap_last_qos q then nth (choice c) l (hd 0 l) else max_list l.

  (** the loop of sendMsgToClient over the subscribers in visit order [order];
      result: the clients whose session.publish is called *)
  Fixpoint deliver (q : quirks) (connected : string -> bool) (qos : Z) (rep : string -> Z)
           (order : list string) : list string :=
    match order with
    | [] => []
    | c :: t =>
        if rep c <? qos then
          (if q_mqtt_lowqos_return q then [] else deliver q connected qos rep t)
        else if connected c then c :: deliver q connected qos rep t
        else deliver q connected qos rep t
    end.

  Definition fanout (q : quirks) (subs : list sub) (connected : string -> bool) (qos : Z)
             (choice : string -> nat) (order : list string) : list string :=
    deliver q connected qos (reported q subs choice) order.

  (** the specification: connected clients holding a matching subscription of sufficient QoS *)
  Definition eligible (subs : list sub) (connected : string -> bool) (qos : Z) (c : string) : Prop :=
    connected c = true /\ exists f qs, In (c, f, qs) subs /\ matches f = true /\ qos <= qs.
End Fan.

(** * C16: connections, sessions, takeover

    Everything the broker keeps is keyed by client id and the steps for
    different ids do not interact, so the model is a state machine per client
    id ([cstate], [cstep]); the broker is their product ([state], [step]). *)

Definition topics := list (string * Z).                 (* filter -> QoS *)

Record session := { s_clean : bool; s_topics : topics; s_closed : bool }.

Record conn := {
  c_sess : Z;            (* identity of the Session object the Client holds *)
  c_live : bool;         (* statusFlag = Connected *)
  c_torn : bool;         (* the deferred cleanup of readLoop has run *)
  c_resub : bool         (* the re-subscription after CONNECT has run (readLoop is active) *)
}.

Record cstate := {
  reg : option Z;                    (* Broker.clients[cid] : the registered connection *)
  smp : option Z;                    (* SessionManager.sessionMap[cid] : the live session object *)
  heap : list (Z * session);         (* session objects of this id, by identity *)
  dbv : option (bool * topics);      (* the session store's entry (yaml: cleanFlag, topics) *)
  tri : topics;                      (* TopicManager restricted to this id *)
  conns : list (Z * conn);           (* the connections that ever used this id *)
  next_sid : Z
}.

Definition cstate0 : cstate :=
  {| reg := None; smp := None; heap := []; dbv := None; tri := []; conns := []; next_sid := 0 |}.

Inductive cev :=
| CConnect (k : Z) (clean : bool)       (* handleConn: the section under the broker lock *)
| CResubscribe (k : Z)                  (* handleConn: updateEGName + subscribe the session's topics *)
| CSubscribe (k : Z) (fs : topics)
| CUnsubscribe (k : Z) (fs : list string)
| CTeardown (k : Z)                     (* readLoop's deferred cleanup, at ANY later point *)
| CAdminDelete                          (* DELETE .../sessions + the store's delete-watch *)
| CStorePut (tp : topics).              (* another broker instance on the same storage writes this id's (persistent)
                                           session; modelled only while no connection is registered here *)

Definition get_sess (cs : cstate) (sid : Z) : session :=
  match zget sid (heap cs) with
  | Some s => s
  | None => {| s_clean := false; s_topics := []; s_closed := true |}
  end.

Definition set_reg v cs := {| reg := v; smp := smp cs; heap := heap cs; dbv := dbv cs; tri := tri cs; conns := conns cs; next_sid := next_sid cs |}.
Definition set_smp v cs := {| reg := reg cs; smp := v; heap := heap cs; dbv := dbv cs; tri := tri cs; conns := conns cs; next_sid := next_sid cs |}.
Definition set_heap v cs := {| reg := reg cs; smp := smp cs; heap := v; dbv := dbv cs; tri := tri cs; conns := conns cs; next_sid := next_sid cs |}.
Definition set_dbv v cs := {| reg := reg cs; smp := smp cs; heap := heap cs; dbv := v; tri := tri cs; conns := conns cs; next_sid := next_sid cs |}.
Definition set_tri v cs := {| reg := reg cs; smp := smp cs; heap := heap cs; dbv := dbv cs; tri := v; conns := conns cs; next_sid := next_sid cs |}.
Definition set_conns v cs := {| reg := reg cs; smp := smp cs; heap := heap cs; dbv := dbv cs; tri := tri cs; conns := v; next_sid := next_sid cs |}.
Definition set_next v cs := {| reg := reg cs; smp := smp cs; heap := heap cs; dbv := dbv cs; tri := tri cs; conns := conns cs; next_sid := v |}.

Definition upd_conn (k : Z) (f : conn -> conn) (cs : cstate) : cstate :=
  match zget k (conns cs) with
  | Some c => set_conns (zset k (f c) (conns cs)) cs
  | None => cs
  end.

Definition mark_dead (c : conn) : conn :=
  {| c_sess := c_sess c; c_live := false; c_torn := c_torn c; c_resub := c_resub c |}.
Definition mark_torn (c : conn) : conn :=
  {| c_sess := c_sess c; c_live := false; c_torn := true; c_resub := c_resub c |}.
Definition mark_resub (c : conn) : conn :=
  {| c_sess := c_sess c; c_live := c_live c; c_torn := c_torn c; c_resub := true |}.

Definition upd_sess (sid : Z) (f : session -> session) (cs : cstate) : cstate :=
  match zget sid (heap cs) with
  | Some s => set_heap (zset sid (f s) (heap cs)) cs
  | None => cs
  end.

Definition close_sess (s : session) : session :=
  {| s_clean := s_clean s; s_topics := s_topics s; s_closed := true |}.
Definition upd_topics (f : topics -> topics) (s : session) : session :=
  {| s_clean := s_clean s; s_topics := f (s_topics s); s_closed := s_closed s |}.

Definition tri_sub (fs : topics) (cs : cstate) : cstate := set_tri (aset_all String.eqb fs (tri cs)) cs.
Definition tri_unsub (fs : list string) (cs : cstate) : cstate := set_tri (adel_all String.eqb fs (tri cs)) cs.

(** Session.store(): the yaml of the session as it is now *)
Definition store_sess (sid : Z) (cs : cstate) : cstate :=
  let s := get_sess cs sid in set_dbv (Some (s_clean s, s_topics s)) cs.

(** Broker.deleteSession, triggered by every delete of the session key in the store
    (the admin endpoint's, and the broker's own delDB) *)
Definition delete_session (cs : cstate) : cstate :=
  match reg cs with
  | Some j => set_reg None (upd_conn j mark_dead cs)
  | None => cs
  end.

Definition alloc_session (s : session) (cs : cstate) : Z * cstate :=
  let sid := next_sid cs in
  (sid, set_next (sid + 1) (set_smp (Some sid) (set_heap (zset sid s (heap cs)) cs))).

(** SessionManager.get: the live session, else one rebuilt from the store *)
Definition sess_get (cs : cstate) : option Z * cstate :=
  match smp cs with
  | Some sid => (Some sid, cs)
  | None =>
      match dbv cs with
      | Some (cl, tp) =>
          let '(sid, cs') := alloc_session {| s_clean := cl; s_topics := tp; s_closed := false |} cs in
          (Some sid, cs')
      | None => (None, cs)
      end
  end.

Definition do_resubscribe (k : Z) (cs : cstate) : cstate :=
  match zget k (conns cs) with
  | Some c =>
      let cs1 := store_sess (c_sess c) cs in
      let cs2 := tri_sub (s_topics (get_sess cs1 (c_sess c))) cs1 in
      upd_conn k mark_resub cs2
  | None => cs
  end.

Definition fresh_session (clean : bool) : session := {| s_clean := clean; s_topics := []; s_closed := false |}.

(** Broker.setSession *)
Definition set_session (q : quirks) (clean : bool) (cs : cstate) : Z * cstate :=
  let '(prev, cs2) := sess_get cs in
  match prev with
  | Some p =>
      if negb clean && negb (s_clean (get_sess cs2 p)) then (p, cs2)
      else
        let cs2a := upd_sess p close_sess cs2 in
        let cs2b := if q_takeover_teardown_unguarded q then cs2a
                    else tri_unsub (map fst (s_topics (get_sess cs2 p))) cs2a in
        alloc_session (fresh_session clean) cs2b
  | None => alloc_session (fresh_session clean) cs2
  end.

Definition do_connect (q : quirks) (k : Z) (clean : bool) (cs : cstate) : cstate :=
  let cs1 := match reg cs with
             | Some old => upd_conn old mark_dead cs        (* go oldClient.close() *)
             | None => cs
             end in
  let '(sid, cs3) := set_session q clean cs1 in
  let cs4 := set_reg (Some k) cs3 in
  let cs5 := set_conns (zset k {| c_sess := sid; c_live := true; c_torn := false; c_resub := false |} (conns cs4)) cs4 in
  if q_takeover_teardown_unguarded q then cs5 else do_resubscribe k cs5.

(** ideal: a connection cleans up only while it still owns the client id: no other connection is
    registered for it and the session map still holds this connection's session *)
Definition owner (k : Z) (c : conn) (cs : cstate) : bool :=
  match reg cs with
  | Some j => j =? k
  | None => true
  end &&
  match smp cs with
  | Some sid => sid =? c_sess c
  | None => false
  end.

Definition cleanup (c : conn) (cs : cstate) : cstate :=
  (* delLocal *)
  let cs1 := match smp cs with
             | Some sid => upd_sess sid close_sess (set_smp None cs)
             | None => cs
             end in
  (* delDB (+ the delete-watch it triggers) when this connection's session is clean *)
  let cs2 := if s_clean (get_sess cs1 (c_sess c)) then delete_session (set_dbv None cs1) else cs1 in
  (* unsubscribe this connection's session's topics *)
  tri_unsub (map fst (s_topics (get_sess cs2 (c_sess c)))) cs2.

Definition remove_client (cs : cstate) : cstate :=
  match reg cs with
  | Some j => match zget j (conns cs) with
              | Some cj => if c_live cj then cs else set_reg None cs
              | None => cs
              end
  | None => cs
  end.

Definition do_teardown (q : quirks) (k : Z) (c : conn) (cs : cstate) : cstate :=
  let cs3 := if q_takeover_teardown_unguarded q || owner k c cs then cleanup c cs else cs in
  remove_client (upd_conn k mark_torn cs3).

Definition cstep (q : quirks) (cs : cstate) (e : cev) : cstate :=
  match e with
  | CConnect k clean =>
      match zget k (conns cs) with
      | Some _ => cs
      | None => do_connect q k clean cs
      end
  | CResubscribe k =>
      match zget k (conns cs) with
      | Some c => if c_resub c then cs else do_resubscribe k cs
      | None => cs
      end
  | CSubscribe k fs =>
      match zget k (conns cs) with
      | Some c =>
          if c_live c && c_resub c && negb (c_torn c) then
            store_sess (c_sess c) (upd_sess (c_sess c) (upd_topics (aset_all String.eqb fs)) (tri_sub fs cs))
          else cs
      | None => cs
      end
  | CUnsubscribe k fs =>
      match zget k (conns cs) with
      | Some c =>
          if c_live c && c_resub c && negb (c_torn c) then
            store_sess (c_sess c) (upd_sess (c_sess c) (upd_topics (adel_all String.eqb fs)) (tri_unsub fs cs))
          else cs
      | None => cs
      end
  | CTeardown k =>
      match zget k (conns cs) with
      | Some c => if c_resub c && negb (c_torn c) then do_teardown q k c cs else cs
      | None => cs
      end
  | CAdminDelete => delete_session (set_dbv None cs)
  | CStorePut tp =>
      match reg cs with
      | None => set_dbv (Some (false, aset_all String.eqb tp [])) cs
      | Some _ => cs
      end
  end.

Definition crun (q : quirks) (cs : cstate) (es : list cev) : cstate := fold_left (cstep q) es cs.

(** ** the broker: product over client ids *)

Record state := { cids : list (string * cstate); owners : list (Z * string) }.
Definition state0 : state := {| cids := []; owners := [] |}.

Inductive ev :=
| Connect (k : Z) (cid : string) (clean : bool)
| Resubscribe (k : Z)
| Subscribe (k : Z) (fs : topics)
| Unsubscribe (k : Z) (fs : list string)
| Teardown (k : Z)
| AdminDelete (cid : string)
| StorePut (cid : string) (tp : topics)
| Publish (topic : string).                           (* observation only *)

Definition cget (st : state) (cid : string) : cstate :=
  match sget cid (cids st) with Some cs => cs | None => cstate0 end.

Definition at_cid (q : quirks) (cid : string) (e : cev) (st : state) : state :=
  {| cids := sset cid (cstep q (cget st cid) e) (cids st); owners := owners st |}.

Definition at_owner (q : quirks) (k : Z) (e : cev) (st : state) : state :=
  match zget k (owners st) with
  | Some cid => at_cid q cid e st
  | None => st
  end.

Definition step (q : quirks) (st : state) (e : ev) : state :=
  match e with
  | Connect k cid clean =>
      match zget k (owners st) with
      | Some _ => st
      | None => {| cids := sset cid (cstep q (cget st cid) (CConnect k clean)) (cids st);
                   owners := zset k cid (owners st) |}
      end
  | Resubscribe k => at_owner q k (CResubscribe k) st
  | Subscribe k fs => at_owner q k (CSubscribe k fs) st
  | Unsubscribe k fs => at_owner q k (CUnsubscribe k fs) st
  | Teardown k => at_owner q k (CTeardown k) st
  | AdminDelete cid => at_cid q cid CAdminDelete st
  | StorePut cid tp => at_cid q cid (CStorePut tp) st
  | Publish _ => st
  end.

Definition run (q : quirks) (st : state) (es : list ev) : state := fold_left (step q) es st.

(** who receives a QoS-0 message: the registered connection of every client id
    with a matching subscription in the trie *)
Definition receivers (matches : string -> bool) (st : state) : list Z :=
  flat_map (fun '(_, cs) =>
              match reg cs with
              | Some k => if existsb (fun '(f, _) => matches f) (tri cs) then [k] else []
              | None => []
              end)
           (cids st).
