(** Executable model of the MQTT broker's fan-out (C15) and of its connection /
    session life cycle (C16).

    - [deliver]        : pkg/object/mqttproxy/broker.go  sendMsgToClient
                         (+ topic.go findSubscribers/addClients for the QoS it reports per client)
    - [step]           : broker.go handleConn (locked section, setSession, re-subscription),
                         deleteSession (delete-watch of the session store), httpDeleteSessionHandler;
                         client.go readLoop's deferred closeAndDelSession + removeClient,
                         processSubscribe / processUnsubscribe; session_manager.go get/delLocal/delDB

    Subscriptions are modelled at the specification level, a finite map
    (client id, filter) -> QoS; whether a filter matches the published topic is an
    oracle ([matches]); the topic trie itself is the subject of C14.
    Go map iteration order is an explicit parameter ([order], [choice]).  No proofs here. *)
From EG.lib Require Import Base BrokerMap.
Open Scope Z_scope.

(** one boolean per defect site of the pinned code; [ideal] = all off *)
Record quirks := {
  (* sendMsgToClient: [return] instead of [continue] at a subscriber whose subscription QoS < message QoS *)
  q_mqtt_lowqos_return : bool;
  (* findSubscribers/addClients: a client with several matching subscriptions is reported with the QoS of
     whichever was visited last instead of the maximum *)
  q_mqtt_overlap_last_qos : bool;
  (* a connection's deferred teardown cleans up by client id without checking that it still owns the id;
     a discarded previous session's subscriptions are left to that teardown; the re-subscription after
     CONNECT happens outside the broker lock *)
  q_takeover_teardown_unguarded : bool
}.

Definition ideal : quirks :=
  {| q_mqtt_lowqos_return := false; q_mqtt_overlap_last_qos := false; q_takeover_teardown_unguarded := false |}.

(** * C15: fan-out *)

Definition sub := (string * string * Z)%type.          (* client id, filter, subscription QoS *)

Section Fan.
  Variable matches : string -> bool.                    (* does the filter match the published topic? *)

  (** QoS values of [c]'s subscriptions that match *)
  Definition msubs (subs : list sub) (c : string) : list Z :=
    map (fun s => snd s)
        (filter (fun s => String.eqb (fst (fst s)) c && matches (snd (fst s))) subs).

  Fixpoint nodup_s (l : list string) : list string :=
    match l with
    | [] => []
    | a :: t => if existsb (String.eqb a) t then nodup_s t else a :: nodup_s t
    end.

  (** the key set of the map returned by findSubscribers *)
  Definition subscribers (subs : list sub) : list string :=
    nodup_s (map (fun s => fst (fst s)) (filter (fun s => matches (snd (fst s))) subs)).

  Definition max_list (l : list Z) : Z := fold_right Z.max 0 l.

  (** the QoS findSubscribers reports for [c]: the maximum of its matching
      subscriptions, or (pinned) the one the trie walk happened to visit last,
      chosen by [choice] *)
  Definition reported (q : quirks) (subs : list sub) (choice : string -> nat) (c : string) : Z :=
    let l := msubs subs c in
    if q_mqtt_overlap_last_qos q then nth (choice c) l (hd 0 l) else max_list l.

  (** the loop of sendMsgToClient over the subscribers in visit order [order];
      result: the clients whose session.publish is called *)
  Fixpoint deliver (q : quirks) (connected : string -> bool) (qos : Z) (rep : string -> Z)
           (order : list string) : list string :=
    match order with
    | [] => []
    | c :: t =>
        if rep c <? qos then
          (if q_mqtt_lowqos_return q then [] else deliver q connected qos rep t)
        else if connected c then c :: deliver q connected qos rep t
        else deliver q connected qos rep t
    end.

  Definition fanout (q : quirks) (subs : list sub) (connected : string -> bool) (qos : Z)
             (choice : string -> nat) (order : list string) : list string :=
    deliver q connected qos (reported q subs choice) order.

  (** the specification: connected clients holding a matching subscription of sufficient QoS *)
  Definition eligible (subs : list sub) (connected : string -> bool) (qos : Z) (c : string) : Prop :=
    connected c = true /\ exists f qs, In (c, f, qs) subs /\ matches f = true /\ qos <= qs.
End Fan.

(** * C16: connections, sessions, takeover *)

Definition topics := list (string * Z).                 (* filter -> QoS *)

Record session := { s_clean : bool; s_topics : topics; s_closed : bool }.

Record conn := {
  c_cid : string;
  c_sess : Z;            (* identity of the Session object the Client holds *)
  c_live : bool;         (* statusFlag = Connected *)
  c_torn : bool;         (* the deferred cleanup of readLoop has run *)
  c_resub : bool         (* the re-subscription after CONNECT has run (readLoop is active) *)
}.

Record state := {
  clients : list (string * Z);                 (* Broker.clients : client id -> connection *)
  smap : list (string * Z);                    (* SessionManager.sessionMap : client id -> session object *)
  heap : list (Z * session);                   (* session objects by identity *)
  db : list (string * (bool * topics));        (* the session store (yaml: cleanFlag, topics) *)
  trie : list (string * topics);               (* TopicManager, projected per client id *)
  conns : list (Z * conn);
  next_sid : Z
}.

Definition state0 : state :=
  {| clients := []; smap := []; heap := []; db := []; trie := []; conns := []; next_sid := 0 |}.

Inductive ev :=
| Connect (k : Z) (cid : string) (clean : bool)       (* handleConn: the section under the broker lock *)
| Resubscribe (k : Z)                                 (* handleConn: updateEGName + subscribe the session's topics *)
| Subscribe (k : Z) (fs : topics)
| Unsubscribe (k : Z) (fs : list string)
| Teardown (k : Z)                                    (* readLoop's deferred cleanup, at ANY later point *)
| AdminDelete (cid : string)                          (* DELETE .../sessions + the store's delete-watch *)
| Publish (topic : string).                           (* observation only *)

Definition trie_of (st : state) (cid : string) : topics :=
  match sget cid (trie st) with Some m => m | None => [] end.

Definition get_sess (st : state) (sid : Z) : session :=
  match zget sid (heap st) with
  | Some s => s
  | None => {| s_clean := false; s_topics := []; s_closed := true |}
  end.

Definition set_clients v st := {| clients := v; smap := smap st; heap := heap st; db := db st; trie := trie st; conns := conns st; next_sid := next_sid st |}.
Definition set_smap v st := {| clients := clients st; smap := v; heap := heap st; db := db st; trie := trie st; conns := conns st; next_sid := next_sid st |}.
Definition set_heap v st := {| clients := clients st; smap := smap st; heap := v; db := db st; trie := trie st; conns := conns st; next_sid := next_sid st |}.
Definition set_db v st := {| clients := clients st; smap := smap st; heap := heap st; db := v; trie := trie st; conns := conns st; next_sid := next_sid st |}.
Definition set_trie v st := {| clients := clients st; smap := smap st; heap := heap st; db := db st; trie := v; conns := conns st; next_sid := next_sid st |}.
Definition set_conns v st := {| clients := clients st; smap := smap st; heap := heap st; db := db st; trie := trie st; conns := v; next_sid := next_sid st |}.
Definition set_next v st := {| clients := clients st; smap := smap st; heap := heap st; db := db st; trie := trie st; conns := conns st; next_sid := v |}.

Definition upd_conn (k : Z) (f : conn -> conn) (st : state) : state :=
  match zget k (conns st) with
  | Some c => set_conns (zset k (f c) (conns st)) st
  | None => st
  end.

Definition mark_dead (c : conn) : conn :=
  {| c_cid := c_cid c; c_sess := c_sess c; c_live := false; c_torn := c_torn c; c_resub := c_resub c |}.
Definition mark_torn (c : conn) : conn :=
  {| c_cid := c_cid c; c_sess := c_sess c; c_live := false; c_torn := true; c_resub := c_resub c |}.
Definition mark_resub (c : conn) : conn :=
  {| c_cid := c_cid c; c_sess := c_sess c; c_live := c_live c; c_torn := c_torn c; c_resub := true |}.

Definition upd_sess (sid : Z) (f : session -> session) (st : state) : state :=
  match zget sid (heap st) with
  | Some s => set_heap (zset sid (f s) (heap st)) st
  | None => st
  end.

Definition close_sess (s : session) : session :=
  {| s_clean := s_clean s; s_topics := s_topics s; s_closed := true |}.

Definition trie_sub (cid : string) (fs : topics) (st : state) : state :=
  set_trie (sset cid (aset_all String.eqb fs (trie_of st cid)) (trie st)) st.

Definition trie_unsub (cid : string) (fs : list string) (st : state) : state :=
  set_trie (sset cid (adel_all String.eqb fs (trie_of st cid)) (trie st)) st.

(** Session.store(): the yaml of the session as it is now *)
Definition store_sess (cid : string) (sid : Z) (st : state) : state :=
  let s := get_sess st sid in set_db (sset cid (s_clean s, s_topics s) (db st)) st.

(** Broker.deleteSession, triggered by every delete of a session key in the store
    (the admin endpoint's, and the broker's own delDB) *)
Definition delete_session (cid : string) (st : state) : state :=
  match sget cid (clients st) with
  | Some j => set_clients (sdel cid (clients st)) (upd_conn j mark_dead st)
  | None => st
  end.

Definition new_session (cid : string) (clean : bool) (st : state) : Z * state :=
  let sid := next_sid st in
  (sid, set_next (sid + 1)
          (set_smap (sset cid sid (smap st))
             (set_heap (zset sid {| s_clean := clean; s_topics := []; s_closed := false |} (heap st)) st))).

(** SessionManager.get: the live session, else one rebuilt from the store *)
Definition sess_get (cid : string) (st : state) : option Z * state :=
  match sget cid (smap st) with
  | Some sid => (Some sid, st)
  | None =>
      match sget cid (db st) with
      | Some (cl, tp) =>
          let sid := next_sid st in
          (Some sid, set_next (sid + 1)
                       (set_smap (sset cid sid (smap st))
                          (set_heap (zset sid {| s_clean := cl; s_topics := tp; s_closed := false |} (heap st)) st)))
      | None => (None, st)
      end
  end.

Definition do_resubscribe (k : Z) (st : state) : state :=
  match zget k (conns st) with
  | Some c =>
      let st1 := store_sess (c_cid c) (c_sess c) st in
      let st2 := trie_sub (c_cid c) (s_topics (get_sess st1 (c_sess c))) st1 in
      upd_conn k mark_resub st2
  | None => st
  end.

Definition do_connect (q : quirks) (k : Z) (cid : string) (clean : bool) (st : state) : state :=
  let st1 := match sget cid (clients st) with
             | Some old => upd_conn old mark_dead st        (* go oldClient.close() *)
             | None => st
             end in
  let '(prev, st2) := sess_get cid st1 in
  let '(sid, st3) :=
    match prev with
    | Some p =>
        if negb clean && negb (s_clean (get_sess st2 p)) then (p, st2)
        else
          let st2a := upd_sess p close_sess st2 in
          let st2b := if q_takeover_teardown_unguarded q then st2a
                      else trie_unsub cid (map fst (s_topics (get_sess st2 p))) st2a in
          new_session cid clean st2b
    | None => new_session cid clean st2
    end in
  let st4 := set_clients (sset cid k (clients st3)) st3 in
  let st5 := set_conns (zset k {| c_cid := cid; c_sess := sid; c_live := true; c_torn := false; c_resub := false |}
                             (conns st4)) st4 in
  if q_takeover_teardown_unguarded q then st5 else do_resubscribe k st5.

Definition owner (k : Z) (c : conn) (st : state) : bool :=
  match sget (c_cid c) (clients st) with
  | Some j => j =? k
  | None => true
  end &&
  match sget (c_cid c) (smap st) with
  | Some sid => sid =? c_sess c
  | None => false
  end.

Definition do_teardown (q : quirks) (k : Z) (c : conn) (st : state) : state :=
  let cid := c_cid c in
  let cleanup (st : state) :=
    (* delLocal *)
    let st1 := match sget cid (smap st) with
               | Some sid => upd_sess sid close_sess (set_smap (sdel cid (smap st)) st)
               | None => st
               end in
    (* delDB (+ the delete-watch it triggers) when this connection's session is clean *)
    let st2 := if s_clean (get_sess st1 (c_sess c))
               then delete_session cid (set_db (sdel cid (db st1)) st1) else st1 in
    (* unsubscribe this connection's session's topics *)
    trie_unsub cid (map fst (s_topics (get_sess st2 (c_sess c)))) st2 in
  let st3 := if q_takeover_teardown_unguarded q || owner k c st then cleanup st else st in
  let st4 := upd_conn k mark_torn st3 in
  (* removeClient *)
  match sget cid (clients st4) with
  | Some j => match zget j (conns st4) with
              | Some cj => if c_live cj then st4 else set_clients (sdel cid (clients st4)) st4
              | None => st4
              end
  | None => st4
  end.

Definition upd_topics (f : topics -> topics) (s : session) : session :=
  {| s_clean := s_clean s; s_topics := f (s_topics s); s_closed := s_closed s |}.

Definition step (q : quirks) (st : state) (e : ev) : state :=
  match e with
  | Connect k cid clean =>
      match zget k (conns st) with
      | Some _ => st
      | None => do_connect q k cid clean st
      end
  | Resubscribe k =>
      match zget k (conns st) with
      | Some c => if c_resub c then st else do_resubscribe k st
      | None => st
      end
  | Subscribe k fs =>
      match zget k (conns st) with
      | Some c =>
          if c_live c && c_resub c && negb (c_torn c) then
            let st1 := trie_sub (c_cid c) fs st in
            let st2 := upd_sess (c_sess c) (upd_topics (aset_all String.eqb fs)) st1 in
            store_sess (c_cid c) (c_sess c) st2
          else st
      | None => st
      end
  | Unsubscribe k fs =>
      match zget k (conns st) with
      | Some c =>
          if c_live c && c_resub c && negb (c_torn c) then
            let st1 := trie_unsub (c_cid c) fs st in
            let st2 := upd_sess (c_sess c) (upd_topics (adel_all String.eqb fs)) st1 in
            store_sess (c_cid c) (c_sess c) st2
          else st
      | None => st
      end
  | Teardown k =>
      match zget k (conns st) with
      | Some c => if c_resub c && negb (c_torn c) then do_teardown q k c st else st
      | None => st
      end
  | AdminDelete cid => delete_session cid (set_db (sdel cid (db st)) st)
  | Publish _ => st
  end.

Definition run (q : quirks) (st : state) (es : list ev) : state := fold_left (step q) es st.

(** who receives a QoS-0 message: the registered connection of every client id
    with a matching subscription in the trie *)
Definition receivers (matches : string -> bool) (st : state) : list Z :=
  flat_map (fun '(cid, k) =>
              if existsb (fun '(f, _) => matches f) (trie_of st cid) then [k] else [])
           (clients st).
