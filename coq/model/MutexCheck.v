(** Case types and per-case check functions for C18 (evaluated by vm_compute on
    the traces of the real code).  Result: (corr, prop, class, attributed-flag).

    Group mx  (pkg/cluster, real embedded etcd, several members): the event log of
      contending goroutines (Acq / Rel / Fail / key-count snapshots, totally ordered by
      the harness) -
      prop: independent of the model: never two holders, failures only of short-timeout
            attempts, no key left after a phase, nothing hangs, every attempt accounted for;
      corr: the log is a visible trace of the transition system [Mutex.step pinned].
    Group api (pkg/api, real handlers): concurrent/sequential create/update/delete/get -
      prop: the history check (versions of successes gap-free from v0+1, real-time order,
            successes replay legally in version order to the final listing, every failure /
            read explainable at a point of the replay inside its call/return window);
      corr: the model's threads, scheduled in the order derived from the observation,
            produce exactly the observed statuses, versions, bodies and final store. *)
From EG.lib Require Import Base.
From EG.model Require Import Mutex.
Open Scope Z_scope.

Definition result4 := (bool * bool * N * N)%type.
Definition bN (b : bool) (n : N) : N := if b then n else 0%N.

(** ** group mx *)
Record mx_case := {
  x_thr : list (nat * nat * bool);     (* per attempt: member, handle, short timeout *)
  x_ev : list (Z * nat);               (* 0 Acq a | 1 Rel a | 2 Fail a | 3 Keys n | 4 Hung | 5 Regrant a (lease of a's member
                                          granted again + fresh cluster.Mutex() handle, done by the holder a)
                                          | 6 Names n (n other lock names were created on one member through
                                          cluster.Mutex(), then a fresh handle for THE lock name) *)
  x_maxov : Z;                         (* max value of the harness' in-critical-section counter *)
  x_ids : list (list nat)              (* member names / lease keys / lease ids of the members (the secondaries run
                                          with DEFAULT names): per member the index of the first member with the
                                          same value *)
}.

Definition mx_cfg (c : mx_case) : tid -> thr := fun t =>
  match nth_error (x_thr c) t with
  | Some (m, h, sh) => {| t_mem := m; t_hnd := h; t_req := RNoop; t_to := sh |}
  | None => {| t_mem := O; t_hnd := O; t_req := RGet ""; t_to := false |}
  end.

Fixpoint mx_replay (q : quirks) (cfg : tid -> thr) (s : state) (ev : list (Z * nat)) : bool :=
  match ev with
  | [] => true
  | (code, a) :: rest =>
      if code =? 0 then
        match run q cfg s [(a, LLocalLock); (a, LPut); (a, LAcquire)] with
        | Some s' => mx_replay q cfg s' rest | None => false end
      else if code =? 1 then
        match run q cfg s [(a, LCs); (a, LEtcdUnlock); (a, LLocalUnlock)] with
        | Some s' => mx_replay q cfg s' rest | None => false end
      else if code =? 2 then
        match run q cfg s [(a, LLocalLock); (a, LPut); (a, LTimeout)] with
        | Some s' => mx_replay q cfg s' rest | None => false end
      else if code =? 3 then
        Nat.eqb (List.length (queue s)) a && mx_replay q cfg s rest
      else if code =? 5 then
        match run q cfg s [(a, LRegrant)] with
        | Some s' => mx_replay q cfg s' rest | None => false end
      else if code =? 6 then
        (* handles of other lock names: nothing of this lock changes (one local lock per member and name) *)
        mx_replay q cfg s rest
      else false
  end.

Definition is_short (c : mx_case) (a : nat) : bool :=
  match nth_error (x_thr c) a with Some (_, _, sh) => sh | None => false end.

(** the property on the log itself *)
Fixpoint mx_prop_ev (c : mx_case) (holder : option nat) (ev : list (Z * nat)) : bool :=
  match ev with
  | [] => match holder with None => true | Some _ => false end
  | (code, a) :: rest =>
      if code =? 0 then
        match holder with None => mx_prop_ev c (Some a) rest | Some _ => false end
      else if code =? 1 then
        match holder with Some b => Nat.eqb a b && mx_prop_ev c None rest | None => false end
      else if code =? 2 then
        is_short c a && mx_prop_ev c holder rest
      else if code =? 3 then
        Nat.eqb a 0 && (match holder with None => true | Some _ => false end) && mx_prop_ev c holder rest
      else if code =? 5 then
        (* a fault injected by the holder: no constraint of its own, exclusion must survive it *)
        mx_prop_ev c holder rest
      else if code =? 6 then
        mx_prop_ev c holder rest
      else false
  end.

Definition count_code (k : Z) (ev : list (Z * nat)) : nat :=
  List.length (filter (fun '(c, _) => c =? k) ev).

Fixpoint nodup_nat (l : list nat) : bool :=
  match l with [] => true | x :: t => negb (memb x t) && nodup_nat t end.

Definition mx_prop (c : mx_case) : bool :=
  mx_prop_ev c None (x_ev c) &&
  (x_maxov c <=? 1) &&
  (* the model's "one session (lease) per member" rests on it: members have distinct names, lease keys, leases *)
  forallb nodup_nat (x_ids c) && negb (match x_ids c with [] => true | _ => false end) &&
  (* every attempt ended exactly once: acquired (and released) or failed *)
  Nat.eqb (count_code 0 (x_ev c) + count_code 2 (x_ev c)) (List.length (x_thr c)) &&
  Nat.eqb (count_code 0 (x_ev c)) (count_code 1 (x_ev c)) &&
  nodup_nat (map snd (filter (fun '(k, _) => (k =? 0) || (k =? 2)) (x_ev c))) &&
  (* ... and is one of the attempts of the case *)
  forallb (fun a => Nat.ltb a (List.length (x_thr c)))
          (map snd (filter (fun '(k, _) => (k =? 0) || (k =? 2)) (x_ev c))).

Definition multi_handle (c : mx_case) : bool := existsb (fun '(_, h, _) => negb (Nat.eqb h 0)) (x_thr c).
Definition multi_member (c : mx_case) : bool := existsb (fun '(m, _, _) => negb (Nat.eqb m 0)) (x_thr c).

Definition check_mx (pinned : quirks) (c : mx_case) : result4 :=
  let cfg := mx_cfg c in
  let corr := mx_replay pinned cfg (init ([], 0)) (x_ev c) in
  let prop := mx_prop c in
  let cls := match x_thr c with
             | [] => 0%N
             | _ => (1 + bN (multi_member c) 1 + bN (negb (Nat.eqb (count_code 2 (x_ev c)) 0)) 2
                     + bN (multi_handle c) 4 + bN (Nat.leb 3 (List.length (x_thr c))) 8
                     + bN (negb (Nat.eqb (count_code 5 (x_ev c)) 0)) 16
                     + bN (negb (Nat.eqb (count_code 6 (x_ev c)) 0)) 32)%N
             end in
  let attrib :=
    if negb prop && corr && q_local_per_handle pinned &&
       negb (mx_replay ideal cfg (init ([], 0)) (x_ev c)) then 1%N else 0%N in
  (corr, prop, cls, attrib).

Definition explain_mx (pinned : quirks) (c : mx_case) :=
  (mx_replay pinned (mx_cfg c) (init ([], 0)) (x_ev c), mx_replay ideal (mx_cfg c) (init ([], 0)) (x_ev c),
   mx_prop_ev c None (x_ev c)).

(** ** group api *)
Record aop := {
  o_mem : nat;            (* member whose API server handled the request *)
  o_req : req;
  o_bad : bool;           (* malformed request (bad yaml / unknown kind / url name mismatch): 400 before the lock *)
  o_fk : nat;             (* fault injection (cluster double only): the k-th cluster operation of this request
                             fails once (1 = the version read of the middleware, 2.. = handler steps 0..3); 0 = none *)
  o_hit : bool;           (* the request really reached that operation *)
  o_call : Z; o_ret : Z;  (* stamps of one atomic counter: before the call, after the return *)
  o_status : Z;
  o_ver : Z;              (* X-Config-Version header of the response *)
  o_rkind : string; o_rbody : string   (* GET 200: returned kind and body *)
}.

Record api_case := {
  a_v0 : Z; a_init : objects;
  a_ops : list aop;
  a_final : objects; a_finalver : Z;
  a_conc : bool;
  a_holds : list (Z * Z)   (* real cluster only: stamps between which a further member held the cluster config
                              lock, taken through Server.Lock like a mutating handler does *)
}.

Definition is_succ (o : aop) : bool :=
  negb (o_bad o) && is_mut (o_req o) && ((o_status o =? 200) || (o_status o =? 201)).

Definition is_err (o : aop) : bool := 500 <=? o_status o.

(** a mutation cut short by the injected fault AFTER its object write (fault on the in-lock version read or
    version write): it answered 5xx, wrote no version, and its object write is part of the store *)
Definition is_part (o : aop) : bool :=
  o_hit o && negb (o_bad o) && is_mut (o_req o) && is_err o && Nat.leb 4 (o_fk o).

(** requests that never take the lock: malformed ones, and those whose first cluster operation (the
    version read of the middleware) or whose GET read was made to fail *)
Definition no_thread (o : aop) : bool :=
  o_bad o || (o_hit o && (Nat.eqb (o_fk o) 1 || is_get (o_req o))).

(** insertion sort of (index, op) by returned version *)
Fixpoint ins_ver (x : nat * aop) (l : list (nat * aop)) : list (nat * aop) :=
  match l with
  | [] => [x]
  | y :: t => if o_ver (snd x) <=? o_ver (snd y) then x :: l else y :: ins_ver x t
  end.
Definition sort_ver (l : list (nat * aop)) : list (nat * aop) := fold_right ins_ver [] l.

Fixpoint index_from {A} (i : nat) (l : list A) : list (nat * A) :=
  match l with [] => [] | x :: t => (i, x) :: index_from (S i) t end.

Definition str_pair_eqb (a b : string * string) : bool :=
  String.eqb (fst a) (fst b) && String.eqb (snd a) (snd b).

Definition objs_sub (o1 o2 : objects) : bool :=
  forallb (fun '(n, kb) => match alookup n o2 with Some kb' => str_pair_eqb kb kb' | None => false end) o1.

Fixpoint nodup_names (o : objects) : bool :=
  match o with
  | [] => true
  | (n, _) :: t => (match alookup n t with Some _ => false | None => true end) && nodup_names t
  end.

Definition objs_eqb (o1 o2 : objects) : bool :=
  nodup_names o1 && nodup_names o2 && objs_sub o1 o2 && objs_sub o2 o1.

(** effect of one element of the replay sequence (a success, or a cut-short mutation) *)
Definition eff_apply (st : store) (o : aop) : store :=
  if is_part o then (apply_objs (o_req o) (fst st), snd st) else spec_apply st (o_req o).

Definition eff_legal (st : store) (o : aop) : bool :=
  if is_part o then match precheck (fst st) (o_req o) with None => true | Some _ => false end
  else match spec_result st (o_req o) with
       | ROk c v => (o_status o =? c) && (o_ver o =? v)
       | _ => false
       end.

(** states S_0 .. S_k of the replay *)
Fixpoint scan_states (st : store) (l : list (nat * aop)) : list store :=
  st :: match l with
        | [] => []
        | (_, o) :: t => scan_states (eff_apply st o) t
        end.

(** each element is legal at its point (a success returned the right code and version) *)
Fixpoint succ_legal (st : store) (l : list (nat * aop)) : bool :=
  match l with
  | [] => true
  | (_, o) :: t => eff_legal st o && succ_legal (eff_apply st o) t
  end.

(** real-time order: a later element never returned before an earlier one was called *)
Fixpoint rt_ok (l : list (nat * aop)) : bool :=
  match l with
  | [] => true
  | (_, o) :: t => forallb (fun '(_, p) => negb (o_ret p <? o_call o)) t && rt_ok t
  end.

(** window of replay positions [lo, hi] at which the request [f] may have taken effect *)
Fixpoint win_lo (f : aop) (i : nat) (l : list (nat * aop)) (acc : nat) : nat :=
  match l with
  | [] => acc
  | (_, o) :: t => win_lo f (S i) t (if o_ret o <? o_call f then S i else acc)
  end.
Fixpoint win_hi (f : aop) (i : nat) (l : list (nat * aop)) : nat :=
  match l with
  | [] => i
  | (_, o) :: t => if o_ret f <? o_call o then i else win_hi f (S i) t
  end.

(** answers of the custom-data API on the unchanged code: 200 / 201, or 503 (kind or item exists / is missing:
    the handlers report every store error through ClusterPanic) *)
Definition is_custom (r : req) : bool := match r with RCustom => true | _ => false end.
(** DELETE /status/members/{member}: takes the cluster lock, touches neither objects nor version; 200, or 404
    when the member has no lease *)
Definition is_purge (r : req) : bool := match r with RNoop => true | _ => false end.
Definition purge_status_ok (f : aop) : bool := (o_status f =? 200) || (o_status f =? 404).
Definition custom_status_ok (f : aop) : bool :=
  (o_status f =? 200) || (o_status f =? 201) || (o_status f =? 503).

Definition explains (st : store) (f : aop) : bool :=
  if o_hit f then
    (* cut short before any write: 5xx; if it got as far as its object write (which then failed)
       it had passed the check *)
    is_err f && (if Nat.eqb (o_fk f) 3 then match precheck (fst st) (o_req f) with None => true | Some _ => false end
                 else true)
  else
  match spec_result st (o_req f) with
  | RFail c => o_status f =? c
  | RRead None => o_status f =? 404
  | RRead (Some (k, b)) => (o_status f =? 200) && String.eqb k (o_rkind f) && String.eqb b (o_rbody f)
  | RNoopDone => (is_custom (o_req f) && custom_status_ok f) || (is_purge (o_req f) && purge_status_ok f)
                 (* identity on objects and version *)
  | _ => false
  end.

Fixpoint find_pos (sts : list store) (f : aop) (i : nat) (lo hi : nat) : option nat :=
  match sts with
  | [] => None
  | st :: t =>
      if Nat.leb lo i && Nat.leb i hi && explains st f then Some i else find_pos t f (S i) lo hi
  end.

Definition count_succ_upto (n : nat) (seq : list (nat * aop)) : Z :=
  Z.of_nat (List.length (filter (fun x => is_succ (snd x)) (firstn n seq))).

Definition position (v0 : Z) (seq : list (nat * aop)) (sts : list store) (f : aop) : option nat :=
  let lo := win_lo f 0 seq 0 in
  let hi := win_hi f 0 seq in
  (* the version header of such a response was read inside the window too *)
  if o_hit f || ((v0 + count_succ_upto lo seq <=? o_ver f) && (o_ver f <=? v0 + count_succ_upto hi seq))
  then find_pos sts f 0 lo hi else None.

(** all ways to insert the cut-short mutations into the version-ordered successes *)
Fixpoint all_inserts {A} (x : A) (l : list A) : list (list A) :=
  (x :: l) :: match l with
              | [] => []
              | y :: t => map (cons y) (all_inserts x t)
              end.

Definition candidates (succ parts : list (nat * aop)) : list (list (nat * aop)) :=
  fold_left (fun acc p => flat_map (all_inserts p) acc) parts [succ].

Definition in_seq (f : aop) : bool := is_succ f || is_part f.

Definition seq_check (c : api_case) (seq : list (nat * aop)) : bool :=
  let ops := index_from 0 (a_ops c) in
  let st0 := (a_init c, a_v0 c) in
  let sts := scan_states st0 seq in
  let final := last sts st0 in
  succ_legal st0 seq && rt_ok seq &&
  objs_eqb (fst final) (a_final c) && (snd final =? a_finalver c) &&
  forallb (fun x => let f := snd x in
             if in_seq f then true
             else if no_thread f then (if o_hit f then is_err f else o_status f =? 400)
             else match position (a_v0 c) seq sts f with Some _ => true | None => false end) ops.

Definition api_succ (c : api_case) : list (nat * aop) :=
  sort_ver (filter (fun x => is_succ (snd x)) (index_from 0 (a_ops c))).
Definition api_parts (c : api_case) : list (nat * aop) :=
  filter (fun x => is_part (snd x) && negb (is_succ (snd x))) (index_from 0 (a_ops c)).

(** the request went through the critical section (it needs the cluster lock and was answered from inside) *)
Definition locked_done (f : aop) : bool :=
  negb (o_bad f) && negb (is_get (o_req f)) && (o_status f <? 500).

(** no request that needs the lock starts and completes while another member holds it *)
Definition holds_ok (c : api_case) : bool :=
  forallb (fun '(acq, rel) =>
             forallb (fun f => negb (locked_done f && (acq <? o_call f) && (o_ret f <? rel))) (a_ops c))
          (a_holds c).

Definition api_prop (c : api_case) : bool :=
  let succ := api_succ c in
  holds_ok c &&
  (* versions of the successes: v0+1, v0+2, ... each once - whether or not a fault hit the request *)
  list_eqb Z.eqb (map (fun x => o_ver (snd x)) succ) (zseq (a_v0 c + 1) (List.length succ)) &&
  existsb (seq_check c) (candidates succ (api_parts c)).

(** *** the model's run in the order derived from the observation *)
Definition api_cfg (c : api_case) : tid -> thr := fun t =>
  match nth_error (a_ops c) t with
  | Some o => {| t_mem := o_mem o; t_hnd := O; t_req := o_req o; t_to := false |}
  | None => {| t_mem := O; t_hnd := O; t_req := RNoop; t_to := false |}
  end.

Definition life (s : state) (t : tid) (o : aop) : list (tid * label) :=
  if is_get (o_req o) then [(t, LGet)]
  else if o_hit o && is_err o then full_fault t (o_fk o - 2)
  else full_ok t (cs_len (objs s, ver s) (o_req o)).

Fixpoint run_order (q : quirks) (cfg : tid -> thr) (s : state) (order : list (nat * aop)) : option state :=
  match order with
  | [] => Some s
  | (t, o) :: rest =>
      match run q cfg s (life s t o) with
      | Some s' => run_order q cfg s' rest
      | None => None
      end
  end.

(** order: requests outside the sequence explained at position i come after element i (and before i+1) *)
Definition at_pos (c : api_case) (seq : list (nat * aop)) (sts : list store) (i : nat) : list (nat * aop) :=
  filter (fun x => let f := snd x in
            negb (in_seq f) && negb (no_thread f) &&
            match position (a_v0 c) seq sts f with Some j => Nat.eqb i j | None => false end)
         (index_from 0 (a_ops c)).

Fixpoint build_order (c : api_case) (all : list (nat * aop)) (sts : list store) (i : nat) (seq : list (nat * aop))
  : list (nat * aop) :=
  at_pos c all sts i ++
  match seq with
  | [] => []
  | x :: t => x :: build_order c all sts (S i) t
  end.

Definition res_matches (r : option result) (f : aop) : bool :=
  match r with
  | Some (ROk cde v) => (o_status f =? cde) && (o_ver f =? v)
  | Some (RFail cde) => o_status f =? cde
  | Some (RRead None) => o_status f =? 404
  | Some (RRead (Some (k, b))) => (o_status f =? 200) && String.eqb k (o_rkind f) && String.eqb b (o_rbody f)
  | Some (RErr _) => is_err f
  | Some RNoopDone => (is_custom (o_req f) && custom_status_ok f) || (is_purge (o_req f) && purge_status_ok f)
  | _ => false
  end.

Definition pick_seq (c : api_case) : list (nat * aop) :=
  match filter (seq_check c) (candidates (api_succ c) (api_parts c)) with
  | s :: _ => s
  | [] => api_succ c
  end.

Definition api_corr (q : quirks) (c : api_case) : bool :=
  let ops := index_from 0 (a_ops c) in
  let seq := pick_seq c in
  let st0 := (a_init c, a_v0 c) in
  let sts := scan_states st0 seq in
  let order := build_order c seq sts 0 seq in
  let cfg := api_cfg c in
  match run_order q cfg (init st0) order with
  | None => false
  | Some s =>
      forallb (fun x => let f := snd x in
                 if no_thread f then (if o_hit f then is_err f else o_status f =? 400)
                 else res_matches (fin_result (pcs s (fst x))) f) ops &&
      objs_eqb (objs s) (a_final c) && (ver s =? a_finalver c) &&
      (match queue s with [] => true | _ => false end)
  end.

Definition has_status (k : Z) (c : api_case) : bool := existsb (fun o => o_status o =? k) (a_ops c).
Definition has_kind_change (c : api_case) : bool :=
  existsb (fun o => (o_status o =? 400) && negb (o_bad o)) (a_ops c).

Definition check_api (pinned : quirks) (c : api_case) : result4 :=
  let cls := match a_ops c with
             | [] => 0%N
             | _ => (1 + bN (has_status 409 c) 1 + bN (has_kind_change c) 2 + bN (has_status 404 c) 4
                     + bN (a_conc c) 8 + bN (existsb (fun o => negb (Nat.eqb (o_mem o) 0)) (a_ops c)) 16
                     + bN (existsb o_hit (a_ops c)) 32 + bN (existsb is_part (a_ops c)) 64
                     + bN (existsb (fun o => is_custom (o_req o)) (a_ops c)) 128)%N
             end in
  (api_corr pinned c, api_prop c, cls, 0%N).

Definition explain_api (pinned : quirks) (c : api_case) :=
  let seq := pick_seq c in
  let st0 := (a_init c, a_v0 c) in
  let sts := scan_states st0 seq in
  (map (fun x => (fst x, o_ver (snd x), is_part (snd x))) seq,
   map (fun x => (fst x, position (a_v0 c) seq sts (snd x)))
       (filter (fun x => negb (in_seq (snd x))) (index_from 0 (a_ops c))),
   last sts st0,
   (succ_legal st0 seq, rt_ok seq, List.length (candidates (api_succ c) (api_parts c)))).
