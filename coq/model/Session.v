(** Executable model of one MQTT session's outbound side and of the broker's
    handling of a client PUBLISH (C15).

    - [publish] / [puback] / [tick] : pkg/object/mqttproxy/session.go
                                      Session.publish, Session.puback, Session.doResend
    - [cpub_step]                   : pkg/object/mqttproxy/client.go
                                      processPacketMap["*packets.PublishPacket"], pipelineWrapper, processPublish

    A message is an abstract identity [msg] (topic and payload are functions of
    it).  Packet ids are Go [uint16]: arithmetic modulo 2^16.  No proofs here. *)
From EG.lib Require Import Base BrokerMap.
From EG.model Require Import RL.
Open Scope Z_scope.

Definition msg := Z.

Record sess := { pending : list (Z * msg);     (* Session.pending : map[uint16]*Message *)
                 queue : list Z;               (* Session.pendingQueue *)
                 nextID : Z }.                 (* Session.nextID *)

Definition sess0 : sess := {| pending := []; queue := []; nextID := 0 |}.

Definition wrap16 (x : Z) : Z := x mod 65536.

(** a PUBLISH packet written to the subscriber's connection *)
Inductive emit := Pkt (id : Z) (qos : Z) (m : msg).

Definition emit_eqb (a b : emit) : bool :=
  match a, b with Pkt i q m, Pkt i' q' m' => (i =? i') && (q =? q') && (m =? m') end.

(** Session.publish; [full] = the client's write channel has no room (only
    consulted for QoS 0: the QoS 1 send blocks instead of dropping). *)
Definition publish (s : sess) (q : Z) (m : msg) (full : bool) : sess * list emit :=
  let id := nextID s in
  let bump := {| pending := pending s; queue := queue s; nextID := wrap16 (id + 1) |} in
  if q =? 0 then (bump, if full then [] else [Pkt id 0 m])
  else if q =? 1 then
    ({| pending := zset id m (pending s); queue := queue s ++ [id]; nextID := wrap16 (id + 1) |},
     [Pkt id 1 m])
  else (bump, []).                              (* QoS 2: logged, nothing sent *)

Definition puback (s : sess) (id : Z) : sess :=
  {| pending := zdel id (pending s); queue := queue s; nextID := nextID s |}.

(** the suffix of the queue starting at the first id that is still pending *)
Fixpoint drop_acked (p : list (Z * msg)) (qu : list Z) : list Z :=
  match qu with
  | [] => []
  | id :: t => match zget id p with Some _ => qu | None => drop_acked p t end
  end.

Definition oldest (s : sess) : option (Z * msg) :=
  match drop_acked (pending s) (queue s) with
  | id :: _ => match zget id (pending s) with Some m => Some (id, m) | None => None end
  | [] => None
  end.

(** Session.doResend, one firing of the 200 ms ticker *)
Definition tick (s : sess) : sess * list emit :=
  match pending s with
  | [] => ({| pending := []; queue := []; nextID := nextID s |}, [])
  | _ =>
      match drop_acked (pending s) (queue s) with
      | [] => (s, [])
      | id :: t =>
          ({| pending := pending s; queue := id :: t; nextID := nextID s |},
           match zget id (pending s) with Some m => [Pkt id 1 m] | None => [] end)
      end
  end.

Inductive sop :=
| SPublish (q : Z) (m : msg) (full : bool)
| SPuback (id : Z)
| STick.

Definition sstep (s : sess) (o : sop) : sess * list emit :=
  match o with
  | SPublish q m full => publish s q m full
  | SPuback id => (puback s id, [])
  | STick => tick s
  end.

Fixpoint srun (s : sess) (ops : list sop) : sess * list emit :=
  match ops with
  | [] => (s, [])
  | o :: t => let '(s1, e1) := sstep s o in let '(s2, e2) := srun s1 t in (s2, e1 ++ e2)
  end.

Definition sfinal (s : sess) (ops : list sop) : sess := fst (srun s ops).
Definition semits (s : sess) (ops : list sop) : list emit := snd (srun s ops).

(** ** client PUBLISH *)

Inductive verdict := VPass | VDrop | VDisconnect.

Record cpkt := { cp_qos : Z; cp_id : Z; cp_size : Z; cp_tag : Z }.   (* cp_size = RemainingLength + 8; cp_tag = identity of the packet *)

Inductive cout :=
| Backend (tag : Z)        (* the publish pipeline's handler was invoked with this packet *)
| Puback (id : Z)          (* PUBACK queued for the client *)
| Closed.                  (* pipeline asked to disconnect: the connection ends *)

(** [has_pipe]: a pipeline is configured for Publish; [lim]: the client's
    publish limiter (model of C09, elapsed time 0: one period outlasts the run);
    [v]: what the pipeline answers for this packet. *)
Definition cpub_step (has_pipe : bool) (lim : mqtt_lim) (p : cpkt) (v : verdict)
  : mqtt_lim * list cout * bool :=
  let '(lim', ok) := mqtt_acquire lim 0 (cp_size p) in
  if negb ok then (lim', [], true) else
  let ack := if cp_qos p =? 1 then [Puback (cp_id p)] else [] in
  if negb has_pipe then (lim', ack, true) else
  match v with
  | VPass => (lim', Backend (cp_tag p) :: ack, true)
  | VDrop => (lim', [Backend (cp_tag p)], true)
  | VDisconnect => (lim', [Backend (cp_tag p); Closed], false)
  end.

Fixpoint cpub_run (has_pipe : bool) (lim : mqtt_lim) (ps : list (cpkt * verdict)) : list cout :=
  match ps with
  | [] => []
  | (p, v) :: t =>
      let '(lim', o, alive) := cpub_step has_pipe lim p v in
      if alive then o ++ cpub_run has_pipe lim' t else o
  end.
