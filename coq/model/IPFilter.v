(** Executable model of easegress' IP filter (C05).  No proofs here.

    Part 1 - address / CIDR semantics and the decision table
      - [contains]     : membership of an address in one allow/block entry
                         (pkg/util/ipfilter/ipfilter.go New + cidranger Contains)
      - [allow]        : IPFilter.Allow  (the decision table)
      - [chain_allow]  : IPFilters.Allow (server / rule / path chain)

    Part 2 - enforcement by the HTTP server's router (a *mini* router: the four
      match conditions of every rule/path are per-request oracle bits computed by
      the real code; only the control flow of muxInstance.search - where filters
      are consulted, what is cached, what a cache hit re-checks - is modelled).
      The full router and the route cache are owned by model/Mux.v (C01/C12).

    Addresses are [(family, N)]: Go's net.ParseIP followed by To4() decides the
    family, so an IPv4-mapped client address (::ffff:a.b.c.d) IS the IPv4
    address a.b.c.d.  Address parsing itself is an oracle (per-case tables). *)
From EG.lib Require Import Base.
Open Scope N_scope.

(** * Part 1: addresses, entries, decision table *)

Inductive family := V4 | V6.

Definition fam_eqb (a b : family) : bool :=
  match a, b with V4, V4 | V6, V6 => true | _, _ => false end.

Definition fam_bits (f : family) : N := match f with V4 => 32 | V6 => 128 end.

Record addr := { a_fam : family; a_val : N }.

(** One allow/block entry after parsing.  A single address is an entry of full
    length.  [e_mapped] marks an entry that was *written* as an IPv4-mapped IPv6
    literal (::ffff:a.b.c.d or ::ffff:a.b.c.d/n with n >= 96); the parser oracle
    normalises it to the IPv4 entry a.b.c.d/(n-96), exactly as Go's
    net.IPNet.Contains treats it. *)
Record entry := { e_fam : family; e_pre : N; e_len : N; e_mapped : bool }.

(** Defect sites of the unchanged code; [ideal] = all off. *)
Record quirks := {
  (* ipfilter.New keeps the 128-bit mask for an IPv4-mapped entry while cidranger
     files the entry under IPv4: the stored network is empty and matches nothing
     (unless its normalised length is 0, which hits the trie root). *)
  q_mapped_entry_dead : bool;
  (* muxInstance.search, cache hit on a route: only the chain server+own rule+path
     is evaluated; filters of earlier host-matching rules are skipped. *)
  q_hit_skips_visited_rules : bool
}.

Definition ideal : quirks :=
  {| q_mapped_entry_dead := false; q_hit_skips_visited_rules := false |}.

(** [contains]: same family and the address agrees with the prefix on the first
    [e_len] bits, written as equality after dropping the host bits. *)
Definition contains (e : entry) (a : addr) : bool :=
  fam_eqb (e_fam e) (a_fam a) &&
  (N.shiftr (a_val a) (fam_bits (e_fam e) - e_len e) =?
   N.shiftr (e_pre e) (fam_bits (e_fam e) - e_len e)).

Definition live (q : quirks) (e : entry) : bool :=
  negb (q_mapped_entry_dead q && e_mapped e && negb (e_len e =? 0)).

Definition contains_q (q : quirks) (e : entry) (a : addr) : bool :=
  live q e && contains e a.

Record ipf := { f_block_default : bool; f_allow : list entry; f_block : list entry }.

Definition in_any (q : quirks) (es : list entry) (a : addr) : bool :=
  existsb (fun e => contains_q q e a) es.

(** the decision table of IPFilter.Allow as a function of the two memberships *)
Definition decide (block_default allowed blocked : bool) : bool :=
  if allowed && blocked then negb block_default
  else if allowed then true
  else if blocked then false
  else negb block_default.

(** [None] = the client address string does not parse (net.ParseIP = nil). *)
Definition allow (q : quirks) (f : ipf) (oa : option addr) : bool :=
  match oa with
  | None => negb (f_block_default f)
  | Some a => decide (f_block_default f) (in_any q (f_allow f) a) (in_any q (f_block f) a)
  end.

Definition chain_allow (q : quirks) (fs : list ipf) (oa : option addr) : bool :=
  forallb (fun f => allow q f oa) fs.

(** a missing filter (nil *IPFilter) allows everything: mux.go allowIP *)
Definition allow_opt (q : quirks) (f : option ipf) (oa : option addr) : bool :=
  match f with None => true | Some f => allow q f oa end.

(** * Part 2: enforcement in muxInstance.search (mini router) *)

(** oracle bits of one path entry for one request: MuxPath.matchPath,
    matchMethod, matchHeaders evaluated by the real code *)
Record pbits := { pb_path : bool; pb_method : bool; pb_hdr : bool }.

Record mpath := {
  mp_filter : option ipf;
  mp_has_hdr : bool;        (* len(path.headers) > 0 *)
  mp_backend : N            (* 0 = backend unknown to the MuxMapper (503) *)
}.
Record mrule := { mr_filter : option ipf; mr_paths : list mpath }.
Record mserver := { ms_filter : option ipf; ms_rules : list mrule }.

Record mreq := {
  rq_ip : option addr;                  (* parsed RealIP *)
  rq_key : N;                           (* id of the cache key host+method+path *)
  rq_hit : bool;                        (* eviction oracle: key present in the cache now *)
  rq_m : list (bool * list pbits)       (* per rule: muxRule.match, per path: pbits *)
}.

Inductive mout :=
| OForbidden
| OStatus (code : N)
| ORoute (ri pi : nat)
| OOracleMiss.                           (* harness defect, never a pass *)

Inductive cval := CStatus (code : N) | CRoute (ri pi : nat).
Definition cache := list (N * cval).

Fixpoint cache_get (k : N) (c : cache) : option cval :=
  match c with
  | [] => None
  | (k', v) :: t => if k =? k' then Some v else cache_get k t
  end.

Definition cache_put (k : N) (v : option cval) (c : cache) : cache :=
  match v with None => c | Some v => (k, v) :: c end.

Inductive pres := PHit (pi : nat) (p : mpath) | PMiss (hm mm : bool).

(** the inner loop of search over the paths of one rule (filter independent) *)
Fixpoint paths_loop (ps : list (mpath * pbits)) (pi : nat) (hm mm : bool) : pres :=
  match ps with
  | [] => PMiss hm mm
  | (p, b) :: t =>
      if negb (pb_path b) then paths_loop t (S pi) hm mm
      else if negb (pb_method b) then paths_loop t (S pi) hm true
      else if mp_has_hdr p && negb (pb_hdr b) then paths_loop t (S pi) true mm
      else PHit pi p
  end.

(** result of the outer loop: outcome and the value handed to putRouteToCache *)
Fixpoint rules_loop (q : quirks) (ip : option addr) (rs : list (mrule * (bool * list pbits)))
         (ri : nat) (hm mm : bool) : mout * option cval :=
  match rs with
  | [] =>
      if hm then (OStatus 400, None)
      else if mm then (OStatus 405, Some (CStatus 405))
      else (OStatus 404, Some (CStatus 404))
  | (r, (hostm, pbs)) :: t =>
      if negb hostm then rules_loop q ip t (S ri) hm mm
      else if negb (allow_opt q (mr_filter r) ip) then (OForbidden, None)
      else match paths_loop (combine (mr_paths r) pbs) 0 hm mm with
           | PHit pi p =>
               let put := if mp_has_hdr p then None else Some (CRoute ri pi) in
               if allow_opt q (mp_filter p) ip then (ORoute ri pi, put) else (OForbidden, put)
           | PMiss hm' mm' => rules_loop q ip t (S ri) hm' mm'
           end
  end.

(** the cache-less router: muxInstance.search with mi.cache == nil *)
Definition search_miss (q : quirks) (s : mserver) (r : mreq) : mout * option cval :=
  if negb (allow_opt q (ms_filter s) (rq_ip r)) then (OForbidden, None)
  else rules_loop q (rq_ip r) (combine (ms_rules s) (rq_m r)) 0 false false.

Definition search_nocache (q : quirks) (s : mserver) (r : mreq) : mout := fst (search_miss q s r).

(** filters of the host-matching rules among the first [n] rules *)
Fixpoint visited_allow (q : quirks) (ip : option addr) (rs : list (mrule * (bool * list pbits)))
         (n : nat) {struct n} : bool :=
  match n, rs with
  | O, _ => true
  | _, [] => true
  | S n', (r, (hostm, _)) :: t =>
      (if hostm then allow_opt q (mr_filter r) ip else true) && visited_allow q ip t n'
  end.

(** a cache hit *)
Definition search_hit (q : quirks) (s : mserver) (r : mreq) (v : cval) : mout :=
  match v with
  | CStatus c => OStatus c
  | CRoute ri pi =>
      match nth_error (ms_rules s) ri with
      | None => OOracleMiss
      | Some rule =>
          match nth_error (mr_paths rule) pi with
          | None => OOracleMiss
          | Some p =>
              let ip := rq_ip r in
              let rules_ok :=
                if q_hit_skips_visited_rules q then allow_opt q (mr_filter rule) ip
                else visited_allow q ip (combine (ms_rules s) (rq_m r)) (S ri) in
              if allow_opt q (ms_filter s) ip && rules_ok && allow_opt q (mp_filter p) ip
              then ORoute ri pi else OForbidden
          end
      end
  end.

Definition search (q : quirks) (s : mserver) (c : cache) (r : mreq) : mout * cache :=
  if rq_hit r then
    match cache_get (rq_key r) c with
    | None => (OOracleMiss, c)
    | Some v => (search_hit q s r v, c)
    end
  else
    let '(o, put) := search_miss q s r in (o, cache_put (rq_key r) put c).

(** what the client and the pipelines see: (status, backend invoked or 0) *)
Definition serve (s : mserver) (o : mout) : N * N :=
  match o with
  | OForbidden => (403, 0)
  | OStatus c => (c, 0)
  | OOracleMiss => (0, 0)
  | ORoute ri pi =>
      match nth_error (ms_rules s) ri with
      | None => (0, 0)
      | Some rule =>
          match nth_error (mr_paths rule) pi with
          | None => (0, 0)
          | Some p => if mp_backend p =? 0 then (503, 0) else (200, mp_backend p)
          end
      end
  end.

Fixpoint run (q : quirks) (s : mserver) (c : cache) (rs : list mreq) : list (N * N) :=
  match rs with
  | [] => []
  | r :: t => let '(o, c') := search q s c r in serve s o :: run q s c' t
  end.

(** request sequences with reloads in between: [Some g] before a request = the server
    is reloaded with generation [g] of the spec first (mux.reload builds a new
    muxInstance: new rule/path/filter objects and an EMPTY route cache) *)
Definition mstep := (option nat * mreq)%type.

Definition after_reload (gens : list mserver) (s : mserver) (c : cache) (rl : option nat) : mserver * cache :=
  match rl with Some g => (nth g gens s, []) | None => (s, c) end.

Fixpoint run_steps (q : quirks) (gens : list mserver) (s : mserver) (c : cache) (steps : list mstep)
  : list (N * N) :=
  match steps with
  | [] => []
  | (rl, r) :: t =>
      let '(s1, c1) := after_reload gens s c rl in
      let '(o, c2) := search q s1 c1 r in
      serve s1 o :: run_steps q gens s1 c2 t
  end.

(** the server in force at each step *)
Fixpoint servers_of (gens : list mserver) (s : mserver) (steps : list mstep) : list mserver :=
  match steps with
  | [] => []
  | (rl, _) :: t => let s1 := fst (after_reload gens s [] rl) in s1 :: servers_of gens s1 t
  end.

(** the same request on a server without a cache *)
Definition no_hit (r : mreq) : mreq :=
  {| rq_ip := rq_ip r; rq_key := rq_key r; rq_hit := false; rq_m := rq_m r |}.

Definition run_nocache (q : quirks) (s : mserver) (rs : list mreq) : list (N * N) :=
  map (fun r => serve s (search_nocache q s r)) rs.

(** the twin server with every filter erased *)
Definition erase_path (p : mpath) : mpath :=
  {| mp_filter := None; mp_has_hdr := mp_has_hdr p; mp_backend := mp_backend p |}.
Definition erase_rule (r : mrule) : mrule :=
  {| mr_filter := None; mr_paths := map erase_path (mr_paths r) |}.
Definition erase (s : mserver) : mserver :=
  {| ms_filter := None; ms_rules := map erase_rule (ms_rules s) |}.

(** ** declarative reading: the filters applying to a request

    the server filter, the filter of every host-matching rule visited up to the
    decision (= up to and including the rule holding the first matching path; all
    host-matching rules when nothing matches), the filter of the matched path. *)
Definition path_matches (pb : mpath * pbits) : bool :=
  pb_path (snd pb) && pb_method (snd pb) && (negb (mp_has_hdr (fst pb)) || pb_hdr (snd pb)).

Fixpoint applying_rules (rs : list (mrule * (bool * list pbits))) : list (option ipf) :=
  match rs with
  | [] => []
  | (r, (hostm, pbs)) :: t =>
      if negb hostm then applying_rules t
      else match find path_matches (combine (mr_paths r) pbs) with
           | Some (p, _) => [mr_filter r; mp_filter p]
           | None => mr_filter r :: applying_rules t
           end
  end.

Definition applying (s : mserver) (r : mreq) : list (option ipf) :=
  ms_filter s :: applying_rules (combine (ms_rules s) (rq_m r)).

Definition denied (q : quirks) (s : mserver) (r : mreq) : bool :=
  existsb (fun f => negb (allow_opt q f (rq_ip r))) (applying s r).
