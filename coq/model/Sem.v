(** Executable model of easegress' connection caps (C17).

    - [wsem], [w_acquire], [notify], [w_release]
          golang.org/x/sync/semaphore.Weighted, modelled from its source:
          FIFO waiter list; Acquire succeeds immediately only if it fits AND nobody
          waits; a request larger than [size] never enters the queue (blocks for ever);
          Release wakes the longest fitting prefix of the queue and panics when more
          is released than is held.
    - [lstate], [lstep]
          pkg/util/sem/semaphore.go        Semaphore (NewSem, Acquire, Release, SetMaxCount)
          pkg/util/limitlistener/limitlistener.go  LimitListener.Accept, limitListenerConn.Close
          as ONE labelled transition system whose labels are the code's critical
          sections.  SetMaxCount = locked capacity update ([LSetMax]) + a goroutine
          that reaches the semaphore LATER ([LRun i], any pending one, any order).
    - [mstate], [mstep]
          pkg/object/mqttproxy/broker.go   checkConnectPermission (early cap check),
          the locked section of handleConn (takeover / second cap check / insert),
          CONNACK write, client tear-down (removeClient).

    Quirk flags (one per defect site of the unchanged code, [ideal] = all off):
    - [q_newsem_unclamped]        NewSem does not clamp n to maxCapacity (SetMaxCount does):
                                  the pre-acquire gets a NEGATIVE weight, [cur] starts
                                  below zero and the first Release panics.
    - [q_grow_release_unchecked]  the grow goroutine releases [n - old] permits even when
                                  the pre-acquired pool holds fewer (queued / re-ordered
                                  shrinks): Weighted.Release panics inside the goroutine
                                  (process crash).  Ideal: the grow step is enabled only
                                  when the pool holds [n - old].
    - [q_mqtt_connack_fail_leaks] handleConn returns after a failed CONNACK write without
                                  removing the client it has just registered.
    No proofs here. *)
From EG.lib Require Import Base.
Open Scope Z_scope.

Record quirks := {
  q_newsem_unclamped : bool;
  q_grow_release_unchecked : bool;
  q_mqtt_connack_fail_leaks : bool
}.
Definition ideal : quirks :=
  {| q_newsem_unclamped := false; q_grow_release_unchecked := false; q_mqtt_connack_fail_leaks := false |}.

(** * x/sync weighted semaphore *)

(** who waits: an acquirer of one permit (Accept / Acquire) or a shrink goroutine *)
Inductive who := WAcc | WAdj.

Definition who_eqb (a b : who) : bool :=
  match a, b with WAcc, WAcc => true | WAdj, WAdj => true | _, _ => false end.

Definition waiter := (who * Z)%type.

Record wsem := { size : Z; cur : Z; wq : list waiter }.

Inductive acq := Acquired | Queued | Doomed.

Definition is_nil {A} (l : list A) : bool := match l with [] => true | _ => false end.

Definition w_acquire (s : wsem) (x : who) (n : Z) : wsem * acq :=
  if (n <=? size s - cur s) && is_nil (wq s)
  then ({| size := size s; cur := cur s + n; wq := wq s |}, Acquired)
  else if size s <? n then (s, Doomed)
  else ({| size := size s; cur := cur s; wq := wq s ++ [(x, n)] |}, Queued).

(** notifyWaiters: (new cur, woken prefix, remaining queue) *)
Fixpoint notify (sz c : Z) (q : list waiter) : Z * list waiter * list waiter :=
  match q with
  | [] => (c, [], [])
  | (x, n) :: t =>
      if sz - c <? n then (c, [], q)
      else let '(c', woken, rest) := notify sz (c + n) t in (c', (x, n) :: woken, rest)
  end.

Definition count_who (x : who) (l : list waiter) : Z :=
  fold_right (fun w a => if who_eqb (fst w) x then a + 1 else a) 0 l.

(** total weight of the queued shrink goroutines *)
Definition qshr (l : list waiter) : Z :=
  fold_right (fun w a => match fst w with WAdj => a + snd w | WAcc => a end) 0 l.

Definition zsum (l : list Z) : Z := fold_right Z.add 0 l.

(** * Semaphore + LimitListener as one transition system *)

Record lstate := {
  ws : wsem;
  real : Z;                (* Semaphore.realCapacity *)
  pend : list Z;           (* signed deltas (n - old) of SetMaxCount goroutines that have not reached the semaphore *)
  held : Z;                (* permits held by acquirers that have no connection (yet): inside the inner Accept *)
  opened : list N;         (* accepted connections that are open *)
  closed : list N;         (* connections whose Close has run *)
  ndone : Z;               (* SetMaxCount goroutines that completed (done channel closed) *)
  doomed : Z;              (* goroutines blocked for ever on a request larger than size *)
  panics : Z;              (* "released more than held" raised in a caller (Close / Release) *)
  crashed : bool           (* the same panic inside a SetMaxCount goroutine: process crash *)
}.

Inductive label :=
| LAcquire                 (* Accept / Acquire: a thread requests one permit *)
| LGot (c : N)             (* the inner Accept hands connection c to a permit holder *)
| LFail                    (* inner Accept error, or Release by a holder: permit given back *)
| LClose (c : N)           (* Close of the wrapped connection c *)
| LSetMax (n : Z)          (* SetMaxCount / SetMaxConnection: the locked part *)
| LRun (i : nat).          (* the i-th pending adjustment goroutine reaches the semaphore *)

Definition linit (q : quirks) (sz n : Z) : lstate :=
  let r := if q_newsem_unclamped q then n else Z.min n sz in
  (* NewSem: Acquire(maxCapacity - realCapacity) on the fresh semaphore: always immediate
     (a negative weight "fits" as well) *)
  {| ws := {| size := sz; cur := sz - r; wq := [] |};
     real := r; pend := []; held := 0; opened := []; closed := [];
     ndone := 0; doomed := 0; panics := 0; crashed := false |}.

Definition set_ws (s : lstate) (w : wsem) : lstate :=
  {| ws := w; real := real s; pend := pend s; held := held s; opened := opened s; closed := closed s;
     ndone := ndone s; doomed := doomed s; panics := panics s; crashed := crashed s |}.

(** woken waiters proceed: acquirers now hold a permit, shrink goroutines are done *)
Definition wake (s : lstate) (woken : list waiter) : lstate :=
  {| ws := ws s; real := real s; pend := pend s; held := held s + count_who WAcc woken;
     opened := opened s; closed := closed s; ndone := ndone s + count_who WAdj woken;
     doomed := doomed s; panics := panics s; crashed := crashed s |}.

(** Weighted.Release(n) called from a caller's thread (Close / Release): on underflow the
    decrement stays, nobody is notified and the caller sees a panic *)
Definition l_release (s : lstate) (n : Z) : lstate :=
  let w := ws s in
  let c := cur w - n in
  if c <? 0 then
    {| ws := {| size := size w; cur := c; wq := wq w |}; real := real s; pend := pend s; held := held s;
       opened := opened s; closed := closed s; ndone := ndone s; doomed := doomed s;
       panics := panics s + 1; crashed := crashed s |}
  else
    let '(c', woken, rest) := notify (size w) c (wq w) in
    wake (set_ws s {| size := size w; cur := c'; wq := rest |}) woken.

Definition mem_N (x : N) (l : list N) : bool := existsb (N.eqb x) l.
Definition remove_N (x : N) (l : list N) : list N := filter (fun y => negb (N.eqb x y)) l.

Fixpoint remove_nth {A} (i : nat) (l : list A) : list A :=
  match l, i with
  | [], _ => []
  | _ :: t, O => t
  | a :: t, S i' => a :: remove_nth i' t
  end.

Definition olen (s : lstate) : Z := Z.of_nat (List.length (opened s)).

(** the pre-acquired pool: permits held by the Semaphore itself, not by any acquirer *)
Definition pool (s : lstate) : Z := cur (ws s) - held s - olen s.

Definition set_pend (s : lstate) (p : list Z) : lstate :=
  {| ws := ws s; real := real s; pend := p; held := held s; opened := opened s; closed := closed s;
     ndone := ndone s; doomed := doomed s; panics := panics s; crashed := crashed s |}.

Definition lstep (q : quirks) (s : lstate) (l : label) : lstate :=
  if crashed s then s else
  match l with
  | LAcquire =>
      match w_acquire (ws s) WAcc 1 with
      | (w, Acquired) =>
          {| ws := w; real := real s; pend := pend s; held := held s + 1; opened := opened s; closed := closed s;
             ndone := ndone s; doomed := doomed s; panics := panics s; crashed := crashed s |}
      | (w, Queued) => set_ws s w
      | (w, Doomed) =>
          {| ws := w; real := real s; pend := pend s; held := held s; opened := opened s; closed := closed s;
             ndone := ndone s; doomed := doomed s + 1; panics := panics s; crashed := crashed s |}
      end
  | LGot c =>
      if (0 <? held s) && negb (mem_N c (opened s)) && negb (mem_N c (closed s)) then
        {| ws := ws s; real := real s; pend := pend s; held := held s - 1; opened := c :: opened s;
           closed := closed s; ndone := ndone s; doomed := doomed s; panics := panics s; crashed := crashed s |}
      else s
  | LFail =>
      if 0 <? held s then
        l_release {| ws := ws s; real := real s; pend := pend s; held := held s - 1; opened := opened s;
                     closed := closed s; ndone := ndone s; doomed := doomed s; panics := panics s;
                     crashed := crashed s |} 1
      else s
  | LClose c =>
      (* limitListenerConn.Close: releaseOnce - only the first Close of an open connection releases *)
      if mem_N c (opened s) then
        l_release {| ws := ws s; real := real s; pend := pend s; held := held s; opened := remove_N c (opened s);
                     closed := c :: closed s; ndone := ndone s; doomed := doomed s; panics := panics s;
                     crashed := crashed s |} 1
      else s
  | LSetMax n =>
      let n' := Z.min n (size (ws s)) in
      {| ws := ws s; real := n'; pend := pend s ++ [n' - real s]; held := held s; opened := opened s;
         closed := closed s; ndone := ndone s; doomed := doomed s; panics := panics s; crashed := crashed s |}
  | LRun i =>
      match nth_error (pend s) i with
      | None => s
      | Some d =>
          let s1 := set_pend s (remove_nth i (pend s)) in
          if 0 <? d then
            (* grow: Weighted.Release(d) in the goroutine *)
            if q_grow_release_unchecked q then
              if cur (ws s) - d <? 0 then
                {| ws := ws s1; real := real s1; pend := pend s1; held := held s1; opened := opened s1;
                   closed := closed s1; ndone := ndone s1; doomed := doomed s1; panics := panics s1;
                   crashed := true |}
              else
                let r := l_release s1 d in
                {| ws := ws r; real := real r; pend := pend r; held := held r; opened := opened r;
                   closed := closed r; ndone := ndone r + 1; doomed := doomed r; panics := panics r;
                   crashed := crashed r |}
            else if pool s <? d then s   (* ideal: not enabled while the pool is too small *)
            else
              let r := l_release s1 d in
              {| ws := ws r; real := real r; pend := pend r; held := held r; opened := opened r;
                 closed := closed r; ndone := ndone r + 1; doomed := doomed r; panics := panics r;
                 crashed := crashed r |}
          else if d <? 0 then
            (* shrink: Weighted.Acquire(old - n) in the goroutine *)
            match w_acquire (ws s1) WAdj (- d) with
            | (w, Acquired) =>
                {| ws := w; real := real s1; pend := pend s1; held := held s1; opened := opened s1;
                   closed := closed s1; ndone := ndone s1 + 1; doomed := doomed s1; panics := panics s1;
                   crashed := crashed s1 |}
            | (w, Queued) => set_ws s1 w
            | (w, Doomed) =>
                {| ws := w; real := real s1; pend := pend s1; held := held s1; opened := opened s1;
                   closed := closed s1; ndone := ndone s1; doomed := doomed s1 + 1; panics := panics s1;
                   crashed := crashed s1 |}
            end
          else
            {| ws := ws s1; real := real s1; pend := pend s1; held := held s1; opened := opened s1;
               closed := closed s1; ndone := ndone s1 + 1; doomed := doomed s1; panics := panics s1;
               crashed := crashed s1 |}
      end
  end.

Definition lrun (q : quirks) (s : lstate) (ls : list label) : lstate := fold_left (lstep q) ls s.

(** permits in use by acquirers (holders without a connection + open connections) *)
Definition used (s : lstate) : Z := held s + olen s.

(** no SetMaxCount goroutine is outstanding: none pending, none queued *)
Definition settled (s : lstate) : bool := is_nil (pend s) && (count_who WAdj (wq (ws s)) =? 0).

(** the capacity the semaphore's own bookkeeping currently implements:
    realCapacity, minus the deltas not yet executed, plus the queued shrinks *)
Definition applied_cap (s : lstate) : Z := real s - zsum (pend s) + qshr (wq (ws s)).

(** vocabulary of the theorems (definitions only) *)
Definition wsum (l : list waiter) : Z := fold_right (fun w a => snd w + a) 0 l.
(** SetMaxConnection takes a uint32 *)
Definition label_ok (l : label) : Prop := match l with LSetMax n => 0 <= n | _ => True end.
Definition only_shrinks (p : list Z) : Prop := Forall (fun d => d <= 0) p.
Definition shrink_at_head (s : lstate) : Prop := exists n t, wq (ws s) = (WAdj, n) :: t.
(** the state reached from NewLimitListener(_, n) (maxCapacity = sz) by a label sequence *)
Definition reach (sz n : Z) (ls : list label) : lstate := lrun ideal (linit ideal sz n) ls.

(** * HTTPServer runtime: hot reloads and listener replacements

    [r_spec] is the maxConnections of the last configured spec (runtime.spec after reload);
    [RStep (LSetMax n)] is a hot reload (SetMaxConnection on the live listener, spec carried
    over); [RRestart] stands for every path that rebuilds the listener from the spec in force:
    a reload that needs a restart, and the recovery of a failed server (eventCheckFailed ->
    startServer) - NewLimitListener(_, r_spec) on a fresh semaphore.

    A listener is replaced only once it has been DRAINED: closeServer runs
    http.Server.Shutdown, which closes the idle connections itself ([LClose] steps) and does
    not return while a request is in flight (within its 30 s grace, which requests are assumed
    to meet). So [RRestart] is enabled only when the listener in force has no open connection;
    [r_old] counts the connections left open on replaced listeners - they are served side by
    side with those of the new listener and belong to the same cap.
    [RRestartUndrained] is the replacement WITHOUT that wait (documented counter-shape). *)
Record rstate := { r_spec : Z; r_l : lstate; r_old : Z }.

Inductive rlabel := RStep (l : label) | RRestart | RRestartUndrained.

Definition rinit (sz n : Z) : rstate := {| r_spec := n; r_l := linit ideal sz n; r_old := 0 |}.

Definition rstep (sz : Z) (r : rstate) (l : rlabel) : rstate :=
  match l with
  | RStep l' => {| r_spec := match l' with LSetMax n => n | _ => r_spec r end; r_l := lstep ideal (r_l r) l';
                  r_old := r_old r |}
  | RRestart =>
      if is_nil (opened (r_l r))
      then {| r_spec := r_spec r; r_l := linit ideal sz (r_spec r); r_old := r_old r |}
      else r     (* Shutdown is still waiting for the listener to drain *)
  | RRestartUndrained =>
      {| r_spec := r_spec r; r_l := linit ideal sz (r_spec r); r_old := r_old r + olen (r_l r) |}
  end.

Definition rrun (sz : Z) (r : rstate) (ls : list rlabel) : rstate := fold_left (rstep sz) ls r.

Definition rlabel_ok (l : rlabel) : Prop :=
  match l with RStep l' => label_ok l' | RRestart => True | RRestartUndrained => False end.

(** connections being served: those of the listener in force and those left on replaced ones *)
Definition r_serving (r : rstate) : Z := used (r_l r) + r_old r.

(** * MQTT broker connection cap *)

(** connection ids are [N]; client ids are strings *)
Record mstate := {
  mcap : Z;                          (* spec.MaxAllowedConnection; <= 0 = unlimited *)
  clients : list (string * N);       (* Broker.clients: client id -> registered connection *)
  checked : list N;                  (* connections past checkConnectPermission, before the locked section *)
  live : list (N * string);          (* accepted connections whose readLoop has not torn down yet *)
  dead : list N;                     (* connections whose Client.close() has run (superseded / deleted): not served any more *)
  dels : list (string * option N)    (* deleteSession calls between their two critical sections: (id, client looked up) *)
}.

Inductive mlabel :=
| MCheck (k : N)                              (* checkConnectPermission of a new connection k *)
| MCommit (k : N) (cid : string) (wfail : bool) (* locked section of handleConn + CONNACK write (wfail: write fails) *)
| MTeardown (k : N)                           (* readLoop of k ends: closeAndDelSession; removeClient *)
| MDelete (cid : string)                      (* deleteSession under ONE critical section (the code as it is): close + removal *)
| MDelLookup (cid : string)                   (* deleteSession split in two critical sections: look-up + close ... *)
| MDelRemove (i : nat).                       (* ... and the removal, which must re-check the looked-up client *)

(** CONNACK return codes (paho): 0 accepted, 3 server unavailable; [MNone] = nothing sent / not applicable *)
Inductive mout := MAccepted | MRefused | MPassed | MNone.

Definition minit (cap : Z) : mstate :=
  {| mcap := cap; clients := []; checked := []; live := []; dead := []; dels := [] |}.

Definition clen (s : mstate) : Z := Z.of_nat (List.length (clients s)).

Fixpoint aremove {A} (k : string) (l : list (string * A)) : list (string * A) :=
  match l with
  | [] => []
  | (k', v) :: t => if String.eqb k k' then aremove k t else (k', v) :: aremove k t
  end.

Definition at_cap (s : mstate) : bool := (0 <? mcap s) && (mcap s <=? clen s).

Fixpoint live_cid (k : N) (l : list (N * string)) : option string :=
  match l with
  | [] => None
  | (k', c) :: t => if N.eqb k k' then Some c else live_cid k t
  end.

Definition live_remove (k : N) (l : list (N * string)) : list (N * string) :=
  filter (fun e => negb (N.eqb k (fst e))) l.

(** removeClient as used by the tear-down of connection k: the entry goes away only if it
    is k's own (the current entry of a superseded connection belongs to a live client) *)
Definition remove_own (k : N) (cid : string) (cl : list (string * N)) : list (string * N) :=
  match alookup cid cl with
  | Some k' => if N.eqb k k' then aremove cid cl else cl
  | None => cl
  end.

Definition mset (s : mstate) (cl : list (string * N)) (ch : list N) (lv : list (N * string))
           (dd : list N) (dl : list (string * option N)) : mstate :=
  {| mcap := mcap s; clients := cl; checked := ch; live := lv; dead := dd; dels := dl |}.

Definition opt_cons (o : option N) (l : list N) : list N := match o with Some k => k :: l | None => l end.

Definition optN_eqb (a b : option N) : bool :=
  match a, b with Some x, Some y => N.eqb x y | None, None => true | _, _ => false end.

(** connections that are served: accepted, not torn down, Client.close() not run *)
Definition served (s : mstate) : list (N * string) := filter (fun e => negb (mem_N (fst e) (dead s))) (live s).
Definition nserved (s : mstate) : Z := Z.of_nat (List.length (served s)).

Definition mstep (q : quirks) (s : mstate) (l : mlabel) : mstate * mout :=
  match l with
  | MCheck k =>
      if mem_N k (checked s) || (match live_cid k (live s) with Some _ => true | None => false end)
      then (s, MNone)
      else if at_cap s then (s, MRefused)
      else (mset s (clients s) (k :: checked s) (live s) (dead s) (dels s), MPassed)
  | MCommit k cid wfail =>
      if negb (mem_N k (checked s)) then (s, MNone) else
      let ch := remove_N k (checked s) in
      let old := alookup cid (clients s) in
      let taken := match old with Some _ => true | None => false end in
      if negb taken && at_cap s then
        (mset s (clients s) ch (live s) (dead s) (dels s), MRefused)
      else
        let cl := (cid, k) :: aremove cid (clients s) in
        let dd := opt_cons old (dead s) in       (* takeover: go oldClient.close() *)
        if wfail then
          (* connack.Write fails: handleConn returns, no readLoop *)
          if q_mqtt_connack_fail_leaks q
          then (mset s cl ch (live s) dd (dels s), MNone)
          else (mset s (aremove cid cl) ch (live s) dd (dels s), MNone)
        else (mset s cl ch ((k, cid) :: live s) dd (dels s), MAccepted)
  | MTeardown k =>
      match live_cid k (live s) with
      | None => (s, MNone)
      | Some cid =>
          (mset s (remove_own k cid (clients s)) (checked s) (live_remove k (live s)) (dead s) (dels s), MNone)
      end
  | MDelete cid =>
      (mset s (aremove cid (clients s)) (checked s) (live s) (opt_cons (alookup cid (clients s)) (dead s)) (dels s), MNone)
  | MDelLookup cid =>
      let old := alookup cid (clients s) in
      (mset s (clients s) (checked s) (live s) (opt_cons old (dead s)) (dels s ++ [(cid, old)]), MNone)
  | MDelRemove i =>
      match nth_error (dels s) i with
      | None => (s, MNone)
      | Some (cid, old) =>
          (* the entry is removed only if it still is the client that was looked up and closed:
             a same-id reconnect registered in between is left alone *)
          let cl := if optN_eqb (alookup cid (clients s)) old then aremove cid (clients s) else clients s in
          (mset s cl (checked s) (live s) (dead s) (remove_nth i (dels s)), MNone)
      end
  end.

Fixpoint mrun (q : quirks) (s : mstate) (ls : list mlabel) : mstate :=
  match ls with
  | [] => s
  | l :: t => mrun q (fst (mstep q s l)) t
  end.
