(** Case types and per-case check functions for C07 (evaluated by vm_compute on the
    traces of the real code).  Result: (corr, prop, class, attributed-flag).

    - corr : the model ([Body.serve]) yields exactly the implementation's observables;
    - prop : the decidable checker [prop_serve] of the property's clauses holds on the
             IMPLEMENTATION's observables (it never looks at the model's outcome; it is
             proved sound for the model in proofs/BodyProofs.v);
    - class: 0 = trivial case, >0 = coverage class. *)
From EG.lib Require Import Base.
From EG.gen Require Import GenBody.
From EG.model Require Import Body.
Open Scope Z_scope.

Definition result := (bool * bool * N * N)%type.

(** what the harness observes *)
Record observed (B : Type) := {
  ob_status : Z; ob_body : B; ob_frame : bool;
  ob_heads : Z;        (* request heads the backend received (complete or not) *)
  ob_complete : Z;     (* completely framed requests the backend received *)
  ob_bbody : B         (* body of that request *)
}.
Arguments ob_status {B}. Arguments ob_body {B}. Arguments ob_frame {B}.
Arguments ob_heads {B}. Arguments ob_complete {B}. Arguments ob_bbody {B}.

Definition enc_wf (e : enc) : bool := match e with EncCL d => 0 <=? d | _ => true end.

(** the default of the property statement ("else 4MB"), NOT the constant extracted from the
    source: the checker stays independent of the code's own default *)
Definition spec_default : Z := 4 * 1024 * 1024.
Definition spec_norm (l : Z) : Z := if l =? 0 then spec_default else l.

Section Checker.
  Variable B : Type.
  Variable blen : B -> Z.
  Variable btake : Z -> B -> B.
  Variable bnil : B.
  Variable beq : B -> B -> bool.

  (** length the framing announces (Content-Length) or, without announcement, carries *)
  Definition wire_len (w : wire B) : Z :=
    match w_enc w with EncCL d => d | EncNone => 0 | _ => blen (w_sent w) end.
  (** the framing is satisfied by what was sent *)
  Definition wire_complete (w : wire B) : bool :=
    match w_enc w with EncCL d => d <=? blen (w_sent w) | EncChunked t => t | _ => true end.
  (** the body a well-framed message carries *)
  Definition wire_body (w : wire B) : B :=
    match w_enc w with EncCL d => btake d (w_sent w) | EncNone => bnil | _ => w_sent w end.
  (** "a body shorter than its declared length" *)
  Definition wire_short (w : wire B) : bool :=
    match w_enc w with EncCL d => blen (w_sent w) <? d | _ => false end.

  Definition over (lim : Z) (w : wire B) : bool := (0 <=? lim) && (lim <? wire_len w).
  Definition fits (lim : Z) (w : wire B) : bool := (lim <? 0) || (wire_len w <=? lim).

  Definition implb (a b : bool) : bool := if a then b else true.

  Definition prop_serve_with (norm : Z -> Z) (cfg : config) (req : wire B) (status : Z) (resp : wire B) (o : observed B) : bool :=
    if negb (enc_wf (w_enc req) && enc_wf (w_enc resp)) then true else
    let ceff := norm (effective (c_path cfg) (c_srv cfg)) in
    let seff := norm (effective (c_pool cfg) (c_proxy cfg)) in
    let passes := wire_complete req && fits ceff req in
    (* oversized request: 413 and no backend sees it, declared or chunked *)
    implb (over ceff req) ((ob_status o =? 413) && (ob_heads o =? 0)) &&
    (* a body within the limit (exactly the limit included) passes intact; -1 streams any size *)
    implb passes ((ob_complete o =? 1) && beq (ob_bbody o) (wire_body req)) &&
    (* request body shorter than its declared length: an error status, nothing forwarded as complete *)
    implb (wire_short req && negb (over ceff req)) ((400 <=? ob_status o) && (ob_complete o =? 0)) &&
    implb passes (
      (* oversized backend response: withheld, 5xx *)
      implb (over seff resp) ((500 <=? ob_status o) && (ob_status o <? 600) && beq (ob_body o) bnil) &&
      (* response within the limit: delivered intact with the backend's status *)
      implb (wire_complete resp && fits seff resp)
            ((ob_status o =? status) && beq (ob_body o) (wire_body resp) && ob_frame o) &&
      (* response body shorter than its declared length: never a well-framed success *)
      implb (wire_short resp && negb (over seff resp)) ((400 <=? ob_status o) || negb (ob_frame o))).

  (** the checker of the run: limits normalised with the statement's 4 MB *)
  Definition prop_serve := prop_serve_with spec_norm.

  (** the model's outcome as observables; [heads] is only determined when the handler is
      not reached (0) or the backend received the whole request (1) *)
  Definition obs_of (o : outcome B) (heads : Z) : observed B :=
    {| ob_status := o_status o; ob_body := o_body o; ob_frame := o_frame_ok o;
       ob_heads := heads;
       ob_complete := match o_backend o with Some _ => 1 | None => 0 end;
       ob_bbody := match o_backend o with Some b => b | None => bnil end |}.

  Definition heads_ok (o : outcome B) (heads : Z) : bool :=
    if negb (o_dispatched o) then heads =? 0
    else match o_backend o with Some _ => heads =? 1 | None => (0 <=? heads) && (heads <=? 1) end.

  Definition corr_serve (m : outcome B) (o : observed B) : bool :=
    (o_status m =? ob_status o) && beq (o_body m) (ob_body o) && Bool.eqb (o_frame_ok m) (ob_frame o) &&
    heads_ok m (ob_heads o) &&
    match o_backend m with
    | Some b => (ob_complete o =? 1) && beq b (ob_bbody o)
    | None => (ob_complete o =? 0) && beq bnil (ob_bbody o)
    end.

  Definition bN (b : bool) (n : N) : N := if b then n else 0%N.

  Definition class_serve (cfg : config) (req : wire B) (resp : wire B) (o : observed B) : N :=
    let ceff := spec_norm (effective (c_path cfg) (c_srv cfg)) in
    let seff := spec_norm (effective (c_pool cfg) (c_proxy cfg)) in
    let trivial := (wire_len req =? 0) && (blen (w_sent req) =? 0) && (ob_heads o =? 0) in
    let b1 := over ceff req in
    let b2 := wire_len req =? ceff in
    let b3 := ceff <? 0 in
    let b4 := over seff resp in
    let b5 := wire_len resp =? seff in
    let b6 := seff <? 0 in
    let b7 := negb (wire_complete req && wire_complete resp) ||
              negb (blen (w_sent req) =? wire_len req) || negb (blen (w_sent resp) =? wire_len resp) in
    if trivial then 0%N else
    (1 + bN b1 1 + bN b2 2 + bN b3 4 + bN b4 8 + bN b5 16 + bN b6 32 + bN b7 64)%N.
End Checker.

Arguments prop_serve {B}. Arguments prop_serve_with {B}. Arguments corr_serve {B}. Arguments class_serve {B}.
Arguments obs_of {B}. Arguments heads_ok {B}. Arguments wire_len {B}. Arguments wire_complete {B}.
Arguments wire_body {B}. Arguments wire_short {B}. Arguments over {B}. Arguments fits {B}.

(** *** instance: bodies as strings (the ordinary cases) *)
Definition slen (s : string) : Z := Z.of_nat (String.length s).
Definition stake (n : Z) (s : string) : string := substring 0 (Z.to_nat n) s.

Record body_case := {
  b_cfg : config;
  b_req_enc : enc; b_req : string;
  b_status : Z;
  b_resp_enc : enc; b_resp : string;
  b_zip : bool; b_minlen : Z;         (* proxy `compression` configured, its minLength *)
  b_ae : option string;               (* the client's Accept-Encoding (None = absent) *)
  b_gz : string;                      (* oracle: gzip of the body the backend's framing carries *)
  b_get : bool;                       (* a body-less GET (cacheable) instead of the POST *)
  b_cmax : Z;                         (* > 0: the pool has a memoryCache (GET, 200) with this maxEntryBytes *)
  b_retry : bool;                     (* pool retryPolicy (2 attempts) + failureCodes [b_first_status] *)
  b_first_status : Z; b_first_body : string;   (* the backend's answer to the first request it receives *)
  b_obbody2 : string;                 (* body of the second complete request the backend received *)
  b_bad : bool;                       (* panic or no response head at all *)
  b_ostatus : Z; b_obody : string; b_oframe : bool;
  b_oheads : Z; b_ocomplete : Z; b_obbody : string
}.

Definition body_obs (c : body_case) : observed string :=
  {| ob_status := b_ostatus c; ob_body := b_obody c; ob_frame := b_oframe c;
     ob_heads := b_oheads c; ob_complete := b_ocomplete c; ob_bbody := b_obbody c |}.

(** strings.Contains *)
Fixpoint str_contains (needle hay : string) : bool :=
  prefix needle hay || match hay with EmptyString => false | String _ t => str_contains needle t end.

(** pkg/filters/proxy/compression.go: the response is compressed when the client accepts
    gzip (no Accept-Encoding at all counts as accepting) and the announced length is unknown
    or at least minLength (the scripted backend never labels its body itself) *)
Definition compressed (c : body_case) : bool :=
  b_zip c &&
  match b_ae c with None => true | Some ae => str_contains "gzip" ae || str_contains "*/*" ae end &&
  match b_resp_enc c with EncCL d => b_minlen c <=? d | _ => true end.

Definition req_wire (c : body_case) : wire string := {| w_enc := b_req_enc c; w_sent := b_req c |}.
Definition resp_wire0 (c : body_case) : wire string := {| w_enc := b_resp_enc c; w_sent := b_resp c |}.
(** what FetchPayload sees: a compressed response is a body of unknown length - the gzip
    stream - that ends cleanly iff the backend's own framing was satisfied *)
Definition resp_wire (c : body_case) : wire string :=
  if compressed c then
    let ok := wire_complete slen (resp_wire0 c) in
    {| w_enc := EncChunked ok; w_sent := if ok then b_gz c else EmptyString |}
  else resp_wire0 c.

(** with a retry policy the backend fails the first attempt with a failure code: a buffered
    request is sent again (same body) and the client gets the second answer; a streamed
    request (limit -1) cannot be sent again: the client gets the first answer *)
Definition first_wire (c : body_case) : wire string :=
  {| w_enc := EncCL (slen (b_first_body c)); w_sent := b_first_body c |}.
Definition streamed_with (norm : Z -> Z) (c : body_case) : bool :=
  norm (effective (c_path (b_cfg c)) (c_srv (b_cfg c))) <? 0.
Definition answer_with (norm : Z -> Z) (c : body_case) : Z * wire string :=
  if b_retry c && streamed_with norm c then (b_first_status c, first_wire c) else (b_status c, resp_wire c).

Definition body_model (c : body_case) : outcome string :=
  let '(st, rw) := answer_with norm_limit c in
  serve slen stake EmptyString (b_cfg c) (req_wire c) st rw.

(** a retried buffered request reaches the backend twice with the same body: seen as one *)
Definition fold_retry (c : body_case) (o : observed string) : observed string :=
  if b_retry c && negb (streamed_with spec_norm c) && (ob_complete o =? 2) && String.eqb (b_obbody2 c) (ob_bbody o)
  then {| ob_status := ob_status o; ob_body := ob_body o; ob_frame := ob_frame o; ob_heads := 1;
          ob_complete := 1; ob_bbody := ob_bbody o |}
  else o.

(** whatever the backend was handed as a complete request body - on the first attempt or on
    a retry - is the client's complete body *)
Definition prop_retry (c : body_case) (o : observed string) : bool :=
  if b_retry c && (2 <=? ob_complete o) then String.eqb (b_obbody2 c) (wire_body stake EmptyString (req_wire c)) else true.

(** "a body shorter than its declared length produces an error status", judged on the
    backend's own framing also when the proxy compresses: never a well-framed success *)
Definition prop_short_resp (c : body_case) (o : observed string) : bool :=
  let ceff := spec_norm (effective (c_path (b_cfg c)) (c_srv (b_cfg c))) in
  let passes := wire_complete slen (req_wire c) && fits slen ceff (req_wire c) in
  if enc_wf (b_req_enc c) && enc_wf (b_resp_enc c) && passes && wire_short slen (resp_wire0 c) && (ob_complete o =? 1)
  then (400 <=? ob_status o) || negb (ob_frame o) else true.

Definition check_body (c : body_case) : result :=
  let o := fold_retry c (body_obs c) in
  let '(st, rw) := answer_with spec_norm c in
  if b_bad c then (false, false, 1%N, 0%N) else
  (corr_serve EmptyString String.eqb (body_model c) o,
   prop_serve slen stake EmptyString String.eqb (b_cfg c) (req_wire c) st rw o && prop_short_resp c o &&
   prop_retry c (body_obs c),
   (class_serve slen (b_cfg c) (req_wire c) (resp_wire0 c) o + bN (compressed c) 128 + bN (b_retry c) 256)%N, 0%N).

Definition explain_body (c : body_case) := body_model c.

(** *** histories with reloads of the mux: every step is judged as a single exchange under
    the limits in force at that step *)
Record reload_case := { rl_steps : list body_case; rl_bad : bool }.

Definition cfg_eqb (a b : config) : bool :=
  (c_srv a =? c_srv b) && (c_path a =? c_path b) && (c_pool a =? c_pool b) && (c_proxy a =? c_proxy b).

Fixpoint reloads (prev : option config) (l : list body_case) : nat :=
  match l with
  | [] => O
  | c :: t => (match prev with Some p => if cfg_eqb p (b_cfg c) then 0 else 1 | None => 0 end + reloads (Some (b_cfg c)) t)%nat
  end.

Definition step_of (c : body_case) : (config * Z) * bool * wire string * Z * wire string :=
  ((b_cfg c, b_cmax c), b_get c, req_wire c, b_status c, resp_wire c).

Definition reload_model (h : reload_case) : list (outcome string) :=
  hrun slen stake EmptyString None None (map step_of (rl_steps h)).

Definition server_eff (c : body_case) : Z := spec_norm (effective (c_pool (b_cfg c)) (c_proxy (b_cfg c))).

(** the observed answer came out of the cache: the backend saw nothing although the request
    itself was acceptable *)
Definition looks_like_hit (c : body_case) : bool :=
  b_get c && (0 <? b_cmax c) && (b_oheads c =? 0) && negb ((b_ostatus c =? 413) || (b_ostatus c =? 400)).

(** the property per step of a history.  Steps that reached the backend are judged as single
    exchanges under the limits in force.  An answer from the cache must be the answer some
    earlier GET of the SAME pipeline generation got from the backend, and - the limit in
    force being the one of the generation that serves the request - must fit that limit *)
Fixpoint prop_reload (same_gen : list body_case) (l : list body_case) : bool :=
  match l with
  | [] => true
  | c :: t =>
      let gen := match same_gen with
                 | p :: _ => if pipe_same (b_cfg p, b_cmax p) (b_cfg c, b_cmax c) then same_gen else []
                 | [] => [] end in
      (if looks_like_hit c then
         existsb (fun j => b_get j && (b_oheads j =? 1) && (b_status j =? 200) && (b_ostatus j =? 200) &&
                           (b_ostatus c =? 200) && String.eqb (b_obody j) (b_obody c)) gen &&
         ((server_eff c <? 0) || (slen (b_obody c) <=? server_eff c)) && b_oframe c
       else snd (fst (fst (check_body c)))) &&
      prop_reload (c :: gen) t
  end.

Fixpoint corr_reload (l : list body_case) (outs : list (outcome string)) : bool :=
  match l, outs with
  | [], [] => true
  | c :: t, o :: t' => negb (b_bad c) && corr_serve EmptyString String.eqb o (body_obs c) && corr_reload t t'
  | _, _ => false
  end.

Definition check_reload (h : reload_case) : result :=
  if rl_bad h then (false, false, 1%N, 0%N) else
  (corr_reload (rl_steps h) (reload_model h), prop_reload [] (rl_steps h),
   match rl_steps h with
   | [] => 0%N
   | _ =>
       let k := N.of_nat (Nat.min 3 (reloads None (rl_steps h))) in
       let b1 := existsb (fun c => b_ostatus c =? 413) (rl_steps h) in
       let b2 := existsb (fun c => c_path (b_cfg c) =? 0) (rl_steps h) in
       let b3 := existsb looks_like_hit (rl_steps h) in
       let b4 := existsb (fun c => 0 <? b_cmax c) (rl_steps h) in
       (1 + k + bN b1 4 + bN b2 8 + bN b3 16 + bN b4 32)%N
   end, 0%N).

Definition explain_reload (h : reload_case) := reload_model h.

(** *** instance: lengths only (4 MiB cases); "intact" bits are computed by the harness *)
Record big_case := {
  g_cfg : config;
  g_req_enc : enc; g_req : Z;
  g_status : Z;
  g_resp_enc : enc; g_resp : Z;
  g_bad : bool;
  g_ostatus : Z; g_olen : Z; g_ointact : bool; g_oframe : bool;
  g_oheads : Z; g_ocomplete : Z; g_oblen : Z; g_obintact : bool
}.

Definition nlen (n : N) : Z := Z.of_N n.
Definition ntake (k : Z) (n : N) : N := N.min (Z.to_N k) n.

Definition big_model (c : big_case) : outcome N :=
  serve nlen ntake 0%N (g_cfg c)
        {| w_enc := g_req_enc c; w_sent := Z.to_N (g_req c) |} (g_status c)
        {| w_enc := g_resp_enc c; w_sent := Z.to_N (g_resp c) |}.

(** the observed lengths stand for the bodies; an observed body that has the length of
    the original but differs from it is represented by a length that cannot match *)
Definition big_obs (c : big_case) : observed N :=
  let req := {| w_enc := g_req_enc c; w_sent := Z.to_N (g_req c) |} in
  let resp := {| w_enc := g_resp_enc c; w_sent := Z.to_N (g_resp c) |} in
  let fix_len (len : Z) (intact : bool) (orig : N) : N :=
    if intact then Z.to_N len
    else if N.eqb (Z.to_N len) orig then (orig + 1)%N else Z.to_N len in
  {| ob_status := g_ostatus c;
     ob_body := fix_len (g_olen c) (g_ointact c) (wire_body ntake 0%N resp);
     ob_frame := g_oframe c; ob_heads := g_oheads c; ob_complete := g_ocomplete c;
     ob_bbody := fix_len (g_oblen c) (g_obintact c) (wire_body ntake 0%N req) |}.

Definition check_big (c : big_case) : result :=
  let req := {| w_enc := g_req_enc c; w_sent := Z.to_N (g_req c) |} in
  let resp := {| w_enc := g_resp_enc c; w_sent := Z.to_N (g_resp c) |} in
  let o := big_obs c in
  if g_bad c then (false, false, 1%N, 0%N) else
  (corr_serve 0%N N.eqb (big_model c) o,
   prop_serve nlen ntake 0%N N.eqb (g_cfg c) req (g_status c) resp o,
   class_serve nlen (g_cfg c) req resp o, 0%N).

Definition explain_big (c : big_case) := big_model c.
