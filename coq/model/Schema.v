(** C13 - executable model of configuration validation (pkg/v) and of the
    run-time preconditions of the kinds it guards.  NO proofs here.

    Pipeline of the real code for one raw document [raw] of kind K
    (filters.NewSpec / resilience.NewPolicy / supervisor.NewSpec):

      yaml.Unmarshal(raw) onto K.DefaultSpec()        [norm]      (type errors reject)
      v.Validate(spec):
        yaml.Marshal(spec) -> JSON -> TrimNull        [trim]
        JSON schema generated from the struct tags    [schema_ok]  over GenSchema (GENERATED)
        custom format functions on the Go values      [format_ok]
        Validate() methods found by traverseGo        [custom_validate]  (hand-modelled)

    External functions (format checkers, regexp patterns, time.ParseDuration,
    text/template parsing) are ORACLE TABLES [orc] supplied per case by the
    harness and universally quantified in the theorems.

    The second half gives, per modelled kind, [precond] (what Create+Init+Handle
    need in order not to panic) and the panic predicates [may_*]; [quirks] has one
    flag per defect site of the unchanged code (DESIGN.md section 5). *)
From Coq Require Import DecimalString.
From EG.lib Require Import Base SchemaTy.
From EG.gen Require Import GenSchema.
Open Scope string_scope.
Open Scope Z_scope.

(** ** JSON helpers *)

Definition jfield (k : string) (v : jvalue) : option jvalue :=
  match v with JObj kv => alookup k kv | _ => None end.
Definition jstr (v : option jvalue) : string := match v with Some (JStr s) => s | _ => "" end.
Definition jnum (v : option jvalue) : Z := match v with Some (JNum n) => n | _ => 0 end.
Definition jbool (v : option jvalue) : bool := match v with Some (JBool b) => b | _ => false end.
Definition jarr (v : option jvalue) : list jvalue := match v with Some (JArr l) => l | _ => [] end.
Definition jobj (v : option jvalue) : list (string * jvalue) := match v with Some (JObj kv) => kv | _ => [] end.
Definition jpresent (v : option jvalue) : bool := match v with Some JNull | None => false | _ => true end.
Definition is_null (v : jvalue) : bool := match v with JNull => true | _ => false end.
Definition str_empty (s : string) : bool := match s with EmptyString => true | _ => false end.
Definition sget (k : string) (v : jvalue) : string := jstr (jfield k v).
Definition nget (k : string) (v : jvalue) : Z := jnum (jfield k v).
Definition bget (k : string) (v : jvalue) : bool := jbool (jfield k v).
Definition aget (k : string) (v : jvalue) : list jvalue := jarr (jfield k v).
Definition oget (k : string) (v : jvalue) : list (string * jvalue) := jobj (jfield k v).

(** structural equality; objects are compared as finite maps (key order is not
    observable: Go marshals maps with sorted keys) *)
Fixpoint jeqb (a b : jvalue) {struct a} : bool :=
  match a, b with
  | JNull, JNull => true
  | JBool x, JBool y => Bool.eqb x y
  | JNum x, JNum y => x =? y
  | JStr x, JStr y => String.eqb x y
  | JArr la, JArr lb =>
      (fix go (la lb : list jvalue) : bool :=
         match la, lb with
         | [], [] => true
         | x :: ta, y :: tb => jeqb x y && go ta tb
         | _, _ => false
         end) la lb
  | JObj ka, JObj kb =>
      Nat.eqb (List.length ka) (List.length kb) &&
      (fix go (ka : list (string * jvalue)) : bool :=
         match ka with
         | [] => true
         | (k, x) :: t => match alookup k kb with Some y => jeqb x y | None => false end && go t
         end) ka
  | _, _ => false
  end.

(** TrimNull of pkg/util/jsontool *)
Definition trim_list (rec : jvalue -> jvalue) : list jvalue -> list jvalue :=
  fix go l := match l with [] => [] | x :: t => if is_null x then go t else rec x :: go t end.
Definition trim_kv (rec : jvalue -> jvalue) : list (string * jvalue) -> list (string * jvalue) :=
  fix go kv := match kv with [] => [] | (k, x) :: t => if is_null x then go t else (k, rec x) :: go t end.

Fixpoint trim (v : jvalue) : jvalue :=
  match v with
  | JArr l => JArr (trim_list trim l)
  | JObj kv => JObj (trim_kv trim kv)
  | _ => v
  end.

Fixpoint dup_free (l : list jvalue) : bool :=
  match l with
  | [] => true
  | x :: t => negb (existsb (jeqb x) t) && dup_free t
  end.

(** ** decoding onto the typed spec ([yaml.Unmarshal] + [yaml.Marshal]) *)

Definition Z_to_string (z : Z) : string := NilZero.string_of_int (Z.to_int z).

(** image of Go's zero value *)
Definition zero_fields (rec : gty -> jvalue) : list (string * fmeta * gty) -> list (string * jvalue) :=
  fix go fs :=
    match fs with
    | [] => []
    | (n, m, ft) :: r =>
        if f_yomit m then go r
        else match ft with
             | TPtr _ | TAny => go r
             | _ => (n, rec ft) :: go r
             end
    end.

Fixpoint zero (t : gty) : jvalue :=
  match t with
  | TBool => JBool false
  | TInt _ _ | TFloat => JNum 0
  | TStr | TBytes => JStr ""
  | TAny | TPtr _ => JNull
  | TSlice _ => JArr []
  | TMap _ => JObj []
  | TStruct fs => JObj (zero_fields zero fs)
  end.

(** yaml.v2 isZero on the Go value whose image is [v] *)
Definition is_zero_fields (rec : gty -> jvalue -> bool) (kv : list (string * jvalue)) : list (string * fmeta * gty) -> bool :=
  fix go fs :=
    match fs with
    | [] => true
    | (n, _, ft) :: r => match alookup n kv with None => true | Some x => rec ft x end && go r
    end.

Fixpoint is_zero (t : gty) (v : jvalue) {struct t} : bool :=
  match v with
  | JNull => true
  | JBool b => negb b
  | JNum n => n =? 0
  | JStr s => str_empty s
  | JArr l => match l with [] => true | _ => false end
  | JObj kv =>
      match t with
      | TStruct fs => is_zero_fields is_zero kv fs
      | TPtr _ => false
      | _ => match kv with [] => true | _ => false end
      end
  end.

Definition is_ptr (t : gty) : bool := match t with TPtr _ | TAny => true | _ => false end.

(** [norm t dflt raw]: the image of the Go value obtained by unmarshalling [raw]
    onto a value whose current content is [dflt] ([JNull] = zero value).  [None] =
    yaml type error (the entry points reject). *)
Definition keep_field (m : fmeta) (ft : gty) (y : jvalue) : bool :=
  negb (is_null y || (f_yomit m && is_zero ft y)).

Definition norm_fields (rec : gty -> jvalue -> jvalue -> option jvalue) (dflt : jvalue) (kv : list (string * jvalue))
  : list (string * fmeta * gty) -> option (list (string * jvalue)) :=
  fix go fs :=
    match fs with
    | [] => Some []
    | (n, m, ft) :: r =>
        let d := match jfield n dflt with Some d => d | None => JNull end in
        let fv := match alookup n kv with
                  | Some x => rec ft d x
                  | None => Some (if is_null d then zero ft else d)
                  end in
        match fv, go r with
        | Some y, Some r' => if keep_field m ft y then Some ((n, y) :: r') else Some r'
        | _, _ => None
        end
    end.

Definition norm_list (rec : jvalue -> option jvalue) : list jvalue -> option (list jvalue) :=
  fix go l :=
    match l with
    | [] => Some []
    | x :: r => match rec x, go r with Some y, Some r' => Some (y :: r') | _, _ => None end
    end.

Definition norm_map (rec : jvalue -> option jvalue) : list (string * jvalue) -> option (list (string * jvalue)) :=
  fix go kv :=
    match kv with
    | [] => Some []
    | (k, x) :: r => match rec x, go r with Some y, Some r' => Some ((k, y) :: r') | _, _ => None end
    end.

Fixpoint norm (t : gty) (dflt raw : jvalue) {struct t} : option jvalue :=
  match raw with
  | JNull =>
      (* yaml null: resets pointers / maps / slices / interfaces, leaves scalars and structs alone *)
      match t with
      | TPtr _ | TAny | TSlice _ | TMap _ => Some (zero t)
      | _ => Some (if is_null dflt then zero t else dflt)
      end
  | _ =>
  match t with
  | TBool => match raw with JBool _ => Some raw | _ => None end
  | TInt lo hi =>
      match raw with
      | JNum n => if (n mod 1000 =? 0) && (lo <=? n / 1000) && (n / 1000 <=? hi) then Some raw else None
      | _ => None
      end
  | TFloat => match raw with JNum _ => Some raw | _ => None end
  | TStr | TBytes =>
      match raw with
      | JStr _ => Some raw
      | JNum n => if n mod 1000 =? 0 then Some (JStr (Z_to_string (n / 1000))) else None
      | JBool b => Some (JStr (if b then "true" else "false"))
      | _ => None
      end
  | TAny => Some raw
  | TPtr t' => norm t' dflt raw
  | TSlice t' => match raw with JArr l => option_map JArr (norm_list (norm t' JNull) l) | _ => None end
  | TMap t' => match raw with JObj kv => option_map JObj (norm_map (norm t' JNull) kv) | _ => None end
  | TStruct fs => match raw with JObj kv => option_map JObj (norm_fields norm dflt kv fs) | _ => None end
  end
  end.

(** ** oracle tables *)

Record str_orc := { so_fm : N; so_pm : N; so_dur : option Z }.
Record orc := {
  o_pats : list string;
  o_strs : list (string * str_orc);
  o_rl_first : list Z;
  o_filters : list (bool * string * string);   (* Pipeline: filters[i] accepted by filters.NewSpec, name, kind *)
  o_resil : list (bool * string * string);
  o_tpl_ok : list (string * bool)              (* builder: template text -> text/template parses it *)
}.

Definition formats : list string :=
  ["urlname"; "httpmethod"; "timerfc3339"; "duration"; "ipcidr"; "hostport"; "regexp"; "base64"; "url";
   "email"; "uri"; "date-time"; "hostname"; "ipv4"; "ipv6"].

Fixpoint index_of (s : string) (l : list string) (i : N) : option N :=
  match l with
  | [] => None
  | x :: t => if String.eqb s x then Some i else index_of s t (i + 1)%N
  end.

(** [None] = the oracle table has no row for the string (harness defect) *)
Definition fmt_ok (o : orc) (f s : string) : option bool :=
  match alookup s (o_strs o), index_of f formats 0%N with
  | Some r, Some i => Some (N.testbit (so_fm r) i)
  | _, _ => None
  end.

Definition pat_ok (o : orc) (p s : string) : option bool :=
  match alookup s (o_strs o), index_of p (o_pats o) 0%N with
  | Some r, Some i => Some (N.testbit (so_pm r) i)
  | _, _ => None
  end.

Definition dur_ns (o : orc) (s : string) : option Z :=
  match alookup s (o_strs o) with Some r => so_dur r | None => None end.

Definition otrue (x : option bool) : bool := match x with Some true => true | _ => false end.

(** every string of the document has an oracle row *)
Fixpoint orc_complete (o : orc) (v : jvalue) : bool :=
  match v with
  | JStr s => match alookup s (o_strs o) with Some _ => true | None => false end
  | JArr l => forallb (orc_complete o) l
  | JObj kv => forallb (fun p => orc_complete o (snd p)) kv
  | _ => true
  end.

(** ** the JSON schema generated from the tags (alecthomas/jsonschema +
    gojsonschema), interpreted directly over [gty] *)

Definition std_format (f : string) : bool :=
  existsb (String.eqb f) ["date-time"; "email"; "hostname"; "ipv4"; "ipv6"; "uri"].

Fixpoint base_ty (t : gty) : gty := match t with TPtr t' => base_ty t' | _ => t end.

(** keyword constraints of one property; [minimum=0]/[maximum=0]/[minItems=0] vanish
    because the generator's Type struct marshals them with [omitempty] *)
Definition field_constraints (o : orc) (m : fmeta) (t : gty) (v : jvalue) : bool :=
  match base_ty t, v with
  | (TStr | TBytes), JStr s =>
      match f_enum m with [] => true | en => existsb (String.eqb s) en end &&
      (if str_empty (f_pattern m) then true else otrue (pat_ok o (f_pattern m) s)) &&
      (if std_format (f_format m) then otrue (fmt_ok o (f_format m) s) else true)
  | (TInt _ _ | TFloat), JNum n =>
      match f_min m with Some k => if k =? 0 then true else k * 1000 <=? n | None => true end &&
      match f_max m with Some k => if k =? 0 then true else n <=? k * 1000 | None => true end
  | TSlice _, JArr l =>
      (if f_minitems m =? 0 then true else f_minitems m <=? Z.of_nat (List.length l)) &&
      (if f_unique m then dup_free l else true)
  | _, _ => true
  end.

Definition schema_fields (o : orc) (rec : gty -> jvalue -> bool) (kv : list (string * jvalue))
  : list (string * fmeta * gty) -> bool :=
  fix go fs :=
    match fs with
    | [] => true
    | (n, m, ft) :: r =>
        (if f_noschema m then true else
         match alookup n kv with
         | None => negb (f_req m)
         | Some x => rec ft x && field_constraints o m ft x
         end) && go r
    end.

Fixpoint schema_ok (o : orc) (t : gty) (v : jvalue) {struct t} : bool :=
  match t with
  | TBool => match v with JBool _ => true | _ => false end
  | TInt _ _ => match v with JNum n => n mod 1000 =? 0 | _ => false end
  | TFloat => match v with JNum _ => true | _ => false end
  | TStr | TBytes => match v with JStr _ => true | _ => false end
  | TAny => true
  | TPtr t' => schema_ok o t' v
  | TSlice t' => match v with JArr l => forallb (schema_ok o t') l | _ => false end
  | TMap t' => match v with JObj kv => forallb (fun p => schema_ok o t' (snd p)) kv | _ => false end
  | TStruct fs => match v with JObj kv => schema_fields o (schema_ok o) kv fs | _ => false end
  end.

(** ** custom format functions (pkg/v/format.go), applied to the Go values *)

Definition custom_format (f : string) : bool :=
  existsb (String.eqb f) ["urlname"; "httpmethod"; "timerfc3339"; "duration"; "ipcidr"; "hostport"; "regexp"; "base64"; "url"].

Definition httpcode_ok (v : jvalue) : bool :=
  match v with JNum n => (100000 <=? n) && (n <? 600000) | _ => false end.

Definition apply_format (o : orc) (f : string) (v : jvalue) : bool :=
  if String.eqb f "httpcode" then httpcode_ok v
  else if String.eqb f "httpcode-array" then match v with JArr l => forallb httpcode_ok l | _ => true end
  else if String.eqb f "httpmethod-array" then
    match v with JArr l => forallb (fun x => match x with JStr s => otrue (fmt_ok o "httpmethod" s) | _ => false end) l | _ => true end
  else if String.eqb f "ipcidr-array" then
    match v with JArr l => forallb (fun x => match x with JStr s => otrue (fmt_ok o "ipcidr" s) | _ => false end) l | _ => true end
  else if String.eqb f "duration" then
    (* time.ParseDuration: the same oracle column the run-time model reads ([dur_ns]) *)
    match v with JStr s => match dur_ns o s with Some _ => true | None => false end | _ => false end
  else if custom_format f then match v with JStr s => otrue (fmt_ok o f s) | _ => false end
  else true.

(** [g] is the UNtrimmed image (what traverseGo walks) *)
Definition format_fields (o : orc) (rec : gty -> jvalue -> bool) (kv : list (string * jvalue))
  : list (string * fmeta * gty) -> bool :=
  fix go fs :=
    match fs with
    | [] => true
    | (n, m, ft) :: r =>
        let x := match alookup n kv with Some x => x | None => zero ft end in
        (if is_ptr ft && is_null x then true   (* nil pointer fields are not traversed *)
         else
           (if str_empty (f_format m) then true
            else if f_jomit m && is_zero ft x then true
            else apply_format o (f_format m) x) &&
           rec ft x) && go r
    end.

(* the image produced by [norm] always has the shape of its type, so the shape-mismatch
   branches ([false]) are never taken on real cases *)
Fixpoint format_ok (o : orc) (t : gty) (g : jvalue) {struct t} : bool :=
  match t with
  | TPtr t' => if is_null g then true else format_ok o t' g
  | TSlice t' => match g with JArr l => forallb (fun x => if is_null x then true else format_ok o t' x) l | _ => false end
  | TMap t' => match g with JObj kv => forallb (fun p => if is_null (snd p) then true else format_ok o t' (snd p)) kv | _ => false end
  | TStruct fs => match g with JObj kv => format_fields o (format_ok o) kv fs | _ => false end
  | _ => true
  end.

(** ** paths into a spec type / a document (used by the proofs: what the tags
    of the GENERATED schema say about the value reached by a path) *)
Inductive step := SField (n : string) | SElem.

Fixpoint field_of (n : string) (fs : list (string * fmeta * gty)) : option (fmeta * gty) :=
  match fs with
  | [] => None
  | (n', m, ft) :: r => if String.eqb n n' then Some (m, ft) else field_of n r
  end.

(** type (and tag content, for a field step) reached by one step; pointers are transparent *)
Definition descend (t : gty) (s : step) : option (option fmeta * gty) :=
  match base_ty t, s with
  | TStruct fs, SField n =>
      match field_of n fs with
      | Some (m, ft) => if f_noschema m then None (* jsonschema:"-": not followed *) else Some (Some m, ft)
      | None => None
      end
  | TSlice t', SElem => Some (None, t')
  | TMap t', SElem => Some (None, t')
  | _, _ => None
  end.

Fixpoint type_at (t : gty) (m0 : option fmeta) (p : list step) : option (option fmeta * gty) :=
  match p with
  | [] => Some (m0, t)
  | s :: r => match descend t s with Some (m, t') => type_at t' m r | None => None end
  end.

Definition one_step (s : step) (g x : jvalue) : Prop :=
  match s with
  | SField n => exists kv, g = JObj kv /\ alookup n kv = Some x
  | SElem => (exists l, g = JArr l /\ In x l) \/ (exists kv k, g = JObj kv /\ In (k, x) kv)
  end.

(** [reach p g v]: [v] is reached from document [g] along [p] *)
Fixpoint reach (p : list step) (g v : jvalue) : Prop :=
  match p with
  | [] => g = v
  | s :: r => exists x, one_step s g x /\ reach r x v
  end.

(** ** quirk flags: one per defect site of the unchanged code *)

Record quirks := {
  q_wr_zero_total : bool;        (* 1 Proxy: weightedRandom with total weight <= 0 panics in ChooseServer *)
  q_rl_zero_period : bool;       (* 2 RateLimiter: limitRefreshPeriod of 0 accepted -> divide by zero *)
  q_sig_no_keystore : bool;      (* 3 Validator: signature without accessKeys accepted -> Verify panics *)
  q_adaptor_codec : bool;        (* 4 Request/ResponseAdaptor: compress/decompress/body combos accepted -> Init panics *)
  q_policy_ref : bool;           (* 5 Pipeline: dangling / wrong-kind resilience policy name accepted -> Init panics *)
  q_fallback_nil_resp : bool;    (* 6 Fallback: Handle panics when the context holds no response *)
  q_null_entry : bool;           (* 7 any kind: null entry in a list/map of pointers is hidden from the schema -> nil deref *)
  q_retry_jitter : bool;         (* 8 Retry: randomizationFactor < 0 (minimum=0 is dropped) or huge wait -> rand.Intn panics *)
  q_builder_template : bool;     (* 9 Request/ResponseBuilder: unparsable template accepted -> template.Must panics in Init *)
  q_topic_index : bool;          (* 10 TopicMapper: negative matchIndex/topicIndex accepted -> index out of range *)
  q_flow_namespace : bool;       (* 11 Pipeline: flow node in a namespace nobody fills -> nil request type assertion *)
  q_stream_compress : bool;      (* 12 Proxy: compression + streamed response body (negative serverMaxBodySize) -> nil deref in collectMetrics *)
  q_mqtt_rules : bool            (* 13 MQTTProxy: rule without `when` / unknown or repeated packetType accepted -> newBroker panics *)
}.

Definition ideal : quirks :=
  {| q_wr_zero_total := false; q_rl_zero_period := false; q_sig_no_keystore := false; q_adaptor_codec := false;
     q_policy_ref := false; q_fallback_nil_resp := false; q_null_entry := false; q_retry_jitter := false;
     q_builder_template := false; q_topic_index := false; q_flow_namespace := false; q_stream_compress := false; q_mqtt_rules := false |}.

Definition flag (q : quirks) (i : N) : bool :=
  match i with
  | 1 => q_wr_zero_total q | 2 => q_rl_zero_period q | 3 => q_sig_no_keystore q | 4 => q_adaptor_codec q
  | 5 => q_policy_ref q | 6 => q_fallback_nil_resp q | 7 => q_null_entry q | 8 => q_retry_jitter q
  | 9 => q_builder_template q | 10 => q_topic_index q | 11 => q_flow_namespace q | 12 => q_stream_compress q | 13 => q_mqtt_rules q
  | _ => false
  end%N.

Definition nflags : N := 13.

Definition only (i : N) : quirks :=
  {| q_wr_zero_total := (i =? 1)%N; q_rl_zero_period := (i =? 2)%N; q_sig_no_keystore := (i =? 3)%N;
     q_adaptor_codec := (i =? 4)%N; q_policy_ref := (i =? 5)%N; q_fallback_nil_resp := (i =? 6)%N;
     q_null_entry := (i =? 7)%N; q_retry_jitter := (i =? 8)%N; q_builder_template := (i =? 9)%N;
     q_topic_index := (i =? 10)%N; q_flow_namespace := (i =? 11)%N; q_stream_compress := (i =? 12)%N; q_mqtt_rules := (i =? 13)%N |}.

(** ** null entries (quirk 7): a [null] in a list / map of pointers survives
    validation because TrimNull removes it before the schema sees the document *)
Definition is_tptr (t : gty) : bool := match t with TPtr _ => true | _ => false end.

Definition null_fields (rec : gty -> jvalue -> bool) (kv : list (string * jvalue)) : list (string * fmeta * gty) -> bool :=
  fix go fs :=
    match fs with
    | [] => false
    | (n, _, ft) :: r => match alookup n kv with Some x => rec ft x | None => false end || go r
    end.

Fixpoint has_null_entry (t : gty) (g : jvalue) {struct t} : bool :=
  match t with
  | TPtr t' => if is_null g then false else has_null_entry t' g
  | TSlice t' => match g with JArr l => existsb (fun x => if is_null x then is_tptr t' else has_null_entry t' x) l | _ => false end
  | TMap t' => match g with JObj kv => existsb (fun p => if is_null (snd p) then is_tptr t' else has_null_entry t' (snd p)) kv | _ => false end
  | TStruct fs => match g with JObj kv => null_fields has_null_entry kv fs | _ => false end
  | _ => false
  end.

(** ** hand-modelled Validate() methods.  [g] is the untrimmed image.  A Go nil
    dereference inside Validate() is recovered by pkg/v and rejects the spec
    (SystemErr): modelled as [false]. *)

Definition no_nulls (l : list jvalue) : bool := forallb (fun x => negb (is_null x)) l.

(** urlrule.StringMatch / proxy.StringMatcher *)
Definition string_match_ok (m : jvalue) : bool :=
  let ex := sget "exact" m in let pre := sget "prefix" m in let re := sget "regex" m in
  if bget "empty" m then str_empty ex && str_empty pre && str_empty re
  else negb (str_empty ex && str_empty pre && str_empty re).

(** ratelimiter.Spec.Validate: every URL's policy (own or default) is defined *)
Definition rl_policy_of (g u : jvalue) : string :=
  let n := sget "policyRef" u in if str_empty n then sget "defaultPolicyRef" g else n.

(* Go: nil *Policy / nil *URLRule entries are dereferenced while searching -> panic -> reject *)
Fixpoint rl_find_policy (name : string) (ps : list jvalue) : option (option jvalue) :=
  match ps with
  | [] => Some None
  | p :: t => if is_null p then None (* nil deref *)
              else if String.eqb (sget "name" p) name then Some (Some p) else rl_find_policy name t
  end.

Definition rl_validate (g : jvalue) : bool :=
  forallb (fun u => if is_null u then false else
             match rl_find_policy (rl_policy_of g u) (aget "policies" g) with
             | Some (Some _) => true
             | _ => false
             end &&
             match jfield "url" u with Some m => string_match_ok m | None => false end)
          (aget "urls" g).

Definition period_ns (o : orc) (p : jvalue) : option Z :=
  let d := sget "limitRefreshPeriod" p in
  if str_empty d then Some 10000000 else dur_ns o d.

(* the repair (quirk 2 off): Spec.Validate rejects a limitRefreshPeriod that parses to a non-positive
   duration; one that does not parse is left to the format check *)
Definition rl_periods_positive (o : orc) (g : jvalue) : bool :=
  forallb (fun p => if is_null p then true else
             match period_ns o p with Some d => 0 <? d | None => true end) (aget "policies" g).

(** validator.Spec.Validate never fails for a named filter (spec == Spec{} needs an empty name);
    httpheader.ValueValidator.Validate: values or regexp *)
Definition hdr_value_ok (vv : jvalue) : bool :=
  negb (match aget "values" vv with [] => true | _ => false end && str_empty (sget "regexp" vv)).

Definition validator_validate (q : quirks) (g : jvalue) : bool :=
  forallb (fun p => if is_null (snd p) then true else hdr_value_ok (snd p)) (oget "headers" g) &&
  (* proposed fix (quirk 3 off): a signature validator needs a non-empty key store *)
  (if q_sig_no_keystore q then true
   else match jfield "signature" g with
        | Some s => negb (match oget "accessKeys" s with [] => true | _ => false end)
        | None => true
        end).

(** Request/ResponseAdaptor: no Validate() in the unchanged code; the proposed fix
    (quirk 4 off) checks exactly what Init panics on *)
Definition codec_ok (g : jvalue) : bool :=
  let c := sget "compress" g in let d := sget "decompress" g in
  (str_empty d || String.eqb d "gzip") && (str_empty c || String.eqb c "gzip") &&
  negb (negb (str_empty c) && negb (str_empty d)) &&
  negb (negb (str_empty (sget "body" g)) && negb (str_empty d)).

Definition pathadaptor_ok (g : jvalue) : bool := true.

(** proxy *)
Definition matcher_validate (f : jvalue) : bool :=
  let pol := sget "policy" f in
  (if String.eqb pol "general" || str_empty pol
   then negb (match oget "headers" f with [] => true | _ => false end)
   else negb (nget "permil" f =? 0)) &&
  forallb (fun p => if is_null (snd p) then false else string_match_ok (snd p)) (oget "headers" f) &&
  forallb (fun u => if is_null u then false else
                    match jfield "url" u with Some m => string_match_ok m | None => false end) (aget "urls" f) &&
  negb (String.eqb pol "headerHash" && str_empty (sget "headerHashKey" f)).

Definition pool_validate (p : jvalue) : bool :=
  let svs := aget "servers" p in
  negb (str_empty (sget "serviceName" p) && match svs with [] => true | _ => false end) &&
  no_nulls svs &&
  (let got := List.length (filter (fun s => 0 <? nget "weight" s) svs) in
   negb (Nat.ltb 0 got && Nat.ltb got (List.length svs))) &&
  match jfield "filter" p with Some f => matcher_validate f | None => true end.

Definition proxy_validate (g : jvalue) : bool :=
  let pools := aget "pools" g in
  no_nulls pools && forallb pool_validate pools &&
  Nat.eqb (List.length (filter (fun p => negb (jpresent (jfield "filter" p))) pools)) 1 &&
  match jfield "mirrorPool" g with
  | Some mp => jpresent (jfield "filter" mp) && negb (jpresent (jfield "memoryCache" mp)) && pool_validate mp
  | None => true
  end.

(** builder.Spec.Validate + Request/ResponseBuilderSpec.Validate *)
Definition tpl_key (g : jvalue) : string :=
  sget "leftDelim" g ++ "|" ++ sget "rightDelim" g ++ "|" ++ sget "template" g.

Definition builder_validate (o : orc) (q : quirks) (g : jvalue) : bool :=
  let ns := sget "sourceNamespace" g in let tpl := sget "template" g in
  negb (str_empty ns && str_empty tpl) && negb (negb (str_empty ns) && negb (str_empty tpl)) &&
  (String.eqb (sget "protocol" g) "http" || String.eqb (sget "protocol" g) "mqtt") &&
  (* proposed fix (quirk 9 off): Validate parses the template *)
  (if q_builder_template q then true
   else if str_empty tpl then true else match alookup (tpl_key g) (o_tpl_ok o) with Some b => b | None => false end).

(** resilience: Validate() are TODO stubs in the code; proposed fix (quirk 8 off) *)
Definition retry_jitter_ok (o : orc) (g : jvalue) : bool :=
  let f := nget "randomizationFactor" g in        (* thousandths *)
  let w := match dur_ns o (sget "waitDuration" g) with Some d => if 0 <? d then d else 500000000 | None => 500000000 end in
  (0 <=? f) && (2 * w * f + 1000 <? 9223372036854775807 * 1000).

Definition retry_validate (o : orc) (q : quirks) (g : jvalue) : bool :=
  if q_retry_jitter q then true else retry_jitter_ok o g.

(** topicmapper: proposed fix (quirk 10 off): indexes must not be negative *)
Definition topic_index_ok (g : jvalue) : bool :=
  (0 <=? nget "matchIndex" g) && forallb (fun p => if is_null p then true else 0 <=? nget "topicIndex" p) (aget "policies" g).

(** kinds whose every reachable Validate() method is modelled here *)
Definition cv_modelled : list string :=
  ["RateLimiter"; "Validator"; "RequestAdaptor"; "ResponseAdaptor"; "Proxy"; "Retry"; "CircuitBreaker";
   "RequestBuilder"; "ResponseBuilder"; "Fallback"; "CORSAdaptor"; "TopicMapper"; "Pipeline"].

Definition in_list (s : string) (l : list string) : bool := existsb (String.eqb s) l.

(** Pipeline: filters[i] accepted (oracle / recursion is in SchemaCheck), names, flow, resilience *)
Definition results_of (kind : string) : list string :=
  match find (fun k => String.eqb (k_name k) kind && String.eqb (k_cat k) "filter") kinds with
  | Some k => k_results k
  | None => []
  end.

(* ValidateJumpIf: walks the flow backwards; [valid] counts aliases seen so far (END = 1) *)
Fixpoint count_str (s : string) (l : list string) : nat :=
  match l with [] => O | x :: t => (if String.eqb s x then 1 else 0) + count_str s t end%nat.

Definition node_alias (n : jvalue) : string :=
  let a := sget "alias" n in if str_empty a then sget "filter" n else a.

(* [later]: aliases of the nodes after this one *)
Fixpoint flow_ok (decls : list (string * string)) (nodes : list jvalue) : bool * list string :=
  match nodes with
  | [] => (true, ["END"])
  | n :: t =>
      let '(ok, later) := flow_ok decls t in
      let name := sget "filter" n in
      if String.eqb name "END" then (ok, later)
      else
        match alookup name decls with
        | None => (false, later)
        | Some kind =>
            (ok && forallb (fun p => in_list (fst p) (results_of kind) &&
                                     match snd p with JStr tgt => Nat.eqb (count_str tgt later) 1 | _ => false end)
                           (oget "jumpIf" n),
             node_alias n :: later)
        end
  end.

Fixpoint names_distinct (l : list string) : bool :=
  match l with [] => true | x :: t => negb (in_list x t) && names_distinct t end.

(** mqttproxy: no Validate() in the unchanged code; getPipelineMap (called by newBroker, which panics on its
    error) needs every rule to have a `when` with one of the five packet types, each at most once.
    The proposed repair (quirk 13 off) is a Spec.Validate that runs the same check. *)
Definition mqtt_packet_types : list string := ["Connect"; "Disconnect"; "Publish"; "Subscribe"; "Unsubscribe"].

Definition mqtt_rule_type (r : jvalue) : option string :=
  match jfield "when" r with
  | Some w => if is_null w then None else Some (sget "packetType" w)
  | None => None
  end.

Definition mqtt_rules_ok (g : jvalue) : bool :=
  let ts := map mqtt_rule_type (aget "rules" g) in
  forallb (fun t => match t with Some s => existsb (String.eqb s) mqtt_packet_types | None => false end) ts &&
  names_distinct (map (fun t => match t with Some s => s | None => "" end) ts).

(** resolution of a pool's policy names against the pipeline's resilience section
    (map insertion order: the last policy of a name wins) *)
Fixpoint resil_kind (name : string) (rs : list (bool * string * string)) (acc : option string) : option string :=
  match rs with
  | [] => acc
  | (_, n, k) :: t => resil_kind name t (if String.eqb n name then Some k else acc)
  end.

Definition pool_refs_ok (rs : list (bool * string * string)) (p : jvalue) : bool :=
  let r := sget "retryPolicy" p in let c := sget "circuitBreakerPolicy" p in
  (if str_empty r then true else match resil_kind r rs None with Some k => String.eqb k "Retry" | None => false end) &&
  (if str_empty c then true else match resil_kind c rs None with Some k => String.eqb k "CircuitBreaker" | None => false end).

(** Validate() methods of the leaf kinds (everything but Pipeline) *)
Definition custom_validate (o : orc) (q : quirks) (kind : string) (g : jvalue) : bool :=
  if String.eqb kind "RateLimiter" then rl_validate g && (if q_rl_zero_period q then true else rl_periods_positive o g)
  else if String.eqb kind "Validator" then validator_validate q g
  else if String.eqb kind "RequestAdaptor" || String.eqb kind "ResponseAdaptor" then
    (if q_adaptor_codec q then true else codec_ok g)
  else if String.eqb kind "Proxy" then proxy_validate g
  else if String.eqb kind "RequestBuilder" || String.eqb kind "ResponseBuilder" then builder_validate o q g
  else if String.eqb kind "Retry" then retry_validate o q g
  else if String.eqb kind "TopicMapper" then (if q_topic_index q then true else topic_index_ok g)
  else if String.eqb kind "MQTTProxy" then (if q_mqtt_rules q then true else mqtt_rules_ok g)
  else true.

(** the Validate() methods modelled above (Go type names); [kind_validators] of the GENERATED file lists
    what traverseGo can reach from each kind's spec type *)
Definition modelled_validators : list string :=
  ["ratelimiter.Spec"; "urlrule.StringMatch"; "httpheader.ValueValidator"; "validator.Spec";
   "proxy.MethodAndURLMatcher"; "proxy.RequestMatcherSpec"; "proxy.ServerPoolSpec"; "proxy.Spec"; "proxy.StringMatcher";
   "builder.RequestBuilderSpec"; "builder.ResponseBuilderSpec"; "builder.Spec";
   "resilience.CircuitBreakerPolicy"; "resilience.RetryPolicy"; "topicmapper.Spec"; "pipeline.Spec"; "mqttproxy.Spec";
   "requestadaptor.Spec"; "responseadaptor.Spec"].

Definition validators_covered (ks : list string) : bool :=
  forallb (fun k => match alookup k kind_validators with
                    | Some vs => forallb (fun v => existsb (String.eqb v) modelled_validators) vs
                    | None => false
                    end) ks.

(** ** whole validation *)

Definition kind_info_of (cat kind : string) : option kind_info :=
  find (fun k => String.eqb (k_name k) kind && String.eqb (k_cat k) cat) kinds.

(** MetaSpec validation: name (urlname), kind, version are required strings; the decoded
    MetaSpec always marshals all three, so only the format can fail *)
Definition meta_ok (o : orc) (raw : jvalue) : option bool :=
  match norm T_supervisor_MetaSpec (JObj [("version", JStr "easegress.megaease.com/v2")]) raw with
  | None => None
  | Some g => Some (schema_ok o T_supervisor_MetaSpec (trim g) && format_ok o T_supervisor_MetaSpec g)
  end.

Definition raw_kind (raw : jvalue) : string :=
  match jfield "kind" raw with
  | Some (JStr s) => s
  | Some (JNum n) => Z_to_string (n / 1000)
  | Some (JBool b) => if b then "true" else "false"
  | _ => ""
  end.

Record verdict := {
  v_meta : bool; v_known : bool; v_decode_err : bool;
  v_ty : gty;
  v_image : jvalue;      (* untrimmed image G *)
  v_js : bool; v_fmt : bool; v_gen : bool;   (* true = that class of errors is present *)
  v_accept : bool
}.

Definition reject (meta known derr : bool) : verdict :=
  {| v_meta := meta; v_known := known; v_decode_err := derr; v_ty := TAny; v_image := JNull;
     v_js := false; v_fmt := false; v_gen := false; v_accept := false |}.

(** [cv]: the Validate() methods of the kind (leaf kinds: [custom_validate]) *)
Definition validate_with (cv : string -> jvalue -> bool) (o : orc) (q : quirks) (cat : string) (raw : jvalue) : verdict :=
  let kind := raw_kind raw in
  match meta_ok o raw with
  | None => reject false false true
  | Some mok =>
      match kind_info_of cat kind with
      | None => reject mok false false
      | Some ki =>
          match norm (k_ty ki) (JObj (k_defaults ki)) raw with
          | None => reject mok true true
          | Some g =>
              let js := schema_ok o (k_ty ki) (trim g) in
              let fm := format_ok o (k_ty ki) g in
              (* the proposed fix of quirk 7 rejects null entries in v.Validate itself *)
              let nul := if q_null_entry q then true else negb (has_null_entry (k_ty ki) g) in
              let cvr := cv kind g && nul in
              {| v_meta := mok; v_known := true; v_decode_err := false; v_ty := k_ty ki; v_image := g;
                 v_js := negb js; v_fmt := negb fm; v_gen := negb cvr;
                 v_accept := mok && js && fm && cvr |}
          end
      end
  end.

Definition validate_leaf (o : orc) (q : quirks) (cat : string) (raw : jvalue) : verdict :=
  validate_with (custom_validate o q) o q cat raw.

(** ** run-time: the panic sites of Create + Init + Handle per kind.

    Defects repaired at validation time (2,3,4,5,7,8,9,10,11) leave the run-time
    site in place: the predicate is unconditional.  Defects repaired at run time
    (1 weightedRandom, 6 Fallback) are guarded by their flag. *)

Definition total_weight (svs : list jvalue) : Z := fold_left (fun a s => a + nget "weight" s) svs 0.

Definition pool_wr_bad (p : jvalue) : bool :=
  String.eqb (sget "policy" (match jfield "loadBalance" p with Some l => l | None => JNull end)) "weightedRandom" &&
  negb (match aget "servers" p with [] => true | _ => false end) &&
  (total_weight (aget "servers" p) <=? 0).

Definition proxy_pools (g : jvalue) : list jvalue :=
  aget "pools" g ++ match jfield "mirrorPool" g with Some m => [m] | None => [] end.

(** RateLimiter: the limiter bound to URL rule [u] divides by its period
    (time.ParseDuration errors are ignored by createRateLimiter: period 0) *)
Definition rl_bound_policy (g u : jvalue) : option jvalue :=
  match rl_find_policy (rl_policy_of g u) (aget "policies" g) with Some (Some p) => Some p | _ => None end.

Definition rl_period (o : orc) (p : jvalue) : Z :=
  match period_ns o p with Some d => d | None => 0 end.

Definition rl_url_bad (o : orc) (g u : jvalue) : bool :=
  match rl_bound_policy g u with
  | Some p => rl_period o p =? 0
  | None => true      (* nil policy dereferenced in createRateLimiter *)
  end.

Definition sig_no_keys (g : jvalue) : bool :=
  match jfield "signature" g with Some s => match oget "accessKeys" s with [] => true | _ => false end | None => false end.

Definition tpl_bad (o : orc) (g : jvalue) : bool :=
  negb (str_empty (sget "template" g)) && str_empty (sget "sourceNamespace" g) &&
  negb (match alookup (tpl_key g) (o_tpl_ok o) with Some b => b | None => false end).

Definition is_adaptor (kind : string) : bool := String.eqb kind "RequestAdaptor" || String.eqb kind "ResponseAdaptor".
Definition is_builder (kind : string) : bool := String.eqb kind "RequestBuilder" || String.eqb kind "ResponseBuilder".

(** regexp.MustCompile sites (urlrule.URLRule.Init, proxy StringMatcher.init): guarded by [format=regexp] tags *)
Definition regex_bad (o : orc) (m : jvalue) : bool :=
  let re := sget "regex" m in negb (str_empty re) && negb (otrue (fmt_ok o "regexp" re)).

Definition rl_regex_bad (o : orc) (g : jvalue) : bool :=
  existsb (fun u => match jfield "url" u with Some m => regex_bad o m | None => false end) (aget "urls" g).

Definition matcher_regex_bad (o : orc) (f : jvalue) : bool :=
  existsb (fun p => regex_bad o (snd p)) (oget "headers" f) ||
  existsb (fun u => match jfield "url" u with Some m => regex_bad o m | None => false end) (aget "urls" f).

Definition proxy_regex_bad (o : orc) (g : jvalue) : bool :=
  existsb (fun p => match jfield "filter" p with Some f => matcher_regex_bad o f | None => false end) (proxy_pools g).

(** circuitbreaker.CountBasedWindow.Push indexes a bucket slice of length slidingWindowSize: guarded by [minimum=1] *)
Definition cb_window_bad (g : jvalue) : bool :=
  match jfield "slidingWindowSize" g with Some (JNum n) => n <? 1000 | _ => true end.

(** Proxy: with [compression] the gzip reader replaces the CallbackReader that collectMetrics
    expects when the response body is streamed (effective serverMaxBodySize < 0) *)
Definition pool_streams (g p : jvalue) : bool :=
  let m := nget "serverMaxBodySize" p in
  (if m =? 0 then nget "serverMaxBodySize" g else m) <? 0.

Definition proxy_stream_compress (g : jvalue) : bool :=
  jpresent (jfield "compression" g) && existsb (pool_streams g) (aget "pools" g).

Definition may_init (o : orc) (q : quirks) (ty : gty) (kind : string) (g : jvalue) : bool :=
  has_null_entry ty g ||
  (String.eqb kind "RateLimiter" && rl_regex_bad o g) ||
  (String.eqb kind "Proxy" && proxy_regex_bad o g) ||
  (is_adaptor kind && negb (codec_ok g)) ||
  (is_builder kind && tpl_bad o g) ||
  (String.eqb kind "RateLimiter" && existsb (fun u => match rl_bound_policy g u with None => true | Some _ => false end) (aget "urls" g)) ||
  (String.eqb kind "MQTTProxy" && negb (mqtt_rules_ok g)).

Definition may_handle (o : orc) (q : quirks) (ty : gty) (kind : string) (g : jvalue) : bool :=
  has_null_entry ty g ||
  (q_wr_zero_total q && String.eqb kind "Proxy" && existsb pool_wr_bad (proxy_pools g)) ||
  (q_stream_compress q && String.eqb kind "Proxy" && proxy_stream_compress g) ||
  (String.eqb kind "RateLimiter" && existsb (rl_url_bad o g) (aget "urls" g)) ||
  (String.eqb kind "Validator" && sig_no_keys g) ||
  (q_fallback_nil_resp q && String.eqb kind "Fallback") ||
  (String.eqb kind "Retry" && negb (retry_jitter_ok o g)) ||
  (String.eqb kind "CircuitBreaker" && cb_window_bad g) ||
  (String.eqb kind "TopicMapper" && negb (topic_index_ok g)).

(** ** Pipeline *)

(** verdict on the nested filter / policy documents: the model itself for the kinds
    whose Validate() methods are all modelled, the oracle bit otherwise *)
Definition cv_leaf : list string :=
  ["RateLimiter"; "Validator"; "RequestAdaptor"; "ResponseAdaptor"; "Proxy"; "Retry"; "CircuitBreaker";
   "RequestBuilder"; "ResponseBuilder"; "Fallback"; "CORSAdaptor"; "TopicMapper"].

Definition nested_acc (o : orc) (q : quirks) (cat : string) (raw : jvalue) (ok : bool) : bool :=
  let v := validate_leaf o q cat raw in
  if in_list (raw_kind raw) cv_leaf then v_accept v
  else (* unmodelled Validate() methods: oracle verdict, plus the generic null-entry repair *)
       ok && (q_null_entry q || negb (has_null_entry (v_ty v) (v_image v))).

Definition nested (o : orc) (q : quirks) (cat : string) (raws : list jvalue) (orcs : list (bool * string * string))
  : list (bool * string * string * verdict) :=
  map (fun '(raw, (ok, _, _)) =>
         let v := validate_leaf o q cat raw in
         (nested_acc o q cat raw ok, sget "name" (v_image v), raw_kind raw, v))
      (combine raws orcs).

Definition nested_decl (x : bool * string * string * verdict) : bool * string * string :=
  let '(ok, n, k, _) := x in (ok, n, k).

Definition pipeline_validate (o : orc) (q : quirks) (g : jvalue) : bool :=
  let fs := nested o q "filter" (aget "filters" g) (o_filters o) in
  let rs := nested o q "resilience" (aget "resilience" g) (o_resil o) in
  let fd := map nested_decl fs in let rd := map nested_decl rs in
  Nat.eqb (List.length fs) (List.length (aget "filters" g)) &&
  Nat.eqb (List.length rs) (List.length (aget "resilience" g)) &&
  forallb (fun f => fst (fst f)) fd &&
  forallb (fun f => negb (String.eqb (snd (fst f)) "END")) fd &&
  names_distinct (map (fun f => snd (fst f)) fd) &&
  fst (flow_ok (map (fun f => (snd (fst f), snd f)) fd) (aget "flow" g)) &&
  forallb (fun r => fst (fst r)) rd &&
  (* proposed repair of quirk 5: policy names of Proxy pools resolve to policies of the right kind *)
  (if q_policy_ref q then true
   else forallb (fun '(_, _, k, v) => if String.eqb k "Proxy" then forallb (pool_refs_ok rd) (aget "pools" (v_image v)) else true) fs) &&
  (* repair of quirk 11: only builders may run in a namespace of their own *)
  (if q_flow_namespace q then true
   else forallb (fun n => let ns := sget "namespace" n in
                          str_empty ns || String.eqb ns "DEFAULT" ||
                          match alookup (sget "filter" n) (map (fun f => (snd (fst f), snd f)) fd) with
                          | Some k => is_builder k
                          | None => true
                          end) (aget "flow" g)).

Definition validate (o : orc) (q : quirks) (cat : string) (raw : jvalue) : verdict :=
  validate_with (fun kind g => if String.eqb kind "Pipeline" then pipeline_validate o q g else custom_validate o q kind g)
                o q cat raw.

Definition pipeline_may_init (o : orc) (q : quirks) (g : jvalue) : bool :=
  let fs := nested o q "filter" (aget "filters" g) (o_filters o) in
  let rd := map nested_decl (nested o q "resilience" (aget "resilience" g) (o_resil o)) in
  existsb (fun '(_, _, k, v) => may_init o q (v_ty v) k (v_image v) ||
                                (String.eqb k "Proxy" && negb (forallb (pool_refs_ok rd) (aget "pools" (v_image v))))) fs.

Definition flow_namespace_bad (decls : list (string * string)) (g : jvalue) : bool :=
  existsb (fun n => let ns := sget "namespace" n in
                    negb (str_empty ns || String.eqb ns "DEFAULT") &&
                    match alookup (sget "filter" n) decls with Some k => negb (is_builder k) | None => false end)
          (aget "flow" g).

Definition pipeline_may_handle (o : orc) (q : quirks) (g : jvalue) : bool :=
  let fs := nested o q "filter" (aget "filters" g) (o_filters o) in
  existsb (fun '(_, _, k, v) => may_handle o q (v_ty v) k (v_image v)) fs ||
  flow_namespace_bad (map (fun f => let '(_, n, k, _) := f in (n, k)) fs) g.
