(** C06 - executable model of the Validator filter
    (pkg/filters/validator/{validator,jwt,basicauth}.go, pkg/util/signer/signer.go,
    pkg/protocols/httpprot/httpheader/validator.go).  NO proofs in this file.

    The request is what net/http hands to the filter after
    [httpprot.NewRequest] + [FetchPayload]: method, [URL.EscapedPath()], the
    parsed query ([URL.Query()]), [Host], the header map (canonical keys), the
    buffered payload.  Everything computed by a library outside the anchored
    code (regexp, base64, JSON/JWT segment decoding, CanonicalMIMEHeaderKey,
    time.Parse, strconv.ParseUint, SHA-256, HMAC) is a field of the record
    [oracle]; theorems quantify over it (with injectivity hypotheses for the
    cryptographic fields), the per-run check instantiates it with tables
    computed by the harness with the real Go libraries.

    Defect sites of the pinned code are switched by [quirks]; [ideal] = all off. *)
From EG.lib Require Import Base.
From Coq Require Import DecimalString.
Open Scope string_scope.

(** * Strings (Go [strings] / [bytes] helpers used by the anchored code) *)

Definition nl : string := String "010"%char EmptyString.
Definition chr (s : string) : ascii := match s with String a _ => a | EmptyString => zero end.

Definition join (sep : string) (l : list string) : string := String.concat sep l.

(** [strings.Split s (String c "")] *)
Fixpoint split_on (c : ascii) (s : string) : list string :=
  match s with
  | EmptyString => [EmptyString]
  | String a t =>
      let r := split_on c t in
      if Ascii.eqb a c then EmptyString :: r
      else match r with
           | h :: tl => String a h :: tl
           | [] => [String a EmptyString]
           end
  end.

Fixpoint sdrop (n : nat) (s : string) : string :=
  match n, s with
  | O, _ => s
  | S n', String _ t => sdrop n' t
  | S _, EmptyString => EmptyString
  end.

Fixpoint stake (n : nat) (s : string) : string :=
  match n, s with
  | O, _ => EmptyString
  | S n', String a t => String a (stake n' t)
  | S _, EmptyString => EmptyString
  end.

(** [strings.IndexByte] *)
Fixpoint index_byte (c : ascii) (s : string) : option nat :=
  match s with
  | EmptyString => None
  | String a t => if Ascii.eqb a c then Some O
                  else match index_byte c t with Some n => Some (S n) | None => None end
  end.

(** [strings.LastIndexByte] as a Z (-1 = absent) *)
Fixpoint last_index_from (c : ascii) (s : string) (i : Z) (acc : Z) : Z :=
  match s with
  | EmptyString => acc
  | String a t => last_index_from c t (i + 1)%Z (if Ascii.eqb a c then i else acc)
  end.
Definition last_index_byte (c : ascii) (s : string) : Z := last_index_from c s 0%Z (-1)%Z.

Definition has_char (c : ascii) (s : string) : bool :=
  match index_byte c s with Some _ => true | None => false end.

Fixpoint srev_acc (s acc : string) : string :=
  match s with EmptyString => acc | String a t => srev_acc t (String a acc) end.
Definition srev (s : string) : string := srev_acc s EmptyString.

Fixpoint strip_left (p : ascii -> bool) (s : string) : string :=
  match s with
  | String a t => if p a then strip_left p t else s
  | EmptyString => EmptyString
  end.
Definition strip_both (p : ascii -> bool) (s : string) : string :=
  srev (strip_left p (srev (strip_left p s))).

(** [strings.TrimSpace] restricted to the ASCII white space bytes 9-13 and 32 *)
Definition is_ascii_space (a : ascii) : bool :=
  let n := N_of_ascii a in ((9 <=? n) && (n <=? 13) || (n =? 32))%N.
Definition trim_space := strip_both is_ascii_space.
Definition is_sp (a : ascii) : bool := Ascii.eqb a " "%char.

(** insertion sort, byte-wise lexicographic order (Go's [sort.Strings]) *)
Fixpoint sinsert (x : string) (l : list string) : list string :=
  match l with
  | [] => [x]
  | y :: t => if String.leb x y then x :: l else y :: sinsert x t
  end.
Definition ssort (l : list string) : list string := fold_right sinsert [] l.

Fixpoint kinsert {A} (x : string * A) (l : list (string * A)) : list (string * A) :=
  match l with
  | [] => [x]
  | y :: t => if String.leb (fst x) (fst y) then x :: l else y :: kinsert x t
  end.
Definition ksort {A} (l : list (string * A)) : list (string * A) := fold_right kinsert [] l.

(** lower-case hexadecimal ([hex.EncodeToString]) and the upper-case digits of
    the percent escapes *)
Definition hexdigit (up : bool) (n : N) : ascii :=
  if (n <? 10)%N then ascii_of_N (48 + n)
  else ascii_of_N ((if up then 55 else 87) + n).
Definition hex2 (up : bool) (a : ascii) (rest : string) : string :=
  let n := N_of_ascii a in
  String (hexdigit up (n / 16)) (String (hexdigit up (n mod 16)) rest).
Fixpoint hex_of_string (s : string) : string :=
  match s with
  | EmptyString => EmptyString
  | String a t => hex2 false a (hex_of_string t)
  end.

(** the character class shared by [noEscapeChars] (signer.go) and
    [url.QueryEscape]: A-Z a-z 0-9 - . _ ~ *)
Definition unreserved (a : ascii) : bool :=
  let n := N_of_ascii a in
  ((65 <=? n) && (n <=? 90) || (97 <=? n) && (n <=? 122) || (48 <=? n) && (n <=? 57)
   || (n =? 45) || (n =? 46) || (n =? 95) || (n =? 126))%N.

(** [buildCanonicalURI]: every byte of the escaped path that is neither
    unreserved nor '/' is percent-escaped again (so '%' becomes "%25") *)
Fixpoint uri_escape (s : string) : string :=
  match s with
  | EmptyString => EmptyString
  | String a t =>
      if unreserved a || Ascii.eqb a "/"%char then String a (uri_escape t)
      else String "%"%char (hex2 true a (uri_escape t))
  end.
Definition canonical_uri (escpath : string) : string :=
  match escpath with EmptyString => "/" | _ => uri_escape escpath end.

(** [url.QueryEscape] *)
Fixpoint qesc (s : string) : string :=
  match s with
  | EmptyString => EmptyString
  | String a t =>
      if unreserved a then String a (qesc t)
      else if Ascii.eqb a " "%char then String "+"%char (qesc t)
      else String "%"%char (hex2 true a (qesc t))
  end.

Definition Z_to_dec (z : Z) : string := NilZero.string_of_int (Z.to_int z).

(** * Multi-valued maps (http.Header, url.Values): association lists with
      distinct keys *)
Definition mmap := list (string * list string).

Fixpoint mget_all (k : string) (m : mmap) : list string :=
  match m with
  | [] => []
  | (k', vs) :: t => if String.eqb k k' then vs else mget_all k t
  end.
(** [Values.Get] / [Header.Get] on an already canonical key: first value or "" *)
Definition mget (k : string) (m : mmap) : string :=
  match mget_all k m with v :: _ => v | [] => EmptyString end.
Definition mdel (k : string) (m : mmap) : mmap :=
  filter (fun kv => negb (String.eqb k (fst kv))) m.
Definition mset (k v : string) (m : mmap) : mmap := (k, [v]) :: mdel k m.

(** a time claim as it is written in the claims JSON: absent / not a JSON number
    (a string, null, ...: MapClaims.Verify* ignores it), or the number m * 10^e *)
Inductive jclaim := JAbsent | JNum (m e : Z).

(** * Oracles: library functions outside the anchored code *)
Record oracle := {
  o_ck       : string -> string;                       (* textproto.CanonicalMIMEHeaderKey *)
  o_re       : string -> string -> bool;               (* regexp.MatchString pattern value (false if the pattern does not compile) *)
  o_b64std   : string -> option string;                (* base64.StdEncoding.DecodeString *)
  o_jhdr     : string -> option string;                (* JWT header segment -> "alg" (None: malformed / no alg / unknown method) *)
  o_jclaims  : string -> option (jclaim * jclaim * jclaim); (* claims segment -> exp, iat, nbf as written (None: malformed segment) *)
  o_b64canon : string -> option string;                (* jwt.DecodeSegment then canonical unpadded base64url re-encoding *)
  o_jmac     : string -> string -> string -> string;   (* alg, secret(hex), signing input -> canonical base64url text of the HMAC *)
  o_ptime    : string -> option (Z * string * string); (* time.ParseInLocation timeFormat: unix ns, formatTime, formatDate *)
  o_puint    : string -> option Z;                     (* strconv.ParseUint(s, 0, 64) *)
  o_sha      : string -> string;                       (* hex(sha256(data)) *)
  o_mac      : string -> string -> string              (* hmac-sha256 key data, raw bytes *)
}.

(** * Quirks: defect sites of the pinned code *)
Record quirks := {
  q_sig_verifies_drained_body : bool;  (* Signer.Verify(req.Std()) hashes the std body FetchPayload already drained *)
  q_basic_split_all_colons    : bool;  (* parseCredentials: strings.Split(creds, ":"), password = parts[1] *)
  q_jwt_sig_lenient_b64       : bool   (* jwt signature segment compared after a lenient base64 decode *)
}.
Definition ideal : quirks :=
  {| q_sig_verifies_drained_body := false; q_basic_split_all_colons := false; q_jwt_sig_lenient_b64 := false |}.

(** * Configuration and request *)
Record hrule := { h_key : string; h_values : list string; h_regexp : string }.

Record jwt_cfg := { j_alg : string; j_secret : string (* hex, as configured *); j_cookie : string }.

Record literal := {
  l_suffix : string; l_algname : string; l_algvalue : string; l_signedheaders : string;
  l_signature : string; l_date : string; l_expires : string; l_credential : string;
  l_contentsha : string; l_keyprefix : string }.

Definition default_literal : literal :=
  {| l_suffix := "megaease_request"; l_algname := "X-Me-Algorithm"; l_algvalue := "ME-HMAC-SHA256";
     l_signedheaders := "X-Me-SignedHeaders"; l_signature := "X-Me-Signature"; l_date := "X-Me-Date";
     l_expires := "X-Me-Expires"; l_credential := "X-Me-Credential";
     l_contentsha := "X-Me-Content-Sha256"; l_keyprefix := "ME" |}.

Record sig_cfg := {
  s_lit : literal; s_exclude_body : bool; s_ttl : Z (* ns; 0 = none *);
  s_keys : list (string * string) (* access key id -> secret; [] = no store *) }.

Record config := {
  c_headers : option (list hrule);
  c_jwt     : option jwt_cfg;
  c_sig     : option sig_cfg;
  c_basic   : option (list (string * string))  (* user -> password *) }.

Record request := {
  r_method  : string;
  r_escpath : string;          (* URL.EscapedPath() *)
  r_query   : mmap;            (* URL.Query() *)
  r_host    : string;          (* Request.Host (URL.Host and URL.Scheme are empty for origin-form targets) *)
  r_headers : mmap;            (* canonical key -> values *)
  r_payload : string;          (* what FetchPayload buffered = the body that is forwarded *)
  r_cookie  : option string    (* Request.Cookie(cookieName of the jwt config): its value *) }.

Inductive outcome :=
| Pass
| Reject (status : Z) (by_ : N)   (* by_: 1 headers, 2 jwt, 3 signature, 5 basic auth *)
| Panic
| OracleMiss.

(** * Header rules ([httpheader.Validator.Validate]) *)
Definition in_list (v : string) (l : list string) : bool := existsb (String.eqb v) l.

(** the loop over the values returns at the first value: only it decides *)
Definition hrule_ok (o : oracle) (r : request) (h : hrule) : bool :=
  match mget_all (o_ck o (h_key h)) (r_headers r) with
  | [] => false
  | v :: _ => in_list v (h_values h) ||
              (negb (String.eqb (h_regexp h) EmptyString) && o_re o (h_regexp h) v)
  end.
Definition headers_ok (o : oracle) (r : request) (rules : list hrule) : bool :=
  forallb (hrule_ok o r) rules.

(** * JWT ([JWTValidator.Validate] + jwt.Parse) *)
Definition bearer : string := "Bearer ".

Definition jwt_token (c : jwt_cfg) (r : request) : option string :=
  let from_cookie :=
    if String.eqb (j_cookie c) EmptyString then EmptyString
    else match r_cookie r with Some v => v | None => EmptyString end in
  if negb (String.eqb from_cookie EmptyString) then Some from_cookie
  else
    let h := mget "Authorization" (r_headers r) in
    if String.prefix bearer h then Some (sdrop 7 h) else None.

Definition is_hs (alg : string) : bool :=
  String.eqb alg "HS256" || String.eqb alg "HS384" || String.eqb alg "HS512".

(** verifyExp / verifyIat / verifyNbf with required = false *)
Definition exp_ok (now : Z) (e : option Z) : bool :=
  match e with Some x => (x =? 0)%Z || (now <=? x)%Z | None => true end.
Definition notbefore_ok (now : Z) (e : option Z) : bool :=
  match e with Some x => (x =? 0)%Z || (x <=? now)%Z | None => true end.

(** the NumericDate the verifier compares: the written number truncated toward
    zero to a whole second (Go: int64(float64)); fractions are legal (RFC 7519) *)
Definition claim_value (c : jclaim) : option Z :=
  match c with
  | JAbsent => None
  | JNum m e => Some (if (0 <=? e)%Z then (m * 10 ^ e)%Z else Z.quot m (10 ^ (- e)))
  end.

Definition jwt_sig_ok (q : quirks) (o : oracle) (c : jwt_cfg) (h cl s : string) : bool :=
  let expected := o_jmac o (j_alg c) (j_secret c) (h ++ "." ++ cl) in
  if q_jwt_sig_lenient_b64 q then
    match o_b64canon o s with Some s' => String.eqb s' expected | None => false end
  else String.eqb s expected.

Definition jwt_token_ok (q : quirks) (o : oracle) (c : jwt_cfg) (jnow : Z) (tok : string) : bool :=
  match split_on "."%char tok with
  | [h; cl; s] =>
      match o_jhdr o h, o_jclaims o cl with
      | Some alg, Some (e, i, n) =>
          is_hs alg && String.eqb alg (j_alg c) &&
          exp_ok jnow (claim_value e) && notbefore_ok jnow (claim_value i) && notbefore_ok jnow (claim_value n) &&
          jwt_sig_ok q o c h cl s
      | _, _ => false
      end
  | _ => false
  end.

Definition jwt_ok (q : quirks) (o : oracle) (c : jwt_cfg) (r : request) (jnow : Z) : bool :=
  match jwt_token c r with
  | Some tok => jwt_token_ok q o c jnow tok
  | None => false
  end.

(** * Basic auth ([BasicAuthValidator.Validate], [parseCredentials]) *)
Definition basic_prefix : string := "Basic ".

Definition parse_credentials (q : quirks) (creds : string) : option (string * string) :=
  if q_basic_split_all_colons q then
    match split_on ":"%char creds with
    | u :: p :: _ => Some (u, p)
    | _ => None
    end
  else
    match index_byte ":"%char creds with
    | Some i => Some (stake i creds, sdrop (S i) creds)
    | None => None
    end.

Definition user_match (users : list (string * string)) (u p : string) : bool :=
  match alookup u users with Some p' => String.eqb p p' | None => false end.

Definition basic_ok (q : quirks) (o : oracle) (users : list (string * string)) (r : request) : bool :=
  let h := mget "Authorization" (r_headers r) in
  if String.prefix basic_prefix h then
    match o_b64std o (sdrop 6 h) with
    | Some creds =>
        match parse_credentials q creds with
        | Some (u, p) => user_match users u p
        | None => false
        end
    | None => false
    end
  else false.

(** * API signature ([Signer.Verify]) *)

(** [buildCanonicalHeaderValue]: per value trim spaces, collapse runs of spaces, join with ',' *)
Fixpoint collapse_spaces (s : string) : string :=
  match s with
  | EmptyString => EmptyString
  | String a t =>
      if is_sp a then
        match t with
        | String b _ => if is_sp b then collapse_spaces t else String a (collapse_spaces t)
        | EmptyString => String a EmptyString
        end
      else String a (collapse_spaces t)
  end.
Definition canon_hvalue1 (s : string) : string := collapse_spaces (strip_both is_sp s).
Definition canon_hvalue (vs : list string) : string := join "," (map canon_hvalue1 vs).

(** [getHost] for a request whose URL has neither scheme nor host (origin-form target) *)
Definition get_host (r : request) : string :=
  let host := r_host r in
  if String.eqb host EmptyString then EmptyString else
  let colon := last_index_byte ":"%char host in
  let square := last_index_byte "]"%char host in
  if (square <? colon)%Z then
    if String.eqb (sdrop (Z.to_nat (colon + 1)) host) EmptyString then stake (Z.to_nat colon) host
    else host
  else host.

(** what the signature covers, after canonicalisation *)
Record covered := {
  cv_method  : string;
  cv_uri     : string;                      (* canonical URI *)
  cv_query   : list (string * string);      (* sorted (key, value) pairs *)
  cv_headers : list (string * string);      (* (name as listed in SignedHeaders, canonical value) *)
  cv_body    : string                       (* body hash field *) }.

Definition encode_query (l : list (string * string)) : string :=
  join "&" (map (fun kv => qesc (fst kv) ++ "=" ++ qesc (snd kv)) l).

Definition header_line (nv : string * string) : string := fst nv ++ ":" ++ snd nv.

(** [hashCanonicalRequest]: method, uri, query, one line per signed header, an
    empty line, the signed header names, the body hash - joined by "\n" *)
Definition canonical_request (c : covered) : string :=
  join nl (cv_method c :: cv_uri c :: encode_query (cv_query c) ::
           (map header_line (cv_headers c) ++
            [EmptyString; join ";" (map fst (cv_headers c)); cv_body c])).

(** the parsed signing parameters of a request *)
Record sparams := {
  p_presign : bool;
  p_keyid   : string;
  p_scopes  : list string;
  p_signed  : string;               (* SignedHeaders as sent *)
  p_tag     : string;               (* Signature as sent *)
  p_time    : Z * string * string;  (* unix ns, formatTime, formatDate *)
  p_expire  : Z                     (* ns, int64 wrap-around applied (presign only) *) }.

Definition p_ns (p : sparams) : Z := fst (fst (p_time p)).
Definition p_ftime (p : sparams) : string := snd (fst (p_time p)).
Definition p_fdate (p : sparams) : string := snd (p_time p).

Definition wrap64 (z : Z) : Z :=
  let m := (z mod 18446744073709551616)%Z in
  if (m <? 9223372036854775808)%Z then m else (m - 18446744073709551616)%Z.

Definition scopes_of (parts : list string) : list string :=
  firstn (List.length parts - 3) (skipn 2 parts).

Definition init_from_header (o : oracle) (l : literal) (r : request) : option sparams :=
  let hdr := mget "Authorization" (r_headers r) in
  match index_byte " "%char hdr with
  | None => None
  | Some idx =>
    if negb (String.eqb (stake idx hdr) (l_algvalue l)) then None else
    match split_on ","%char (sdrop (S idx) hdr) with
    | [a; b; c] =>
      let a := trim_space a in let b := trim_space b in let c := trim_space c in
      if negb (String.prefix "Credential=" a) then None else
      let parts := split_on "/"%char (sdrop 11 a) in
      if (List.length parts <? 3)%nat then None else
      if negb (String.prefix "SignedHeaders=" b) then None else
      if negb (String.prefix "Signature=" c) then None else
      let date := mget (o_ck o (l_date l)) (r_headers r) in
      if negb (String.prefix (nth 1 parts EmptyString) date) then None else
      match o_ptime o date with
      | None => None
      | Some t =>
        Some {| p_presign := false; p_keyid := nth 0 parts EmptyString; p_scopes := scopes_of parts;
                p_signed := sdrop 14 b; p_tag := sdrop 10 c; p_time := t; p_expire := 0%Z |}
      end
    | _ => None
    end
  end.

Definition init_from_query (o : oracle) (l : literal) (r : request) : option sparams :=
  let q := r_query r in
  if negb (String.eqb (mget (l_algname l) q) (l_algvalue l)) then None else
  let parts := split_on "/"%char (mget (l_credential l) q) in
  if (List.length parts <? 3)%nat then None else
  let date := mget (l_date l) q in
  if negb (String.prefix (nth 1 parts EmptyString) date) then None else
  match o_ptime o date with
  | None => None
  | Some t =>
    match o_puint o (mget (l_expires l) q) with
    | None => None
    | Some v =>
      Some {| p_presign := true; p_keyid := nth 0 parts EmptyString; p_scopes := scopes_of parts;
              p_signed := mget (l_signedheaders l) q; p_tag := mget (l_signature l) q; p_time := t;
              p_expire := wrap64 (v * 1000000000)%Z |}
    end
  end.

Definition init_from_request (o : oracle) (l : literal) (r : request) : option sparams :=
  if negb (String.eqb (mget "Authorization" (r_headers r)) EmptyString)
  then init_from_header o l r else init_from_query o l r.

Definition scope_string (l : literal) (p : sparams) : string :=
  join "/" (p_fdate p :: p_scopes p ++ [l_suffix l]).

(** [getCanonicalQuery]: signature parameters removed (header mode) or re-set
    from their parsed meaning (presign) *)
Definition canon_query_map (l : literal) (p : sparams) (q : mmap) : mmap :=
  let q := mdel (l_signature l) q in
  if p_presign p then
    let q := mset (l_algname l) (l_algvalue l) q in
    let q := mset (l_date l) (p_ftime p) q in
    let q := mset (l_credential l) (p_keyid p ++ "/" ++ scope_string l p) q in
    let q := mset (l_expires l) (Z_to_dec (Z.quot (p_expire p) 1000000000)) q in
    mset (l_signedheaders l) (p_signed p) q
  else
    mdel (l_signedheaders l) (mdel (l_expires l) (mdel (l_date l) (mdel (l_credential l) (mdel (l_algname l) q)))).

Definition norm_query (q : mmap) : list (string * string) :=
  flat_map (fun kv => map (pair (fst kv)) (ssort (snd kv))) (ksort q).

Definition signed_header_value (o : oracle) (r : request) (name : string) : string :=
  if String.eqb name "host" then get_host r
  else canon_hvalue (mget_all (o_ck o name) (r_headers r)).

(** the body as the verifier sees it *)
Definition body_seen (q : quirks) (r : request) : string :=
  if q_sig_verifies_drained_body q then EmptyString else r_payload r.

Definition body_hash (q : quirks) (o : oracle) (c : sig_cfg) (r : request) : string :=
  if s_exclude_body c then "UNSIGNED-PAYLOAD" else o_sha o (body_seen q r).

Definition covered_of (q : quirks) (o : oracle) (c : sig_cfg) (p : sparams) (r : request) : covered :=
  {| cv_method := r_method r;
     cv_uri := canonical_uri (r_escpath r);
     cv_query := norm_query (canon_query_map (s_lit c) p (r_query r));
     cv_headers := map (fun n => (n, signed_header_value o r n)) (split_on ";"%char (p_signed p));
     cv_body := body_hash q o c r |}.

Definition string_to_sign (o : oracle) (l : literal) (p : sparams) (cv : covered) : string :=
  join nl [l_algvalue l; p_ftime p; scope_string l p; o_sha o (canonical_request cv)].

(** [deriveSigningKey] *)
Definition signing_key (o : oracle) (l : literal) (p : sparams) (secret : string) : string :=
  let k := o_mac o (l_keyprefix l ++ secret) (p_fdate p) in
  let k := fold_left (fun k s => o_mac o k s) (p_scopes p) k in
  o_mac o k (l_suffix l).

Definition expected_tag (o : oracle) (l : literal) (p : sparams) (secret : string) (cv : covered) : string :=
  hex_of_string (o_mac o (signing_key o l p secret) (string_to_sign o l p cv)).

Definition clamp64 (z : Z) : Z := Z.max (-9223372036854775808) (Z.min 9223372036854775807 z).

(** ttl window and presign expiry *)
Definition time_ok (c : sig_cfg) (p : sparams) (now : Z) : bool :=
  let age := clamp64 (now - p_ns p) in
  (if (0 <? s_ttl c)%Z then negb ((age <? - s_ttl c)%Z || (s_ttl c <? age)%Z) else true) &&
  (if p_presign p then negb (p_expire p <? age)%Z else true).

Inductive sig_stage :=
| SPanic                                   (* no access key store *)
| SErr                                     (* rejected before the comparison *)
| SCompare (expected carried : string).

Definition sig_stage_of (q : quirks) (o : oracle) (c : sig_cfg) (r : request) (now : Z) : sig_stage :=
  match s_keys c with
  | [] => SPanic
  | _ =>
    match init_from_request o (s_lit c) r with
    | None => SErr
    | Some p =>
      if negb (time_ok c p now) then SErr else
      match alookup (p_keyid p) (s_keys c) with
      | None => SErr
      | Some secret =>
          SCompare (expected_tag o (s_lit c) p secret (covered_of q o c p r)) (p_tag p)
      end
    end
  end.

Definition sig_ok (q : quirks) (o : oracle) (c : sig_cfg) (r : request) (now : Z) : bool :=
  match sig_stage_of q o c r now with
  | SCompare e t => String.eqb e t
  | _ => false
  end.

(** * [Validator.Handle]: headers (400), jwt, signature, basic auth (401), in this order *)
Definition handle (q : quirks) (o : oracle) (cfg : config) (r : request) (now jnow : Z) : outcome :=
  if match c_headers cfg with Some rules => negb (headers_ok o r rules) | None => false end
  then Reject 400 1 else
  if match c_jwt cfg with Some c => negb (jwt_ok q o c r jnow) | None => false end
  then Reject 401 2 else
  match match c_sig cfg with
        | Some c => match sig_stage_of q o c r now with
                    | SPanic => Some Panic
                    | SErr => Some (Reject 401 3)
                    | SCompare e t => if String.eqb e t then None else Some (Reject 401 3)
                    end
        | None => None
        end with
  | Some out => out
  | None =>
    if match c_basic cfg with Some users => negb (basic_ok q o users r) | None => false end
    then Reject 401 5 else Pass
  end.

(** * Basic auth users kept in etcd ([etcdUserCache]): the user set is replaced by
      every map the syncer delivers (including the empty one) *)
Record ecred := {
  e_key : string; e_user : string; e_pass : string (* the clear password the stored hash stands for *);
  e_stored : bool (* false: the entry has an empty "password" field *) }.

(** [etcdCredentials.Username]: username if present, otherwise key; [kvsToReader]
    skips entries without user or password *)
Definition cred_user (e : ecred) : string :=
  if String.eqb (e_user e) EmptyString then e_key e else e_user e.
Definition users_of (l : list ecred) : list (string * string) :=
  flat_map (fun e => if String.eqb (cred_user e) EmptyString || negb (e_stored e) then []
                     else [(cred_user e, e_pass e)]) l.

(** [EReload]: the pipeline is updated: a new Validator generation is built, inherits, the old one is
    closed; the new generation reads the prefix again, i.e. the latest delivered set *)
Inductive eop := EUpdate (l : list ecred) | EReq (r : request) | EReload.

Definition basic_cfg (users : list (string * string)) : config :=
  {| c_headers := None; c_jwt := None; c_sig := None; c_basic := Some users |}.

(** [alive] = false: the initial read of the prefix failed, the cache matches nobody and
    watches nothing *)
Fixpoint etcd_run (q : quirks) (o : oracle) (alive : bool) (users : list (string * string)) (ops : list eop)
  : list outcome :=
  match ops with
  | [] => []
  | EUpdate l :: t => etcd_run q o alive (if alive then users_of l else users) t
  | EReq r :: t => handle q o (basic_cfg users) r 0 0 :: etcd_run q o alive users t
  | EReload :: t => etcd_run q o alive users t
  end.

(** the user set in force after a history *)
Definition current_users (alive : bool) (init : list (string * string)) (ops : list eop) : list (string * string) :=
  fold_left (fun u op => match op with EUpdate l => if alive then users_of l else u | _ => u end) ops init.

(** * several Validator instances / reload generations in one process: every request is judged by
      the configuration of the instance it is presented to, nothing else *)
Record vstep := { vs_cfg : config; vs_req : request; vs_now : Z; vs_jnow : Z }.
Definition step_outcome (q : quirks) (o : oracle) (s : vstep) : outcome :=
  handle q o (vs_cfg s) (vs_req s) (vs_now s) (vs_jnow s).
Definition multi_run (q : quirks) (o : oracle) (l : list vstep) : list outcome := map (step_outcome q o) l.
