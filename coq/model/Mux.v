(** Executable model of easegress' HTTP router (C01), its route cache (C12) and
    the router's use of the IP filters (mux-level clauses of C05).

    Anchors in pkg/object/httpserver/mux.go:
    - [host_match]      muxRule.match           (port stripped: [strip_port] = net.SplitHostPort success case)
    - [path_match] / [method_match] / [headers_match]   MuxPath.matchPath / matchMethod / matchHeaders
    - [paths_dec], [rules_dec], [search_dec]            muxInstance.search, miss branch
                                                        (headerMismatch / methodMismatch flags, IP filters)
    - [search_cached]   muxInstance.search incl. getRouteFromCache / putRouteToCache
    - [rewrite], [serve] MuxPath.rewrite, muxInstance.serveHTTP (503 for an unknown backend)

    External functions are Section variables (oracles): Go [regexp] matching and
    replacement, and the allow decision of an IP filter for a client address
    (address/CIDR semantics live in IPFilter.v).  The cache is an association
    list; eviction is an arbitrary per-step predicate on keys (no ARC).
    Defects of the unchanged code are switched by [quirks]; [ideal] = none.
    No proofs in this file. *)
From EG.lib Require Import Base.
Open Scope string_scope.

(** ** strings *)
Fixpoint sdrop (n : nat) (s : string) : string :=
  match n, s with
  | O, _ => s
  | S n', String _ t => sdrop n' t
  | S _, EmptyString => EmptyString
  end.

Fixpoint stake (n : nat) (s : string) : string :=
  match n, s with
  | O, _ => EmptyString
  | S n', String c t => String c (stake n' t)
  | S _, EmptyString => EmptyString
  end.

(** [is_prefix p s]: strings.HasPrefix(s, p) *)
Fixpoint is_prefix (p s : string) : bool :=
  match p, s with
  | EmptyString, _ => true
  | String a p', String b s' => Ascii.eqb a b && is_prefix p' s'
  | String _ _, EmptyString => false
  end.

Fixpoint sindex (c : ascii) (s : string) : option nat :=
  match s with
  | EmptyString => None
  | String a t => if Ascii.eqb a c then Some O
                  else match sindex c t with Some i => Some (S i) | None => None end
  end.

Fixpoint slast_index (c : ascii) (s : string) : option nat :=
  match s with
  | EmptyString => None
  | String a t => match slast_index c t with
                  | Some i => Some (S i)
                  | None => if Ascii.eqb a c then Some O else None
                  end
  end.

Definition shas (c : ascii) (s : string) : bool :=
  match sindex c s with Some _ => true | None => false end.

Definition nonempty (s : string) : bool := negb (String.eqb s "").

(** net.SplitHostPort: the host part when the call succeeds, the unchanged
    string when it returns an error (mux.go:192-195). *)
Definition strip_port (hp : string) : string :=
  match slast_index ":" hp with
  | None => hp
  | Some i =>
      match hp with
      | String "[" _ =>
          match sindex "]" hp with
          | None => hp
          | Some e =>
              if Nat.eqb (S e) i then
                if shas "[" (sdrop 1 hp) || shas "]" (sdrop (S e) hp) then hp
                else stake (e - 1) (sdrop 1 hp)
              else hp
          end
      | _ =>
          let host := stake i hp in
          if shas ":" host then hp
          else if shas "[" hp || shas "]" hp then hp
          else host
      end
  end.

(** ** configuration and requests *)
Record header_cond := {
  hc_key : string;              (* canonical MIME header key *)
  hc_values : list string;
  hc_regexp : string }.

Record path_entry := {
  pe_path : string;
  pe_prefix : string;
  pe_regexp : string;
  pe_methods : list string;
  pe_rewrite : string;
  pe_backend : string;
  pe_headers : list header_cond;
  pe_match_all : bool;
  pe_filter : option N;         (* id of the path-level IP filter *)
  pe_body : Z }.                (* clientMaxBodySize of the path (0 = unset, < 0 = unlimited/stream) *)

Record rule := {
  ru_host : string;
  ru_host_re : string;
  ru_filter : option N;
  ru_paths : list path_entry }.

Record server := {
  sv_filter : option N;
  sv_rules : list rule;
  sv_backends : list string;    (* names the MuxMapper knows *)
  sv_body : Z;                  (* clientMaxBodySize of the server (0 = default 4 MiB, < 0 = unlimited) *)
  sv_xff : bool }.              (* server option xForwardedFor: append the client address for the backend *)

Record request := {
  rq_host : string;
  rq_method : string;
  rq_path : string;                      (* URL.Path: the DECODED path - what the router matches,
                                            rewrites and keys the cache on *)
  rq_rawpath : string;                   (* URL.RawPath: the wire encoding when it differs (%2F, %41 ...);
                                            carried by the request, never consulted by the router *)
  rq_headers : list (string * string);   (* canonical key -> first value *)
  rq_ip : string;                        (* realip.FromRequest *)
  rq_body : Z;
  rq_sni : string }.                     (* TLS ServerName of the connection ("" = none / plain HTTP):
                                            carried by the request, never consulted by the router -
                                            host rules match the Host header only *)                         (* number of body bytes the client sends (declared or chunked) *)

Inductive res :=
| Route (p : path_entry)
| Status (code : Z).

Inductive outcome :=
| Dispatched (backend path : string)     (* handler [backend] invoked, sees [path] *)
| Failed (code : Z)                      (* no handler invoked (incl. 413: body over the limit) *)
| Panicked.                              (* nil regexp dereference in rewrite *)

Definition fl (f : option N) : list N := match f with Some i => [i] | None => [] end.

Definition hget (k : string) (hs : list (string * string)) : string :=
  match alookup k hs with Some v => v | None => "" end.

Definition str_in (s : string) (l : list string) : bool := existsb (String.eqb s) l.

(** ** quirks: one flag per defect site of the unchanged code (DESIGN 8.1) *)
Record quirks := {
  q_cache_key_concat : bool;               (* key = host ++ method ++ path (ambiguous) *)
  q_cache_headerless_after_header : bool;  (* header-less route cached although an earlier header-conditioned entry matched path+method *)
  q_cache_status_before_ipfilter : bool;   (* cached 404/405 returned without consulting any IP filter *)
  q_cache_rule_filter_skipped : bool }.    (* cached route re-checks only server + own rule + path filters *)

Definition ideal : quirks :=
  {| q_cache_key_concat := false; q_cache_headerless_after_header := false;
     q_cache_status_before_ipfilter := false; q_cache_rule_filter_skipped := false |}.

Section Mux.
  (** oracles *)
  Variable re_match : string -> string -> bool.              (* pattern, subject: regexp.MatchString *)
  Variable re_replace : string -> string -> string -> string. (* pattern, src, repl: ReplaceAllString *)
  Variable ip_allow : N -> string -> bool.                    (* filter id, client address: IPFilter.Allow *)

  (** *** matching *)
  Definition host_match (r : rule) (rq : request) : bool :=
    if negb (nonempty (ru_host r)) && negb (nonempty (ru_host_re r)) then true
    else
      let h := strip_port (rq_host rq) in
      (nonempty (ru_host r) && String.eqb (ru_host r) h)
      || (nonempty (ru_host_re r) && re_match (ru_host_re r) h).

  Definition path_match (p : path_entry) (rq : request) : bool :=
    if negb (nonempty (pe_path p)) && negb (nonempty (pe_prefix p)) && negb (nonempty (pe_regexp p)) then true
    else if nonempty (pe_path p) && String.eqb (pe_path p) (rq_path rq) then true
    else if nonempty (pe_prefix p) && is_prefix (pe_prefix p) (rq_path rq) then true
    else if nonempty (pe_regexp p) then re_match (pe_regexp p) (rq_path rq)
    else false.

  Definition method_match (p : path_entry) (rq : request) : bool :=
    match pe_methods p with
    | [] => true
    | ms => str_in (rq_method rq) ms
    end.

  (** one header condition, conjunctive reading (matchAllHeader) *)
  Definition cond_all (rq : request) (h : header_cond) : bool :=
    let v := hget (hc_key h) (rq_headers rq) in
    (match hc_values h with [] => true | vs => str_in v vs end)
    && (if nonempty (hc_regexp h) then re_match (hc_regexp h) v else true).

  (** one header condition, disjunctive reading *)
  Definition cond_any (rq : request) (h : header_cond) : bool :=
    let v := hget (hc_key h) (rq_headers rq) in
    str_in v (hc_values h) || (nonempty (hc_regexp h) && re_match (hc_regexp h) v).

  Definition headers_match (p : path_entry) (rq : request) : bool :=
    if pe_match_all p then forallb (cond_all rq) (pe_headers p)
    else existsb (cond_any rq) (pe_headers p).

  Definition no_headers (p : path_entry) : bool :=
    match pe_headers p with [] => true | _ => false end.

  Definition allow_all (fs : list N) (rq : request) : bool :=
    forallb (fun f => ip_allow f (rq_ip rq)) fs.

  (** *** the search loops (cache miss branch), mux.go:554-604 *)
  Inductive pdec :=
  | PHit (p : path_entry) (hm : bool)    (* reached allowIP(path.ipFilter) of [p]; headerMismatch = hm *)
  | PNone (hm mm : bool).                (* path loop fell through *)

  Fixpoint paths_dec (rq : request) (ps : list path_entry) (hm mm : bool) : pdec :=
    match ps with
    | [] => PNone hm mm
    | p :: t =>
        if negb (path_match p rq) then paths_dec rq t hm mm
        else if negb (method_match p rq) then paths_dec rq t hm true
        else if no_headers p then PHit p hm
        else if negb (headers_match p rq) then paths_dec rq t true mm
        else PHit p hm
    end.

  Inductive dec :=
  | DHit (p : path_entry) (own vis : list N) (hm : bool)
      (* own = filter of the rule of [p]; vis = server/rule filters consulted so far, in order *)
  | DDenied                                (* a server or rule filter denied the client *)
  | DEnd (hm mm : bool) (vis : list N).    (* all rules visited *)

  Definition add_vis (f : list N) (d : dec) : dec :=
    match d with
    | DHit p own vis hm => DHit p own (f ++ vis) hm
    | DDenied => DDenied
    | DEnd hm mm vis => DEnd hm mm (f ++ vis)
    end.

  Fixpoint rules_dec (rq : request) (rs : list rule) (hm mm : bool) : dec :=
    match rs with
    | [] => DEnd hm mm []
    | r :: t =>
        if negb (host_match r rq) then rules_dec rq t hm mm
        else if negb (allow_all (fl (ru_filter r)) rq) then DDenied
        else match paths_dec rq (ru_paths r) hm mm with
             | PHit p hm' => DHit p (fl (ru_filter r)) (fl (ru_filter r)) hm'
             | PNone hm' mm' => add_vis (fl (ru_filter r)) (rules_dec rq t hm' mm')
             end
    end.

  Definition search_dec (sv : server) (rq : request) : dec :=
    if negb (allow_all (fl (sv_filter sv)) rq) then DDenied
    else add_vis (fl (sv_filter sv)) (rules_dec rq (sv_rules sv) false false).

  Definition fail_code (hm mm : bool) : Z :=
    if hm then 400%Z else if mm then 405%Z else 404%Z.

  Definition result_of (rq : request) (d : dec) : res :=
    match d with
    | DHit p _ _ _ => if allow_all (fl (pe_filter p)) rq then Route p else Status 403
    | DDenied => Status 403
    | DEnd hm mm _ => Status (fail_code hm mm)
    end.

  (** the cache-less router *)
  Definition search_nocache (sv : server) (rq : request) : res :=
    result_of rq (search_dec sv rq).

  (** *** declarative reference (C01): first full match in rule-then-path order *)
  Definition entries (sv : server) : list (rule * path_entry) :=
    flat_map (fun r => map (fun p => (r, p)) (ru_paths r)) (sv_rules sv).

  Definition headers_ok (p : path_entry) (rq : request) : bool :=
    no_headers p || headers_match p rq.

  Definition full_match (rq : request) (e : rule * path_entry) : bool :=
    host_match (fst e) rq && path_match (snd e) rq && method_match (snd e) rq && headers_ok (snd e) rq.

  Definition pm_match (rq : request) (e : rule * path_entry) : bool :=
    host_match (fst e) rq && path_match (snd e) rq && method_match (snd e) rq.

  Definition p_match (rq : request) (e : rule * path_entry) : bool :=
    host_match (fst e) rq && path_match (snd e) rq.

  Definition search_spec (sv : server) (rq : request) : res :=
    match find (full_match rq) (entries sv) with
    | Some e => Route (snd e)
    | None =>
        if existsb (pm_match rq) (entries sv) then Status 400
        else if existsb (p_match rq) (entries sv) then Status 405
        else Status 404
    end.

  (** the IP filters applying to a request = those the cache-less router consults:
      server, every host-matching rule up to (and including) the rule of the
      first full match, and that entry's own filter *)
  Definition entry_match (rq : request) (p : path_entry) : bool :=
    path_match p rq && method_match p rq && headers_ok p rq.

  Fixpoint rule_filters (rq : request) (rs : list rule) : list N :=
    match rs with
    | [] => []
    | r :: t =>
        if host_match r rq then
          fl (ru_filter r) ++
          match find (entry_match rq) (ru_paths r) with
          | Some p => fl (pe_filter p)
          | None => rule_filters rq t
          end
        else rule_filters rq t
    end.

  Definition applying (sv : server) (rq : request) : list N :=
    fl (sv_filter sv) ++ rule_filters rq (sv_rules sv).

  Definition denied (sv : server) (rq : request) : bool := negb (allow_all (applying sv rq) rq).

  (** *** rewrite and dispatch, mux.go:258-279, 488-529 *)
  Definition rewrite (p : path_entry) (path : string) : option string :=
    if negb (nonempty (pe_rewrite p)) then Some path
    else if nonempty (pe_path p) && String.eqb (pe_path p) path then Some (pe_rewrite p)
    else if nonempty (pe_prefix p) && is_prefix (pe_prefix p) path
      then Some (pe_rewrite p ++ sdrop (String.length (pe_prefix p)) path)
    else if nonempty (pe_regexp p) then Some (re_replace (pe_regexp p) path (pe_rewrite p))
    else None.                       (* nil *regexp.Regexp dereference *)

  (** effective body limit of a matched entry (mux.go:507-511, httpprot FetchPayload): the
      path's clientMaxBodySize, else the server's, else 4 MiB; a negative limit = stream, no
      limit.  FetchPayload answers ErrRequestEntityTooLarge iff the client sends more bytes than
      the limit, whether the length is declared (Content-Length) or not (chunked). *)
  Definition default_max_body : Z := 4194304%Z.

  Definition body_limit (sv : server) (p : path_entry) : Z :=
    let m := if Z.eqb (pe_body p) 0 then sv_body sv else pe_body p in
    if Z.eqb m 0 then default_max_body else m.

  Definition too_large (sv : server) (p : path_entry) (rq : request) : bool :=
    Z.leb 0 (body_limit sv p) && Z.ltb (body_limit sv p) (rq_body rq).

  Definition dispatch (sv : server) (rq : request) (r : res) : outcome :=
    match r with
    | Status c => Failed c
    | Route p =>
        if str_in (pe_backend p) (sv_backends sv) then
          match rewrite p (rq_path rq) with
          | Some path' => if too_large sv p rq then Failed 413 else Dispatched (pe_backend p) path'
          | None => Panicked
          end
        else Failed 503
    end.

  Definition serve_nocache (sv : server) (rq : request) : outcome :=
    dispatch sv rq (search_nocache sv rq).

  (** mux.ServeHTTP, before any routing: paths under the reserved ACME HTTP-01 prefix - exactly
      "/.well-known/acme-challenge/" INCLUDING the trailing slash - go to the auto-cert manager
      (404 while none is started, as in the harness); every other path is routed *)
  Definition acme_prefix : string := "/.well-known/acme-challenge/".
  Definition reserved_path (rq : request) : bool := is_prefix acme_prefix (rq_path rq).

  Definition mux_serve (sv : server) (rq : request) : outcome :=
    if reserved_path rq then Failed 404 else serve_nocache sv rq.

  Definition serve_spec (sv : server) (rq : request) : outcome :=
    if denied sv rq then Failed 403 else dispatch sv rq (search_spec sv rq).

  (** *** the route cache *)
  Definition key := (string * string * string)%type.

  Definition key_eqb (a b : key) : bool :=
    String.eqb (fst (fst a)) (fst (fst b)) && String.eqb (snd (fst a)) (snd (fst b))
    && String.eqb (snd a) (snd b).

  Definition mk_key (q : quirks) (rq : request) : key :=
    if q_cache_key_concat q then (rq_host rq ++ rq_method rq ++ rq_path rq, "", "")
    else (rq_host rq, rq_method rq, rq_path rq).

  (** a cached value: the memoised result and the filters to re-check on a hit *)
  Record cval := { cv_res : res; cv_filters : list N }.

  Definition cache := list (key * cval).

  Fixpoint clookup (k : key) (c : cache) : option cval :=
    match c with
    | [] => None
    | (k', v) :: t => if key_eqb k k' then Some v else clookup k t
    end.

  Definition cremove (k : key) (c : cache) : cache :=
    filter (fun kv => negb (key_eqb k (fst kv))) c.

  Definition cput (k : key) (v : cval) (c : cache) : cache := (k, v) :: cremove k c.

  (** eviction: any subset of the keys may disappear *)
  Definition evict (keep : key -> bool) (c : cache) : cache :=
    filter (fun kv => keep (fst kv)) c.

  (** what the miss branch stores (mux.go:578-581, 598-603) *)
  Definition put_of (q : quirks) (sv : server) (d : dec) : option cval :=
    match d with
    | DHit p own vis hm =>
        if no_headers p && (q_cache_headerless_after_header q || negb hm) then
          Some {| cv_res := Route p;
                  cv_filters := (if q_cache_rule_filter_skipped q then fl (sv_filter sv) ++ own else vis)
                                ++ fl (pe_filter p) |}
        else None
    | DDenied => None
    | DEnd hm mm vis =>
        if hm then None
        else Some {| cv_res := Status (fail_code hm mm);
                     cv_filters := if q_cache_status_before_ipfilter q then [] else vis |}
    end.

  (** the hit branch (mux.go:540-552) *)
  Definition hit_result (rq : request) (v : cval) : res :=
    if allow_all (cv_filters v) rq then cv_res v else Status 403.

  Definition search_cached (q : quirks) (sv : server) (c : cache) (rq : request) : res * cache :=
    let k := mk_key q rq in
    match clookup k c with
    | Some v => (hit_result rq v, c)
    | None =>
        let d := search_dec sv rq in
        (result_of rq d, match put_of q sv d with Some v => cput k v c | None => c end)
    end.

  (** one request: the eviction oracle acts first, then the router *)
  Definition step (q : quirks) (sv : server) (c : cache) (keep : key -> bool) (rq : request)
    : outcome * cache :=
    let '(r, c') := search_cached q sv (evict keep c) rq in (dispatch sv rq r, c').

  Fixpoint run_cached (q : quirks) (sv : server) (c : cache)
           (steps : list ((key -> bool) * request)) : list outcome :=
    match steps with
    | [] => []
    | (keep, rq) :: t => let '(o, c') := step q sv c keep rq in o :: run_cached q sv c' t
    end.

  (** *** histories in which the MuxMapper changes between requests (pipelines are created,
      deleted and replaced without an HTTPServer reload): the mapper is read at EVERY
      request (mux.go serveHTTP: mi.muxMapper.GetHandler).  A mapper maps a backend name to
      the identity of the handler currently registered under it. *)
  Definition mapper := list (string * N).

  Definition with_mapper (sv : server) (m : mapper) : server :=
    {| sv_filter := sv_filter sv; sv_rules := sv_rules sv; sv_backends := map fst m;
       sv_body := sv_body sv; sv_xff := sv_xff sv |}.

  (** identity of the handler invoked (None: no handler invoked) *)
  Definition handler_of (m : mapper) (o : outcome) : option N :=
    match o with Dispatched b _ => alookup b m | _ => None end.

  Definition serve_mapped (sv : server) (m : mapper) (rq : request) : outcome * option N :=
    let o := serve_nocache (with_mapper sv m) rq in (o, handler_of m o).

  Definition serve_hist (sv : server) (steps : list (mapper * request)) : list (outcome * option N) :=
    map (fun s => serve_mapped sv (fst s) (snd s)) steps.

  (** *** xForwardedFor (mux.go appendXForwardedFor): AFTER routing and rewriting, the gateway
      records the client address in X-Forwarded-For for the backend.  Routing is a function of
      the request as received - nothing above reads [sv_xff] - while the handler sees the
      appended header.  [forwarded_for] = first value of X-Forwarded-For seen by the handler. *)
  Fixpoint str_contains (sub s : string) : bool :=
    is_prefix sub s || match s with String _ t => str_contains sub t | EmptyString => false end.

  Definition forwarded_for (sv : server) (rq : request) : string :=
    let v := hget "X-Forwarded-For" (rq_headers rq) in
    if negb (sv_xff sv) then v
    else match alookup "X-Forwarded-For" (rq_headers rq) with
         | None => rq_ip rq                        (* Header.Add: the only value *)
         | Some _ =>
             if negb (nonempty v) then v           (* Header.Add after an empty first value: Get still "" *)
             else if str_contains (rq_ip rq) v then v
             else v ++ "," ++ rq_ip rq
         end.

  Definition set_xff (b : bool) (sv : server) : server :=
    {| sv_filter := sv_filter sv; sv_rules := sv_rules sv; sv_backends := sv_backends sv;
       sv_body := sv_body sv; sv_xff := b |}.

  (** *** histories with reloads (mux.reload): a reload installs a new generation with the new
      spec and a FRESH, EMPTY route cache *)
  Inductive op :=
  | OReq (keep : key -> bool) (rq : request)
  | OReload (sv' : server)
  | OMap (m : mapper).          (* the MuxMapper content changes (pipelines created / deleted /
                                   replaced); the server is NOT reloaded, the route cache stays *)

  Fixpoint run_ops (q : quirks) (sv : server) (c : cache) (ops : list op) : list outcome :=
    match ops with
    | [] => []
    | OReq keep rq :: t => let '(o, c') := step q sv c keep rq in o :: run_ops q sv c' t
    | OReload sv' :: t => run_ops q sv' [] t
    | OMap m :: t => run_ops q (with_mapper sv m) c t
    end.

  (** the cache-less twin on the same history *)
  Fixpoint ref_ops (sv : server) (ops : list op) : list outcome :=
    match ops with
    | [] => []
    | OReq _ rq :: t => serve_nocache sv rq :: ref_ops sv t
    | OReload sv' :: t => ref_ops sv' t
    | OMap m :: t => ref_ops (with_mapper sv m) t
    end.

  (** *** filters erased (C05 "as if no filter existed") *)
  Definition erase_path (p : path_entry) : path_entry :=
    {| pe_path := pe_path p; pe_prefix := pe_prefix p; pe_regexp := pe_regexp p;
       pe_methods := pe_methods p; pe_rewrite := pe_rewrite p; pe_backend := pe_backend p;
       pe_headers := pe_headers p; pe_match_all := pe_match_all p; pe_filter := None;
       pe_body := pe_body p |}.

  Definition erase_rule (r : rule) : rule :=
    {| ru_host := ru_host r; ru_host_re := ru_host_re r; ru_filter := None;
       ru_paths := map erase_path (ru_paths r) |}.

  Definition erase_filters (sv : server) : server :=
    {| sv_filter := None; sv_rules := map erase_rule (sv_rules sv); sv_backends := sv_backends sv;
       sv_body := sv_body sv; sv_xff := sv_xff sv |}.

  (** validated configurations (spec.go Path.Validate / Header.Validate) *)
  Definition valid_header (h : header_cond) : bool :=
    match hc_values h with [] => nonempty (hc_regexp h) | _ => true end.

  Definition valid_path (p : path_entry) : bool :=
    (nonempty (pe_path p) || nonempty (pe_prefix p) || nonempty (pe_regexp p) || negb (nonempty (pe_rewrite p)))
    && forallb valid_header (pe_headers p).

  Definition valid_server (sv : server) : bool :=
    forallb (fun r => forallb valid_path (ru_paths r)) (sv_rules sv).
End Mux.
