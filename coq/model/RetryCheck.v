(** Case types and per-case check functions for C10 (evaluated by vm_compute on
    the traces of the real code).  Result: (corr, prop, class, attributed-flag).

    - corr : the model ([Retry.v]) reproduces the implementation's observables
             (number of handler / transport calls, final outcome, breaker
             window totals exactly; measured gaps only as LOWER bounds: a gap
             is "reproduced" when it is >= the model's wait for the smallest
             draw - the draw and the scheduling delay are the existential
             nondeterminism of DESIGN 4.4);
    - prop : a decidable checker of the clauses of C10 on the implementation's
             own trace; it does not call [retry_run];
    - class: 0 = trivial, >0 = coverage class. *)
From EG.lib Require Import Base.
From EG.model Require Import Retry.
Open Scope Z_scope.

Definition result := (bool * bool * N * N)%type.
Definition bN (b : bool) (n : N) : N := if b then n else 0%N.

Definition cancel_of (c : Z) : option nat := if c <? 0 then None else Some (Z.to_nat c).

(** observed gaps vs model waits: pairwise [gap >= wait] along the common prefix *)
Fixpoint ge_prefix (obs lows : list Z) : bool :=
  match obs, lows with
  | o :: ot, l :: lt => (l <=? o) && ge_prefix ot lt
  | _, _ => true
  end.

(** [lows p n] = [lo_wait p 0; ...; lo_wait p (n-1)] *)
Definition lows (p : policy) (n : nat) : list Z := map (lo_wait p) (seq 0 n).

Definition count_true (l : list bool) : Z := Z.of_nat (List.length (filter (fun b => b) l)).

(** ** group "retry": RetryPolicy.Wrap (optionally inside the breaker wrapper)
       around a scripted handler, pkg/resilience *)
Record retry_case := {
  rc_pol    : policy;
  rc_script : list Z;      (* per attempt: 0 = nil, 1 = error, 2 = panic *)
  rc_cancel : Z;           (* -1, or the attempt during which the context is cancelled *)
  rc_cb     : Z;           (* 0 = no breaker, 1 = closed breaker around, 2 = breaker forced open *)
  (* observed *)
  rc_calls  : Z;           (* handler calls *)
  rc_fkind  : Z;           (* 0 nil | 1 the error of attempt rc_fid | 2 panic | 3 short-circuited | 4 other *)
  rc_fid    : Z;
  rc_gaps   : list Z;      (* ns between the end of attempt j and the start of attempt j+1 *)
  rc_tail   : Z;           (* ns between the end of the last attempt and the return (-1 = not measured);
                              informational only: the wait the code makes after the LAST failed attempt
                              is not something C10 speaks about, so it is not compared *)
  rc_cbt    : Z;           (* breaker window total afterwards (-1 = no breaker) *)
  rc_cbf    : Z            (* breaker window failures *)
}.

Definition script_outcome (s : list Z) (i : nat) : outcome :=
  match nth_error s i with
  | Some 0 => ONil 200
  | Some 2 => OPanic
  | _ => OErr (Z.of_nat i) RNone
  end.

Definition final_code (o : option outcome) : Z * Z :=
  match o with
  | None | Some (ONil _) => (0, 0)
  | Some (OErr c _) => (1, c)
  | Some OPanic => (2, 0)
  | Some OHang => (9, 0)
  end.

Definition retry_model (c : retry_case) : Z * (Z * Z) * list Z * (Z * Z) :=
  let h := script_outcome (rc_script c) in
  let pick := fun i : nat => Z.of_nat (S i) <? rc_calls c in
  let inner := retry_run (rc_pol c) h (fun _ => 0) (cancel_of (rc_cancel c)) pick in
  if rc_cb c =? 0 then
    (Z.of_nat (n_attempts inner), final_code (final_of inner), waits_of inner, (-1, -1))
  else
    let tr := cb_wrap (negb (rc_cb c =? 2)) inner in
    let rej := existsb (fun e => match e with CbReject => true | _ => false end) tr in
    (Z.of_nat (n_attempts (inner_of tr)),
     (if rej then (3, 0) else final_code (final_of (inner_of tr))),
     waits_of (inner_of tr),
     (Z.of_nat (List.length (records_of tr)), count_true (records_of tr))).

Definition corr_retry (c : retry_case) : bool :=
  let '(calls, fin, waits, cb) := retry_model c in
  (calls =? rc_calls c) &&
  Zeqb_pair fin (rc_fkind c, if rc_fkind c =? 1 then rc_fid c else 0) &&
  Zeqb_pair cb (rc_cbt c, rc_cbf c) &&
  (Z.of_nat (List.length (rc_gaps c)) =? Z.max 0 (rc_calls c - 1)) &&
  (List.length (rc_gaps c) <=? List.length waits)%nat &&
  ge_prefix (rc_gaps c) waits.

(** the property on the implementation's trace *)
Definition script_at (s : list Z) (i : Z) : Z :=
  if i <? 0 then 1 else match nth_error s (Z.to_nat i) with Some k => k | None => 1 end.

Definition is_err_code (k : Z) : bool := negb ((k =? 0) || (k =? 2)).

Fixpoint all_failed_before (s : list Z) (n : nat) : bool :=
  (* attempts 0 .. n-1 all returned an error *)
  match n with
  | O => true
  | S m => is_err_code (script_at s (Z.of_nat m)) && all_failed_before s m
  end.

Definition prop_retry (c : retry_case) : bool :=
  let p := rc_pol c in
  let n := rc_calls c in
  if negb (validb p) then true else
  if rc_cb c =? 2 then
    (* breaker open: short-circuited, handler never called, nothing recorded *)
    (n =? 0) && (rc_fkind c =? 3) && (rc_cbt c =? 0)
  else
    (* at most maxAttempts, at least one *)
    (1 <=? n) && (n <=? p_max p) &&
    (* no attempt after a success (or a panic) *)
    all_failed_before (rc_script c) (Z.to_nat (n - 1)) &&
    (* no attempt after the cancellation was visible at a select with a positive wait *)
    (if (0 <=? rc_cancel c) && (0 <? lo_wait p (Z.to_nat (rc_cancel c)))
     then n <=? rc_cancel c + 1 else true) &&
    (* the caller gets the outcome of the last attempt *)
    (let k := script_at (rc_script c) (n - 1) in
     if k =? 0 then rc_fkind c =? 0
     else if k =? 2 then rc_fkind c =? 2
     else (rc_fkind c =? 1) && (rc_fid c =? n - 1)) &&
    (* every gap is at least the back-off lower bound *)
    (Z.of_nat (List.length (rc_gaps c)) =? n - 1) &&
    ge_prefix (rc_gaps c) (lows p (Z.to_nat (n - 1))) &&
    (* a breaker around the call has exactly one record, a failure iff the call failed *)
    (if rc_cb c =? 1 then (rc_cbt c =? 1) && (rc_cbf c =? (if rc_fkind c =? 0 then 0 else 1)) else true).

Definition class_retry (c : retry_case) : N :=
  if negb (validb (rc_pol c)) then 0%N else
  let b1 := 1 <? rc_calls c in
  let b2 := (rc_fkind c =? 0) && (1 <? rc_calls c) in
  let b3 := 0 <=? rc_cancel c in
  let b4 := (rc_calls c =? p_max (rc_pol c)) && negb (rc_fkind c =? 0) in
  let b5 := negb (rc_cb c =? 0) in
  let b6 := p_expo (rc_pol c) in
  let b7 := rc_fkind c =? 2 in
  let b8 := (0 <=? rc_cancel c) && (rc_cancel c + 1 <? rc_calls c) in
  (1 + bN b1 1 + bN b2 2 + bN b3 4 + bN b4 8 + bN b5 16 + bN b6 32 + bN b7 64 + bN b8 128)%N.

(** the case the MODEL itself would produce (observables taken from [retry_run]); used to
    state that the checker is sound for the model (proofs/RetryCheckProofs.v) *)
Definition model_retry_case (p : policy) (script : list Z) (cancel cb : Z)
           (draws : nat -> Z) (pick : nat -> bool) : retry_case :=
  let inner := retry_run p (script_outcome script) draws (cancel_of cancel) pick in
  let tr := cb_wrap (negb (cb =? 2)) inner in
  let rej := existsb (fun e => match e with CbReject => true | _ => false end) tr in
  let fin := if rej then (3, 0) else final_code (final_of (inner_of tr)) in
  let n := n_attempts (inner_of tr) in
  {| rc_pol := p; rc_script := script; rc_cancel := cancel; rc_cb := cb;
     rc_calls := Z.of_nat n; rc_fkind := fst fin; rc_fid := snd fin;
     rc_gaps := firstn (n - 1) (waits_of (inner_of tr)); rc_tail := -1;
     rc_cbt := if cb =? 0 then -1 else Z.of_nat (List.length (records_of tr));
     rc_cbf := if cb =? 0 then -1 else count_true (records_of tr) |}.

Definition check_retry (c : retry_case) : result :=
  (corr_retry c, prop_retry c, class_retry c, 0%N).
Definition explain_retry (c : retry_case) := retry_model c.

(** ** group "pool": ServerPool.handle through Proxy.Handle, pkg/filters/proxy *)
Record pool_req := {
  q_stream : bool;
  q_script : list (Z * Z);  (* per attempt (kind, code): 0 status | 1 error | 2 block | 3 panic |
                               4 body breaks | 5 body stalls until ctx done | 6 body too large *)
  q_cancel : Z;
  q_clen   : Z;             (* request body: 0 declared length, 1 unknown length (chunked) *)
  q_mutate : bool;          (* after the observation the harness rewrites the response object the client
                               got (a downstream filter); must never show in any other request *)
  (* observed *)
  q_calls  : Z;             (* transport calls *)
  q_res    : Z;             (* result string: 0 "" 1 serverError 2 timeout 3 clientError 4 failureCode
                               5 internalError 6 shortCircuited 7 panic 8 hang (watchdog) 9 other *)
  q_status : Z;             (* status code of the response left in the context (0 after a panic) *)
  q_from   : Z;             (* attempt whose backend response the client gets; -1 none / gateway-made *)
  q_plen   : Z;             (* payload size of the response the client gets *)
  q_bodies : Z;             (* attempts that received the complete request body *)
  q_hdrs   : Z;             (* number of headers of a gateway-made response (a fresh one has none) *)
  q_cbt    : Z;             (* breaker window total right after this request (-1 = no breaker) *)
  q_cbf    : Z;             (* breaker window failures right after this request *)
  q_gaps   : list Z
}.

Record pool_case := {
  k_retry   : bool;
  k_pol     : policy;
  k_timeout : Z;            (* ns, 0 = none *)
  k_cb      : bool;
  k_fcodes  : list Z;
  k_smax    : Z;            (* pool serverMaxBodySize (0 = default) *)
  k_prelude : bool;         (* another proxy failed with 503/499/408/500 before, its responses were rewritten *)
  k_reqs    : list pool_req;
  k_cbt     : Z;            (* breaker window totals after all requests (-1 = no breaker) *)
  k_cbf     : Z
}.

Definition tscript_of (s : list (Z * Z)) (i : nat) : tscript :=
  match nth_error s i with
  | Some (0, c) => SStatus c
  | Some (2, _) => SBlock
  | Some (3, _) => SPanic
  | Some (4, _) => SBodyErr
  | Some (5, _) => SBodyBlock
  | Some (6, _) => SBodyErr
  | Some (7, c) => SStatus c     (* body of exactly serverMaxBodySize bytes: still accepted *)
  | Some (8, c) => SStatus c     (* one byte less *)
  | _ => SErr
  end.

Definition res_code (r : res) : Z :=
  match r with
  | RNone => 0 | RServerError => 1 | RTimeout => 2 | RClientError => 3 | RFailureCode => 4
  | RInternalError => 5 | RShortCircuited => 6
  end.

Definition presult_code (r : presult) : Z * Z :=
  match r with
  | PResult r s => (res_code r, s)
  | PPanic => (7, 0)
  | PHang => (8, 0)
  end.

(** (from, payload size); [sz j] = size of the payload the scripted backend sent in attempt j *)
Definition visible_code (sz : nat -> Z) (v : visible) : Z * Z :=
  match v with
  | VBackend j => (Z.of_nat j, sz j)
  | VGateway _ | VNothing => (-1, 0)
  end.

Definition is_status (k : Z) : bool := (k =? 0) || (k =? 7) || (k =? 8).

Definition pscript_at (s : list (Z * Z)) (i : Z) : Z * Z :=
  if i <? 0 then (1, 0) else match nth_error s (Z.to_nat i) with Some k => k | None => (1, 0) end.

(** payload size of the scripted answer of attempt i: 2 bytes, or serverMaxBodySize (kind 7) /
    one byte less (kind 8) when a limit is configured *)
Definition bsize (smax : Z) (s : list (Z * Z)) (i : Z) : Z :=
  let '(k, _) := pscript_at s i in
  if 0 <? smax then (if k =? 7 then smax else if k =? 8 then smax - 1 else 2) else 2.

Definition pool_of (c : pool_case) : pool :=
  {| pl_retry := if k_retry c then Some (k_pol c) else None;
     pl_timeout := 0 <? k_timeout c;
     pl_cb := k_cb c;
     pl_fcodes := k_fcodes c |}.

Definition request_of (q : pool_req) : request :=
  {| rq_stream := q_stream q;
     rq_script := tscript_of (q_script q);
     rq_cancel := cancel_of (q_cancel q);
     rq_draws := fun _ => 0;
     rq_pick := fun i : nat => Z.of_nat (S i) <? q_calls q |}.

(** model side also needs the waits: recomputed from the handler trace *)
Definition pool_model (c : pool_case) :=
  let pl := pool_of c in
  let outs := map (fun q => (pool_handle pl true (request_of q),
                             waits_of (handler_trace pl (request_of q)))) (k_reqs c) in
  (map (fun q => let o := pool_handle pl true (request_of q) in
                 (Z.of_nat (po_attempts o), presult_code (po_result o),
                  waits_of (handler_trace pl (request_of q)),
                  visible_code (fun j => bsize (k_smax c) (q_script q) (Z.of_nat j)) (po_visible o)))
       (k_reqs c),
   if k_cb c then (Z.of_nat (total_records (map fst outs)), Z.of_nat (failed_records (map fst outs)))
   else (-1, -1)).

Definition corr_req (q : pool_req) (m : Z * (Z * Z) * list Z * (Z * Z)) : bool :=
  let '(calls, rs, waits, vis) := m in
  (calls =? q_calls q) && Zeqb_pair rs (q_res q, q_status q) &&
  (* every attempt of the model receives the complete request body *)
  (q_bodies q =? calls) &&
  (if q_res q <? 7 then Zeqb_pair vis (q_from q, q_plen q) else true) &&
  (q_hdrs q =? 0) &&
  (Z.of_nat (List.length (q_gaps q)) =? Z.max 0 (q_calls q - 1)) &&
  (List.length (q_gaps q) <=? List.length waits)%nat &&
  ge_prefix (q_gaps q) waits.

Fixpoint forall2b {A B} (f : A -> B -> bool) (l1 : list A) (l2 : list B) : bool :=
  match l1, l2 with
  | [], [] => true
  | a :: t1, b :: t2 => f a b && forall2b f t1 t2
  | _, _ => false
  end.

(** breaker window totals after each request, from the model's records *)
Fixpoint cum_records (outs : list pool_out) (t f : Z) : list (Z * Z) :=
  match outs with
  | [] => []
  | o :: r =>
      let t' := t + Z.of_nat (List.length (po_records o)) in
      let f' := f + count_true (po_records o) in
      (t', f') :: cum_records r t' f'
  end.

Definition corr_cum (c : pool_case) : bool :=
  if k_cb c then
    let pl := pool_of c in
    list_eqb Zeqb_pair
      (cum_records (map (fun q => pool_handle pl true (request_of q)) (k_reqs c)) 0 0)
      (map (fun q => (q_cbt q, q_cbf q)) (k_reqs c))
  else forallb (fun q => (q_cbt q =? -1) && (q_cbf q =? -1)) (k_reqs c).

Definition corr_pool (c : pool_case) : bool :=
  let '(outs, cb) := pool_model c in
  forall2b corr_req (k_reqs c) outs && Zeqb_pair cb (k_cbt c, k_cbf c) && corr_cum c.

(** the property on the implementation's trace *)

(** does attempt [i] of this script end in an error the retry wrapper retries? *)
Definition pfailed (c : pool_case) (q : pool_req) (i : Z) : bool :=
  let '(k, code) := pscript_at (q_script q) i in
  if is_status k then zmem code (k_fcodes c) else negb (k =? 3).

Fixpoint pall_failed_before (c : pool_case) (q : pool_req) (n : nat) : bool :=
  match n with
  | O => true
  | S m => pfailed c q (Z.of_nat m) && pall_failed_before c q m
  end.

(** expected (result, status) of the request given that attempt [i] was its last one *)
Definition expect_last (c : pool_case) (q : pool_req) (i : Z) : Z * Z :=
  let '(k, code) := pscript_at (q_script q) i in
  let cancelled := (0 <=? q_cancel q) && (q_cancel q <=? i) in
  if is_status k then (if zmem code (k_fcodes c) then (4, code) else (0, code))
  else if k =? 3 then (7, 0)
  else if (k =? 4) || (k =? 6) then (5, 500)
  else if k =? 5 then (if cancelled || (0 <? k_timeout c) then (5, 500) else (8, 0))
  else if cancelled then (3, 499)
  else if k =? 2 then (if 0 <? k_timeout c then (2, 408) else (8, 0))
  else (1, 503).

Definition prop_req (c : pool_case) (q : pool_req) : bool :=
  let p := k_pol c in
  let n := q_calls q in
  let retried := k_retry c && negb (q_stream q) in
  (1 <=? n) && (n <=? (if retried then p_max p else 1)) &&
  pall_failed_before c q (Z.to_nat (n - 1)) &&
  (if (0 <=? q_cancel q) && (0 <? lo_wait p (Z.to_nat (q_cancel q)))
   then n <=? q_cancel q + 1 else true) &&
  Zeqb_pair (expect_last c q (n - 1)) (q_res q, q_status q) &&
  negb (q_res q =? 8) &&
  (* the response the client gets: with the empty result or failureCode the backend response of
     the LAST attempt; with any other failure result the gateway's own failure response (no
     backend header, no payload) - never a backend response whose body could not be fetched *)
  (if (q_res q =? 0) || (q_res q =? 4)
   then (q_from q =? n - 1) && (q_plen q =? bsize (k_smax c) (q_script q) (n - 1))
   else if q_res q <? 7 then (q_from q =? -1) && (q_plen q =? 0) && (q_hdrs q =? 0) else true) &&
  (* the request body is never re-sent incompletely: every attempt got all of it *)
  (q_bodies q =? n) &&
  (Z.of_nat (List.length (q_gaps q)) =? n - 1) &&
  ge_prefix (q_gaps q) (lows p (Z.to_nat (n - 1))).

(** one breaker record per client request, checked after EVERY request: the window total is
    the number of client requests so far, the failures those that ended with a non-empty
    result - whatever the number of attempts, however slow the request was *)
Fixpoint prop_cum (cb : bool) (qs : list pool_req) (t f : Z) : bool :=
  match qs with
  | [] => true
  | q :: r =>
      let f' := f + (if q_res q =? 0 then 0 else 1) in
      (if cb then (q_cbt q =? t + 1) && (q_cbf q =? f') else true) && prop_cum cb r (t + 1) f'
  end.

Definition prop_pool (c : pool_case) : bool :=
  if k_retry c && negb (validb (k_pol c)) then true else
  forallb (prop_req c) (k_reqs c) && prop_cum (k_cb c) (k_reqs c) 0 0 &&
  (if k_cb c
   then (k_cbt c =? Z.of_nat (List.length (k_reqs c))) &&
        (k_cbf c =? Z.of_nat (List.length (filter (fun q => negb (q_res q =? 0)) (k_reqs c))))
   else true).

Definition class_pool (c : pool_case) : N :=
  match k_reqs c with
  | [] => 0%N
  | _ =>
    if k_retry c && negb (validb (k_pol c)) then 0%N else
    let b1 := existsb (fun q => 1 <? q_calls q) (k_reqs c) in
    let b2 := existsb q_stream (k_reqs c) in
    let b3 := existsb (fun q => q_res q =? 2) (k_reqs c) in
    let b4 := k_cb c in
    let b5 := existsb (fun q => 0 <=? q_cancel q) (k_reqs c) in
    let b6 := existsb (fun q => q_res q =? 4) (k_reqs c) in
    let b7 := existsb (fun q => (q_res q =? 0) && (1 <? q_calls q)) (k_reqs c) in
    let b8 := existsb (fun q => q_res q =? 7) (k_reqs c) in
    let b9 := existsb (fun q => q_res q =? 5) (k_reqs c) in
    let b10 := existsb (fun q => q_stream q && (q_clen q =? 1)) (k_reqs c) in
    let b11 := k_prelude c || existsb q_mutate (removelast (k_reqs c)) in
    (1 + bN b1 1 + bN b2 2 + bN b3 4 + bN b4 8 + bN b5 16 + bN b6 32 + bN b7 64 + bN b8 128
       + bN b9 256 + bN b10 512 + bN b11 1024)%N
  end.

(** the case the MODEL itself would produce for a pool configuration and a list of client
    requests (stream, script, cancel, draws, pick) - for the checker-soundness theorem *)
Definition model_pool_req (pl : pool) (smax : Z) (x : bool * list (Z * Z) * Z * (nat -> Z) * (nat -> bool)) : pool_req :=
  let '(stream, script, cancel, draws, pick) := x in
  let rq := {| rq_stream := stream; rq_script := tscript_of script; rq_cancel := cancel_of cancel;
               rq_draws := draws; rq_pick := pick |} in
  let out := pool_handle pl true rq in
  let n := po_attempts out in
  let vis := visible_code (fun j => bsize smax script (Z.of_nat j)) (po_visible out) in
  {| q_stream := stream; q_script := script; q_cancel := cancel; q_clen := 0; q_mutate := false;
     q_calls := Z.of_nat n;
     q_res := fst (presult_code (po_result out)); q_status := snd (presult_code (po_result out));
     q_from := fst vis; q_plen := snd vis;
     q_bodies := Z.of_nat n; q_hdrs := 0; q_cbt := -1; q_cbf := -1;
     q_gaps := firstn (n - 1) (waits_of (handler_trace pl rq)) |}.

Definition model_pool_rq (x : bool * list (Z * Z) * Z * (nat -> Z) * (nat -> bool)) : request :=
  let '(stream, script, cancel, draws, pick) := x in
  {| rq_stream := stream; rq_script := tscript_of script; rq_cancel := cancel_of cancel;
     rq_draws := draws; rq_pick := pick |}.

Definition set_cum (q : pool_req) (a b : Z) : pool_req :=
  {| q_stream := q_stream q; q_script := q_script q; q_cancel := q_cancel q; q_clen := q_clen q;
     q_mutate := q_mutate q;
     q_calls := q_calls q; q_res := q_res q; q_status := q_status q; q_from := q_from q;
     q_plen := q_plen q; q_bodies := q_bodies q; q_hdrs := q_hdrs q;
     q_cbt := a; q_cbf := b; q_gaps := q_gaps q |}.

(** the model's requests with the running breaker totals (from the model's own records) *)
Fixpoint model_pool_reqs (pl : pool) (smax : Z) (xs : list (bool * list (Z * Z) * Z * (nat -> Z) * (nat -> bool)))
         (t f : Z) : list pool_req :=
  match xs with
  | [] => []
  | x :: r =>
      let out := pool_handle pl true (model_pool_rq x) in
      let t' := t + Z.of_nat (List.length (po_records out)) in
      let f' := f + count_true (po_records out) in
      set_cum (model_pool_req pl smax x) (if pl_cb pl then t' else -1) (if pl_cb pl then f' else -1)
        :: model_pool_reqs pl smax r t' f'
  end.

Definition model_pool_case (retry : bool) (p : policy) (timeout : Z) (cb : bool) (fcodes : list Z) (smax : Z)
           (xs : list (bool * list (Z * Z) * Z * (nat -> Z) * (nat -> bool))) : pool_case :=
  let c0 := {| k_retry := retry; k_pol := p; k_timeout := timeout; k_cb := cb; k_fcodes := fcodes;
               k_smax := smax; k_prelude := false; k_reqs := []; k_cbt := -1; k_cbf := -1 |} in
  let pl := pool_of c0 in
  let outs := pool_run pl (map model_pool_rq xs) in
  {| k_retry := retry; k_pol := p; k_timeout := timeout; k_cb := cb; k_fcodes := fcodes;
     k_smax := smax; k_prelude := false;
     k_reqs := model_pool_reqs pl smax xs 0 0;
     k_cbt := if cb then Z.of_nat (total_records outs) else -1;
     k_cbf := if cb then Z.of_nat (failed_records outs) else -1 |}.

Definition check_pool (c : pool_case) : result :=
  (corr_pool c, prop_pool c, class_pool c, 0%N).
Definition explain_pool (c : pool_case) := pool_model c.
