(** Case types and per-case check function for C02 (evaluated by vm_compute on
    the traces of the real code).  Result: (corr, prop, class, attributed-flag).

    - corr : the model ([Pipeline.v]: [validate], [do_handle], [hba], run with the
             pinned quirk flags) yields exactly the implementation's observables;
    - prop : a decidable checker of the property on the IMPLEMENTATION's own
             trace which does not use the transcribed loop: it replays the observed
             invocations against the declarative successor function [next_spec ideal]
             (forward only, exactly the named node, nothing after END, result of the
             last filter, namespace per node, bound filter per node) and checks that
             accepted specs are declaratively valid ([validspec_b], written
             independently of [validate]);
    - class: 0 = trivial case, >0 = coverage class;
    - attributed-flag: index of the known-finding quirk that explains a prop
             failure (0 = none). *)
From EG.lib Require Import Base.
From EG.model Require Import Pipeline.
Open Scope string_scope.

Definition result_t := (bool * bool * N * N)%type.

Record spec := { s_decls : list decl; s_flow : list node }.

Record obs := {
  o_valid : list (option bool);       (* Spec.Validate of main, before, after; None = absent *)
  o_newspec : bool;
  o_ran : bool;
  o_panic : bool;
  o_calls : list (string * string * string * string);  (* pipeline, filter instance, ns marker, returned *)
  o_stats : list (string * string);                    (* alias, result of the stats tag *)
  o_tagok : bool;
  o_result : option string;
  o_life : list string }.              (* GlobalFilter update cases: lineage of the new filter instances, closes of the old *)

Record c02_case := {
  c_kinds : kinds_t;
  c_main : spec;
  c_before : option spec;
  c_after : option spec;
  c_mode : N;                 (* 0 Handle, 1 HandleWithBeforeAfter, 2 through a GlobalFilter *)
  c_raw : bool;
  c_script : list string;
  c_gfprev : bool;            (* mode 2: the handling GlobalFilter inherited from a previous generation ... *)
  c_prevb : option spec;      (* ... built from these before / after specs *)
  c_preva : option spec;
  c_obs : obs }.

Definition res_of (script : list string) (n : nat) : string := nth n script "".

(** ** equality helpers *)
Definition opt_eqb {A} (eqb : A -> A -> bool) (a b : option A) : bool :=
  match a, b with
  | Some x, Some y => eqb x y
  | None, None => true
  | _, _ => false
  end.
Definition call_eqb (a b : string * string * string * string) : bool :=
  let '(a1, a2, a3, a4) := a in let '(b1, b2, b3, b4) := b in
  (a1 =s b1) && (a2 =s b2) && (a3 =s b3) && (a4 =s b4).
Definition stat_eqb (a b : string * string) : bool := (fst a =s fst b) && (snd a =s snd b).

Definition obs_eqb (a b : obs) : bool :=
  list_eqb (opt_eqb Bool.eqb) (o_valid a) (o_valid b) &&
  Bool.eqb (o_newspec a) (o_newspec b) && Bool.eqb (o_ran a) (o_ran b) &&
  Bool.eqb (o_panic a) (o_panic b) &&
  list_eqb call_eqb (o_calls a) (o_calls b) && list_eqb stat_eqb (o_stats a) (o_stats b) &&
  Bool.eqb (o_tagok a) (o_tagok b) && opt_eqb String.eqb (o_result a) (o_result b) &&
  list_eqb String.eqb (o_life a) (o_life b).

(** ** the model's observables *)
Definition present (c : c02_case) : list (option spec) :=
  if (c_mode c =? 0)%N then [Some (c_main c); None; None]
  else [Some (c_main c); c_before c; c_after c].

Definition spec_valid (k : kinds_t) (s : spec) : bool := validate k (s_decls s) (s_flow s).
(** raw cases are bound by reload without validating the flow *)
Definition spec_buildable (k : kinds_t) (raw : bool) (s : spec) : bool :=
  if raw then validate_decls k [] (s_decls s) && bindable (s_decls s) (s_flow s)
  else spec_valid k s.

Definition all_opt (f : spec -> bool) (l : list (option spec)) : bool :=
  forallb (fun o => match o with Some s => f s | None => true end) l.

Definition run_flow (s : spec) : list node := eff_flow (s_decls s) (s_flow s).

(** the before/after pipelines handed to HandleWithBeforeAfter *)
Definition side_flow (mode : N) (o : option spec) : option (list node) :=
  match o with
  | None => None
  | Some s =>
      if (mode =? 2)%N then
        (* GlobalFilter.reload creates the pipeline only when the spec has a flow *)
        match s_flow s with [] => None | _ => Some (run_flow s) end
      else Some (run_flow s)
  end.

Definition pname (f : nat) : string :=
  match f with 0 => "before" | 1 => "main" | _ => "after" end.

Definition flow_of (before : option (list node)) (main : list node) (after : option (list node)) (f : nat) : list node :=
  match f with
  | 0 => match before with Some b => b | None => [] end
  | 1 => main
  | _ => match after with Some a => a | None => [] end
  end.

Definition dummy : node := {| fname := ""; falias := ""; fns := ""; jumpif := [] |}.

Fixpoint calls_of (fl : nat -> list node) (res : nat -> string) (n : nat) (vs : list (nat * nat * string))
  : list (string * string * string * string) :=
  match vs with
  | [] => []
  | (f, i, act) :: t => (pname f, fname (nth i (fl f) dummy), act, res n) :: calls_of fl res (S n) t
  end.

Fixpoint stats_of (fl : nat -> list node) (res : nat -> string) (n : nat) (vs : list (nat * nat * string))
  : list (string * string) :=
  match vs with
  | [] => []
  | (f, i, act) :: t => (alias_of (nth i (fl f) dummy), res n) :: stats_of fl res (S n) t
  end.

Definition model_hrun (q : quirks) (c : c02_case) : hrun :=
  let res := res_of (c_script c) in
  let main := run_flow (c_main c) in
  if (c_mode c =? 0)%N then
    let o := do_handle q res main 0 DEFAULT_NS in
    {| hvisits := tagv 1 o; hresult := result o; hsaw_end := saw_end o; hninv := ninv o |}
  else hba q res (side_flow (c_mode c) (c_before c)) main (side_flow (c_mode c) (c_after c)) 0 DEFAULT_NS.

(** lifecycle of a GlobalFilter update (GlobalFilter.reload + Pipeline.Inherit):
    a pipeline exists only for a spec with a non-empty flow; a filter of the new
    before (after) pipeline inherits from the previous BEFORE (AFTER) pipeline's
    filter of the same name and kind, else it is initialised; the filters of a previous
    pipeline are closed exactly once when the new generation has that pipeline,
    and not at all otherwise. *)
Definition side_exists (o : option spec) : bool :=
  match o with Some s => match s_flow s with [] => false | _ => true end | None => false end.
(** the previous pipeline has a filter of that name AND of the same kind (a
    filter of another kind under the same name is not a predecessor) *)
Definition has_decl (d : decl) (o : option spec) : bool :=
  match o with
  | Some s => match find_decl (dname d) (s_decls s) with Some d' => dkind d' =s dkind d | None => false end
  | None => false
  end.
Definition decls_of (o : option spec) : list decl := match o with Some s => s_decls s | None => [] end.

Definition life_new (pn : string) (g0 : bool) (cur prev : option spec) : list string :=
  if side_exists cur then
    map (fun d => "new:" ++ pn ++ "/" ++ dname d ++ "<-" ++
                  (if g0 && side_exists prev && has_decl d prev then pn ++ "/" ++ dname d else "init"))
        (decls_of cur)
  else [].
Definition life_old (pn : string) (g0 : bool) (cur prev : option spec) : list string :=
  if g0 && side_exists prev then
    map (fun d => "old:" ++ pn ++ "/" ++ dname d ++ " closed " ++ (if side_exists cur then "1" else "0"))
        (decls_of prev)
  else [].
Definition life_of (c : c02_case) : list string :=
  if (c_mode c =? 2)%N && c_gfprev c then
    let g0 := all_opt (spec_valid (c_kinds c)) [c_prevb c; c_preva c] in
    (life_new "before" g0 (c_before c) (c_prevb c) ++ life_new "after" g0 (c_after c) (c_preva c) ++
     life_old "before" g0 (c_before c) (c_prevb c) ++ life_old "after" g0 (c_after c) (c_preva c))%list
  else [].

Definition model_obs (q : quirks) (c : c02_case) : obs :=
  let k := c_kinds c in
  let ps := present c in
  let valid := map (fun o => match o with Some s => Some (spec_valid k s) | None => None end) ps in
  let ok := all_opt (spec_buildable k (c_raw c)) ps in
  if negb ok then
    {| o_valid := valid; o_newspec := false; o_ran := false; o_panic := false; o_calls := []; o_stats := [];
       o_tagok := false; o_result := None; o_life := [] |}
  else
    let res := res_of (c_script c) in
    let main := run_flow (c_main c) in
    let before := if (c_mode c =? 0)%N then None else side_flow (c_mode c) (c_before c) in
    let after := if (c_mode c =? 0)%N then None else side_flow (c_mode c) (c_after c) in
    let h := model_hrun q c in
    let fl := flow_of before main after in
    {| o_valid := valid; o_newspec := true; o_ran := true; o_panic := false;
       o_calls := calls_of fl res 0 (hvisits h); o_stats := stats_of fl res 0 (hvisits h);
       o_tagok := true;
       o_result := if (c_mode c =? 2)%N then None else Some (hresult h);
       o_life := life_of c |}.

(** ** the property checker (declarative; independent of [loop] and of [validate]) *)

Fixpoint nodupb (l : list string) : bool :=
  match l with
  | [] => true
  | x :: t => negb (mem x t) && nodupb t
  end.

(** exactly one filter node named [t] strictly after position [i] *)
Definition uniq_later (flow : list node) (i : nat) (t : string) : bool :=
  match find_idx (is_target t) (skipn (S i) flow) (S i) with
  | None => false
  | Some j => match find_idx (is_target t) (skipn (S j) flow) (S j) with None => true | Some _ => false end
  end.

Definition no_later (flow : list node) (i : nat) (t : string) : bool :=
  match find_idx (is_target t) (skipn (S i) flow) (S i) with None => true | Some _ => false end.

Fixpoint validflow_b (k : kinds_t) (ds : list decl) (flow : list node) (i : nat) (l : list node) : bool :=
  match l with
  | [] => true
  | nd :: tl =>
      (is_end nd ||
       match results_of k ds (fname nd) with
       | None => false
       | Some rs =>
           forallb (fun rt => mem (fst rt) rs &&
                              (if snd rt =s END then no_later flow i END else uniq_later flow i (snd rt)))
                   (jumpif nd)
       end) && validflow_b k ds flow (S i) tl
  end.

Definition validspec_b (k : kinds_t) (s : spec) : bool :=
  nodupb (map dname (s_decls s)) &&
  forallb (fun d => decl_ok k d && negb (dname d =s END)) (s_decls s) &&
  validflow_b k (s_decls s) (s_flow s) 0 (s_flow s).

(** one observed invocation: call record zipped with the stats entry *)
Definition entry := (string * string * string * string * (string * string))%type.

Fixpoint zip_obs (cs : list (string * string * string * string)) (ss : list (string * string)) : option (list entry) :=
  match cs, ss with
  | [], [] => Some []
  | c :: ct, s :: st => match zip_obs ct st with Some t => Some ((c, s) :: t) | None => None end
  | _, _ => None
  end.

Definition e_res (e : entry) : string := let '(_, _, _, r, _) := e in r.

(** the observed invocation is the one the node prescribes: pipeline, bound
    filter, configured namespace, alias; tag result = returned result *)
Definition entry_matches (pn : string) (nd : node) (e : entry) : bool :=
  let '(p, f, m, r, (a, r')) := e in
  (p =s pn) && (f =s fname nd) && (m =s eff_ns nd) && (a =s alias_of nd) && (r =s r').

(** replay observed entries along the declarative successor; returns the final
    status and the entries not consumed.  [matches nd e]: the observed invocation
    [e] is the one node [nd] prescribes; [eres e]: the result it returned. *)
Fixpoint walk_obs {E} (matches : node -> E -> bool) (eres : E -> string)
         (flow : list node) (s : succ) (es : list E) {struct es} : option (succ * list E) :=
  match s with
  | SRun j =>
      match es with
      | [] => None                               (* a filter should have run and did not *)
      | e :: t =>
          match nth_error flow j with
          | None => None
          | Some nd =>
              if matches nd e then
                let nx := next_spec ideal flow j (eres e) in
                if match nx with SRun j' => Nat.ltb j j' | _ => true end   (* forward only *)
                then walk_obs matches eres flow nx t else None
              else None
          end
      end
  | fin => Some (fin, es)
  end.

Definition walk_flow (o : option (list node)) (pn : string) (st : option (succ * list entry)) : option (succ * list entry) :=
  match st with
  | None => None
  | Some (SEnd, es) => Some (SEnd, es)           (* END anywhere stops everything *)
  | Some (_, es) =>
      match o with
      | None => Some (SDone, es)
      | Some fl => walk_obs (entry_matches pn) e_res fl (arrive fl 0) es
      end
  end.

Definition last_result (es : list entry) : string :=
  match rev es with [] => "" | e :: _ => e_res e end.

Definition prop_run (c : c02_case) (o : obs) : bool :=
  match zip_obs (o_calls o) (o_stats o) with
  | None => false
  | Some es =>
      let main := run_flow (c_main c) in
      let before := if (c_mode c =? 0)%N then None else side_flow (c_mode c) (c_before c) in
      let after := if (c_mode c =? 0)%N then None else side_flow (c_mode c) (c_after c) in
      let st := walk_flow after "after" (walk_flow (Some main) "main" (walk_flow before "before" (Some (SDone, es)))) in
      match st with
      | Some (fin, []) =>
          (match fin with SFell => false | _ => true end) &&
          o_tagok o &&
          match o_result o with Some r => r =s last_result es | None => true end
      | _ => false
      end
  end.

Fixpoint valid_implies (vs : list (option bool)) (ps : list (option spec)) (k : kinds_t) : bool :=
  match vs, ps with
  | [], [] => true
  | Some true :: vt, Some s :: pt => validspec_b k s && valid_implies vt pt k
  | Some false :: vt, Some _ :: pt => valid_implies vt pt k
  | None :: vt, None :: pt => valid_implies vt pt k
  | _, _ => false
  end.

Definition all_accepted (vs : list (option bool)) : bool :=
  forallb (fun v => match v with Some false => false | _ => true end) vs.

Definition prop (c : c02_case) (o : obs) : bool :=
  let k := c_kinds c in
  let ps := present c in
  (* invalid specs are rejected, by Spec.Validate and by the real entry point *)
  valid_implies (o_valid o) ps k &&
  (if o_newspec o && negb (c_raw c) then all_accepted (o_valid o) else true) &&
  (* every valid pipeline runs along the reference walk and does not panic *)
  (if all_opt (validspec_b k) ps then
     negb (o_panic o) &&
     (if o_ran o then prop_run c o && list_eqb String.eqb (o_life o) (life_of c) else true)
   else true).

(** ** coverage class *)
Definition bN (b : bool) (n : N) : N := if b then n else 0%N.

Fixpoint has_skip (vs : list (nat * nat * string)) : bool :=
  match vs with
  | (f, i, _) :: (((f', i', _) :: _) as t) => (Nat.eqb f f' && Nat.ltb (S i) i') || has_skip t
  | _ => false
  end.

Definition nodes_total (c : c02_case) : nat :=
  fold_right (fun o a => match o with Some s => List.length (s_flow s) + List.length (s_decls s) + a | None => a end)
             0 (present c).

Definition class_of (q : quirks) (c : c02_case) (o : obs) : N :=
  match nodes_total c with
  | 0 => 0%N
  | _ =>
      let h := model_hrun q c in
      (1 + bN (o_ran o && negb (Nat.eqb (List.length (o_calls o)) 0)) 1
         + bN (o_ran o && has_skip (hvisits h)) 2
         + bN (o_ran o && hsaw_end h) 4
         + bN (negb (c_mode c =? 0)%N) 8
         + bN (negb (all_accepted (o_valid o))) 16
         + bN (c_raw c) 32)%N
  end.

(** ** the check *)
Definition flag_off (q : quirks) (idx : N) : quirks :=
  match idx with
  | 1%N => {| q_end_alias_target := false |}
  | _ => q
  end.

Definition check_run (pinned : quirks) (c : c02_case) : result_t :=
  let o := c_obs c in
  let m := model_obs pinned c in
  let corr := obs_eqb m o in
  let p := prop c o in
  let attrib :=
    if p then 0%N
    else if corr && q_end_alias_target pinned && prop c (model_obs (flag_off pinned 1) c) then 1%N
    else 0%N in
  (corr, p, class_of pinned c o, attrib).

Definition explain_run (pinned : quirks) (c : c02_case) := (model_obs pinned c, prop c (c_obs c)).

(** ** exhaustive small-scope group: one flow x ALL result scripts of a length *)
Record enum_case := {
  e_kinds : kinds_t;
  e_spec : spec;
  e_results : list string;        (* alphabet of results, "" included *)
  e_len : nat;                    (* script length *)
  e_valid : bool;                 (* Spec.Validate *)
  e_newspec : bool;               (* supervisor.NewSpec *)
  e_runs : list (list string * string) }.  (* per script: visited "alias/filter/namespace", result *)

Fixpoint all_scripts (alpha : list string) (n : nat) : list (list string) :=
  match n with
  | 0 => [[]]
  | S k => flat_map (fun a => map (cons a) (all_scripts alpha k)) alpha
  end.

Definition visit_name (nd : node) (act : string) : string :=
  alias_of nd ++ "/" ++ fname nd ++ "/" ++ act.

Definition enum_run (q : quirks) (flow : list node) (sc : list string) : list string * string :=
  let o := do_handle q (res_of sc) flow 0 DEFAULT_NS in
  (map (fun v => visit_name (nth (fst v) flow dummy) (snd v)) (visits o), result o).

Definition run_eqb (a b : list string * string) : bool :=
  list_eqb String.eqb (fst a) (fst b) && (snd a =s snd b).

Fixpoint zip_script (names : list string) (sc : list string) : list (string * string) :=
  match names with
  | [] => []
  | n :: t => (n, hd "" sc) :: zip_script t (tl sc)
  end.

Definition prop_enum_run (flow : list node) (sc : list string) (r : list string * string) : bool :=
  let es := zip_script (fst r) sc in
  match walk_obs (fun nd e => fst e =s visit_name nd (eff_ns nd)) snd flow (arrive flow 0) es with
  | Some (fin, []) =>
      (match fin with SFell => false | _ => true end) &&
      (snd r =s match rev es with [] => "" | e :: _ => snd e end)
  | _ => false
  end.

Fixpoint forallb2 {A B} (f : A -> B -> bool) (l1 : list A) (l2 : list B) : bool :=
  match l1, l2 with
  | [], [] => true
  | a :: t1, b :: t2 => f a b && forallb2 f t1 t2
  | _, _ => false
  end.

Definition check_enum (pinned : quirks) (c : enum_case) : result_t :=
  let k := e_kinds c in
  let s := e_spec c in
  let flow := run_flow s in
  let scripts := all_scripts (e_results c) (e_len c) in
  let v := spec_valid k s in
  let runnable := validate_decls k [] (s_decls s) && bindable (s_decls s) (s_flow s) in
  let model := if runnable then map (enum_run pinned flow) scripts else [] in
  let corr := Bool.eqb v (e_valid c) && Bool.eqb v (e_newspec c) && list_eqb run_eqb model (e_runs c) in
  let vs := validspec_b k s in
  let p := (if e_valid c || e_newspec c then vs else true) &&
           (if vs then forallb2 (prop_enum_run flow) scripts (e_runs c) else true) in
  let ideal_ok := (if vs then forallb2 (prop_enum_run flow) scripts (map (enum_run (flag_off pinned 1) flow) scripts) else true) in
  let attrib := if p then 0%N else if corr && q_end_alias_target pinned && ideal_ok then 1%N else 0%N in
  let h := existsb (fun r => negb (Nat.eqb (List.length (fst r)) 0)) (e_runs c) in
  (corr, p, (match s_flow s with [] => 0 | _ => 1 + bN v 1 + bN h 2 + bN (negb v) 16 end)%N, attrib).

Definition explain_enum (pinned : quirks) (c : enum_case) :=
  (spec_valid (e_kinds c) (e_spec c), map (enum_run pinned (run_flow (e_spec c))) (all_scripts (e_results c) (e_len c))).
