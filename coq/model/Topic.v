(** Executable model of easegress' MQTT topic manager (C14).

    - [split_go] / [split_topic] : pkg/object/mqttproxy/topic.go  splitTopic
        (byte-wise: '/', '+', '#' are ASCII, so Go's rune loop and a byte loop agree)
    - [node], [insert], [remove], [find_frontier] : topic.go  topicNode, insert,
        remove (with pruning of emptied nodes), findSubscribers (frontier loop)
    - [find1]  : depth-first reformulation of findSubscribers (proved equal)
    - [tm_subscribe], [tm_unsubscribe_*] : TopicManager.subscribe / unsubscribe
    - [step]   : broker.go handleConn (new connection, take-over of a connected id,
                 re-subscription from a stored persistent session), client.go
                 processSubscribe / processUnsubscribe / closeAndDelSession, together
                 with session.go's Topics map, in memory and in the session store ([sess])
    - spec side (declarative, independent of the trie): [split_slash], [wf_filter],
      [matches]/[matchesb], [spec]/[live] = naive replay of the history into a finite
      map (entries of a persistent session are suspended while its client is offline).

    The level LRU cache (topicLevelManager) memoises the pure function splitTopic and
    is therefore not modelled; the correspondence runs with cache sizes 1..3.

    All trie functions recurse on the LEVEL LIST and reach children through [alookup]
    only (no recursion on the rose tree).  Go maps are association lists with
    set = cons-after-remove; the meaning of a list is its set of entries ([In]).
    No proofs here. *)
From EG.lib Require Import Base.
Open Scope string_scope.
Open Scope list_scope.

Definition level := string.
Definition cid := string.
Definition qos := N.

(** ** string-keyed association lists *)
Definition aremove {A} (k : string) (l : list (string * A)) : list (string * A) :=
  filter (fun e => negb (String.eqb (fst e) k)) l.
Definition aset {A} (k : string) (v : A) (l : list (string * A)) : list (string * A) :=
  (k, v) :: aremove k l.

(** ** splitTopic (transcription of the Go loop) *)
Definition app1 (s : string) (c : ascii) : string := (s ++ String c "")%string.

Definition lvl_bad (cur : string) (wc : bool) : bool := (1 <? String.length cur)%nat && wc.

(** the level being read is accumulated in reverse ([rcur], newest byte first) so that
    the transcription is linear in the length of the string (topics of 65535 bytes are
    evaluated by the correspondence); [srev rcur] is Go's [topic[levelStart:i]] *)
Fixpoint srev_app (s acc : string) : string :=
  match s with
  | EmptyString => acc
  | String c r => srev_app r (String c acc)
  end.
Definition srev (s : string) : string := srev_app s "".

Fixpoint split_go (s rcur : string) (wc : bool) : option (list level) :=
  match s with
  | EmptyString => let cur := srev rcur in if lvl_bad cur wc then None else Some [cur]
  | String ch r =>
      if Ascii.eqb ch "/" then
        let cur := srev rcur in
        if lvl_bad cur wc then None
        else match split_go r "" false with
             | Some ls => Some (cur :: ls)
             | None => None
             end
      else if Ascii.eqb ch "+" then split_go r (String ch rcur) true
      else if Ascii.eqb ch "#" then
        match r with
        | EmptyString => split_go r (String ch rcur) true
        | _ => None                      (* '#' is not the last byte of the string *)
        end
      else split_go r (String ch rcur) wc
  end.

Definition split_topic (s : string) : option (list level) := split_go s "" false.

(** ** declarative side: plain split at '/', well-formedness, MQTT matching *)
Fixpoint split_slash (s : string) : list level :=
  match s with
  | EmptyString => [""]
  | String ch r =>
      if Ascii.eqb ch "/" then "" :: split_slash r
      else match split_slash r with
           | h :: t => String ch h :: t
           | [] => [String ch ""]
           end
  end.

Fixpoint join (ls : list level) : string :=
  match ls with
  | [] => ""
  | [l] => l
  | l :: r => (l ++ String "/" (join r))%string
  end.

Fixpoint has_wild (s : string) : bool :=
  match s with
  | EmptyString => false
  | String ch r => Ascii.eqb ch "+" || Ascii.eqb ch "#" || has_wild r
  end.

Definition has_slash (s : string) : bool :=
  (fix go s := match s with EmptyString => false | String ch r => Ascii.eqb ch "/" || go r end) s.

(** a level of a well-formed filter: no wildcard character at all, or exactly "+" *)
Definition lvl_ok (l : level) : bool := negb (has_wild l) || (l =? "+").

Fixpoint wf_levels (ls : list level) : bool :=
  match ls with
  | [] => false
  | [l] => lvl_ok l || (l =? "#")
  | l :: r => lvl_ok l && wf_levels r
  end.

Definition wf_filter (s : string) : bool := wf_levels (split_slash s).

(** compact notation for long strings: [srep s n] = [s] repeated [n] times,
    [sx [(s1, n1); (s2, n2); ...]] = s1^n1 ++ s2^n2 ++ ... (used by the case encoder for
    topics at the 65535-byte boundary; the functions above run on the expanded string) *)
Definition srep (s : string) (n : N) : string := N.iter n (append s) "".
Definition sx (l : list (string * N)) : string :=
  fold_right (fun p acc => (srep (fst p) (snd p) ++ acc)%string) "" l.

(** MQTT 3.1.1 matching of a filter (levels) against a topic name (levels):
    '+' matches exactly one level, a trailing '#' the remaining levels including none. *)
Inductive matches : list level -> list level -> Prop :=
| M_nil : matches [] []
| M_hash : forall ts, matches ["#"] ts
| M_plus : forall fs t ts, matches fs ts -> matches ("+" :: fs) (t :: ts)
| M_lit : forall l fs ts, matches fs ts -> matches (l :: fs) (l :: ts).

Fixpoint matchesb (fs ts : list level) : bool :=
  match fs with
  | [] => match ts with [] => true | _ => false end
  | f :: fr =>
      ((f =? "#") && match fr with [] => true | _ => false end) ||
      match ts with
      | [] => false
      | t :: tr => ((f =? "+") || (f =? t)) && matchesb fr tr
      end
  end.

(** a topic NAME level (no wildcard): the property only speaks about these *)
Definition name_level (t : level) : Prop := t <> "+" /\ t <> "#".
Definition topic_name (ts : list level) : Prop := Forall name_level ts.
Definition name_levelb (t : level) : bool := negb (t =? "+") && negb (t =? "#").

(** ** the trie *)
Inductive node := Node (clients : list (cid * qos)) (children : list (level * node)).

Definition nclients (n : node) := match n with Node c _ => c end.
Definition nchildren (n : node) := match n with Node _ ch => ch end.
Definition empty_node : node := Node [] [].
Definition child (l : level) (n : node) : option node := alookup l (nchildren n).
Definition is_empty (n : node) : bool :=
  match n with Node [] [] => true | _ => false end.

(** clients stored at filter [ls] *)
Fixpoint at_path (ls : list level) (n : node) : list (cid * qos) :=
  match ls with
  | [] => nclients n
  | l :: r => match child l n with Some m => at_path r m | None => [] end
  end.

Fixpoint insert (ls : list level) (c : cid) (q : qos) (n : node) : node :=
  match ls with
  | [] => Node (aset c q (nclients n)) (nchildren n)
  | l :: r =>
      let m := match child l n with Some m => m | None => empty_node end in
      Node (nclients n) (aset l (insert r c q m) (nchildren n))
  end.

(** Go's remove: [None] = some node of the path is missing (nothing changes);
    otherwise the client is deleted and emptied nodes are pruned bottom-up. *)
Fixpoint remove_opt (ls : list level) (c : cid) (n : node) : option node :=
  match ls with
  | [] => Some (Node (aremove c (nclients n)) (nchildren n))
  | l :: r =>
      match child l n with
      | None => None
      | Some m =>
          match remove_opt r c m with
          | None => None
          | Some m' =>
              Some (if is_empty m' then Node (nclients n) (aremove l (nchildren n))
                    else Node (nclients n) (aset l m' (nchildren n)))
          end
      end
  end.

Definition remove (ls : list level) (c : cid) (n : node) : node :=
  match remove_opt ls c n with Some n' => n' | None => n end.

Definition hash_clients (n : node) : list (cid * qos) :=
  match child "#" n with Some h => nclients h | None => [] end.

Definition opt_list {A} (o : option A) : list A := match o with Some x => [x] | None => [] end.

Definition is_wild_level (t : level) : bool := (t =? "#") || (t =? "+").

(** children of [n] that the Go loop descends into for topic level [t]: the "+" child
    and the child named [t]; for t = "#" the first branch of the Go [if] catches the
    "#" child (clients only), for t = "+" both tests select the same single map entry. *)
Definition descend (t : level) (n : node) : list node :=
  opt_list (child "+" n) ++ (if is_wild_level t then [] else opt_list (child t n)).

(** findSubscribers, the Go frontier loop; [ans] accumulates every (client, qos) written
    into the answer map (the Go map keeps, per client, the last one written) *)
Fixpoint find_frontier (ts : list level) (cur : list node) (ans : list (cid * qos))
  : list (cid * qos) :=
  match ts with
  | [] => ans ++ flat_map (fun n => nclients n ++ hash_clients n) cur
  | t :: r =>
      let ans' := ans ++ flat_map hash_clients cur in
      match flat_map (descend t) cur with
      | [] => ans'
      | next => find_frontier r next ans'
      end
  end.

(** depth-first form *)
Fixpoint find1 (ts : list level) (n : node) : list (cid * qos) :=
  match ts with
  | [] => nclients n ++ hash_clients n
  | t :: r =>
      hash_clients n ++
      (match child "+" n with Some m => find1 r m | None => [] end) ++
      (if is_wild_level t then []
       else match child t n with Some m => find1 r m | None => [] end)
  end.

(** [None] = findSubscribers returns an error (topic rejected by splitTopic) *)
Definition find (n : node) (T : string) : option (list (cid * qos)) :=
  match split_topic T with
  | None => None
  | Some ts => Some (find_frontier ts [n] [])
  end.

(** ** TopicManager.subscribe / unsubscribe *)
Fixpoint tm_subscribe (c : cid) (fqs : list (string * qos)) (n : node) : node * bool :=
  match fqs with
  | [] => (n, true)
  | (f, q) :: r =>
      match split_topic f with
      | None => (n, false)                   (* return err: earlier inserts stay *)
      | Some ls => tm_subscribe c r (insert ls c q n)
      end
  end.

(** as the code is: the loop returns at the first malformed filter *)
Fixpoint tm_unsubscribe_abort (c : cid) (fs : list string) (n : node) : node :=
  match fs with
  | [] => n
  | f :: r =>
      match split_topic f with
      | None => n
      | Some ls => tm_unsubscribe_abort c r (remove ls c n)
      end
  end.

(** repaired: malformed filters are skipped (they cannot be subscribed) *)
Fixpoint tm_unsubscribe_skip (c : cid) (fs : list string) (n : node) : node :=
  match fs with
  | [] => n
  | f :: r =>
      match split_topic f with
      | None => tm_unsubscribe_skip c r n
      | Some ls => tm_unsubscribe_skip c r (remove ls c n)
      end
  end.

(** ** finite map (client, filter string) -> qos: session bookkeeping and the spec *)
Definition lkey := (cid * string)%type.
Definition lmap := list (lkey * qos).
Definition key_eqb (a b : lkey) : bool := (fst a =? fst b) && (snd a =? snd b).
Definition lremove (k : lkey) (m : lmap) : lmap := filter (fun e => negb (key_eqb (fst e) k)) m.
Definition lset (k : lkey) (v : qos) (m : lmap) : lmap := (k, v) :: lremove k m.
Definition ldrop (c : cid) (m : lmap) : lmap := filter (fun e => negb (fst (fst e) =? c)) m.
Definition lfilters (c : cid) (m : lmap) : list string :=
  map (fun e => snd (fst e)) (filter (fun e => fst (fst e) =? c) m).

Definition lsub (c : cid) (fqs : list (string * qos)) (m : lmap) : lmap :=
  fold_left (fun m fq => lset (c, fst fq) (snd fq) m) fqs m.
Definition lunsub (c : cid) (fs : list string) (m : lmap) : lmap :=
  fold_left (fun m f => lremove (c, f) m) fs m.

(** ** operations, quirks, the broker-side step *)
Inductive op :=
| Conn (c : cid) (clean : bool)               (* CONNECT on a new connection; when [c] is still
                                                 connected: take-over, followed by the end of the
                                                 superseded connection *)
| Sub (c : cid) (fqs : list (string * qos))   (* SUBSCRIBE packet *)
| Unsub (c : cid) (fs : list string)          (* UNSUBSCRIBE packet *)
| Disc (c : cid).                             (* the connection of [c] ends (DISCONNECT, socket
                                                 error, or closed by the broker beforehand) *)

(** defect sites of the unchanged code (see known_findings/C14.json) *)
Record quirks := {
  (* TopicManager.subscribe / unsubscribe return at the first malformed filter of a
     multi-filter packet, leaving the earlier filters inserted (resp. the later filters
     not removed) in the trie, while the session map is updated all-or-nothing:
     the trie keeps subscriptions the session does not know, disconnect never removes them *)
  q_abort_on_malformed : bool
}.
Definition ideal : quirks := {| q_abort_on_malformed := false |}.

(** [sess]: Session.info.Topics of every client, one finite map: for a connected client
    the in-memory session (its stored copy follows every change), for a disconnected
    client the copy left in the session store (persistent sessions only).
    [online]: the connected client ids with the cleanSession flag of their session. *)
Record state := { trie : node; sess : lmap; online : list (cid * bool) }.
Definition st0 : state := {| trie := empty_node; sess := []; online := [] |}.

Inductive out := Ack (b : bool) | NoOut.

Definition valid_filter (f : string) : bool :=
  match split_topic f with Some _ => true | None => false end.

Definition tm_unsubscribe (Q : quirks) :=
  if q_abort_on_malformed Q then tm_unsubscribe_abort else tm_unsubscribe_skip.

(** TopicManager.subscribe: the repaired code validates every filter first *)
Definition tm_subscribe_q (Q : quirks) (c : cid) (fqs : list (string * qos)) (n : node) : node * bool :=
  if negb (q_abort_on_malformed Q) && negb (forallb (fun fq => valid_filter (fst fq)) fqs)
  then (n, false)
  else tm_subscribe c fqs n.

Definition is_on (c : cid) (on : list (cid * bool)) : bool :=
  match alookup c on with Some _ => true | None => false end.

Definition lpairs (c : cid) (m : lmap) : list (string * qos) :=
  map (fun e => (snd (fst e), snd e)) (filter (fun e => fst (fst e) =? c) m).

(** the connection of [c] ends: closeAndDelSession = unsubscribe(session.allSubscribes()),
    session dropped from the store when it is a clean one.  allSubscribes iterates a Go
    map; the model uses the list order (irrelevant when every stored filter is valid). *)
Definition teardown (Q : quirks) (c : cid) (s : state) : state :=
  match alookup c (online s) with
  | None => s
  | Some clean =>
      {| trie := tm_unsubscribe Q c (lfilters c (sess s)) (trie s);
         sess := if clean then ldrop c (sess s) else sess s;
         online := aremove c (online s) |}
  end.

(** handleConn for a client id that is not connected: setSession + re-subscription of the
    topics of the previous persistent session (cleanSession=false), or a fresh session *)
Definition connect (Q : quirks) (c : cid) (clean : bool) (s : state) : state :=
  if clean then {| trie := trie s; sess := ldrop c (sess s); online := aset c true (online s) |}
  else {| trie := fst (tm_subscribe_q Q c (lpairs c (sess s)) (trie s));
          sess := sess s; online := aset c false (online s) |}.

(** SUBSCRIBE / UNSUBSCRIBE of a client id that has no connection: the harness connects
    it first with a clean session *)
Definition ensure_on (Q : quirks) (c : cid) (s : state) : state :=
  if is_on c (online s) then s else connect Q c true s.

Definition step (Q : quirks) (s : state) (o : op) : state * out :=
  match o with
  | Conn c clean =>
      (* take-over: the new connection is set up first and the superseded connection's
         tear-down follows; for the shapes in the alphabet (not persistent -> persistent,
         see KF-C16) the result is that of tear-down followed by the connect *)
      (connect Q c clean (teardown Q c s), NoOut)
  | Sub c fqs =>
      let s := ensure_on Q c s in
      let '(n', ok) := tm_subscribe_q Q c fqs (trie s) in
      if ok then ({| trie := n'; sess := lsub c fqs (sess s); online := online s |}, Ack true)   (* session.subscribe + SUBACK *)
      else ({| trie := n'; sess := sess s; online := online s |}, Ack false)                     (* error logged, no SUBACK *)
  | Unsub c fs =>
      let s := ensure_on Q c s in
      (* the error of topicMgr.unsubscribe is only logged; session.unsubscribe; UNSUBACK *)
      ({| trie := tm_unsubscribe Q c fs (trie s); sess := lunsub c fs (sess s); online := online s |}, Ack true)
  | Disc c => (teardown Q c s, NoOut)
  end.

Definition next (Q : quirks) (s : state) (o : op) : state := fst (step Q s o).
Definition run (Q : quirks) (ops : list op) : state := fold_left (next Q) ops st0.

(** ** the declarative specification: naive replay.  [sp_m] holds the subscriptions of
    connected clients and the suspended ones of disconnected persistent sessions;
    [live] = the subscriptions of connected clients. *)
Record spec_state := { sp_m : lmap; sp_on : list (cid * bool) }.
Definition sp0 : spec_state := {| sp_m := []; sp_on := [] |}.

Definition spec_teardown (c : cid) (sp : spec_state) : spec_state :=
  match alookup c (sp_on sp) with
  | None => sp
  | Some clean => {| sp_m := if clean then ldrop c (sp_m sp) else sp_m sp;
                     sp_on := aremove c (sp_on sp) |}
  end.

Definition spec_connect (c : cid) (clean : bool) (sp : spec_state) : spec_state :=
  {| sp_m := if clean then ldrop c (sp_m sp) else sp_m sp; sp_on := aset c clean (sp_on sp) |}.

Definition spec_ensure (c : cid) (sp : spec_state) : spec_state :=
  if is_on c (sp_on sp) then sp else spec_connect c true sp.

Definition spec_step (sp : spec_state) (o : op) : spec_state :=
  match o with
  | Conn c clean => spec_connect c clean (spec_teardown c sp)
  | Sub c fqs =>
      let sp := spec_ensure c sp in
      if forallb (fun fq => wf_filter (fst fq)) fqs
      then {| sp_m := lsub c fqs (sp_m sp); sp_on := sp_on sp |} else sp
  | Unsub c fs =>
      let sp := spec_ensure c sp in {| sp_m := lunsub c fs (sp_m sp); sp_on := sp_on sp |}
  | Disc c => spec_teardown c sp
  end.

Definition spec (ops : list op) : spec_state := fold_left spec_step ops sp0.

(** the entries of [m] whose client is connected *)
Definition vis (on : list (cid * bool)) (m : lmap) : lmap :=
  filter (fun e => is_on (fst (fst e)) on) m.

Definition live_of (sp : spec_state) : lmap := vis (sp_on sp) (sp_m sp).
Definition live (ops : list op) : lmap := live_of (spec ops).
