(** Case types and the per-case check function for C19 (evaluated by vm_compute on the
    traces of the real syncer attached to an embedded etcd).
    Result: (corr, prop, class, attributed-flag).

    One case = one history of store operations performed by the harness + several
    subscriptions (adapter kind, key or prefix, position in the history at which the
    harness subscribes).  Per subscription the harness records
      - [o_states]: the watched content READ BACK from the real store (GetRaw /
                    GetRawPrefix) at subscription and after every later write op;
      - [o_msgs]  : every message received on the Sync* channel until quiescence.

    - corr : (a) the key/value model ([apply_op], [proj_*]) applied to the ops yields
             exactly the contents read back from etcd, and (b) the syncer model [run],
             driven by the schedule reconstructed from the observed messages (the
             scheduling nondeterminism fed back as an oracle), reproduces exactly the
             observed messages through the adapter, with a pull after the last write;
    - prop : [check_trace true] on the implementation's own observables only (states read
             back from etcd, messages received): every message is a store state at/after
             subscription, in non-decreasing order, consecutive messages differ, the last
             one equals the final content (C19_checker_sound / C19_checker_complete). *)
From EG.lib Require Import Base.
From EG.model Require Import Syncer.

Definition result := (bool * bool * N * N)%type.

Record sub := { s_kind : N;            (* 0 Sync, 1 SyncRaw, 2 SyncPrefix, 3 SyncRawPrefix *)
                s_target : string;     (* key or prefix *)
                s_at : nat }.          (* number of ops performed before subscribing *)
Record sub_obs := { o_states : list content; o_msgs : list content }.
Record c19_case := { c_ops : list op; c_subs : list sub; c_obs : list sub_obs;
                     c_faults : bool;  (* the history contains fault injections (muted watch, cancel, restart) *)
                     c_bad : bool;     (* harness-level failure (panic, write error): never a pass *)
                     c_api_bad : bool }. (* cluster.GetRaw/GetRawPrefix (op.go) disagreed with the harness' own
                                            single range request on some read-back: correspondence only *)

Definition is_prefix_kind (k : N) : bool := (2 <=? k)%N.

Definition proj_of (s : sub) : content -> content :=
  if is_prefix_kind (s_kind s) then proj_prefix (s_target s) else proj_key (s_target s).

(** what the consumer of that adapter receives for a snapshot, as a content *)
Definition msg_of (s : sub) (d : content) : content :=
  match s_kind s with
  | 0%N => match adapt_sync (s_target s) d with Some v => [(s_target s, v)] | None => [] end
  | 1%N => match adapt_sync_raw (s_target s) d with Some kv => [kv] | None => [] end
  | 2%N => adapt_sync_prefix d
  | _ => adapt_sync_raw_prefix d
  end.

Definition model_states (ops : list op) (s : sub) : list content :=
  let st := fold_left apply_op (firstn (s_at s) ops) [] in
  proj_of s st :: states_after (proj_of s) st (skipn (s_at s) ops).

Definition contents_eqb (a b : list content) : bool := list_eqb content_eqb a b.

Definition model_msgs_from (s : sub) (ms : list content) (msgs : list content) : list content * bool :=
  match ms with
  | [] => ([], false)
  | s0 :: ws =>
      let evs := schedule_of true s0 ws msgs in
      (map (msg_of s) (run s0 evs), pulled false evs && contents_eqb (writes evs) ws)
  end.

Definition model_msgs (ops : list op) (s : sub) (msgs : list content) : list content * bool :=
  model_msgs_from s (model_states ops s) msgs.

(** contents of more than 64 entries (big-prefix cases): the quadratic [is_data_equal] of the
    executable model would dominate the run time, so the model's possible outputs are decided by
    the checker instead of by running it (C19_checker_complete: the checker accepts exactly the
    outputs of [run]; C19_fast_checker_equiv: the linear comparison changes nothing for maps) *)
Definition is_big (l : list content) : bool := existsb (fun c => Nat.ltb 64 (List.length c)) l.

(** [fin]: convergence is demanded (the store was available: single node, or a quorum of the
    members was up all the time).  Without [fin] only safety is checked. *)
Definition corr_sub (fin : bool) (ops : list op) (s : sub) (o : sub_obs) : bool :=
  let ms := model_states ops s in
  contents_eqb ms (o_states o) &&
  (if fin && negb (is_big ms) then
     let '(m, ok) := model_msgs_from s ms (o_msgs o) in ok && contents_eqb m (o_msgs o)
   else
     match ms with
     | [] => false
     | s0 :: ws => check_trace_fast fin s0 ws (o_msgs o)
     end).

Definition prop_sub (fin : bool) (o : sub_obs) : bool :=
  match o_states o with
  | [] => false
  | s0 :: ws => check_trace_fast fin s0 ws (o_msgs o)
  end.

Fixpoint zip_all {A B} (f : A -> B -> bool) (l1 : list A) (l2 : list B) : bool :=
  match l1, l2 with
  | [], [] => true
  | a :: t1, b :: t2 => f a b && zip_all f t1 t2
  | _, _ => false
  end.

(** coverage features *)
Fixpoint changes (d : content) (l : list content) : nat :=
  match l with
  | [] => O
  | x :: t => if content_eqb d x then changes x t else S (changes x t)
  end.

Fixpoint has_repeat (d : content) (l : list content) : bool :=
  match l with
  | [] => false
  | x :: t => content_eqb d x || has_repeat x t
  end.

(** some content comes back after having been replaced (delete-then-recreate, A-B-A) *)
Fixpoint has_aba (l : list content) : bool :=
  match l with
  | [] => false
  | x :: t =>
      (match t with
       | y :: t' => negb (content_eqb x y) && existsb (content_eqb x) t'
       | [] => false
       end) || has_aba t
  end.

Definition bN (b : bool) (n : N) : N := if b then n else 0%N.

Definition class_case (c : c19_case) : N :=
  let obs := c_obs c in
  let nmsgs := fold_left (fun a o => (a + List.length (o_msgs o))%nat) obs O in
  match nmsgs with
  | O => 0%N
  | _ =>
    (1 + bN (existsb (fun o => Nat.ltb (List.length (o_msgs o)) (changes [] (o_states o))) obs) 1
       + bN (existsb (fun o => match o_states o with [] => false | s :: t => has_repeat s t end) obs) 2
       + bN (existsb (fun o => existsb (fun s => Nat.ltb 1 (List.length s)) (o_states o)) obs) 4
       + bN (existsb (fun o => match o_states o with [] => false | s :: _ => negb (content_eqb s []) end) obs) 8
       + bN (c_faults c) 16
       + bN (existsb (fun o => has_aba (o_states o)) obs) 32)%N
  end.

Definition check_sync_fin (fin : bool) (c : c19_case) : result :=
  (negb (c_bad c) && negb (c_api_bad c) && zip_all (corr_sub fin (c_ops c)) (c_subs c) (c_obs c),
   negb (c_bad c) && Nat.eqb (List.length (c_subs c)) (List.length (c_obs c)) && forallb (prop_sub fin) (c_obs c),
   class_case c, 0%N).

Definition check_sync (c : c19_case) : result := check_sync_fin true c.

(** *** multi-member cluster on one host: the syncer lives on member 0, the harness stops and
    starts the etcd servers of single members and writes through an independent client.
    Model: the store is available iff a quorum of the members is up ([quorum]); the etcd client
    of a member knows every member of the initial cluster ([all_members]), so its pulls keep
    succeeding ([C19_all_endpoints_survive_minority_stop]) and convergence is demanded. *)
Record multi_case := { m_case : c19_case;
                       m_members : nat;     (* size of the initial cluster *)
                       m_down : nat;        (* largest number of servers stopped at the same time *)
                       m_endpoints : nat }. (* observed: endpoints of the client of member 0 *)

Definition check_multi (m : multi_case) : result :=
  let fin := quorum (m_members m) (m_down m) in
  let '(corr, prop, cls, _) := check_sync_fin fin (m_case m) in
  (corr && Nat.eqb (m_endpoints m) (List.length (all_members (m_members m))), prop,
   (if fin then cls + 64 else cls)%N, 0%N).

(** *** endpoint list of the etcd client built by cluster.getClient for a static initial cluster
    (no server needed): it must cover every member, otherwise the client is pinned to a
    subset and the syncer stops following the store when those servers are down although the
    store keeps its quorum ([C19_refuted_single_endpoint]). *)
Record ep_case := { e_members : nat; e_same_host : bool; e_endpoints : nat; e_covers : bool;
                    e_send_opt : Z;   (* cluster.max-call-send-msg-size the client was built from *)
                    e_send : Z;       (* observed per-call send limit of the client (-1: not observable) *)
                    e_recv : Z }.     (* observed per-call receive limit *)

(** message-size limits of the member's etcd client: the option limits what the member SENDS;
    what it may RECEIVE (a pull of the whole watched content) stays at the etcd client's default
    (math.MaxInt32), whatever the send option is - otherwise pulls of a content larger than
    the send option fail for ever and the syncer cannot converge. *)
Definition model_send_limit (opt : Z) : Z := if (0 <? opt)%Z then opt else 2097152%Z.
Definition model_recv_limit : Z := 2147483647%Z.

Definition limits_ok (e : ep_case) : bool :=
  ((e_recv e =? -1) || (e_recv e =? model_recv_limit))%Z &&
  ((e_send e =? -1) || (e_send e =? model_send_limit (e_send_opt e)))%Z.

Definition check_endpoints (e : ep_case) : result :=
  let ok := Nat.eqb (e_endpoints e) (List.length (all_members (e_members e))) && e_covers e && limits_ok e in
  (ok, ok,
   (if Nat.ltb 1 (e_members e) then (if e_same_host e then 2 else 1)
    else if (e_send_opt e =? 10485760)%Z then 0 else 3)%N, 0%N).

Definition explain_endpoints (e : ep_case) :=
  (List.length (all_members (e_members e)), true, model_send_limit (e_send_opt e), model_recv_limit).

(** for replay files: per subscription (model states, model messages, corr, prop) *)
Definition explain_sync (c : c19_case) :=
  map (fun '(s, o) => (model_states (c_ops c) s, model_msgs (c_ops c) s (o_msgs o),
                       corr_sub true (c_ops c) s o, prop_sub true o))
      (combine (c_subs c) (c_obs c)).

Definition explain_multi (m : multi_case) :=
  (quorum (m_members m) (m_down m), List.length (all_members (m_members m)), explain_sync (m_case m)).
