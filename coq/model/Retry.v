(** C10 - executable model of the Retry wrapper (pkg/resilience/retry.go), the
    CircuitBreaker wrapper (pkg/resilience/circuitbreaker.go, wrapper part only)
    and their composition in ServerPool.handle (pkg/filters/proxy/pool.go).
    Definitions only; proofs live in proofs/RetryProofs.v.

    Time is in nanoseconds.  The code computes the back-off in float64:

        base  := float64(waitDuration)            (waitDuration <= 0 -> 500ms)
        delta := base * randomizationFactor
        d     := base - delta + float64(rand.Intn(int(delta*2+1)))
        wait  := time.Duration(d)                 (truncation)
        base  *= 1.5                              (exponential policy only)

    The model keeps [base] as the exact rational [bn/bd] and the factor as the
    rational [fnum/fden]; truncation is [Z.quot].  float64 rounding is NOT
    modelled (exact as long as base and factor are representable: dyadic factor,
    base * 3^k < 2^53 - what the harness generates).

    Nondeterminism is explicit: [draws i] is the raw random number behind the
    i-th [rand.Intn n] (the model takes it [mod n]); [pick i] decides the select
    after attempt [i] when BOTH the context is done and the timer is already due
    ([true] = the timer case is chosen).  [cancel_at = Some k] means: the client
    context is done from the select that follows attempt [k] onwards (cancelled
    before/during attempt [k] or during the wait after it). *)
From EG.lib Require Import Base.
Open Scope Z_scope.

(** result strings of the proxy filter *)
Inductive res := RNone | RServerError | RTimeout | RClientError | RFailureCode
               | RInternalError | RShortCircuited.

(** what one call of the wrapped handler yields *)
Inductive outcome :=
| ONil (status : Z)          (* returned nil (pool: a response with that status is in place) *)
| OErr (code : Z) (r : res)  (* returned a non-nil error (pool: serverPoolError{code, result}) *)
| OPanic                     (* panicked *)
| OHang.                     (* never returns *)

Definition retryable (o : outcome) : bool :=
  match o with OErr _ _ => true | _ => false end.

Record policy := {
  p_max  : Z;      (* MaxAttempts *)
  p_wait : Z;      (* waitDuration in ns as parsed (<= 0 -> 500ms) *)
  p_fnum : Z;      (* RandomizationFactor = p_fnum / p_fden *)
  p_fden : Z;
  p_expo : bool    (* BackOffPolicy == "exponential" *)
}.

Definition eff_wait (w : Z) : Z := if w <=? 0 then 500000000 else w.

(** [Return o]: the wrapper's call ends; [o = None] = returned nil without any
    attempt, [Some (ONil _)] = returned nil, [Some (OErr ..)] = returned that
    error, [Some OPanic] = the panic propagates, [Some OHang] = never returns. *)
Inductive event :=
| Attempt (i : nat)
| Wait (d : Z)        (* the timer case of the select was taken after d ns *)
| Abort               (* the ctx.Done() case of the select was taken *)
| Return (o : option outcome).

(** one back-off computation for base bn/bd and factor fn/fd *)
Definition wait_lo (bn bd fn fd : Z) : Z := (bn * (fd - fn)) ÷ (bd * fd).
Definition draw_bound (bn bd fn fd : Z) : Z := (2 * bn * fn + bd * fd) ÷ (bd * fd).
Definition wait_val (bn bd fn fd draw : Z) : Z :=
  wait_lo bn bd fn fd + draw mod draw_bound bn bd fn fd.

Definition ctx_done (cancel_at : option nat) (i : nat) : bool :=
  match cancel_at with Some k => Nat.leb k i | None => false end.

(** the attempt loop; [r] = remaining iterations, [i] = attempt index,
    [bn/bd] = current base, [last] = err variable *)
Fixpoint loop (p : policy) (h : nat -> outcome) (draws : nat -> Z)
         (cancel_at : option nat) (pick : nat -> bool)
         (r i : nat) (bn bd : Z) (last : option outcome) : list event :=
  match r with
  | O => [Return last]
  | S r' =>
      let o := h i in
      Attempt i ::
      if retryable o then
        if draw_bound bn bd (p_fnum p) (p_fden p) <=? 0 then [Return (Some OPanic)]  (* rand.Intn(n<=0) *)
        else
          let d := wait_val bn bd (p_fnum p) (p_fden p) (draws i) in
          if ctx_done cancel_at i && ((0 <? d) || negb (pick i))
          then [Abort; Return (Some o)]
          else Wait d ::
               loop p h draws cancel_at pick r' (S i)
                    (if p_expo p then 3 * bn else bn) (if p_expo p then 2 * bd else bd) (Some o)
      else [Return (Some o)]
  end.

Definition retry_run (p : policy) (h : nat -> outcome) (draws : nat -> Z)
           (cancel_at : option nat) (pick : nat -> bool) : list event :=
  loop p h draws cancel_at pick (Z.to_nat (p_max p)) 0%nat (eff_wait (p_wait p)) 1 None.

(** a handler that is not wrapped by Retry *)
Definition single_run (h : nat -> outcome) : list event := [Attempt 0%nat; Return (Some (h 0%nat))].

(** *** projections of a trace *)
Definition attempts_of (tr : list event) : list nat :=
  flat_map (fun e => match e with Attempt i => [i] | _ => [] end) tr.

Definition waits_of (tr : list event) : list Z :=
  flat_map (fun e => match e with Wait d => [d] | _ => [] end) tr.

Fixpoint final_of (tr : list event) : option outcome :=
  match tr with
  | [] => None
  | Return o :: _ => o
  | _ :: t => final_of t
  end.

Definition n_attempts (tr : list event) : nat := List.length (attempts_of tr).

(** *** closed forms used by the statements (spec side) *)
Definition base_num (p : policy) (i : nat) : Z :=
  if p_expo p then eff_wait (p_wait p) * 3 ^ Z.of_nat i else eff_wait (p_wait p).
Definition base_den (p : policy) (i : nat) : Z :=
  if p_expo p then 2 ^ Z.of_nat i else 1.

(** floor (base_i * (1 - f)) and floor (base_i * (1 + f)), base_i = wait * 1.5^i *)
Definition lo_wait (p : policy) (i : nat) : Z :=
  (base_num p i * (p_fden p - p_fnum p)) / (base_den p i * p_fden p).
Definition hi_wait (p : policy) (i : nat) : Z :=
  (base_num p i * (p_fden p + p_fnum p)) / (base_den p i * p_fden p).
(** the wait after attempt i as a function of the draw *)
Definition wait_at (p : policy) (draws : nat -> Z) (i : nat) : Z :=
  wait_val (base_num p i) (base_den p i) (p_fnum p) (p_fden p) (draws i).

(** a validated policy (jsonschema: maxAttempts >= 1, 0 <= randomizationFactor <= 1) *)
Definition valid (p : policy) : Prop :=
  1 <= p_max p /\ 0 < p_fden p /\ 0 <= p_fnum p <= p_fden p.
Definition validb (p : policy) : bool :=
  (1 <=? p_max p) && (0 <? p_fden p) && (0 <=? p_fnum p) && (p_fnum p <=? p_fden p).

(** *** CircuitBreaker wrapper (resilience.circuitBreakerWrapper.Wrap)

    [permitted] is the answer of AcquirePermission (the breaker's own state
    machine is C08's subject).  The wrapper's trace: [CbReject] or the inner
    trace followed by the RecordResult calls it makes ([CbRecord hasErr]). *)
Inductive cb_event := CbReject | CbInner (e : event) | CbRecord (has_err : bool).

Definition cb_wrap (permitted : bool) (inner : list event) : list cb_event :=
  if negb permitted then [CbReject]
  else map CbInner inner ++
       match final_of inner with
       | Some OHang => []                         (* the call never comes back *)
       | Some OPanic => [CbRecord true]           (* deferred record on the panic path *)
       | Some (OErr _ _) => [CbRecord true]
       | Some (ONil _) | None => [CbRecord false]
       end.

Definition records_of (tr : list cb_event) : list bool :=
  flat_map (fun e => match e with CbRecord b => [b] | _ => [] end) tr.

(** *** ServerPool.handle *)
Inductive tscript :=
| SStatus (code : Z)   (* the transport returns a response with this status *)
| SErr                 (* the transport returns an error at once *)
| SBlock               (* the transport blocks until its request context is done *)
| SPanic
| SBodyErr             (* status line + header arrive, then reading the body fails (broken
                          connection, body larger than serverMaxBodySize) *)
| SBodyBlock.          (* header arrives, the body then stalls until the request context is done *)

Record pool := {
  pl_retry   : option policy;   (* retryWrapper *)
  pl_timeout : bool;            (* sp.timeout > 0 *)
  pl_cb      : bool;            (* circuitBreakerWrapper *)
  pl_fcodes  : list Z           (* failureCodes *)
}.

Record request := {
  rq_stream : bool;
  rq_script : nat -> tscript;
  rq_cancel : option nat;       (* client context done from (the end of) attempt k on *)
  rq_draws  : nat -> Z;
  rq_pick   : nat -> bool
}.

Definition zmem (x : Z) (l : list Z) : bool := existsb (Z.eqb x) l.

(** doHandle: error x context state -> serverPoolError *)
Definition attempt_outcome (pl : pool) (rq : request) (i : nat) : outcome :=
  let cancelled := ctx_done (rq_cancel rq) i in
  match rq_script rq i with
  | SStatus c => if zmem c (pl_fcodes pl) then OErr c RFailureCode else ONil c
  | SErr => if cancelled then OErr 499 RClientError else OErr 503 RServerError
  | SBlock => if cancelled then OErr 499 RClientError
              else if pl_timeout pl then OErr 408 RTimeout else OHang
  | SPanic => OPanic
  (* buildResponse fails -> serverPoolError{500, internalError}, whatever the context says *)
  | SBodyErr => OErr 500 RInternalError
  | SBodyBlock => if cancelled || pl_timeout pl then OErr 500 RInternalError else OHang
  end.

(** does the attempt leave a backend response in spCtx.resp?  buildResponse publishes it
    (spCtx.resp, SetOutputResponse) only after the payload has been fetched; the handler
    closure resets spCtx.resp before every attempt *)
Definition publishes (s : tscript) : bool :=
  match s with SStatus _ => true | _ => false end.

(** the response the client would get *)
Inductive visible :=
| VBackend (attempt : nat)   (* the backend response received by that attempt *)
| VGateway (status : Z)      (* buildFailureResponse: made by the gateway, no backend header/payload *)
| VNothing.

Definition handler_trace (pl : pool) (rq : request) : list event :=
  match pl_retry pl with
  | Some p => if rq_stream rq then single_run (attempt_outcome pl rq)
              else retry_run p (attempt_outcome pl rq) (rq_draws rq) (rq_cancel rq) (rq_pick rq)
  | None => single_run (attempt_outcome pl rq)
  end.

Inductive presult :=
| PResult (r : res) (status : Z)
| PPanic
| PHang.

Definition to_presult (o : option outcome) : presult :=
  match o with
  | Some (ONil c) => PResult RNone c
  | Some (OErr c r) => PResult r c
  | Some OPanic => PPanic
  | Some OHang => PHang
  | None => PPanic     (* nil error but no response: collectMetrics dereferences spCtx.resp == nil *)
  end.

Record pool_out := { po_result : presult; po_attempts : nat; po_records : list bool;
                     po_visible : visible }.

(** handle: the error's response is built by the gateway unless the LAST attempt left one *)
Definition visible_of (rq : request) (inner : list event) : visible :=
  let last := (n_attempts inner - 1)%nat in
  match final_of inner with
  | Some (ONil c) | Some (OErr c _) =>
      if publishes (rq_script rq last) then VBackend last else VGateway c
  | _ => VNothing
  end.

Definition pool_trace (pl : pool) (permitted : bool) (rq : request) : list cb_event :=
  if pl_cb pl then cb_wrap permitted (handler_trace pl rq)
  else map CbInner (handler_trace pl rq).

Definition inner_of (tr : list cb_event) : list event :=
  flat_map (fun e => match e with CbInner x => [x] | _ => [] end) tr.

Definition pool_handle (pl : pool) (permitted : bool) (rq : request) : pool_out :=
  let tr := pool_trace pl permitted rq in
  {| po_result := if existsb (fun e => match e with CbReject => true | _ => false end) tr
                  then PResult RShortCircuited 503
                  else to_presult (final_of (inner_of tr));
     po_attempts := n_attempts (inner_of tr);
     po_records := records_of tr;
     po_visible := if existsb (fun e => match e with CbReject => true | _ => false end) tr
                   then VGateway 503
                   else visible_of rq (inner_of tr) |}.

(** a sequence of client requests against one pool whose breaker stays closed *)
Definition pool_run (pl : pool) (rqs : list request) : list pool_out :=
  map (pool_handle pl true) rqs.

Definition total_records (outs : list pool_out) : nat :=
  List.length (flat_map po_records outs).
Definition failed_records (outs : list pool_out) : nat :=
  List.length (filter (fun b => b) (flat_map po_records outs)).
