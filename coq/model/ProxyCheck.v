(** Case types and per-case check functions for C03 (evaluated by vm_compute on the
    traces of the real code).  Result: (corr, prop, class, attributed-flag).

    - corr : the model ([Proxy.exchange] with the [pinned] quirks) yields exactly the
             implementation's projected observables;
    - prop : the decidable checker [prop_e2e] of the property's clauses on the
             IMPLEMENTATION's observables (independent of the model: it uses the nine header
             names of the statement, not the table extracted from the source);
    - attributed-flag : index of the open known finding that explains a prop failure. *)
From EG.lib Require Import Base.
From EG.gen Require Import GenHop.
From EG.model Require Import Body BodyCheck Proxy.
Open Scope string_scope.
Open Scope Z_scope.

Definition result := (bool * bool * N * N)%type.

(** ** helpers *)
Definition opt_eqb {A} (eqb : A -> A -> bool) (a b : option A) : bool :=
  match a, b with Some x, Some y => eqb x y | None, None => true | _, _ => false end.
Definition pair_eqb (a b : string * string) : bool := String.eqb (fst a) (fst b) && String.eqb (snd a) (snd b).
Definition strs_eqb := list_eqb String.eqb.

Definition keys (h : headers) : list string := map fst h.
(** equality of header maps on a set of keys *)
Definition agree_on (ks : list string) (a b : headers) : bool :=
  forallb (fun k => strs_eqb (h_values_exact k a) (h_values_exact k b)) ks.
Definition hdr_eqb (a b : headers) : bool := agree_on (keys a ++ keys b)%list a b.
Definition mem (k : string) (l : list string) : bool := existsb (String.eqb k) l.

Definition mk_headers (l : list (string * string)) : headers :=
  fold_left (fun acc kv => h_add (fst kv) (snd kv) acc) l [].

(** the nine names of the property statement (independent of the source table) *)
Definition spec_hop_names : list string :=
  ["Connection"; "Keep-Alive"; "Proxy-Connection"; "Proxy-Authenticate"; "Proxy-Authorization";
   "TE"; "Trailer"; "Transfer-Encoding"; "Upgrade"].
Definition spec_hop_keys : list string := map canon_key spec_hop_names.

Definition is_hop_for (h : headers) (k : string) : bool :=
  mem k spec_hop_keys || mem k (map canon_key (connection_tokens h)).

Definition decode (f : fns) (h : headers) (body : string) : option string :=
  let l := h_get CE h in
  if String.eqb l EmptyString then Some body
  else if String.eqb l "gzip" then f_gunzip f body else None.

Definition bN (b : bool) (n : N) : N := if b then n else 0%N.
Definition implb (a b : bool) : bool := if a then b else true.

(** ** end-to-end cases *)
Record e2e_obs := {
  x_got : bool; x_status : Z; x_headers : headers; x_cl : option Z; x_body : string;
  x_frame : bool;
  x_rest : list string; x_dec : option string;   (* the body with the codings its label names undone, as far as they are known *)
  x_bcount : Z; x_bmethod : string; x_btarget : string; x_bparsed : option (string * string);
  x_bhost : string; x_bheaders : headers; x_bbody : string;
  x_bbody2 : string;                               (* the body a second attempt (retry) delivered *)
  x_brest : list string; x_bdec : option string
}.

Record e2e_case := {
  e_cfg : pcfg;
  e_method : string; e_target : string; e_host : string;
  e_hdrs : list (string * string);          (* client header lines as sent *)
  e_body : string;
  e_cut : bool;                             (* the client cut its upload off before the framing was satisfied *)
  e_retry : bool;                           (* the pool has a retryPolicy with 2 attempts *)
  e_resp_status : Z; e_resp_hdrs : list (string * string); e_resp_enc : enc; e_resp_body : string;
  (* oracles computed by the harness with the real libraries *)
  e_gzip : list (string * string);
  e_gunzip : list (string * option string);
  e_inflate : list (string * option string);          (* zlib ("deflate" coding) *)
  e_req_peel : option (list string * string);         (* the client's body, known codings undone *)
  e_resp_peel : option (list string * string);        (* the backend's body, known codings undone *)
  e_client : option (string * string);      (* the client's target parsed *)
  e_esc : string;                           (* its EscapedPath() *)
  e_out_dec : option string; e_out_esc : option string;
  e_parse : list (string * (string * string));
  e_canon : list (string * string);
  (* observed *)
  e_bad : bool;
  e_obs : e2e_obs
}.

Definition oracle_miss : string := "<<ORACLE-MISS>>".

Definition case_fns (c : e2e_case) : fns :=
  {| f_gzip := fun b => match alookup b (e_gzip c) with Some z => z | None => oracle_miss end;
     f_gunzip := fun b => match alookup b (e_gunzip c) with Some r => r | None => None end;
     f_parse_target := fun t => if String.eqb t (e_target c) then e_client c else alookup t (e_parse c);
     f_escaped_path := fun _ => e_esc c;
     f_build_target := fun p _ =>
       if String.eqb p (e_esc c) then e_out_esc c
       else match e_client c with
            | Some (d, _) => if String.eqb p d then e_out_dec c else None
            | None => None
            end |}.

(** the codings a message is labelled with, in the order they were applied *)
Definition codings (h : headers) : list string :=
  filter nonempty (map (fun t => lower (trim t)) (flat_map split_comma (h_values_exact CE h))).

(** undo, from the outermost inwards, the codings that can be undone (gzip, x-gzip, deflate,
    identity); stop at the first unknown one.  Result: the codings left (innermost first)
    and the data; None when data does not decode as labelled *)
Fixpoint peel_rev (gunz infl : string -> option string) (outer_first : list string) (data : string)
  : option (list string * string) :=
  match outer_first with
  | [] => Some ([], data)
  | t :: inner =>
      if String.eqb t "gzip" || String.eqb t "x-gzip" then
        match gunz data with Some d => peel_rev gunz infl inner d | None => None end
      else if String.eqb t "deflate" then
        match infl data with Some d => peel_rev gunz infl inner d | None => None end
      else if String.eqb t "identity" then peel_rev gunz infl inner data
      else Some (rev outer_first, data)
  end.

Definition peel (c : e2e_case) (h : headers) (body : string) : option (list string * string) :=
  peel_rev (f_gunzip (case_fns c))
           (fun b => match alookup b (e_inflate c) with Some r => r | None => None end)
           (rev (codings h)) body.

Definition case_creq (c : e2e_case) : creq :=
  {| cq_method := e_method c; cq_target := e_target c; cq_host := e_host c;
     cq_headers := mk_headers (e_hdrs c); cq_body := e_body c |}.
Definition case_bresp (c : e2e_case) : bresp :=
  {| br_status := e_resp_status c; br_headers := mk_headers (e_resp_hdrs c);
     br_enc := e_resp_enc c; br_body := e_resp_body c |}.

(** requests the backend receives for one client request.  With a retry policy (2 attempts)
    a request whose payload is not a stream is sent again after ANY failure of the pool's
    handler: a status among the failureCodes, or the gateway's own 500 (response over the
    limit, undecodable body); the scripted backend answers the same again.  A RequestAdaptor
    `body` replaces a streamed payload by a buffered one. *)
Definition req_streamed (c : e2e_case) : bool :=
  p_cstream (e_cfg c) && negb (a_on (p_ra (e_cfg c)) && nonempty (a_body (p_ra (e_cfg c)))).
Definition retryable (c : e2e_case) : bool := e_retry c && negb (req_streamed c).
Definition attempts (c : e2e_case) (w : option wresp) : Z :=
  if retryable c &&
     (failure_code (e_cfg c) (e_resp_status c) ||
      (* the gateway's own failure response: status 500, no header, no body *)
      match w with
      | Some r => (w_status r =? 500) && (Nat.eqb (List.length (w_headers r)) 0) && String.eqb (w_body r) EmptyString &&
                  match w_cl r with None => true | Some _ => false end
      | None => false end)
  then 2 else 1.

Definition run_model (q : quirks) (c : e2e_case) : outcome :=
  exchange_cut q (case_fns c) (e_cfg c) (e_cut c) (case_creq c) (case_bresp c).

Definition obs_of_outcome (c : e2e_case) (o : outcome) : e2e_obs :=
  let f := case_fns c in
  let wopt := match o with Answered w _ => Some w | NoResponse _ => None end in
  let bpart (b : option breq) (x : e2e_obs) : e2e_obs :=
    match b with
    | None => x
    | Some r =>
        {| x_got := x_got x; x_status := x_status x; x_headers := x_headers x; x_cl := x_cl x; x_body := x_body x;
           x_frame := x_frame x; x_rest := x_rest x; x_dec := x_dec x;
           x_bcount := attempts c wopt; x_bmethod := bq_method r; x_btarget := bq_target r;
           x_bparsed := f_parse_target f (bq_target r);
           x_bhost := bq_host r; x_bheaders := bq_headers r; x_bbody := bq_body r;
           x_bbody2 := if attempts c wopt =? 2 then bq_body r else EmptyString;
           x_brest := match peel c (bq_headers r) (bq_body r) with Some p => fst p | None => [] end;
           x_bdec := option_map snd (peel c (bq_headers r) (bq_body r)) |}
    end in
  let empty := {| x_got := false; x_status := 0; x_headers := []; x_cl := None; x_body := EmptyString;
                  x_frame := false; x_rest := []; x_dec := None; x_bcount := 0; x_bmethod := EmptyString; x_btarget := EmptyString;
                  x_bparsed := None; x_bhost := EmptyString; x_bheaders := []; x_bbody := EmptyString; x_bbody2 := EmptyString;
                  x_brest := []; x_bdec := None |} in
  match o with
  | NoResponse b => bpart b empty
  | Answered w b =>
      bpart b {| x_got := true; x_status := w_status w; x_headers := w_headers w; x_cl := w_cl w; x_body := w_body w;
                 x_frame := w_frame_ok w;
                 x_rest := match peel c (w_headers w) (w_body w) with Some p => fst p | None => [] end;
                 x_dec := option_map snd (peel c (w_headers w) (w_body w));
                 x_bcount := 0; x_bmethod := EmptyString; x_btarget := EmptyString; x_bparsed := None;
                 x_bhost := EmptyString; x_bheaders := []; x_bbody := EmptyString; x_bbody2 := EmptyString;
                 x_brest := []; x_bdec := None |}
  end.

(** headers net/http's server may add to a response on its own *)
Definition server_added : list string :=
  ["Date"; "Content-Type"; "Connection"; "Transfer-Encoding"; "Content-Length"; "X-Content-Type-Options"].
(** headers of the backend hop's own framing *)
Definition hop_framing : list string := ["Content-Length"; "Transfer-Encoding"].

(** model vs implementation on the projected observables *)
Definition corr_backend (m o : e2e_obs) : bool :=
  (x_bcount m =? x_bcount o) &&
  String.eqb (x_bmethod m) (x_bmethod o) && String.eqb (x_btarget m) (x_btarget o) &&
  String.eqb (x_bhost m) (x_bhost o) &&
  agree_on (keys (x_bheaders m)) (x_bheaders m) (x_bheaders o) &&
  forallb (fun k => mem k (keys (x_bheaders m)) || mem k hop_framing) (keys (x_bheaders o)) &&
  String.eqb (x_bbody m) (x_bbody o) && String.eqb (x_bbody2 m) (x_bbody2 o).

Definition corr_e2e (m o : e2e_obs) : bool :=
  corr_backend m o &&
  if negb (x_got m) then
    (* the handler panicked: net/http closes the connection; depending on what had been
       flushed the client sees nothing at all or a response whose framing is broken *)
    negb (x_got o) || negb (x_frame o)
  else
  x_got o &&
  (x_status m =? x_status o) &&
  agree_on (keys (x_headers m)) (x_headers m) (x_headers o) &&
  forallb (fun k => mem k (keys (x_headers m)) || mem k server_added) (keys (x_headers o)) &&
  (* a Content-Length the gateway set must be the one on the wire; otherwise net/http chooses *)
  match x_cl m with Some n => opt_eqb Z.eqb (Some n) (x_cl o) | None => true end &&
  String.eqb (x_body m) (x_body o) && Bool.eqb (x_frame m) (x_frame o).

(** headers the backend hop's own client (net/http transport) sets when the request has
    none: they may appear at the backend although the client's header of that name was
    removed as Connection-listed *)
Definition hop_own (k : string) (vs : list string) : bool :=
  (String.eqb k "Accept-Encoding" && strs_eqb vs ["gzip"]) ||
  (String.eqb k "User-Agent" && strs_eqb vs ["Go-http-client/1.1"]).

(** *** the property on observables *)
(** what the `header` section of the ResponseAdaptor makes of the values of one key *)
Definition edit_values (e : hedit) (k : string) (base : list string) : list string :=
  let has (l : list string) := existsb (fun c => String.eqb k (canon_key c)) l in
  let b1 := if has (he_del e) then [] else base in
  let b2 := fold_left (fun acc kv => if String.eqb k (canon_key (fst kv)) then [snd kv] else acc) (he_set e) b1 in
  fold_left (fun acc kv => if String.eqb k (canon_key (fst kv)) then (acc ++ [snd kv])%list else acc) (he_add e) b2.
Definition edit_keys (e : hedit) : list string :=
  map canon_key (he_del e ++ map fst (he_set e) ++ map fst (he_add e))%list.

(** request side: what the backend received against what the client sent *)
Definition prop_req (c : e2e_case) (x : e2e_obs) : bool :=
  let f := case_fns c in
  let cfg := e_cfg c in
  let ch := mk_headers (e_hdrs c) in
  match e_client c, e_req_peel c with
  | Some (path, query), Some (rest, content) =>
      let ra := p_ra cfg in
      let '(want_rest, want_b) := if a_on ra && nonempty (a_body ra) then ([], a_body ra) else (rest, content) in
      ((x_bcount x =? 1) ||
       (retryable c && (x_bcount x =? 2) && (failure_code cfg (e_resp_status c) || (x_status x =? 500)))) &&
      (* every attempt delivers the same body *)
      implb (x_bcount x =? 2) (String.eqb (x_bbody2 x) (x_bbody x)) &&
      String.eqb (x_bmethod x) (e_method c) &&
      opt_eqb pair_eqb (x_bparsed x) (Some (path, query)) &&
      (* ... and in the client's own escaping (%2F is not /): the request-target made of the
         escaped path and the raw query *)
      match e_out_esc c with Some t => String.eqb (x_btarget x) t | None => true end &&
      opt_eqb String.eqb (x_bdec x) (Some want_b) && strs_eqb (x_brest x) want_rest &&
      implb (negb (a_on ra)) (String.eqb (x_bbody x) (e_body c)) &&
      forallb (fun k =>
                 if mem k ["Content-Length"; "Host"] then true
                 else if is_hop_for ch k
                      then negb (h_has_exact k (x_bheaders x)) || hop_own k (h_values_exact k (x_bheaders x))
                 else if String.eqb k CE && a_on ra then true
                 else strs_eqb (h_values_exact k (x_bheaders x)) (h_values_exact k ch))
              (keys ch) &&
      forallb (fun k => if String.eqb k "Transfer-Encoding"
                        then forallb (String.eqb "chunked") (h_values_exact k (x_bheaders x))
                        else negb (h_has_exact k (x_bheaders x)))
              spec_hop_keys &&
      String.eqb (x_bhost x)
                 (if negb (p_host_is_name cfg) || p_keep_host cfg then e_host c else p_server_host cfg)
  | _, _ => true
  end.

(** response side: what the client received against the backend answer scripted in [src]
    (the step itself, or - for a cache hit - an earlier step), under the ResponseAdaptor
    settings [cfg] / [ed] *)
(** sizes the backend's body may have when the response limit is applied (as sent, with its
    codings undone, gzip-compressed) *)
Definition size_candidates (src : e2e_case) : list Z :=
  let b := e_resp_body src in
  let base := (b :: match e_resp_peel src with Some (_, d) => [d] | None => [] end ++
                    match alookup b (e_gunzip src) with Some (Some g) => [g] | _ => [] end)%list in
  (map slen base ++ flat_map (fun y => match alookup y (e_gzip src) with Some z => [slen z] | None => [] end) base)%list.

(** a positive effective serverMaxBodySize (pool-level unless 0, else proxy-level, 0 = 4 MB)
    that the backend's body may exceed: C07 then wants a 500 with an empty body *)
Definition may_exceed (cfg : pcfg) (src : e2e_case) : bool :=
  let eff := spec_norm (effective (p_pool_max cfg) (p_proxy_max cfg)) in
  (0 <=? eff) && existsb (fun n => eff <? n) (size_candidates src).

Definition prop_resp (cfg : pcfg) (ed : hedit) (src : e2e_case) (x : e2e_obs) : bool :=
  (may_exceed cfg src && x_got x && (x_status x =? 500) && String.eqb (x_body x) EmptyString && x_frame x) ||
  let f := case_fns src in
  let bh := mk_headers (e_resp_hdrs src) in
  (* a status among the pool's failureCodes ends the pipeline at the Proxy: no ResponseAdaptor *)
  let failed := failure_code cfg (e_resp_status src) in
  let rs := if failed then {| a_on := false; a_body := ""; a_compress := false; a_decompress := false |} else p_rs cfg in
  let ed := if failed then no_edit else ed in
  x_got x && (x_status x =? e_resp_status src) &&
  forallb (fun k =>
             if mem k (CE :: "Vary" :: "Content-Length" :: spec_hop_keys) then true
             else strs_eqb (h_values_exact k (x_headers x)) (edit_values ed k (h_values_exact k bh)))
          (keys bh ++ edit_keys ed)%list &&
  (* content: after undoing the codings the DELIVERED label names, the same data and the same
     codings are left as after undoing those the backend's label named (unknown codings pass
     through with their label) - or the adaptor's body *)
  match (if a_on rs && nonempty (a_body rs) then Some ([], a_body rs) else e_resp_peel src) with
  | Some (rest, want) => opt_eqb String.eqb (x_dec x) (Some want) && strs_eqb (x_rest x) rest
  | None => true
  end &&
  x_frame x.

Definition request_ok (c : e2e_case) : bool :=
  match e_client c, e_req_peel c with
  | Some _, Some _ => true
  | _, _ => false
  end.

(** an upload cut off by the client: the backend never receives it as a complete request,
    the client never gets a success for it *)
Definition prop_cut (x : e2e_obs) : bool := (x_bcount x =? 0) && implb (x_got x) (400 <=? x_status x).

Definition prop_e2e (c : e2e_case) (x : e2e_obs) : bool :=
  if e_cut c then prop_cut x
  else if request_ok c then prop_req c x && prop_resp (e_cfg c) no_edit c x else true.

(** *** attribution *)
Definition flag (q : quirks) (i : N) : bool :=
  match i with
  | 1%N => q_compress_keeps_length q | 2%N => q_adaptor_body_keeps_length q
  | 3%N => q_proxy_decoded_path q | 4%N => q_stream_compress_panics q
  | 5%N => q_compress_replaces_label q | _ => false
  end.
Definition clear (q : quirks) (i : N) : quirks :=
  {| q_compress_keeps_length := if (i =? 1)%N then false else q_compress_keeps_length q;
     q_adaptor_body_keeps_length := if (i =? 2)%N then false else q_adaptor_body_keeps_length q;
     q_proxy_decoded_path := if (i =? 3)%N then false else q_proxy_decoded_path q;
     q_stream_compress_panics := if (i =? 4)%N then false else q_stream_compress_panics q;
     q_compress_replaces_label := if (i =? 5)%N then false else q_compress_replaces_label q |}.
Definition flags : list N := [1; 2; 3; 4; 5]%N.

Definition obs_eqb (c : e2e_case) (a b : e2e_obs) : bool := corr_e2e a b && corr_e2e b a.

(** the pinned model reproduces the failing observable (that is [corr]); blame the first
    open flag whose removal alone makes the property hold on the case; if the case needs
    several open flags removed, blame the first one whose removal changes the outcome *)
Definition attribute (pinned : quirks) (c : e2e_case) : N :=
  let mp := obs_of_outcome c (run_model pinned c) in
  if prop_e2e c mp then 0%N else
  let on := filter (flag pinned) flags in
  match filter (fun i => prop_e2e c (obs_of_outcome c (run_model (clear pinned i) c))) on with
  | i :: _ => i
  | [] =>
      if prop_e2e c (obs_of_outcome c (run_model (fold_left clear on pinned) c)) then
        match filter (fun i => negb (obs_eqb c mp (obs_of_outcome c (run_model (clear pinned i) c)))) on with
        | i :: _ => i
        | [] => 0%N
        end
      else 0%N
  end.

Definition has_escape (s : string) : bool := contains "%" s.

Definition class_e2e (c : e2e_case) : N :=
  let cfg := e_cfg c in
  let ch := mk_headers (e_hdrs c) in
  let b1 := existsb (is_hop_for ch) (keys ch) in
  let b2 := has_escape (e_target c) in
  let b3 := match p_minlen cfg with Some _ => true | None => false end in
  let b4 := a_on (p_ra cfg) || a_on (p_rs cfg) in
  let b5 := p_cstream cfg || p_sstream cfg in
  let b6 := p_host_is_name cfg in
  let b7 := nonempty (h_get CE (mk_headers (e_resp_hdrs c))) in
  match e_client c with
  | None => 0%N
  | Some _ => (1 + bN b1 1 + bN b2 2 + bN b3 4 + bN b4 8 + bN b5 16 + bN b6 32 + bN b7 64)%N
  end.

Definition canon_ok (c : e2e_case) : bool :=
  forallb (fun kv => String.eqb (canon_key (fst kv)) (snd kv)) (e_canon c).

Definition check_e2e_with (pinned : quirks) (c : e2e_case) : result :=
  if e_bad c then (false, false, 1%N, 0%N) else
  let m := obs_of_outcome c (run_model pinned c) in
  let corr := corr_e2e m (e_obs c) && canon_ok c in
  let prop := prop_e2e c (e_obs c) in
  (corr, prop, class_e2e c, if prop then 0%N else if corr then attribute pinned c else 0%N).

Definition explain_e2e_with (pinned : quirks) (c : e2e_case) := obs_of_outcome c (run_model pinned c).

(** ** histories against one pipeline with a memoryCache *)
Record hist_case := {
  hi_spec : cache_spec; hi_edit : hedit;
  hi_steps : list e2e_case;
  hi_bad : bool
}.

Definition case_cfg (h : hist_case) : pcfg :=
  match hi_steps h with c :: _ => e_cfg c | [] =>
    {| p_cstream := false; p_pool_max := 0; p_proxy_max := 0; p_server_host := ""; p_host_is_name := false; p_keep_host := false; p_fail_codes := [];
       p_minlen := None; p_ra := {| a_on := false; a_body := ""; a_compress := false; a_decompress := false |};
       p_rs := {| a_on := false; a_body := ""; a_compress := false; a_decompress := false |} |} end.

Fixpoint run_hist (q : quirks) (h : hist_case) (st : cache) (steps : list e2e_case) : list outcome :=
  match steps with
  | [] => []
  | c :: t =>
      let '(o, st') := step q (case_fns c) (case_cfg h) (hi_edit h) (hi_spec h) st (case_creq c) (case_bresp c) in
      o :: run_hist q h st' t
  end.

Definition same_request (a b : e2e_case) : bool :=
  String.eqb (e_method a) (e_method b) && String.eqb (e_host a) (e_host b) &&
  match e_client a, e_client b with
  | Some (p, _), Some (p', _) => String.eqb p p'
  | _, _ => false
  end.

(** the property per step.  A step whose request reached the backend is judged as in the
    single-exchange cases.  A step answered without contacting the backend (cache hit) must
    deliver, well-framed, the status / end-to-end headers / content of the backend answer of
    SOME earlier step for the same method, host and path that did reach the backend *)
Fixpoint prop_steps (h : hist_case) (earlier : list e2e_case) (steps : list e2e_case) : bool :=
  match steps with
  | [] => true
  | c :: t =>
      let x := e_obs c in
      (if negb (request_ok c) then true
       else if x_bcount x =? 0 then
         existsb (fun j => same_request j c && (1 <=? x_bcount (e_obs j)) && prop_resp (case_cfg h) (hi_edit h) j x) earlier
       else prop_req c x && prop_resp (case_cfg h) (hi_edit h) c x) &&
      prop_steps h (c :: earlier) t
  end.

Fixpoint corr_steps (steps : list e2e_case) (outs : list outcome) : bool :=
  match steps, outs with
  | [], [] => true
  | c :: t, o :: t' => corr_e2e (obs_of_outcome c o) (e_obs c) && canon_ok c && corr_steps t t'
  | _, _ => false
  end.

Definition hits (h : hist_case) : nat :=
  List.length (filter (fun c => x_got (e_obs c) && (x_bcount (e_obs c) =? 0) && request_ok c) (hi_steps h)).

(** prop on the model's own outcomes (for attribution) *)
Fixpoint with_obs (steps : list e2e_case) (outs : list outcome) : list e2e_case :=
  match steps, outs with
  | c :: t, o :: t' =>
      {| e_cfg := e_cfg c; e_method := e_method c; e_target := e_target c; e_host := e_host c; e_hdrs := e_hdrs c;
         e_body := e_body c; e_cut := e_cut c; e_retry := e_retry c; e_resp_status := e_resp_status c; e_resp_hdrs := e_resp_hdrs c; e_resp_enc := e_resp_enc c;
         e_resp_body := e_resp_body c; e_gzip := e_gzip c; e_gunzip := e_gunzip c; e_inflate := e_inflate c;
         e_req_peel := e_req_peel c; e_resp_peel := e_resp_peel c; e_client := e_client c; e_esc := e_esc c;
         e_out_dec := e_out_dec c; e_out_esc := e_out_esc c; e_parse := e_parse c; e_canon := e_canon c; e_bad := e_bad c;
         e_obs := obs_of_outcome c o |} :: with_obs t t'
  | _, _ => []
  end.

Definition model_prop_hist (q : quirks) (h : hist_case) : bool :=
  prop_steps h [] (with_obs (hi_steps h) (run_hist q h [] (hi_steps h))).

Definition attribute_hist (pinned : quirks) (h : hist_case) : N :=
  if model_prop_hist pinned h then 0%N else
  let on := filter (flag pinned) flags in
  match filter (fun i => model_prop_hist (clear pinned i) h) on with
  | i :: _ => i
  | [] => if model_prop_hist (fold_left clear on pinned) h then hd 0%N on else 0%N
  end.

Definition check_hist_with (pinned : quirks) (h : hist_case) : result :=
  if hi_bad h || existsb e_bad (hi_steps h) then (false, false, 1%N, 0%N) else
  let corr := corr_steps (hi_steps h) (run_hist pinned h [] (hi_steps h)) in
  let prop := prop_steps h [] (hi_steps h) in
  (corr, prop,
   match hi_steps h with
   | [] => 0%N
   | _ => (1 + bN (mc_on (hi_spec h)) 1 + bN (Nat.ltb 0 (hits h)) 2 + bN (Nat.ltb 1 (hits h)) 4
             + bN (a_on (p_rs (case_cfg h))) 8 + bN (negb (Nat.eqb (List.length (edit_keys (hi_edit h))) 0)) 16)%N
   end,
   if prop then 0%N else if corr then attribute_hist pinned h else 0%N).

Definition explain_hist_with (pinned : quirks) (h : hist_case) :=
  map (fun co => obs_of_outcome (fst co) (snd co)) (combine (hi_steps h) (run_hist pinned h [] (hi_steps h))).

(** ** cloneHeader called directly (package proxy) *)
Record hop_case := { hc_in : headers; hc_out : headers; hc_canon : list (string * string) }.

Definition prop_hop (c : hop_case) : bool :=
  forallb (fun k => if is_hop_for (hc_in c) k then negb (h_has_exact k (hc_out c))
                    else strs_eqb (h_values_exact k (hc_out c)) (h_values_exact k (hc_in c)))
          (keys (hc_in c)) &&
  forallb (fun k => mem k (keys (hc_in c))) (keys (hc_out c)).

Definition check_hop (c : hop_case) : result :=
  (hdr_eqb (clone_header (hc_in c)) (hc_out c) &&
   forallb (fun kv => String.eqb (canon_key (fst kv)) (snd kv)) (hc_canon c),
   prop_hop c,
   (1 + bN (existsb (is_hop_for (hc_in c)) (keys (hc_in c))) 1
      + bN (nonempty (String.concat "" (connection_tokens (hc_in c)))) 2)%N,
   0%N).
Definition explain_hop (c : hop_case) := clone_header (hc_in c).

(** ** Server.checkAddrPattern called directly (package proxy) *)
Fixpoint last_index_go (c : ascii) (s : string) (i : Z) (acc : Z) : Z :=
  match s with
  | EmptyString => acc
  | String d t => last_index_go c t (i + 1) (if Ascii.eqb c d then i else acc)
  end.
Definition last_index (c : ascii) (s : string) : Z := last_index_go c s 0 (-1).

(** [uhost] = url.Parse(URL).Host (None: parse error, the flag keeps its zero value) *)
Definition addr_is_hostname (parse_ip : string -> bool) (uhost : option string) : bool :=
  match uhost with
  | None => false
  | Some host =>
      let square := last_index "]"%char host in
      let colon := last_index ":"%char host in
      let host1 := if square <? colon then substring 0 (Z.to_nat colon) host else host in
      let host2 := if negb (square =? -1) && prefix "[" host1
                   then substring 1 (Z.to_nat (square - 1)) host1 else host1 in
      negb (parse_ip host2)
  end.

Record addr_case := {
  ac_uhost : option string;
  ac_ips : list (string * bool);     (* net.ParseIP(x) != nil for the candidate substrings *)
  ac_hostname_ip : option bool;      (* net.ParseIP(URL.Hostname()) != nil, None if the URL does not parse *)
  ac_obs : bool                      (* addrIsHostName after checkAddrPattern *)
}.

Definition check_addr (c : addr_case) : result :=
  let pip := fun s => match alookup s (ac_ips c) with Some b => b | None => false end in
  (Bool.eqb (addr_is_hostname pip (ac_uhost c)) (ac_obs c),
   match ac_hostname_ip c with Some ip => Bool.eqb (ac_obs c) (negb ip) | None => true end,
   match ac_uhost c with None => 0%N | Some h => (1 + bN (contains "[" h) 1 + bN (contains ":" h) 2 + bN (ac_obs c) 4)%N end,
   0%N).
Definition explain_addr (c : addr_case) :=
  addr_is_hostname (fun s => match alookup s (ac_ips c) with Some b => b | None => false end) (ac_uhost c).
