(** Case types and per-case check functions for C14 (evaluated by vm_compute on the
    traces of the real code).  Result: (corr, prop, class, attributed-flag).

    - corr : the model ([Topic.v], with the pinned quirk flags) reproduces the
             implementation's observables (SUBACK written or not, findSubscribers
             error / client set; the QoS the Go map happened to keep for a client
             must be one of the QoS values the model collects for that client);
    - prop : the history is replayed naively into the finite map [live] and every
             findSubscribers result of the IMPLEMENTATION on a wildcard-free topic
             name is compared with declarative MQTT matching over that map
             (independent of the trie model and of split_go);
    - attrib: 1 when a failing prop is explained by quirk #1 (pinned model agrees
             with the implementation, and the model with the flag off passes prop). *)
From EG.lib Require Import Base.
From EG.model Require Import Topic.
Open Scope string_scope.
Open Scope list_scope.

Definition result := (bool * bool * N * N)%type.

Inductive tr_op := TOp (o : op) | TFind (t : string).
Inductive tr_obs :=
| OAck (b : bool)
| ONone
| OFound (l : list (cid * qos))
| OErr
| OPanic.

(** [h_tag]: bit mask of the connection-level shapes present in the input (set by the
    encoder): 1 persistent session, 2 reconnect with cleanSession=false, 4 take-over,
    8 closed by the broker before the connection ended; only used for the class *)
Record hist_case := { h_ops : list tr_op; h_obs : list tr_obs; h_tag : N }.

(** *** model trace *)
Fixpoint model_trace (Q : quirks) (s : state) (ops : list tr_op) : list tr_obs :=
  match ops with
  | [] => []
  | TOp o :: r =>
      let '(s', out) := step Q s o in
      (match out with Ack b => OAck b | NoOut => ONone end) :: model_trace Q s' r
  | TFind t :: r =>
      (match find (trie s) t with Some l => OFound l | None => OErr end) :: model_trace Q s r
  end.

Definition pair_eqb (a b : cid * qos) : bool := (fst a =? fst b) && (snd a =? snd b)%N.

(** [il] (one entry per client) agrees with the candidate list [ml]: same client set,
    and every listed (client, qos) is a candidate *)
Definition found_agree (ml il : list (cid * qos)) : bool :=
  forallb (fun e => existsb (pair_eqb e) ml) il &&
  forallb (fun e => existsb (fun e' => fst e =? fst e') il) ml.

Definition obs_agree (m i : tr_obs) : bool :=
  match m, i with
  | OAck a, OAck b => Bool.eqb a b
  | ONone, ONone => true
  | OFound ml, OFound il => found_agree ml il
  | OErr, OErr => true
  | _, _ => false
  end.

Fixpoint all2 {A B} (f : A -> B -> bool) (l1 : list A) (l2 : list B) : bool :=
  match l1, l2 with
  | [], [] => true
  | a :: t1, b :: t2 => f a b && all2 f t1 t2
  | _, _ => false
  end.

(** *** the property checker on a trace (model-independent) *)
Definition expected (m : lmap) (t : string) : list (cid * qos) :=
  flat_map (fun e => if matchesb (split_slash (snd (fst e))) (split_slash t)
                     then [(fst (fst e), snd e)] else []) m.

Fixpoint prop_trace (sp : spec_state) (ops : list tr_op) (obs : list tr_obs) : bool :=
  match ops, obs with
  | [], [] => true
  | TOp o :: r, ob :: obr =>
      (match o, ob with
       | Sub _ fqs, OAck b => Bool.eqb b (forallb (fun fq => wf_filter (fst fq)) fqs)   (* malformed rejected *)
       | Unsub _ _, OAck _ => true
       | Disc _, ONone => true
       | Conn _ _, ONone => true
       | _, _ => false
       end) && prop_trace (spec_step sp o) r obr
  | TFind t :: r, ob :: obr =>
      (if has_wild t then true            (* not a topic NAME: outside the property *)
       else match ob with
            | OFound il => found_agree (expected (live_of sp) t) il
            | _ => false
            end) && prop_trace sp r obr
  | _, _ => false
  end.

Definition bN (b : bool) (n : N) : N := if b then n else 0%N.

Definition is_found_nonempty (o : tr_obs) : bool :=
  match o with OFound (_ :: _) => true | _ => false end.
Definition is_found_multi (o : tr_obs) : bool :=
  match o with OFound (_ :: _ :: _) => true | _ => false end.
Definition is_nack (o : tr_obs) : bool := match o with OAck false => true | _ => false end.
Definition is_disc (o : tr_op) : bool := match o with TOp (Disc _) => true | _ => false end.
Definition is_wild_find (o : tr_op) : bool := match o with TFind t => has_wild t | _ => false end.

Definition class_hist (c : hist_case) : N :=
  if existsb is_found_nonempty (h_obs c) then
    (1 + bN (existsb is_nack (h_obs c)) 1 + bN (existsb is_disc (h_ops c)) 2
       + bN (existsb is_found_multi (h_obs c)) 4 + bN (existsb is_wild_find (h_ops c)) 8
       + 16 * h_tag c)%N
  else 0%N.

Definition check_hist_with (pinned : quirks) (c : hist_case) : result :=
  let mt := model_trace pinned st0 (h_ops c) in
  let corr := all2 obs_agree mt (h_obs c) in
  let prop := prop_trace sp0 (h_ops c) (h_obs c) in
  let attrib :=
    if prop then 0%N
    else if corr && q_abort_on_malformed pinned
              && prop_trace sp0 (h_ops c) (model_trace ideal st0 (h_ops c)) then 1%N
    else 0%N in
  (corr, prop, class_hist c, attrib).

Definition explain_hist_with (pinned : quirks) (c : hist_case) :=
  (model_trace pinned st0 (h_ops c), prop_trace sp0 (h_ops c) (h_obs c)).

(** *** splitTopic on single strings *)
Record split_case := { s_in : list string; s_obs : list (option (list string)) }.

Definition olist_eqb (a b : option (list string)) : bool :=
  match a, b with
  | None, None => true
  | Some x, Some y => list_eqb String.eqb x y
  | _, _ => false
  end.

Definition split_spec (s : string) : option (list string) :=
  if wf_filter s then Some (split_slash s) else None.

Definition is_none {A} (o : option A) : bool := match o with None => true | _ => false end.

Definition check_split (c : split_case) : result :=
  (list_eqb olist_eqb (map split_topic (s_in c)) (s_obs c),
   list_eqb olist_eqb (map split_spec (s_in c)) (s_obs c),
   match s_in c with
   | [] => 0%N
   | _ => (1 + bN (existsb is_none (s_obs c)) 1
             + bN (existsb (fun s => has_wild s && wf_filter s) (s_in c)) 2)%N
   end,
   0%N).

Definition explain_split (c : split_case) := (map split_topic (s_in c), map split_spec (s_in c)).
