(** Executable model of easegress' circuit breaker (C08).  No proofs here.

    Concrete part (mirrors pkg/util/circuitbreaker/circuitbreaker.go):
    - [cwin], [cw_push]               : CountBasedWindow (ring buffer + running totals)
    - [twin], [tw_evict], [tw_push]   : TimeBasedWindow (ring of one-second buckets)
    - [cb], [cb_acquire], [cb_record] : CircuitBreaker.AcquirePermission / RecordResult / transitTo
    Abstract part (the contract as an automaton over a log of results):
    - [spec], [sp_acquire], [sp_record]: state, id, transit time, trial counter and the
      list of (second, result) recorded in the current epoch; the window is a VIEW of
      that log (last N entries / entries of the last N seconds).
    Wrapper and pool mapping (pkg/resilience/circuitbreaker.go, pkg/filters/proxy/pool.go):
    - [wrap_call], [pool_result].

    Times are nanoseconds in [Z] counted from an origin that is a whole second
    (time.Truncate(time.Second) is [trunc_sec]).  Go's truncated division is [Z.quot]
    / [Z.rem].  uint32/uint8 conversions of the rate computation are kept
    ([u32], [u8]); the counters themselves are unbounded. *)
From EG.lib Require Import Base.
Open Scope Z_scope.

Inductive res := RSucc | RSlow | RFail.
Inductive st := Closed | HalfOpen | Open.

Definition st_eqb (a b : st) : bool :=
  match a, b with
  | Closed, Closed | HalfOpen, HalfOpen | Open, Open => true
  | _, _ => false
  end.

Record policy := {
  p_fthr : Z;        (* FailureRateThreshold *)
  p_sthr : Z;        (* SlowCallRateThreshold *)
  p_time : bool;     (* SlidingWindowType = TimeBased *)
  p_size : Z;        (* SlidingWindowSize *)
  p_perm : Z;        (* PermittedNumberOfCallsInHalfOpen *)
  p_min : Z;         (* MinimumNumberOfCalls *)
  p_slowdur : Z;     (* SlowCallDurationThreshold *)
  p_maxwait : Z;     (* MaxWaitDurationInHalfOpen *)
  p_wait : Z         (* WaitDurationInOpen *)
}.

Definition second : Z := 1000000000.
Definition u32 (x : Z) : Z := x mod 4294967296.
Definition u8 (x : Z) : Z := x mod 256.

Definition is_slow (r : res) : Z := match r with RSlow => 1 | _ => 0 end.
Definition is_fail (r : res) : Z := match r with RFail => 1 | _ => 0 end.
Definition o_tot (o : option res) : Z := match o with Some _ => 1 | None => 0 end.
Definition o_slow (o : option res) : Z := match o with Some r => is_slow r | None => 0 end.
Definition o_fail (o : option res) : Z := match o with Some r => is_fail r | None => 0 end.

Fixpoint list_set {A} (i : nat) (x : A) (l : list A) : list A :=
  match l, i with
  | [], _ => []
  | _ :: t, O => x :: t
  | h :: t, S i' => h :: list_set i' x t
  end.

(** ** CountBasedWindow: [None] is CallResultUnknown *)
Record cwin := { cw_total : Z; cw_slow : Z; cw_fail : Z; cw_idx : nat; cw_bkt : list (option res) }.

Definition cw_new (n : Z) : cwin :=
  {| cw_total := 0; cw_slow := 0; cw_fail := 0; cw_idx := O; cw_bkt := repeat None (Z.to_nat n) |}.

(** [None] = Go panic (index out of range on a zero-size window) *)
Definition cw_push (r : res) (w : cwin) : option cwin :=
  match nth_error (cw_bkt w) (cw_idx w) with
  | None => None
  | Some old =>
      let i' := S (cw_idx w) in
      Some {| cw_total := cw_total w - o_tot old + 1;
              cw_slow := cw_slow w - o_slow old + is_slow r;
              cw_fail := cw_fail w - o_fail old + is_fail r;
              cw_idx := if (List.length (cw_bkt w) <=? i')%nat then O else i';
              cw_bkt := list_set (cw_idx w) (Some r) (cw_bkt w) |}
  end.

(** ** TimeBasedWindow *)
Record tbkt := { tb_total : Z; tb_slow : Z; tb_fail : Z }.
Definition tb0 : tbkt := {| tb_total := 0; tb_slow := 0; tb_fail := 0 |}.
Record twin := { tw_total : Z; tw_slow : Z; tw_fail : Z; tw_begin : Z; tw_first : nat; tw_bkt : list tbkt }.

Definition trunc_sec (now : Z) : Z := now - now mod second.

Definition tw_new (n now : Z) : twin :=
  {| tw_total := 0; tw_slow := 0; tw_fail := 0; tw_begin := trunc_sec now; tw_first := O;
     tw_bkt := repeat tb0 (Z.to_nat n) |}.

Definition tw_evict1 (w : twin) : twin :=
  let b := nth (tw_first w) (tw_bkt w) tb0 in
  {| tw_total := tw_total w - tb_total b; tw_slow := tw_slow w - tb_slow b; tw_fail := tw_fail w - tb_fail b;
     tw_begin := tw_begin w;
     tw_first := Nat.modulo (S (tw_first w)) (List.length (tw_bkt w));
     tw_bkt := list_set (tw_first w) tb0 (tw_bkt w) |}.

Fixpoint tw_evict_loop (k : nat) (w : twin) : twin :=
  match k with
  | O => w
  | S k' => tw_evict_loop k' (tw_evict1 w)
  end.

Definition tw_evict (now : Z) (w : twin) : twin :=
  let len := Z.of_nat (List.length (tw_bkt w)) in
  let seconds := (now - tw_begin w) ÷ second in
  if seconds <? len then w else
  let evicts := seconds - len + 1 in
  let w1 := {| tw_total := tw_total w; tw_slow := tw_slow w; tw_fail := tw_fail w;
               tw_begin := tw_begin w + evicts * second; tw_first := tw_first w; tw_bkt := tw_bkt w |} in
  tw_evict_loop (Z.to_nat (Z.min evicts len)) w1.

(** [None] = Go panic (integer divide by zero on a zero-size window, or a negative
    index when the clock went backwards) *)
Definition tw_push (now : Z) (r : res) (w : twin) : option twin :=
  let w1 := tw_evict now w in
  let len := Z.of_nat (List.length (tw_bkt w1)) in
  if len =? 0 then None else
  let idx := Z.rem (Z.of_nat (tw_first w1) + (now - tw_begin w1) ÷ second) len in
  if idx <? 0 then None else
  let i := Z.to_nat idx in
  let b := nth i (tw_bkt w1) tb0 in
  Some {| tw_total := tw_total w1 + 1; tw_slow := tw_slow w1 + is_slow r; tw_fail := tw_fail w1 + is_fail r;
          tw_begin := tw_begin w1; tw_first := tw_first w1;
          tw_bkt := list_set i {| tb_total := tb_total b + 1; tb_slow := tb_slow b + is_slow r;
                                  tb_fail := tb_fail b + is_fail r |} (tw_bkt w1) |}.

Inductive window := WC (w : cwin) | WT (w : twin).

Definition win_push (now : Z) (r : res) (w : window) : option window :=
  match w with
  | WC c => option_map WC (cw_push r c)
  | WT t => option_map WT (tw_push now r t)
  end.
Definition win_total (w : window) : Z := match w with WC c => cw_total c | WT t => tw_total t end.
Definition win_slow (w : window) : Z := match w with WC c => cw_slow c | WT t => tw_slow t end.
Definition win_fail (w : window) : Z := match w with WC c => cw_fail c | WT t => tw_fail t end.

(** uint8(k * 100 / total) on uint32 operands; [None] = divide by zero *)
Definition rate (k total : Z) : option Z :=
  if total =? 0 then None else Some (u8 (u32 (k * 100) / total)).

(** ** CircuitBreaker *)
Record cb := { c_state : st; c_id : Z; c_transit : Z; c_trials : Z; c_win : window }.

Definition new_window (pol : policy) (now : Z) : window :=
  if p_time pol then WT (tw_new (p_size pol) now) else WC (cw_new (p_size pol)).

Definition transit_to (pol : policy) (now : Z) (target : st) (c : cb) : cb :=
  if st_eqb target (c_state c) then c else
  {| c_state := target; c_id := c_id c + 1; c_transit := now;
     c_trials := match target with HalfOpen => 0 | _ => c_trials c end;
     c_win := match target with
              | Closed => new_window pol now
              | HalfOpen => WC (cw_new (p_perm pol))
              | Open => c_win c
              end |}.

(** New: Disabled -> Closed, stateID becomes 1 *)
Definition cb_new (pol : policy) (now : Z) : cb :=
  {| c_state := Closed; c_id := 1; c_transit := now; c_trials := 0; c_win := new_window pol now |}.

Definition set_trials (c : cb) (n : Z) : cb :=
  {| c_state := c_state c; c_id := c_id c; c_transit := c_transit c; c_trials := n; c_win := c_win c |}.
Definition set_win (c : cb) (w : window) : cb :=
  {| c_state := c_state c; c_id := c_id c; c_transit := c_transit c; c_trials := c_trials c; c_win := w |}.

Definition cb_half_acquire (pol : policy) (now : Z) (c : cb) : bool * cb :=
  if c_trials c <? p_perm pol then (true, set_trials c (c_trials c + 1))
  else if (0 <? p_maxwait pol) && (p_maxwait pol <? now - c_transit c)
       then (false, transit_to pol now Open c)
       else (false, c).

Definition cb_acquire (pol : policy) (now : Z) (c : cb) : bool * cb :=
  match c_state c with
  | Closed => (true, c)
  | Open => if now - c_transit c <? p_wait pol then (false, c)
            else cb_half_acquire pol now (transit_to pol now HalfOpen c)
  | HalfOpen => cb_half_acquire pol now c
  end.

Definition classify (pol : policy) (err : bool) (dur : Z) : res :=
  if err then RFail else if p_slowdur pol <=? dur then RSlow else RSucc.

Definition min_calls (pol : policy) (s : st) : Z :=
  match s with HalfOpen => Z.min (p_min pol) (p_perm pol) | _ => p_min pol end.

(** result: (panicked, new state) *)
Definition cb_record (pol : policy) (now id : Z) (r : res) (c : cb) : bool * cb :=
  if negb (id =? c_id c) then (false, c) else
  match win_push now r (c_win c) with
  | None => (true, c)
  | Some w =>
      let c1 := set_win c w in
      if win_total w <? min_calls pol (c_state c) then (false, c1) else
      match rate (win_fail w) (win_total w) with
      | None => (true, c1)
      | Some fr =>
          if p_fthr pol <=? fr then (false, transit_to pol now Open c1) else
          match rate (win_slow w) (win_total w) with
          | None => (true, c1)
          | Some sr =>
              if p_sthr pol <=? sr then (false, transit_to pol now Open c1)
              else match c_state c with
                   | HalfOpen => (false, transit_to pol now Closed c1)
                   | _ => (false, c1)
                   end
          end
      end
  end.

(** ** Histories *)
Inductive op :=
| OAcq (now : Z)
| ORec (now id : Z) (err : bool) (dur : Z).

Definition op_now (o : op) : Z := match o with OAcq n => n | ORec n _ _ _ => n end.

(** observable of one step: (permitted | panicked, state after, stateID after) *)
Definition obs := (bool * st * Z)%type.

Definition cb_step (pol : policy) (o : op) (c : cb) : obs * cb :=
  match o with
  | OAcq now => let '(b, c') := cb_acquire pol now c in ((b, c_state c', c_id c'), c')
  | ORec now id err dur =>
      let '(b, c') := cb_record pol now id (classify pol err dur) c in ((b, c_state c', c_id c'), c')
  end.

Fixpoint cb_run (pol : policy) (c : cb) (ops : list op) : list obs :=
  match ops with
  | [] => []
  | o :: t => let '(ob, c') := cb_step pol o c in ob :: cb_run pol c' t
  end.

Fixpoint cb_final (pol : policy) (c : cb) (ops : list op) : cb :=
  match ops with
  | [] => c
  | o :: t => cb_final pol (snd (cb_step pol o c)) t
  end.

(** ** The abstract automaton *)
Inductive wkind := KCount (n : Z) | KTime (n : Z).
Definition kind_size (k : wkind) : Z := match k with KCount n => n | KTime n => n end.

(** [s_log]: newest first, (second of recording, result), results of the current epoch *)
Record spec := { s_state : st; s_id : Z; s_transit : Z; s_trials : Z; s_kind : wkind; s_log : list (Z * res) }.

Definition sec_of (now : Z) : Z := now / second.

Definition view (k : wkind) (nowsec : Z) (log : list (Z * res)) : list res :=
  match k with
  | KCount n => map snd (firstn (Z.to_nat n) log)
  | KTime n => map snd (filter (fun e => nowsec - n <? fst e) log)
  end.

Fixpoint cnt (f : res -> Z) (l : list res) : Z :=
  match l with
  | [] => 0
  | r :: t => f r + cnt f t
  end.

Definition srate (k total : Z) : Z := 100 * k / total.

Definition pol_kind (pol : policy) : wkind := if p_time pol then KTime (p_size pol) else KCount (p_size pol).

Definition sp_new (pol : policy) (now : Z) : spec :=
  {| s_state := Closed; s_id := 1; s_transit := now; s_trials := 0; s_kind := pol_kind pol; s_log := [] |}.

Definition sp_transit (pol : policy) (now : Z) (target : st) (s : spec) : spec :=
  if st_eqb target (s_state s) then s else
  {| s_state := target; s_id := s_id s + 1; s_transit := now;
     s_trials := match target with HalfOpen => 0 | _ => s_trials s end;
     s_kind := match target with Closed => pol_kind pol | HalfOpen => KCount (p_perm pol) | Open => s_kind s end;
     s_log := match target with Open => s_log s | _ => [] end |}.

Definition sp_set_trials (s : spec) (n : Z) : spec :=
  {| s_state := s_state s; s_id := s_id s; s_transit := s_transit s; s_trials := n; s_kind := s_kind s; s_log := s_log s |}.
Definition sp_set_log (s : spec) (l : list (Z * res)) : spec :=
  {| s_state := s_state s; s_id := s_id s; s_transit := s_transit s; s_trials := s_trials s; s_kind := s_kind s; s_log := l |}.

Definition sp_half_acquire (pol : policy) (now : Z) (s : spec) : bool * spec :=
  if s_trials s <? p_perm pol then (true, sp_set_trials s (s_trials s + 1))
  else if (0 <? p_maxwait pol) && (p_maxwait pol <? now - s_transit s)
       then (false, sp_transit pol now Open s)
       else (false, s).

Definition sp_acquire (pol : policy) (now : Z) (s : spec) : bool * spec :=
  match s_state s with
  | Closed => (true, s)
  | Open => if now - s_transit s <? p_wait pol then (false, s)
            else sp_half_acquire pol now (sp_transit pol now HalfOpen s)
  | HalfOpen => sp_half_acquire pol now s
  end.

(** verdict on a window view: does it trip the breaker *)
Definition trips (pol : policy) (v : list res) : bool :=
  let total := Z.of_nat (List.length v) in
  (p_fthr pol <=? srate (cnt is_fail v) total) || (p_sthr pol <=? srate (cnt is_slow v) total).

Definition sp_record (pol : policy) (now id : Z) (r : res) (s : spec) : bool * spec :=
  if negb (id =? s_id s) then (false, s) else
  if kind_size (s_kind s) <=? 0 then (true, s) else
  let log' := (sec_of now, r) :: s_log s in
  let v := view (s_kind s) (sec_of now) log' in
  let s1 := sp_set_log s log' in
  if Z.of_nat (List.length v) <? min_calls pol (s_state s) then (false, s1) else
  if trips pol v then (false, sp_transit pol now Open s1)
  else match s_state s with
       | HalfOpen => (false, sp_transit pol now Closed s1)
       | _ => (false, s1)
       end.

Definition sp_step (pol : policy) (o : op) (s : spec) : obs * spec :=
  match o with
  | OAcq now => let '(b, s') := sp_acquire pol now s in ((b, s_state s', s_id s'), s')
  | ORec now id err dur =>
      let '(b, s') := sp_record pol now id (classify pol err dur) s in ((b, s_state s', s_id s'), s')
  end.

Fixpoint sp_run (pol : policy) (s : spec) (ops : list op) : list obs :=
  match ops with
  | [] => []
  | o :: t => let '(ob, s') := sp_step pol o s in ob :: sp_run pol s' t
  end.

Fixpoint sp_final (pol : policy) (s : spec) (ops : list op) : spec :=
  match ops with
  | [] => s
  | o :: t => sp_final pol (snd (sp_step pol o s)) t
  end.

(** non-decreasing clock over a history, starting at [t] *)
Fixpoint mono (t : Z) (ops : list op) : Prop :=
  match ops with
  | [] => True
  | o :: r => t <= op_now o /\ mono (op_now o) r
  end.

Fixpoint monob (t : Z) (ops : list op) : bool :=
  match ops with
  | [] => true
  | o :: r => (t <=? op_now o) && monob (op_now o) r
  end.

(** ** resilience.circuitBreakerWrapper.Wrap

    One wrapped call: acquire; not permitted -> ErrShortCircuited, handler not run;
    permitted -> handler runs, then the results recorded are exactly the
    [wrap_records]: the straight-line record when the handler returns, the deferred
    one (guarded by the [panicked] flag) when it panics. *)
(** how the handler ends: returns nil / an error, panics, panics with a nil value
    (recover() = nil under go 1.17 semantics), or terminates its goroutine (runtime.Goexit) *)
Inductive houtcome := HOk | HErr | HPanic | HPanicNil | HGoexit.
Inductive wresult := WShort | WNil | WErr | WPanic.

(** straight-line part of the wrapped function after the admission: the value of the
    [panicked] flag when the function body is left, and the records issued by it *)
Definition wrap_body (h : houtcome) : bool * list bool :=
  match h with
  | HPanic => (true, [])          (* handler panics: the flag is still true, nothing recorded yet *)
  | HPanicNil => (true, [])       (* the deferred function does not look at recover(): same path *)
  | HGoexit => (true, [])         (* Goexit runs the deferred functions as well *)
  | HOk => (false, [false])       (* RecordResult(id, err != nil, ..); panicked = false *)
  | HErr => (false, [true])
  end.

(** the deferred function: records a failure iff [panicked] is still set *)
Definition wrap_deferred (panicked : bool) : list bool := if panicked then [true] else [].

(** the RecordResult calls (hasErr flags) issued for one admitted call *)
Definition wrap_records (h : houtcome) : list bool :=
  let '(p, recs) := wrap_body h in recs ++ wrap_deferred p.

Definition wrap_result (h : houtcome) : wresult :=
  match h with HOk => WNil | HErr => WErr | _ => WPanic end.

Fixpoint cb_records (pol : policy) (now id : Z) (errs : list bool) (c : cb) : cb :=
  match errs with
  | [] => c
  | e :: t => cb_records pol now id t (snd (cb_record pol now id (classify pol e 0) c))
  end.

(** [h] is consulted only when the call is admitted *)
Definition wrap_call (pol : policy) (now : Z) (h : houtcome) (c : cb) : wresult * cb :=
  let '(ok, c1) := cb_acquire pol now c in
  if ok then (wrap_result h, cb_records pol now (c_id c1) (wrap_records h) c1)
  else (WShort, c1).

(** number of handler invocations (= servers contacted by the proxy) of one call *)
Definition wrap_handler_runs (r : wresult) : Z := match r with WShort => 0 | _ => 1 end.

(** ServerPool.handle: mapping of the wrapped handler's outcome to (status, result).
    Backend outcome for an admitted call: 0 = 2xx answer, 1 = transport error,
    2 = answer whose status (given) is one of failureCodes. *)
Inductive backend := BOk (status : Z) | BSendErr | BFailCode (status : Z).

Definition backend_houtcome (b : backend) : houtcome :=
  match b with BOk _ => HOk | _ => HErr end.

Definition pool_result (r : wresult) (b : backend) : Z * string :=
  match r with
  | WShort => (503, "shortCircuited"%string)
  | WPanic => (0, "panic"%string)
  | _ => match b with
         | BOk s => (s, ""%string)
         | BSendErr => (503, "serverError"%string)
         | BFailCode s => (s, "failureCode"%string)
         end
  end.

(** state of the context the wrapped call runs under *)
Inductive ctxstate := CLive | CCancelledBefore | CCancelledDuring | CDeadline.

(** the wrapper consults the context nowhere: admission and recording are those of
    [wrap_call] whatever the context state (the handler's outcome is what is recorded) *)
Definition wrap_call_ctx (pol : policy) (now : Z) (cx : ctxstate) (h : houtcome) (c : cb) : wresult * cb :=
  wrap_call pol now h c.

(** ServerPool.doHandle: a transport error is reported according to the request context *)
Definition pool_result_ctx (cx : ctxstate) (r : wresult) (b : backend) : Z * string :=
  match r, b, cx with
  | WShort, _, _ => pool_result r b
  | WPanic, _, _ => pool_result r b
  | _, BSendErr, CDeadline => (408, "timeout"%string)
  | _, BSendErr, CCancelledBefore => (499, "clientError"%string)
  | _, BSendErr, CCancelledDuring => (499, "clientError"%string)
  | _, _, _ => pool_result r b
  end.

(** servers contacted by one request: none when short-circuited; an admitted request whose
    backend call fails is retried by the retry wrapper INSIDE the breaker's single call
    ([retry] = maxAttempts of a configured retry policy, 0 = none), except for stream
    requests, which are never retried.  The breaker wraps EVERY request shape. *)
Definition pool_contacts (retry : Z) (stream : bool) (r : wresult) (b : backend) : Z :=
  match r with
  | WShort => 0
  | _ => match b with
         | BOk _ => 1
         | _ => if (0 <? retry) && negb stream then retry else 1
         end
  end.

(** the retry wrapper gives up after the first failed attempt when the context is done *)
Definition pool_contacts_ctx (cx : ctxstate) (retry : Z) (stream : bool) (r : wresult) (b : backend) : Z :=
  match cx with
  | CLive => pool_contacts retry stream r b
  | _ => pool_contacts 0 stream r b
  end.
