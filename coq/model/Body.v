(** Executable model of easegress' body limits (C07).

    - [fetch_payload]   : pkg/protocols/httpprot/request.go  Request.FetchPayload
                          pkg/protocols/httpprot/response.go Response.FetchPayload
                          (the two functions are the same algorithm)
    - [effective]       : pkg/object/httpserver/mux.go serveHTTP (path-level value, else
                          server-level), pkg/filters/proxy/pool.go buildResponse (pool-level
                          value, else proxy-level); 0 = DefaultMaxPayloadSize inside FetchPayload
    - [serve]           : mux.serveHTTP -> Pipeline[Proxy] -> ServerPool.doHandle/buildResponse
                          -> mux write-out, projected on status / body / framing / what the
                          backend received
    - [src_of_wire]     : what net/http's body readers hand to FetchPayload for a message
                          sent with a given framing (runtime behaviour, validated by the
                          correspondence only)

    The model is generic in the representation [B] of a byte sequence ([blen], [btake],
    [bnil]): lists of bytes for ordinary cases, plain lengths for the 4 MiB cases.
    No proofs here. *)
From EG.lib Require Import Base.
From EG.gen Require Import GenBody.
Open Scope Z_scope.

(** a body as it reaches FetchPayload: announced length ([-1] = unknown / chunked), the
    bytes that can be read before the reader stops, and whether it stops with a clean EOF
    ([false] = io.ErrUnexpectedEOF / broken chunked encoding) *)
Record src (B : Type) := { s_decl : Z; s_bytes : B; s_clean : bool }.
Arguments s_decl {B}. Arguments s_bytes {B}. Arguments s_clean {B}.

Inductive fetched (B : Type) :=
| Payload (b : B)     (* buffered payload *)
| TooLarge            (* ErrRequestEntityTooLarge / ErrResponseEntityTooLarge *)
| ReadErr             (* any other error (io.ErrUnexpectedEOF, reader error) *)
| Streamed.           (* negative limit: the body is passed on as a stream *)
Arguments Payload {B}. Arguments TooLarge {B}. Arguments ReadErr {B}. Arguments Streamed {B}.

(** framing of a message on the wire *)
Inductive enc :=
| EncCL (declared : Z)        (* Content-Length: declared *)
| EncChunked (term : bool)    (* chunked; [term] = the last-chunk was sent *)
| EncNone                     (* request without a body *)
| EncClose.                   (* response delimited by connection close *)

Record wire (B : Type) := { w_enc : enc; w_sent : B }.
Arguments w_enc {B}. Arguments w_sent {B}.

Record config := { c_srv : Z; c_path : Z; c_pool : Z; c_proxy : Z }.

Record outcome (B : Type) := {
  o_status : Z;          (* status the client receives *)
  o_body : B;            (* body bytes the client receives *)
  o_frame_ok : bool;     (* the response's announced framing is satisfied *)
  o_dispatched : bool;   (* the handler (pipeline) was invoked *)
  o_backend : option B   (* body of the request the backend completely received *)
}.
Arguments o_status {B}. Arguments o_body {B}. Arguments o_frame_ok {B}.
Arguments o_dispatched {B}. Arguments o_backend {B}.

Definition norm_limit (l : Z) : Z := if l =? 0 then default_max_payload else l.

(** lower-level (path / pool) value wins unless it is 0 *)
Definition effective (inner outer : Z) : Z := if inner =? 0 then outer else inner.

Section Generic.
  Variable B : Type.
  Variable blen : B -> Z.
  Variable btake : Z -> B -> B.
  Variable bnil : B.

  Definition fetch_payload (limit : Z) (s : src B) : fetched B :=
    let l := norm_limit limit in
    if l <? 0 then Streamed
    else if l <? s_decl s then TooLarge
    else if 0 <? s_decl s then
      (* io.ReadFull of exactly the announced length *)
      if s_decl s <=? blen (s_bytes s) then Payload (btake (s_decl s) (s_bytes s)) else ReadErr
    else if s_decl s =? 0 then Payload bnil
    else
      (* unknown length: ReadAll(LimitReader(l)), then probe for extra bytes *)
      if blen (s_bytes s) <? l then (if s_clean s then Payload (s_bytes s) else ReadErr)
      else if l <? blen (s_bytes s) then TooLarge
      else if s_clean s then Payload (s_bytes s) else ReadErr.

  Definition src_of_wire (w : wire B) : src B :=
    match w_enc w with
    | EncCL d =>
        if d <=? blen (w_sent w)
        then {| s_decl := d; s_bytes := btake d (w_sent w); s_clean := true |}
        else {| s_decl := d; s_bytes := w_sent w; s_clean := false |}
    | EncChunked t => {| s_decl := -1; s_bytes := w_sent w; s_clean := t |}
    | EncNone => {| s_decl := 0; s_bytes := bnil; s_clean := true |}
    | EncClose => {| s_decl := -1; s_bytes := w_sent w; s_clean := true |}
    end.

  (** response half: ServerPool.buildResponse + mux write-out, once the backend has
      received the request body [got] *)
  Definition respond (cfg : config) (got : B) (status : Z) (resp : wire B) : outcome B :=
    let s := src_of_wire resp in
    match fetch_payload (effective (c_pool cfg) (c_proxy cfg)) s with
    | Payload b =>
        {| o_status := status; o_body := b; o_frame_ok := true; o_dispatched := true; o_backend := Some got |}
    | TooLarge | ReadErr =>
        {| o_status := 500; o_body := bnil; o_frame_ok := true; o_dispatched := true; o_backend := Some got |}
    | Streamed =>
        (* status and headers (incl. the backend's Content-Length) are already written when
           the stream turns out to be short: the client sees fewer bytes than announced *)
        {| o_status := status; o_body := s_bytes s;
           o_frame_ok := (s_decl s <? 0) || s_clean s;
           o_dispatched := true; o_backend := Some got |}
    end.

  Definition fail (code : Z) (dispatched : bool) : outcome B :=
    {| o_status := code; o_body := bnil; o_frame_ok := true; o_dispatched := dispatched; o_backend := None |}.

  Definition serve (cfg : config) (req : wire B) (status : Z) (resp : wire B) : outcome B :=
    let s := src_of_wire req in
    match fetch_payload (effective (c_path cfg) (c_srv cfg)) s with
    | TooLarge => fail 413 false
    | ReadErr => fail 400 false
    | Payload b => respond cfg b status resp
    | Streamed =>
        if s_clean s then respond cfg (s_bytes s) status resp
        else fail 499 true   (* the client went away while the proxy was streaming its body *)
    end.

  (** *** histories: generations of the configuration and a pool memoryCache
      [g_cmax] > 0: the pool has a memoryCache (GET, code 200) with that maxEntryBytes.
      A generation change that touches the pipeline (pool / proxy limit, cache spec) creates
      new pools with EMPTY caches (Proxy.Inherit -> reload -> NewServerPool); a change of
      the server / path limits only reloads the mux.  A hit is served by
      buildResponseFromCache without FetchPayload; an answer is stored only after it passed
      FetchPayload of the generation that fetched it. *)
  Definition pipe_same (a b : config * Z) : bool :=
    (c_pool (fst a) =? c_pool (fst b)) && (c_proxy (fst a) =? c_proxy (fst b)) && (snd a =? snd b).

  Definition hit (ent : Z * B) : outcome B :=
    {| o_status := fst ent; o_body := snd ent; o_frame_ok := true; o_dispatched := true; o_backend := None |}.

  Definition hstep (g : config * Z) (st : option (Z * B)) (get : bool)
             (req : wire B) (status : Z) (resp : wire B) : outcome B * option (Z * B) :=
    let base := serve (fst g) req status resp in
    let cache_on := 0 <? snd g in
    match st with
    | Some ent =>
        if o_dispatched base && get && cache_on then (hit ent, st) else (base, st)
    | None =>
        let seff := norm_limit (effective (c_pool (fst g)) (c_proxy (fst g))) in
        let stored := get && cache_on && o_dispatched base && (status =? 200) && (o_status base =? 200) &&
                      (0 <=? seff) && (blen (o_body base) <=? snd g) &&
                      match o_backend base with Some _ => true | None => false end in
        (base, if stored then Some (o_status base, o_body base) else None)
    end.

  Fixpoint hrun (prev : option (config * Z)) (st : option (Z * B))
           (l : list ((config * Z) * bool * wire B * Z * wire B)) : list (outcome B) :=
    match l with
    | [] => []
    | (g, get, req, status, resp) :: t =>
        let st0 := match prev with Some p => if pipe_same p g then st else None | None => None end in
        let '(o, st1) := hstep g st0 get req status resp in
        o :: hrun (Some g) st1 t
    end.
End Generic.

Arguments fetch_payload {B}. Arguments src_of_wire {B}. Arguments respond {B}.
Arguments serve {B}. Arguments fail {B}. Arguments hstep {B}. Arguments hrun {B}. Arguments hit {B}.

(** instances *)
Definition zlen {A} (l : list A) : Z := Z.of_nat (List.length l).
Definition ztake {A} (n : Z) (l : list A) : list A := firstn (Z.to_nat n) l.

Definition fetch_list {A} := @fetch_payload (list A) zlen ztake [].
Definition src_list {A} := @src_of_wire (list A) zlen ztake [].
Definition serve_list {A} := @serve (list A) zlen ztake [].

(** lengths only *)
Definition serve_len := @serve Z (fun n => n) Z.min 0.
