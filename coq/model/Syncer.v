(** Executable model of easegress' cluster syncer (C19).

    - [is_data_equal]     : pkg/cluster/syncer.go  isDataEqual / isKeyValueEqual
    - [pull_compare_send] : pkg/cluster/syncer.go  run(): closure pullCompareSend
    - [step] / [run]      : pkg/cluster/syncer.go  run(): initial pull + select loop
    - [adapt_*]           : Sync / SyncRaw / SyncPrefix / SyncRawPrefix send closures
    - [apply_op], [proj_*]: the key/value semantics of pkg/cluster/op.go
                            (Put, Delete, PutAndDelete, DeletePrefix, GetRaw, GetRawPrefix)
                            as far as the watched content is concerned
    - [check_trace]       : the decidable trace checker used as [prop] by the harness

    A [content] is what one pull returns: the map key -> value of the watched key
    or prefix, as an association list (the Go map is keyed by [string(kv.Key)], so the
    key of the KeyValue is the key of the entry).  Scheduling (when the ticker fires,
    when watch responses arrive, when a pull fails, when the watch is cancelled, how
    these interleave with the writes) is the explicit event list; theorems quantify
    over all event lists.  No proofs here. *)
From EG.lib Require Import Base.

Definition content := list (string * string).

(** ** isDataEqual *)

(** every entry of [d1] exists in [d2] with an equal value
    ([for k1, kv1 := range data1 { kv2, exists := data2[k1]; ... isKeyValueEqual }]) *)
Fixpoint all_in (d1 d2 : content) : bool :=
  match d1 with
  | [] => true
  | (k, v) :: t =>
      match alookup k d2 with
      | None => false
      | Some v2 => String.eqb v v2 && all_in t d2
      end
  end.

Definition is_data_equal (d1 d2 : content) : bool :=
  Nat.eqb (List.length d1) (List.length d2) && all_in d1 d2.

(** ** the run loop *)

Inductive event :=
| Write (s : content)   (* somebody changes the store: the watched content becomes [s] *)
| Pull                  (* the initial pullCompareSend, pull succeeded *)
| PullFails             (* a pullCompareSend (initial, ticker or watch triggered) whose pull returned an error *)
| WatchEvent            (* a watch response (not cancelled, not a progress notification): pullCompareSend *)
| WatchCanceled         (* resp.Canceled: watcher closed and re-created, no pull *)
| Tick.                 (* ticker fired: pullCompareSend *)

(** [store]: current watched content of etcd; [data]: the run loop's local [data]
    (last snapshot sent, initially the empty map) *)
Record sstate := { store : content; data : content }.

Definition pull_compare_send (st : sstate) : sstate * list content :=
  if is_data_equal (data st) (store st) then (st, [])
  else ({| store := store st; data := store st |}, [store st]).

Definition is_pull (e : event) : bool :=
  match e with
  | Pull | WatchEvent | Tick => true
  | _ => false
  end.

Definition step (st : sstate) (e : event) : sstate * list content :=
  match e with
  | Write s => ({| store := s; data := data st |}, [])
  | Pull | WatchEvent | Tick => pull_compare_send st
  | PullFails | WatchCanceled => (st, [])
  end.

(** the snapshots handed to [send], in order *)
Fixpoint run_from (st : sstate) (evs : list event) : list content :=
  match evs with
  | [] => []
  | e :: t => snd (step st e) ++ run_from (fst (step st e)) t
  end.

Fixpoint final_state (st : sstate) (evs : list event) : sstate :=
  match evs with
  | [] => st
  | e :: t => final_state (fst (step st e)) t
  end.

Definition init_state (s0 : content) : sstate := {| store := s0; data := [] |}.

(** [s0] = the watched content when the syncer subscribes *)
Definition run (s0 : content) (evs : list event) : list content := run_from (init_state s0) evs.

(** the store states written after subscription, in order *)
Fixpoint writes (evs : list event) : list content :=
  match evs with
  | [] => []
  | Write s :: t => s :: writes t
  | _ :: t => writes t
  end.

Definition store_after (s0 : content) (evs : list event) : content := last (writes evs) s0.

(** [pulled false evs = true]: a successful pull happens after the last write of [evs]
    (what the ticker guarantees, under fairness, once the writes have stopped) *)
Fixpoint pulled (b : bool) (evs : list event) : bool :=
  match evs with
  | [] => b
  | e :: t => match e with
              | Write _ => pulled false t
              | _ => pulled (b || is_pull e) t
              end
  end.

(** a content is a map: its keys are unique *)
Definition wf (d : content) : Prop := NoDup (map fst d).

(** ** the four adapters (what the consumer receives for one snapshot) *)
Definition adapt_sync (key : string) (d : content) : option string := alookup key d.
Definition adapt_sync_raw (key : string) (d : content) : option (string * string) :=
  match alookup key d with Some v => Some (key, v) | None => None end.
Definition adapt_sync_prefix (d : content) : content := d.
Definition adapt_sync_raw_prefix (d : content) : content := d.

(** ** key/value store semantics (sorted association list, unique keys) *)

Fixpoint kv_put (k v : string) (st : content) : content :=
  match st with
  | [] => [(k, v)]
  | (k', v') :: t =>
      match String.compare k k' with
      | Lt => (k, v) :: st
      | Eq => (k, v) :: t
      | Gt => (k', v') :: kv_put k v t
      end
  end.

Definition kv_del (k : string) (st : content) : content :=
  filter (fun '(k', _) => negb (String.eqb k k')) st.

Definition kv_del_prefix (p : string) (st : content) : content :=
  filter (fun '(k', _) => negb (String.prefix p k')) st.

(** keys generated from an index: stem ++ five decimal digits (big prefixes are written
    by index ranges so that cases stay small) *)
Definition dchar (d : nat) : ascii :=
  match d with
  | 0 => "0" | 1 => "1" | 2 => "2" | 3 => "3" | 4 => "4"
  | 5 => "5" | 6 => "6" | 7 => "7" | 8 => "8" | _ => "9"
  end%char.
(** decimal digits, least significant first *)
Definition digits5 (i : nat) : list nat :=
  let n := N.of_nat i in
  map (fun p => N.to_nat (N.modulo (n / p) 10)) [1; 10; 100; 1000; 10000]%N.
Fixpoint dsucc (l : list nat) : list nat :=
  match l with
  | [] => [1]
  | d :: t => if Nat.eqb d 9 then 0 :: dsucc t else S d :: t
  end.
Definition dstring (stem : string) (l : list nat) : string :=
  stem ++ fold_left (fun acc d => String (dchar d) acc) l EmptyString.
Definition idx_key (stem : string) (i : nat) : string := dstring stem (digits5 i).
(** the keys of [n] consecutive indices (one division, then decimal increments) *)
Fixpoint idx_keys_from (stem : string) (l : list nat) (n : nat) : list string :=
  match n with
  | O => []
  | S n' => dstring stem l :: idx_keys_from stem (dsucc l) n'
  end.
Definition idx_run (stem : string) (from n : nat) (v : string) : content :=
  map (fun k => (k, v)) (idx_keys_from stem (digits5 from) n).

(** compact contents: literal pairs and index ranges with one value *)
Inductive citem :=
| CP (k v : string)
| CR (stem : string) (from n : nat) (v : string).

Definition expand_item (c : citem) : content :=
  match c with
  | CP k v => [(k, v)]
  | CR stem from n v => idx_run stem from n v
  end.
Definition expand (l : list citem) : content := flat_map expand_item l.

(** all puts of one sorted run at once: merge (the run wins on equal keys) *)
Fixpoint kv_merge (r st : content) : content :=
  match r with
  | [] => st
  | (k, v) :: r' =>
      (fix go (st : content) : content :=
         match st with
         | [] => (k, v) :: r'
         | (k', v') :: t =>
             match String.compare k k' with
             | Lt => (k, v) :: kv_merge r' st
             | Eq => (k, v) :: kv_merge r' t
             | Gt => (k', v') :: go t
             end
         end) st
  end.

Inductive op :=
| OFill (stem : string) (from n : nat) (v : string)   (* one transaction: put stem++pad5 i := v, from <= i < from+n *)
| OPut (k v : string)
| ODel (k : string)
| OTxn (kvs : list (string * option string))   (* PutAndDelete: one atomic transaction, distinct keys *)
| ODelPrefix (p : string)
| ONop.                                        (* sleep / fault injection: no change of the store *)

Definition apply_op (st : content) (o : op) : content :=
  match o with
  | OFill stem from n v => kv_merge (idx_run stem from n v) st
  | OPut k v => kv_put k v st
  | ODel k => kv_del k st
  | OTxn kvs => fold_left (fun s '(k, ov) => match ov with Some v => kv_put k v s | None => kv_del k s end) kvs st
  | ODelPrefix p => kv_del_prefix p st
  | ONop => st
  end.

Definition is_write (o : op) : bool := match o with ONop => false | _ => true end.

(** what GetRaw(key) / GetRawPrefix(prefix) return, as a content *)
Definition proj_key (k : string) (st : content) : content :=
  match alookup k st with Some v => [(k, v)] | None => [] end.
Definition proj_prefix (p : string) (st : content) : content :=
  filter (fun '(k, _) => String.prefix p k) st.

(** store states seen through a projection after each write op ([ONop]s produce none) *)
Fixpoint states_after (proj : content -> content) (st : content) (ops : list op) : list content :=
  match ops with
  | [] => []
  | o :: t =>
      let st' := apply_op st o in
      if is_write o then proj st' :: states_after proj st' t else states_after proj st' t
  end.

(** ** the trace checker (prop)

    [check_from fin cur rest d obs]: [cur] is a store state the syncer may currently
    see, [rest] the states written later, [d] the last delivered snapshot (or the
    implicit empty one), [obs] the snapshots still to be explained.  Every snapshot
    must differ from its predecessor (by the code's own comparison) and be equal to
    [cur] or a later state (greedy: the earliest).  With [fin] the last snapshot
    must be equal (as a map) to the final store state. *)
Definition kv_eqb (a b : string * string) : bool := String.eqb (fst a) (fst b) && String.eqb (snd a) (snd b).
Definition content_eqb (a b : content) : bool := list_eqb kv_eqb a b.

Fixpoint find_state (x cur : content) (rest : list content) : option (content * list content) :=
  if content_eqb cur x then Some (cur, rest)
  else match rest with
       | [] => None
       | s :: r => find_state x s r
       end.

Fixpoint check_from (fin : bool) (cur : content) (rest : list content) (d : content) (obs : list content) : bool :=
  match obs with
  | [] => if fin then is_data_equal d (last rest cur) else true
  | x :: obs' =>
      negb (is_data_equal d x) &&
      match find_state x cur rest with
      | None => false
      | Some (c', r') => check_from fin c' r' x obs'
      end
  end.

Definition check_trace (fin : bool) (s0 : content) (ws : list content) (obs : list content) : bool :=
  check_from fin s0 ws [] obs.

(** the same checker with a linear-time comparison for contents that list the same keys in the
    same order (proved equal to [check_trace] for contents with unique keys:
    C19_fast_checker_equiv); only the evaluation of big-prefix cases needs it *)
Definition fast_equal (d1 d2 : content) : bool :=
  if negb (Nat.eqb (List.length d1) (List.length d2)) then false   (* (vm_compute is strict: decide this first) *)
  else if list_eqb String.eqb (map fst d1) (map fst d2) then content_eqb d1 d2
  else is_data_equal d1 d2.

Fixpoint check_from_fast (fin : bool) (cur : content) (rest : list content) (d : content) (obs : list content) : bool :=
  match obs with
  | [] => if fin then fast_equal d (last rest cur) else true
  | x :: obs' =>
      negb (fast_equal d x) &&
      match find_state x cur rest with
      | None => false
      | Some (c', r') => check_from_fast fin c' r' x obs'
      end
  end.

Definition check_trace_fast (fin : bool) (s0 : content) (ws : list content) (obs : list content) : bool :=
  check_from_fast fin s0 ws [] obs.

(** ** a schedule that explains an observed trace (used by the correspondence:
    the model is run on it and must reproduce the observed messages) *)
Fixpoint writes_until (x cur : content) (rest : list content) : list event * content * list content :=
  if content_eqb cur x then ([], cur, rest)
  else match rest with
       | [] => ([], cur, [])
       | s :: r => let '(evs, c', r') := writes_until x s r in (Write s :: evs, c', r')
       end.

Fixpoint schedule_of (first : bool) (cur : content) (rest : list content) (obs : list content) : list event :=
  match obs with
  | [] => map Write rest ++ [if first then Pull else Tick]
  | x :: obs' =>
      let '(evs, c', r') := writes_until x cur rest in
      evs ++ (if first then Pull else WatchEvent) :: schedule_of false c' r' obs'
  end.

(** ** availability of a multi-member store

    The store is available as long as a majority of its [n] members is up ([quorum]);
    it is NOT tied to any single member.  A client can use the store iff one of the
    members it knows ([endpoints], member indices) is up. *)
Definition quorum (n down : nat) : bool := Nat.ltb n (2 * (n - down)).
Definition all_members (n : nat) : list nat := seq 0 n.
Definition reachable (endpoints down : list nat) : bool :=
  existsb (fun e => negb (existsb (Nat.eqb e) down)) endpoints.
