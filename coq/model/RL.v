(** Executable model of easegress' rate limiters (C09).

    - [acquire]       : pkg/util/ratelimiter/ratelimiter.go   acquirePermission
    - [macquire]      : pkg/util/ratelimiter/multiratelimiter.go AcquirePermission
    - [mqtt_acquire]  : pkg/object/mqttproxy/ratelimiter.go   Limiter
    - [flt_*]         : pkg/filters/ratelimiter/ratelimiter.go  (rule selection, reload)

    Times are nanoseconds in [Z]; [el] is [now - startTime] of the limiter.
    Go's truncated integer division is [Z.quot] (÷).  No proofs here. *)
From EG.lib Require Import Base.
Open Scope Z_scope.

Record policy := { pT : Z; pP : Z; pL : Z }.
Record rl := { cyc : Z; tok : Z }.
Definition rl0 : rl := {| cyc := 0; tok := 0 |}.

Inductive out :=
| Permit (wait : Z)
| Reject (wait : Z)
| Panic.                       (* integer divide by zero: LimitRefreshPeriod = 0 *)

Definition max_tokens (p : policy) : Z := pL p * (pT p ÷ pP p + 1).

Definition cur_tokens (p : policy) (s : rl) (cycle : Z) : Z :=
  Z.max 0 (tok s - (cycle - cyc s) * pL p).

Definition acquire (p : policy) (s : rl) (el count : Z) : rl * out :=
  if pP p =? 0 then (s, Panic) else
  let cycle := el ÷ pP p in
  let tokens := cur_tokens p s cycle in
  if max_tokens p <=? tokens then (s, Reject (pT p)) else
  let s' := {| cyc := cycle; tok := tokens + count |} in
  if tokens <? pL p then (s', Permit 0)
  else (s', Permit (pP p * (cycle + tokens ÷ pL p) - el)).

(** a history: (elapsed time, count) per arrival *)
Fixpoint run (p : policy) (s : rl) (ops : list (Z * Z)) : list out :=
  match ops with
  | [] => []
  | (el, c) :: t => let '(s', o) := acquire p s el c in o :: run p s' t
  end.

Fixpoint run_state (p : policy) (s : rl) (ops : list (Z * Z)) : rl :=
  match ops with
  | [] => s
  | (el, c) :: t => run_state p (fst (acquire p s el c)) t
  end.

(** ** Multi limiter *)
Record mpolicy := { mT : Z; mP : Z; mL : list Z }.
Record mrl := { mcyc : Z; mtok : list Z }.
Definition mrl0 (p : mpolicy) : mrl := {| mcyc := 0; mtok := map (fun _ => 0) (mL p) |}.

Inductive mout :=
| MPermit (wait : Z)
| MReject (wait : Z)
| MErr                         (* len(count) <> len(limits) *)
| MPanic.

Fixpoint zip3 (a b c : list Z) : list (Z * Z * Z) :=
  match a, b, c with
  | x :: a', y :: b', z :: c' => (x, y, z) :: zip3 a' b' c'
  | _, _, _ => []
  end.

Definition macquire (p : mpolicy) (s : mrl) (el : Z) (count : list Z) : mrl * mout :=
  if negb (Nat.eqb (List.length count) (List.length (mL p))) then (s, MErr) else
  if mP p =? 0 then (s, MPanic) else
  let scale := mT p ÷ mP p + 1 in
  let cycle := el ÷ mP p in
  (* (limit, current tokens, count) per dimension *)
  let rows := zip3 (mL p) (mtok s) count in
  let toks := map (fun '(l, t, _) => (l, Z.max 0 (t - (cycle - mcyc s) * l))) rows in
  if existsb (fun '(l, t) => l * scale <=? t) toks then (s, MReject (mT p)) else
  let s' := {| mcyc := cycle;
               mtok := map (fun '(l, t, c) => Z.max 0 (t - (cycle - mcyc s) * l) + c) rows |} in
  if forallb (fun '(l, t) => t <? l) toks then (s', MPermit 0)
  else
    let w := fold_left (fun acc '(l, t) => Z.max acc (mP p * (cycle + t ÷ l) - el)) toks 0 in
    (s', MPermit w).

Fixpoint mrun (p : mpolicy) (s : mrl) (ops : list (Z * list Z)) : list mout :=
  match ops with
  | [] => []
  | (el, c) :: t => let '(s', o) := macquire p s el c in o :: mrun p s' t
  end.

(** ** MQTT limiter: timeout 0, period = timePeriod seconds *)
Inductive mqtt_lim :=
| MqNone
| MqMulti (p : mpolicy) (s : mrl)
| MqReq (p : policy) (s : rl)
| MqBytes (p : policy) (s : rl).

Definition second : Z := 1000000000.

Definition mqtt_new (requestRate bytesRate timePeriod : Z) : mqtt_lim :=
  if (requestRate =? 0) && (bytesRate =? 0) then MqNone else
  let tp := if 0 <? timePeriod then timePeriod else 1 in
  if (0 <? requestRate) && (0 <? bytesRate) then
    let p := {| mT := 0; mP := tp * second; mL := [requestRate; bytesRate] |} in MqMulti p (mrl0 p)
  else if 0 <? requestRate then MqReq {| pT := 0; pP := tp * second; pL := requestRate |} rl0
  else if 0 <? bytesRate then MqBytes {| pT := 0; pP := tp * second; pL := bytesRate |} rl0
  else MqNone.

Definition is_permit (o : out) : bool := match o with Permit _ => true | _ => false end.
Definition is_mpermit (o : mout) : bool := match o with MPermit _ => true | _ => false end.

Definition mqtt_acquire (l : mqtt_lim) (el bytes : Z) : mqtt_lim * bool :=
  match l with
  | MqNone => (l, true)
  | MqMulti p s => let '(s', o) := macquire p s el [1; bytes] in (MqMulti p s', is_mpermit o)
  | MqReq p s => let '(s', o) := acquire p s el 1 in (MqReq p s', is_permit o)
  | MqBytes p s => let '(s', o) := acquire p s el bytes in (MqBytes p s', is_permit o)
  end.

Fixpoint mqtt_run (l : mqtt_lim) (ops : list (Z * Z)) : list bool :=
  match ops with
  | [] => []
  | (el, b) :: t => let '(l', ok) := mqtt_acquire l el b in ok :: mqtt_run l' t
  end.

(** ** The RateLimiter filter: rule selection and reload.

    A URL rule is matched by the real [urlrule.URLRule.Match]; the model takes
    the match verdict of every rule for the request as an oracle row
    ([list bool], one per rule, computed by the harness with the real code).
    Policies are compared as the Go code does (reflect.DeepEqual of the spec
    struct: raw strings), their semantics are the parsed values. *)
Record fpolicy := { fp_name : string; fp_T : string; fp_P : string; fp_L : Z;
                    fp_Tns : Z; fp_Pns : Z }.        (* parsed by time.ParseDuration (oracle) *)
Record furl := { fu_methods : list string; fu_exact : string; fu_prefix : string;
                 fu_regex : string; fu_ref : string }.
Record fspec := { fs_policies : list fpolicy; fs_default : string; fs_urls : list furl }.

Definition fpolicy_eqb (a b : fpolicy) : bool :=
  String.eqb (fp_name a) (fp_name b) && String.eqb (fp_T a) (fp_T b) &&
  String.eqb (fp_P a) (fp_P b) && (fp_L a =? fp_L b).

Definition furl_eqb (a b : furl) : bool :=
  list_eqb String.eqb (fu_methods a) (fu_methods b) && String.eqb (fu_exact a) (fu_exact b) &&
  String.eqb (fu_prefix a) (fu_prefix b) && String.eqb (fu_regex a) (fu_regex b) &&
  String.eqb (fu_ref a) (fu_ref b).

(** [urlrule.URLRule.Match]: the method list (empty = any method) must contain the
    request method, and the path must equal [exact], or start with [prefix], or
    match [regex] - each alternative only when configured (non-empty), all
    alternatives tried.  Only the verdict of Go's [regexp] on the rule's own
    pattern is an oracle bit ([rx]). *)
Definition str_nonempty (s : string) : bool := negb (String.eqb s "").

Definition sm_match (u : furl) (v : string) (rx : bool) : bool :=
  (str_nonempty (fu_exact u) && String.eqb v (fu_exact u)) ||
  (str_nonempty (fu_prefix u) && String.prefix (fu_prefix u) v) ||
  (str_nonempty (fu_regex u) && rx).

Definition method_ok (u : furl) (method : string) : bool :=
  match fu_methods u with
  | [] => true
  | ms => existsb (String.eqb method) ms
  end.

Definition url_match (u : furl) (method path : string) (rx : bool) : bool :=
  method_ok u method && sm_match u path rx.

Fixpoint match_row (us : list furl) (method path : string) (rxs : list bool) : list bool :=
  match us, rxs with
  | u :: ut, rx :: rt => url_match u method path rx :: match_row ut method path rt
  | _, _ => []
  end.

Definition find_policy (s : fspec) (name : string) : option fpolicy :=
  find (fun p => String.eqb (fp_name p) name) (fs_policies s).

Definition opt_policy_eqb (a b : option fpolicy) : bool :=
  match a, b with
  | Some x, Some y => fpolicy_eqb x y
  | None, None => true
  | _, _ => false
  end.

Definition is_same_policy (s1 s2 : fspec) (name : string) : bool :=
  if String.eqb name "" then
    if negb (String.eqb (fs_default s1) (fs_default s2)) then false
    else opt_policy_eqb (find_policy s1 (fs_default s1)) (find_policy s2 (fs_default s1))
  else opt_policy_eqb (find_policy s1 name) (find_policy s2 name).

Definition bound_policy (s : fspec) (u : furl) : option fpolicy :=
  find_policy s (if String.eqb (fu_ref u) "" then fs_default s else fu_ref u).

Definition lib_policy (op : option fpolicy) : policy :=
  match op with
  | None => {| pT := 0; pP := 0; pL := 0 |}   (* nil policy: Go would panic in createRateLimiter; excluded by Validate *)
  | Some p =>
      {| pL := if fp_L p =? 0 then 50 else fp_L p;
         pT := if String.eqb (fp_T p) "" then 100000000 else fp_Tns p;
         pP := if String.eqb (fp_P p) "" then 10000000 else fp_Pns p |}
  end.

(** Limiter objects live in a heap keyed by identity [lid] (the harness numbers
    the Go pointers the same way), because after [Inherit] the old and the new
    generation share the object. A generation holds one reference per URL
    rule; [None] models the Go nil pointer left behind by the pinned [reload]. *)
Record lim := { lstart : Z; lpol : policy; lst : rl }.
Definition heap := list (Z * lim).
Record gen := { g_spec : fspec; g_lims : list (option Z) }.

Fixpoint hget (h : heap) (k : Z) : option lim :=
  match h with
  | [] => None
  | (k', v) :: t => if k =? k' then Some v else hget t k
  end.

Fixpoint hset (h : heap) (k : Z) (v : lim) : heap :=
  match h with
  | [] => [(k, v)]
  | (k', v') :: t => if k =? k' then (k, v) :: t else (k', v') :: hset t k v
  end.

(** quirk: the pinned code sets [prev.rl = nil] when a limiter is handed to the
    next generation (C11: the old generation then panics). *)
Record quirks := { q_rl_inherit_steals_limiter : bool }.
Definition ideal : quirks := {| q_rl_inherit_steals_limiter := false |}.

Fixpoint find_prev (snew sold : fspec) (u : furl) (olds : list (furl * option Z)) (i : nat)
  : option (nat * option Z) :=
  match olds with
  | [] => None
  | (pu, pl) :: t =>
      if furl_eqb u pu && is_same_policy snew sold (fu_ref u) then Some (i, pl)
      else find_prev snew sold u t (S i)
  end.

Fixpoint set_nth {A} (n : nat) (x : A) (l : list A) : list A :=
  match n, l with
  | _, [] => []
  | O, _ :: t => x :: t
  | S n', a :: t => a :: set_nth n' x t
  end.

(** reload: (heap, refs of the new generation, refs of the old generation
    afterwards, next fresh id, panicked).  With the pinned quirk a rule of the
    new spec that matches a previous rule whose limiter was already handed over
    (two identical rules in the new spec, or a second Inherit from the same
    generation) receives the nil pointer and [SetStateListener] on it panics. *)
Fixpoint reload_urls (q : quirks) (snew sold : fspec) (now : Z) (urls : list furl)
  (h : heap) (oldl : list (option Z)) (next : Z)
  : heap * list (option Z) * list (option Z) * Z * bool :=
  match urls with
  | [] => (h, [], oldl, next, false)
  | u :: t =>
      match find_prev snew sold u (combine (fs_urls sold) oldl) 0 with
      | Some (i, pl) =>
          match pl with
          | None => (h, [], oldl, next, true)          (* nil limiter: panic inside reload *)
          | Some _ =>
              let oldl' := if q_rl_inherit_steals_limiter q then set_nth i None oldl else oldl in
              let '(h', r, o, n, pk) := reload_urls q snew sold now t h oldl' next in
              (h', pl :: r, o, n, pk)
          end
      | None =>
          let l := {| lstart := now; lpol := lib_policy (bound_policy snew u); lst := rl0 |} in
          let '(h', r, o, n, pk) := reload_urls q snew sold now t (hset h next l) oldl (next + 1) in
          (h', Some next :: r, o, n, pk)
      end
  end.

Definition empty_spec : fspec := {| fs_policies := []; fs_default := ""; fs_urls := [] |}.

Definition flt_init (h : heap) (s : fspec) (now next : Z) : heap * gen * Z :=
  let '(h', r, _, n, _) := reload_urls ideal s empty_spec now (fs_urls s) h [] next in
  (h', {| g_spec := s; g_lims := r |}, n).

(** Inherit: (heap, new generation, old generation afterwards, next id, panicked) *)
Definition flt_inherit (q : quirks) (h : heap) (s : fspec) (old : gen) (now next : Z)
  : heap * gen * gen * Z * bool :=
  let '(h', r, o, n, pk) := reload_urls q s (g_spec old) now (fs_urls s) h (g_lims old) next in
  (h', {| g_spec := s; g_lims := r |}, {| g_spec := g_spec old; g_lims := o |}, n, pk).

Inductive fout :=
| FPass (wait : Z) (by_rule : option nat)     (* result "" ; by_rule = index of the rule consulted, None = no rule matched *)
| FLimited (by_rule : nat)                    (* result rateLimited, status 429 *)
| FPanic.

(** Handle: the first matching rule acquires one permit from its limiter.
    [matches] is the oracle row for this request (real URLRule.Match per rule). *)
Fixpoint flt_handle_aux (h : heap) (now : Z) (lims : list (option Z)) (matches : list bool) (i : nat)
  : heap * fout :=
  match lims, matches with
  | l :: lt, m :: mt =>
      if m then
        match l with
        | None => (h, FPanic)
        | Some k =>
            match hget h k with
            | None => (h, FPanic)
            | Some x =>
                let '(s', o) := acquire (lpol x) (lst x) (now - lstart x) 1 in
                let h' := hset h k {| lstart := lstart x; lpol := lpol x; lst := s' |} in
                match o with
                | Permit w => (h', FPass w (Some i))
                | Reject _ => (h', FLimited i)
                | Panic => (h, FPanic)
                end
            end
        end
      else flt_handle_aux h now lt mt (S i)
  | _, _ => (h, FPass 0 None)
  end.

Definition flt_handle (h : heap) (g : gen) (now : Z) (matches : list bool) : heap * fout :=
  flt_handle_aux h now (g_lims g) matches 0.

(** Filter histories. Generations are numbered in creation order. *)
Inductive fop :=
| FInit (s : fspec) (now : Z)
| FInherit (s : fspec) (from : nat) (now : Z)
| FHandle (g : nat) (now : Z) (matches : list bool).

Inductive fobs :=
| OGen (refs : list (option Z))       (* identities of the limiter objects of the new generation *)
| OHandle (o : fout)
| OInheritPanic                        (* Inherit itself panicked; no new generation exists *)
| OBad.                                (* reference to a generation that does not exist *)

Record fworld := { w_heap : heap; w_gens : list gen; w_next : Z }.
Definition fworld0 : fworld := {| w_heap := []; w_gens := []; w_next := 0 |}.

Definition fstep (q : quirks) (w : fworld) (o : fop) : fworld * fobs :=
  match o with
  | FInit s now =>
      let '(h, g, n) := flt_init (w_heap w) s now (w_next w) in
      ({| w_heap := h; w_gens := w_gens w ++ [g]; w_next := n |}, OGen (g_lims g))
  | FInherit s from now =>
      match nth_error (w_gens w) from with
      | None => (w, OBad)
      | Some old =>
          let '(h, g, old', n, pk) := flt_inherit q (w_heap w) s old now (w_next w) in
          if pk then ({| w_heap := h; w_gens := set_nth from old' (w_gens w); w_next := n |}, OInheritPanic)
          else ({| w_heap := h; w_gens := set_nth from old' (w_gens w) ++ [g]; w_next := n |}, OGen (g_lims g))
      end
  | FHandle gi now matches =>
      match nth_error (w_gens w) gi with
      | None => (w, OBad)
      | Some g =>
          let '(h, r) := flt_handle (w_heap w) g now matches in
          ({| w_heap := h; w_gens := w_gens w; w_next := w_next w |}, OHandle r)
      end
  end.

Fixpoint frun (q : quirks) (w : fworld) (ops : list fop) : list fobs :=
  match ops with
  | [] => []
  | o :: t => let '(w', r) := fstep q w o in r :: frun q w' t
  end.
