(** C18 - cluster mutex (pkg/cluster/mutex.go) and the admin-API mutations that
    run under it (pkg/api/server.go, object.go, cluster.go).  Executable model,
    NO proofs.

    etcd is modelled (not verified): a linearizable store.  The lock of
    [concurrency.Mutex] for one lock name is the set of keys [name/<lease>] -
    one per member, because every member has ONE session (cluster.getSession) -
    ordered by create revision; the owner is the key with the least create
    revision.  New keys always get a larger revision than every existing key,
    so the set ordered by create revision is a queue to which a fresh key is
    appended: [queue : list mid].

    A thread is one call of  Lock(); critical section; Unlock()  of
    pkg/cluster.mutex, i.e. (mutex.go)
       m.lock.Lock()                      LLocalLock   (process local sync.Mutex)
       m.m.Lock(ctx)  = tryAcquire        LPut         (Txn: put own key unless it exists)
                        wait until owner  LAcquire
                        ctx deadline      LTimeout     (delete own key; m.lock.Unlock(); error)
                        own key vanished  LExpired     (ErrSessionExpired; m.lock.Unlock(); error)
       critical section                   LCs ...      (the API handler's accesses to the store)
                                          LFault       (the next access fails: handler ends with 5xx)
       m.m.Unlock(ctx)                    LEtcdUnlock  (delete own key)
       m.lock.Unlock()                    LLocalUnlock
    plus a fault step of the member (not of the request):
       keepAliveLease -> grantNewLease    LRegrant     (the member lease is granted again; any later
                                                        cluster.Mutex() call still uses the session of
                                                        the FIRST lease, so the lock key stays)
    The transition system interleaves these atomic steps of any number of
    threads on any number of members (a schedule is a list of (thread, label)).

    Quirk flag [q_local_per_handle] (defect of the pinned code): cluster.Mutex(name)
    builds a NEW process-local sync.Mutex for every call, so two handles obtained
    on one member for the same name share the etcd key (same session) but not the
    local lock.  [ideal]: one local lock per member and name.
    Flag [q_regrant_revokes] (not a defect of the pinned code; the shape of a plausible wrong
    "repair"): after a lease re-grant the session is replaced and the old one closed, which
    revokes the old lease and with it the member's lock key. *)
From EG.lib Require Import Base.
Open Scope Z_scope.

Definition tid := nat.
Definition mid := nat.

(** *** requests executed inside the critical section *)
Inductive req :=
| RNoop                              (* critical section that does not touch the store (mutex harness) *)
| RCreate (n k b : string)           (* POST   /objects        name kind body *)
| RUpdate (n k b : string)           (* PUT    /objects/{name} *)
| RDelete (n : string)               (* DELETE /objects/{name} *)
| RGet (n : string)                  (* GET    /objects/{name}: NOT under the lock *)
| RCustom.                           (* any request of the custom-data API (/customdatakinds, /customdata/{kind}):
                                        never takes the cluster lock, never touches /config/version or an object *)

Inductive result :=
| ROk (code : Z) (v : Z)             (* successful mutation, X-Config-Version v *)
| RFail (code : Z)                   (* 409 / 400 / 404 of a mutation *)
| RRead (o : option (string * string))  (* GET: 200 with (kind, body) or 404 *)
| RErr (applied : bool)              (* a cluster operation inside the handler failed (ClusterPanic, 5xx); the
                                        handler stopped there: [applied] = its object write had already happened,
                                        the version was NOT written *)
| RNoopDone.

Definition objects := list (string * (string * string)).   (* name -> (kind, body) *)
Definition store := (objects * Z)%type.                    (* objects, config version *)

Fixpoint aset {A} (k : string) (v : A) (l : list (string * A)) : list (string * A) :=
  match l with
  | [] => [(k, v)]
  | (k', v') :: t => if String.eqb k k' then (k, v) :: t else (k', v') :: aset k v t
  end.

Fixpoint adel {A} (k : string) (l : list (string * A)) : list (string * A) :=
  match l with
  | [] => []
  | (k', v') :: t => if String.eqb k k' then adel k t else (k', v') :: adel k t
  end.

(** *** sequential specification of one request (what a handler does when it runs alone) *)
Definition code_of (r : req) : Z := match r with RCreate _ _ _ => 201 | _ => 200 end.

(** the validity check every mutating handler does first: None = proceed *)
Definition precheck (o : objects) (r : req) : option Z :=
  match r with
  | RCreate n _ _ => match alookup n o with Some _ => Some 409 | None => None end
  | RUpdate n k _ => match alookup n o with
                     | None => Some 404
                     | Some (k', _) => if String.eqb k' k then None else Some 400
                     end
  | RDelete n => match alookup n o with None => Some 404 | Some _ => None end
  | _ => None
  end.

Definition apply_objs (r : req) (o : objects) : objects :=
  match r with
  | RCreate n k b => aset n (k, b) o
  | RUpdate n k b => aset n (k, b) o
  | RDelete n => adel n o
  | _ => o
  end.

Definition is_mut (r : req) : bool :=
  match r with RCreate _ _ _ | RUpdate _ _ _ | RDelete _ => true | _ => false end.

Definition spec_result (st : store) (r : req) : result :=
  match r with
  | RNoop => RNoopDone
  | RGet n => RRead (alookup n (fst st))
  | RCustom => RNoopDone
  | _ => match precheck (fst st) r with
         | Some c => RFail c
         | None => ROk (code_of r) (snd st + 1)
         end
  end.

Definition spec_apply (st : store) (r : req) : store :=
  if is_mut r then
    match precheck (fst st) r with
    | Some _ => st
    | None => (apply_objs r (fst st), snd st + 1)
    end
  else st.

(** *** threads *)
Record thr := { t_mem : mid;     (* member (process) the thread runs on *)
                t_hnd : nat;     (* which handle returned by cluster.Mutex(name) it uses *)
                t_req : req;
                t_to : bool }.   (* the request timeout may fire while it waits for the lock *)

Record quirks := { q_local_per_handle : bool; q_regrant_revokes : bool }.
Definition ideal : quirks := {| q_local_per_handle := false; q_regrant_revokes := false |}.

Definition lslot (q : quirks) (th : thr) : nat := if q_local_per_handle q then t_hnd th else O.

Inductive pc :=
| PIdle
| PLocal                 (* holds the process-local lock *)
| PWait                  (* own etcd key present (put or reused), waiting to be the owner *)
| PCs (k : nat)          (* in the critical section, next handler step k *)
| PEnd (r : result)      (* handler finished, Unlock not yet started *)
| PUnl (r : result)      (* etcd key deleted, local lock still held *)
| PDone (r : result)
| PFail.                 (* Lock returned an error *)

Inductive label := LLocalLock | LPut | LAcquire | LTimeout | LExpired | LCs | LEtcdUnlock | LLocalUnlock | LGet | LRegrant | LFault.

Record state := {
  queue : list mid;                    (* lock keys of the members, in create-revision order *)
  local : nat -> nat -> option tid;    (* process-local locks: member, slot -> holder *)
  pcs : tid -> pc;
  reg : tid -> Z;                      (* version read by _getVersion inside _plusOneVersion *)
  objs : objects;
  ver : Z;
  log : list (tid * req * result)      (* ghost: results of mutations in the order they were decided *)
}.

Definition init (st : store) : state :=
  {| queue := []; local := fun _ _ => None; pcs := fun _ => PIdle; reg := fun _ => 0;
     objs := fst st; ver := snd st; log := [] |}.

Definition upd {A} (f : nat -> A) (t : nat) (v : A) : nat -> A :=
  fun x => if Nat.eqb x t then v else f x.

Definition upd2 {A} (f : nat -> nat -> A) (m h : nat) (v : A) : nat -> nat -> A :=
  fun x y => if Nat.eqb x m && Nat.eqb y h then v else f x y.

Fixpoint memb (m : nat) (l : list nat) : bool :=
  match l with [] => false | x :: t => Nat.eqb x m || memb m t end.

Fixpoint remove_m (m : nat) (l : list nat) : list nat :=
  match l with [] => [] | x :: t => if Nat.eqb x m then remove_m m t else x :: remove_m m t end.

Definition is_head (m : nat) (l : list nat) : bool :=
  match l with x :: _ => Nat.eqb x m | [] => false end.

Definition set_pc (s : state) (t : tid) (p : pc) : state :=
  {| queue := queue s; local := local s; pcs := upd (pcs s) t p; reg := reg s;
     objs := objs s; ver := ver s; log := log s |}.

Definition finish (s : state) (t : tid) (rq : req) (r : result) : state :=
  {| queue := queue s; local := local s; pcs := upd (pcs s) t (PEnd r); reg := reg s;
     objs := objs s; ver := ver s; log := log s ++ [(t, rq, r)] |}.

(** one step of the handler of [rq] inside the critical section (object.go / api/cluster.go):
    0: _getObject + checks   1: _putObject / _deleteObject
    2: _getVersion           3: cluster.Put(version+1), X-Config-Version *)
Definition cs_step (s : state) (t : tid) (rq : req) (k : nat) : option state :=
  match rq with
  | RGet _ => None
  | RCustom => None
  | RNoop => match k with O => Some (set_pc s t (PEnd RNoopDone)) | _ => None end
  | _ =>
    match k with
    | O => match precheck (objs s) rq with
           | Some c => Some (finish s t rq (RFail c))
           | None => Some (set_pc s t (PCs 1))
           end
    | 1%nat => Some {| queue := queue s; local := local s; pcs := upd (pcs s) t (PCs 2); reg := reg s;
                       objs := apply_objs rq (objs s); ver := ver s; log := log s |}
    | 2%nat => Some {| queue := queue s; local := local s; pcs := upd (pcs s) t (PCs 3);
                       reg := upd (reg s) t (ver s);
                       objs := objs s; ver := ver s; log := log s |}
    | 3%nat => let v := reg s t + 1 in
               Some {| queue := queue s; local := local s; pcs := upd (pcs s) t (PEnd (ROk (code_of rq) v));
                       reg := reg s; objs := objs s; ver := v;
                       log := log s ++ [(t, rq, ROk (code_of rq) v)] |}
    | _ => None
    end
  end.

(** requests that run without the cluster lock *)
Definition is_get (r : req) : bool := match r with RGet _ | RCustom => true | _ => false end.

Definition step (q : quirks) (cfg : tid -> thr) (s : state) (t : tid) (l : label) : option state :=
  let th := cfg t in
  let m := t_mem th in
  let h := lslot q th in
  match l, pcs s t with
  | LRegrant, _ =>           (* lease of member [m] granted again (+ a later cluster.Mutex() call) *)
      Some (if q_regrant_revokes q then
              {| queue := remove_m m (queue s); local := local s; pcs := pcs s;
                 reg := reg s; objs := objs s; ver := ver s; log := log s |}
            else s)
  | LLocalLock, PIdle =>
      if is_get (t_req th) then None else
      match local s m h with
      | Some _ => None
      | None => Some {| queue := queue s; local := upd2 (local s) m h (Some t); pcs := upd (pcs s) t PLocal;
                        reg := reg s; objs := objs s; ver := ver s; log := log s |}
      end
  | LPut, PLocal =>
      Some {| queue := if memb m (queue s) then queue s else queue s ++ [m];
              local := local s; pcs := upd (pcs s) t PWait;
              reg := reg s; objs := objs s; ver := ver s; log := log s |}
  | LAcquire, PWait =>
      if is_head m (queue s) then Some (set_pc s t (PCs 0)) else None
  | LTimeout, PLocal =>      (* the Txn of tryAcquire failed with the deadline: no key was put *)
      if t_to th then
        Some {| queue := queue s; local := upd2 (local s) m h None; pcs := upd (pcs s) t PFail;
                reg := reg s; objs := objs s; ver := ver s; log := log s |}
      else None
  | LTimeout, PWait =>       (* waitDeletes failed: m.Unlock(client.Ctx()) deletes the own key *)
      if t_to th then
        Some {| queue := remove_m m (queue s); local := upd2 (local s) m h None; pcs := upd (pcs s) t PFail;
                reg := reg s; objs := objs s; ver := ver s; log := log s |}
      else None
  | LExpired, PWait =>       (* the own key is gone: ErrSessionExpired, nothing deleted *)
      if memb m (queue s) then None else
        Some {| queue := queue s; local := upd2 (local s) m h None; pcs := upd (pcs s) t PFail;
                reg := reg s; objs := objs s; ver := ver s; log := log s |}
  | LCs, PCs k => cs_step s t (t_req th) k
  | LFault, PCs k =>         (* the cluster operation of handler step k fails: ClusterPanic, the deferred
                                Unlock runs, nothing further is written (in particular no version) *)
      if is_mut (t_req th) && Nat.leb k 3 then Some (finish s t (t_req th) (RErr (Nat.leb 2 k))) else None
  | LEtcdUnlock, PEnd r =>
      Some {| queue := remove_m m (queue s); local := local s; pcs := upd (pcs s) t (PUnl r);
              reg := reg s; objs := objs s; ver := ver s; log := log s |}
  | LLocalUnlock, PUnl r =>
      Some {| queue := queue s; local := upd2 (local s) m h None; pcs := upd (pcs s) t (PDone r);
              reg := reg s; objs := objs s; ver := ver s; log := log s |}
  | LGet, PIdle =>
      match t_req th with
      | RGet n => Some (set_pc s t (PDone (RRead (alookup n (objs s)))))
      | RCustom => Some (set_pc s t (PDone RNoopDone))   (* identity on objects and version *)
      | _ => None
      end
  | _, _ => None
  end.

(** a schedule is executable iff every step of it is enabled *)
Fixpoint run (q : quirks) (cfg : tid -> thr) (s : state) (sched : list (tid * label)) : option state :=
  match sched with
  | [] => Some s
  | (t, l) :: rest => match step q cfg s t l with
                      | Some s' => run q cfg s' rest
                      | None => None
                      end
  end.

(** life of a mutation whose handler step [c] (0..3) hits a failing cluster operation *)
Definition full_fault (t : tid) (c : nat) : list (tid * label) :=
  [(t, LLocalLock); (t, LPut); (t, LAcquire)] ++ repeat (t, LCs) c ++ [(t, LFault); (t, LEtcdUnlock); (t, LLocalUnlock)].

(** between a successful Lock and the start of the matching Unlock *)
Definition in_cs (p : pc) : bool := match p with PCs _ | PEnd _ => true | _ => false end.

(** the thread has finished its attempt (or has not started) *)
Definition quiescent (p : pc) : bool := match p with PIdle | PDone _ | PFail => true | _ => false end.

(** result of a thread whose handler has finished *)
Definition fin_result (p : pc) : option result :=
  match p with PEnd r | PUnl r | PDone r => Some r | _ => None end.

(** *** sequential replay *)
Definition entry := (tid * req * result)%type.
Definition e_req (e : entry) : req := snd (fst e).
Definition e_res (e : entry) : result := snd e.
Definition e_tid (e : entry) : tid := fst (fst e).

Definition is_ok (e : entry) : bool := match e_res e with ROk _ _ => true | _ => false end.
Definition ver_of (e : entry) : Z := match e_res e with ROk _ v => v | _ => 0 end.

(** effect of one decided entry on the store: a success applies the request and bumps the version,
    409/400/404 nothing, a handler that was cut short by a failed cluster operation leaves its object
    write (if already done) and no version bump *)
Definition entry_apply (st : store) (e : entry) : store :=
  match e_res e with
  | RErr true => (apply_objs (e_req e) (fst st), snd st)
  | RErr false => st
  | _ => spec_apply st (e_req e)
  end.

Definition replay (st : store) (l : list entry) : store := fold_left entry_apply l st.

Definition entry_ok (st : store) (e : entry) : Prop :=
  match e_res e with
  | RErr true => precheck (fst st) (e_req e) = None   (* it wrote only after passing the check *)
  | RErr false => True
  | r => r = spec_result st (e_req e)
  end.

(** every logged result is the one the sequential specification gives at that point *)
Fixpoint legal (st : store) (l : list entry) : Prop :=
  match l with
  | [] => True
  | e :: t => entry_ok st e /\ is_mut (e_req e) = true /\ legal (entry_apply st e) t
  end.

(** entries that changed the store *)
Definition has_effect (e : entry) : bool :=
  match e_res e with ROk _ _ => true | RErr true => true | _ => false end.

Fixpoint zseq (a : Z) (n : nat) : list Z :=
  match n with O => [] | S n' => a :: zseq (a + 1) n' end.

(** whole lifecycles, used by the checks and the examples *)
Definition full_ok (t : tid) (steps : nat) : list (tid * label) :=
  [(t, LLocalLock); (t, LPut); (t, LAcquire)] ++ repeat (t, LCs) steps ++ [(t, LEtcdUnlock); (t, LLocalUnlock)].

Definition cs_len (st : store) (r : req) : nat :=
  match r with
  | RNoop => 1%nat
  | RGet _ => 0%nat
  | RCustom => 0%nat
  | _ => match precheck (fst st) r with Some _ => 1%nat | None => 4%nat end
  end.
