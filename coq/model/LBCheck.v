(** Case types and per-case check functions for C04 (evaluated by vm_compute on
    traces of the real code).  Result: (corr, prop, class, attributed-flag).

    - corr : the model ([LB.v], with the pinned quirk flags) yields exactly the
             implementation's observables;
    - prop : the decidable property checker ([prop_sel]) holds on the
             IMPLEMENTATION's observables: choice in the declared list, no-server
             only when empty, no panic, round-robin balance, hash stickiness,
             weighted random never zero-weight;
    - class: 0 = trivial, >0 = coverage class;
    - attributed-flag: index of the known-finding quirk explaining a prop failure. *)
From EG.lib Require Import Base.
From EG.model Require Import LB.
Open Scope Z_scope.

Definition result := (bool * bool * N * N)%type.
Definition bN (b : bool) (n : N) : N := if b then n else 0%N.

Definition out_code (o : outcome) : Z :=
  match o with Chosen i => i | NoServer => -1 | Panic => -2 end.

Definition policy_eqb (a b : policy) : bool :=
  match a, b with
  | RoundRobin, RoundRobin | Random, Random | WeightedRandom, WeightedRandom
  | IPHash, IPHash | HeaderHash, HeaderHash => true
  | _, _ => false
  end.

Definition policy_idx (p : policy) : N :=
  match p with RoundRobin => 1 | Random => 2 | WeightedRandom => 3 | IPHash => 4 | HeaderHash => 5 end%N.

(** ** the property checker on observed selections

    [picks] = (hash key, chosen index) per selection, in order; index -1 = no
    server (nil / 503), -2 = panic, anything else negative = malformed.
    [c0] = counter value before the first selection. *)
Definition nthZ (ws : list Z) (i : Z) : Z := nth (Z.to_nat i) ws 0.

(** tickets of the selections: (c0 + j) mod 2^64 *)
Fixpoint tickets64 (c : Z) (k : nat) : list Z :=
  match k with O => [] | S k' => c :: tickets64 ((c + 1) mod two64) k' end.

Definition in_domain (c0 : Z) (k : Z) : bool := (0 <=? c0) && (c0 + k <=? two63).

(** choice in the list / no-server only when empty / no panic.  A round-robin
    panic at a ticket >= 2^63 is outside the claimed domain (DESIGN 4.1). *)
Definition pick_ok (p : policy) (n : Z) (t : Z) (idx : Z) : bool :=
  if n =? 0 then idx =? -1
  else ((0 <=? idx) && (idx <? n)) ||
       (policy_eqb p RoundRobin && (two63 <=? t) && (idx =? -2)).

Fixpoint picks_ok (p : policy) (n : Z) (ts : list Z) (idxs : list Z) : bool :=
  match ts, idxs with
  | [], [] => true
  | t :: ts', i :: is' => pick_ok p n t i && picks_ok p n ts' is'
  | _, _ => false
  end.

Definition balanced (n k : Z) (idxs : list Z) : bool :=
  let cs := map (fun i => count i idxs) (zseq 0 (Z.to_nat n)) in
  forallb (fun c => (c =? k / n) || (c =? k / n + 1)) cs &&
  (if k mod n =? 0 then forallb (fun c => c =? k / n) cs
   else (Z.of_nat (List.length (filter (fun c => c =? k / n + 1) cs)) =? k mod n)).

Fixpoint sticky (picks : list (string * Z)) : bool :=
  match picks with
  | [] => true
  | (k, i) :: t => forallb (fun '(k', i') => if String.eqb k k' then i =? i' else true) t && sticky t
  end.

Definition prop_sel (p : policy) (ws : list Z) (c0 : Z) (picks : list (string * Z)) : bool :=
  let n := Z.of_nat (List.length ws) in
  let k := Z.of_nat (List.length picks) in
  let idxs := map snd picks in
  picks_ok p n (tickets64 c0 (List.length picks)) idxs &&
  match p with
  | RoundRobin => if (0 <? n) && in_domain c0 k then balanced n k idxs else true
  | IPHash | HeaderHash => sticky picks
  | WeightedRandom =>
      if forallb (fun w => 0 <=? w) ws && existsb (fun w => 0 <? w) ws
      then forallb (fun i => if (0 <=? i) && (i <? n) then 0 <? nthZ ws i else true) idxs
      else true
  | Random => true
  end.

(** ** header lookup used by headerHash: Header.Get is case-insensitive for token names *)
Definition lower (c : ascii) : ascii :=
  let n := N_of_ascii c in
  if ((65 <=? n) && (n <=? 90))%N then ascii_of_N (n + 32) else c.
Fixpoint lower_str (s : string) : string :=
  match s with EmptyString => EmptyString | String c t => String (lower c) (lower_str t) end.
Definition ci_eqb (a b : string) : bool := String.eqb (lower_str a) (lower_str b).

Definition header_get (key hname hval : string) : string :=
  if String.eqb hname "" then ""%string else if ci_eqb key hname then hval else ""%string.

(** the hash key the model expects for a request: for headerHash it is computed from the
    request's header, for ipHash it is the oracle (realip is an external function) *)
Definition key_ok (p : policy) (hkey hname hval key : string) : bool :=
  match p with
  | HeaderHash => String.eqb key (header_get hkey hname hval)
  | _ => true
  end.

(** ** group lb *)
Record lreq := { r_hname : string; r_hval : string; r_key : string; r_draw : Z; r_idx : Z }.
Record lb_case := { l_policy : string; l_hkey : string; l_ws : list Z; l_c0 : Z; l_valid : bool;
                    l_reqs : list lreq }.

Definition mk_servers (ws : list Z) : list server := map (fun w => {| s_url := ""; s_w := w |}) ws.

Definition model_lb (q : quirks) (c : lb_case) : list Z :=
  map out_code (run_lb q (policy_of_string (l_policy c)) (mk_servers (l_ws c)) (l_c0 c)
                  (map (fun r => (r_draw r, r_key r)) (l_reqs c))).

Definition has_code (k : Z) (l : list Z) : bool := existsb (Z.eqb k) l.

Definition mixed_weights (ws : list Z) : bool := existsb (Z.eqb 0) ws && existsb (fun w => 0 <? w) ws.
Definition near_wrap (c0 : Z) : bool := two63 - 1000 <? c0.

Definition class_sel (p : policy) (ws : list Z) (c0 : Z) (idxs : list Z) : N :=
  match idxs with
  | [] => 0%N
  | _ => (policy_idx p + bN (Nat.eqb (List.length ws) 0) 8 + bN (Nat.eqb (List.length ws) 1) 16
          + bN (has_code (-2) idxs) 32 + bN (mixed_weights ws) 64 + bN (near_wrap c0) 128)%N
  end.

Definition check_lb (pinned : quirks) (c : lb_case) : result :=
  let p := policy_of_string (l_policy c) in
  let obs := map r_idx (l_reqs c) in
  let keys := map r_key (l_reqs c) in
  let m := model_lb pinned c in
  let corr := list_eqb Z.eqb m obs &&
              Bool.eqb (validate_go false (l_ws c)) (l_valid c) &&
              forallb (fun r => key_ok p (l_hkey c) (r_hname r) (r_hval r) (r_key r)) (l_reqs c) in
  let prop := prop_sel p (l_ws c) (l_c0 c) (combine keys obs) in
  let attrib :=
      if negb prop && corr && q_wr_zero_total_panics pinned &&
         prop_sel p (l_ws c) (l_c0 c) (combine keys (model_lb ideal c))
      then 1%N else 0%N in
  (corr, prop, class_sel p (l_ws c) (l_c0 c) obs, attrib).

Definition explain_lb (pinned : quirks) (c : lb_case) := (model_lb pinned c, validate_go false (l_ws c)).

(** ** group pool *)
Inductive pop :=
| OUse (insts : list instance) (obs_list : list (string * Z))
| OReq (hname hval key : string) (draw : Z) (status : Z) (res : string) (target : string).

Record pool_case := { p_policy : string; p_hkey : string; p_tags : list string;
                      p_static : list (string * Z); p_svc : bool; p_valid : bool;
                      p_init : list (string * Z); p_ops : list pop }.

Definition srv (x : string * Z) : server := {| s_url := fst x; s_w := snd x |}.
Definition unsrv (s : server) : string * Z := (s_url s, s_w s).
Definition sz_eqb (a b : string * Z) : bool := String.eqb (fst a) (fst b) && (snd a =? snd b).

Definition occ (x : string * Z) (l : list (string * Z)) : nat := List.length (filter (sz_eqb x) l).
(** equal as multisets: every element of either list occurs equally often in both *)
Definition perm_eqb (l1 l2 : list (string * Z)) : bool :=
  Nat.eqb (List.length l1) (List.length l2) &&
  forallb (fun x => Nat.eqb (occ x l1) (occ x l2)) l1 &&
  forallb (fun x => Nat.eqb (occ x l1) (occ x l2)) l2.

Definition spec_of (c : pool_case) : pool_spec :=
  {| ps_policy := p_policy c; ps_static := map srv (p_static c); ps_service := p_svc c; ps_tags := p_tags c |}.

(** what the harness observes for a model outcome on list [l] *)
Definition expect (l : list server) (o : outcome) : Z * string * string :=
  match o with
  | Chosen i => match nth_error l (Z.to_nat i) with
                | Some s => if 0 <=? i then (200, ""%string, s_url s) else (-9, "bad-index"%string, ""%string)
                | None => (-9, "bad-index"%string, ""%string)
                end
  | NoServer => (503, "internalError"%string, ""%string)
  | Panic => (-2, "panic"%string, ""%string)
  end.

Definition triple_eqb (a b : Z * string * string) : bool :=
  (fst (fst a) =? fst (fst b)) && String.eqb (snd (fst a)) (snd (fst b)) && String.eqb (snd a) (snd b).

(** model run over the observed op list: returns per request the model's expected triple;
    [ok] accumulates the list-installation checks *)
Fixpoint model_pool (q : quirks) (p : policy) (static : list server) (tags : list string)
         (cur : list server) (ctr : Z) (ops : list pop) : bool * list (Z * string * string) :=
  match ops with
  | [] => (true, [])
  | OUse insts obs_list :: t =>
      let tg := tagged tags insts in
      let ok := match tg with
                | [] => list_eqb sz_eqb obs_list (map unsrv static)   (* falls back to the static list, same order *)
                | _ => perm_eqb (map unsrv tg) obs_list               (* map iteration order is arbitrary *)
                end in
      let '(ok', outs) := model_pool q p static tags (map srv obs_list) 0 t in
      (ok && ok', outs)
  | OReq _ _ key draw _ _ _ :: t =>
      let o := choose q p cur {| tk := ctr; dr := draw; ky := key |} in
      let '(ok', outs) := model_pool q p static tags cur ((ctr + 1) mod two64) t in
      (ok', expect cur o :: outs)
  end.

Definition obs_triples (ops : list pop) : list (Z * string * string) :=
  flat_map (fun o => match o with OReq _ _ _ _ st rs tg => [(st, rs, tg)] | _ => [] end) ops.

(** segments: the declared list (from the INPUT: static list / tagged instances) and the
    observed requests made while it was current *)
Fixpoint index_of (u : string) (l : list server) (i : Z) : Z :=
  match l with
  | [] => -3
  | s :: t => if String.eqb u (s_url s) then i else index_of u t (i + 1)
  end.

Definition obs_code (d : list server) (x : Z * string * string) : Z :=
  let '(st, rs, tg) := x in
  if st =? -2 then -2
  else if (st =? 200) && String.eqb rs "" && negb (String.eqb tg "") then index_of tg d 0
  else if (st =? 503) && String.eqb rs "internalError" && String.eqb tg "" then -1
  else -4.

(** [trs] supplies the (status, result, target) triples consumed in order by the requests, so that
    the same walk can be applied to the observed triples and to the ideal model's triples *)
Fixpoint segments (static : list server) (tags : list string) (d : list server)
         (acc : list (string * Z)) (ops : list pop) (trs : list (Z * string * string))
  : list (list server * list (string * Z)) :=
  match ops with
  | [] => [(d, rev acc)]
  | OUse insts _ :: t => (d, rev acc) :: segments static tags (pool_list static (tagged tags insts)) [] t trs
  | OReq _ _ key _ _ _ _ :: t =>
      match trs with
      | [] => [(d, rev ((key, -4) :: acc))]
      | x :: trs' => segments static tags d ((key, obs_code d x) :: acc) t trs'
      end
  end.

(** the observed selections of a history, each with the list that is current at that selection
    (the list declared by the last discovery report before it, initially the static list) *)
Fixpoint req_view (static : list server) (tags : list string) (d : list server)
         (ops : list pop) (trs : list (Z * string * string))
  : list (list server * string * (Z * string * string)) :=
  match ops with
  | [] => []
  | OUse insts _ :: t => req_view static tags (pool_list static (tagged tags insts)) t trs
  | OReq _ _ key _ _ _ _ :: t =>
      match trs with
      | [] => [(d, key, (-4, ""%string, ""%string))]
      | x :: trs' => (d, key, x) :: req_view static tags d t trs'
      end
  end.

Definition prop_pool (p : policy) (static : list server) (tags : list string) (ops : list pop)
           (trs : list (Z * string * string)) : bool :=
  forallb (fun '(d, picks) => prop_sel p (weights d) 0 picks) (segments static tags static [] ops trs).

Definition keys_ok_pool (p : policy) (hkey : string) (ops : list pop) : bool :=
  forallb (fun o => match o with OReq hn hv key _ _ _ _ => key_ok p hkey hn hv key | _ => true end) ops.

Definition is_use (o : pop) : bool := match o with OUse _ _ => true | _ => false end.
Definition is_fallback (tags : list string) (o : pop) : bool :=
  match o with OUse i _ => match tagged tags i with [] => true | _ => false end | _ => false end.
Definition has_status (k : Z) (trs : list (Z * string * string)) : bool := existsb (fun x => fst (fst x) =? k) trs.

Definition class_pool (c : pool_case) : N :=
  let p := policy_of_string (p_policy c) in
  let trs := obs_triples (p_ops c) in
  match trs with
  | [] => 0%N
  | _ => (policy_idx p + bN (existsb is_use (p_ops c)) 8 + bN (has_status 503 trs) 16
          + bN (has_status (-2) trs) 32 + bN (existsb (is_fallback (p_tags c)) (p_ops c)) 64)%N
  end.

Definition check_pool (pinned : quirks) (c : pool_case) : result :=
  let p := policy_of_string (p_policy c) in
  let static := map srv (p_static c) in
  let v := validate (spec_of c) in
  if negb (p_valid c) then
    (* rejected by validation: nothing was run *)
    (Bool.eqb v false && match p_ops c with [] => true | _ => false end, true, 0%N, 0%N)
  else
    let '(ok, m) := model_pool pinned p static (p_tags c) static 0 (p_ops c) in
    let obs := obs_triples (p_ops c) in
    let corr := v && list_eqb sz_eqb (p_init c) (p_static c) && ok && list_eqb triple_eqb m obs &&
                keys_ok_pool p (p_hkey c) (p_ops c) in
    let prop := prop_pool p static (p_tags c) (p_ops c) obs in
    let attrib :=
        if negb prop && corr && q_wr_zero_total_panics pinned &&
           prop_pool p static (p_tags c) (p_ops c) (snd (model_pool ideal p static (p_tags c) static 0 (p_ops c)))
        then 1%N else 0%N in
    (corr, prop, class_pool c, attrib).

Definition explain_pool (pinned : quirks) (c : pool_case) :=
  (validate (spec_of c),
   model_pool pinned (policy_of_string (p_policy c)) (map srv (p_static c)) (p_tags c) (map srv (p_static c)) 0 (p_ops c)).

(** ** group rrc: k = g * per concurrent round-robin selections, per-server counts *)
Record rrc_case := { c_n : Z; c_g : Z; c_per : Z; c_c0 : Z; c_counts : list Z; c_nil : Z; c_panics : Z }.

Definition model_rrc (c : rrc_case) : list Z :=
  map (rr_count (c_n c) (c_c0 c) (c_g c * c_per c)) (zseq 0 (Z.to_nat (c_n c))).

Definition balanced_counts (n k : Z) (cs : list Z) : bool :=
  (Z.of_nat (List.length cs) =? n) &&
  forallb (fun c => (c =? k / n) || (c =? k / n + 1)) cs &&
  (Z.of_nat (List.length (filter (fun c => negb (c =? k / n)) cs)) =? k mod n) &&
  (fold_right Z.add 0 cs =? k).

Definition check_rrc (c : rrc_case) : result :=
  let k := c_g c * c_per c in
  let dom := (0 <? c_n c) && in_domain (c_c0 c) k in
  (dom && list_eqb Z.eqb (model_rrc c) (c_counts c) && (c_nil c =? 0) && (c_panics c =? 0),
   negb dom || (balanced_counts (c_n c) k (c_counts c) && (c_nil c =? 0) && (c_panics c =? 0)),
   (let uneven := negb (k mod c_n c =? 0) in let big := 100000 <? k in let off := 0 <? c_c0 c in
    if dom then (1 + bN uneven 1 + bN big 2 + bN off 4)%N else 0%N),
   0%N).

Definition explain_rrc (c : rrc_case) := model_rrc c.

(** ** group swap: selections concurrent with list replacement.
    [w_urls] = the URL list of installation j (0 = the initial list), from the INPUT;
    [w_hist] = the observed selections aggregated as (lo, hi, chosen URL or "" for no server, count):
    lo = the last installation that had completed when the call began, hi = the last installation
    that had started when it returned (stamped by the harness with one atomic counter each).
    The membership decision is taken here: the choice must belong to an installation j in [lo, hi]
    ("the old or the new list"); no server only if such a list is empty. *)
Record swap_case := { w_expected : Z; w_total : Z; w_bad : Z; w_panics : Z; w_lists : Z;
                      w_urls : list (list string); w_hist : list (Z * Z * string * Z) }.

Definition member_or_empty (u : string) (l : list string) : bool :=
  if String.eqb u "" then match l with [] => true | _ => false end else str_in u l.

Definition in_window (urls : list (list string)) (lo hi : Z) (u : string) : bool :=
  existsb (fun '(j, l) => (lo <=? j) && (j <=? hi) && member_or_empty u l)
          (combine (zseq 0 (List.length urls)) urls).

Definition hist_ok (urls : list (list string)) (hist : list (Z * Z * string * Z)) : bool :=
  forallb (fun '(lo, hi, u, n) => (n <=? 0) || in_window urls lo hi u) hist.

Definition hist_total (hist : list (Z * Z * string * Z)) : Z := fold_right (fun '(_, _, _, n) a => n + a) 0 hist.

Definition prop_swap (c : swap_case) : bool :=
  (w_total c =? w_expected c) && (w_bad c =? 0) && (w_panics c =? 0) &&
  hist_ok (w_urls c) (w_hist c) && (hist_total (w_hist c) =? w_total c) &&
  forallb (fun '(_, _, _, n) => 0 <=? n) (w_hist c).

Definition check_swap (c : swap_case) : result :=
  let ok := prop_swap c in
  let many := 4 <? w_lists c in let big := 10000 <? w_total c in
  (ok, ok, if 1 <? w_lists c then (1 + bN many 1 + bN big 2)%N else 0%N, 0%N).

Definition explain_swap (c : swap_case) := (w_expected c, hist_ok (w_urls c) (w_hist c), hist_total (w_hist c)).

(** ** group watch: the real watchServers driven by a registry double.
    [t_reports] = the successful listing answers of the registry (what service discovery
    reported, in order); [t_points] = (number of reports so far, the pool's list sorted by URL)
    after start-up and after every step; [t_tail] = the final selections, as a pool-group op list
    ([OUse last-report final-list] followed by requests). *)
Record watch_case := { t_policy : string; t_hkey : string; t_tags : list string;
                       t_static : list (string * Z); t_valid : bool;
                       t_reports : list (list instance);
                       t_points : list (nat * list (string * Z));
                       t_tail : list pop }.

Definition points_ok (static : list server) (tags : list string) (reports : list (list instance))
           (pts : list (nat * list (string * Z))) : bool :=
  forallb (fun '(n, l) => perm_eqb (map unsrv (watch_list static tags (firstn n reports))) l) pts.

Definition watch_pool_case (c : watch_case) : pool_case :=
  {| p_policy := t_policy c; p_hkey := t_hkey c; p_tags := t_tags c; p_static := t_static c; p_svc := true;
     p_valid := t_valid c; p_init := t_static c; p_ops := t_tail c |}.

Definition check_watch (pinned : quirks) (c : watch_case) : result :=
  let '(corr, prop, cls, att) := check_pool pinned (watch_pool_case c) in
  let pts := points_ok (map srv (t_static c)) (t_tags c) (t_reports c) (t_points c) in
  let ok := pts && t_valid c in
  (corr && ok, prop && ok,
   (if t_valid c then
      let multi := Nat.ltb 2 (List.length (t_reports c)) in
      let fb := existsb (fun r => match tagged (t_tags c) r with [] => true | _ => false end) (t_reports c) in
      1 + bN multi 1 + bN fb 2 + (cls mod 8) * 4
    else 0)%N, att).

Definition explain_watch (pinned : quirks) (c : watch_case) :=
  (map (fun '(n, _) => map unsrv (watch_list (map srv (t_static c)) (t_tags c) (firstn n (t_reports c)))) (t_points c),
   explain_pool pinned (watch_pool_case c)).

(** ** group retry: one request with a retry policy; the list is replaced (useService) while
    send number [y_at] is in flight.  Model: every attempt loads the pool's balancer anew. *)
Record retry_case := { y_policy : string; y_hkey : string; y_tags : list string; y_static : list (string * Z);
                       y_valid : bool;
                       y_old : list instance; y_new : list instance;
                       y_oldlist : list (string * Z); y_newlist : list (string * Z);   (* observed order *)
                       y_at : Z; y_max : nat; y_failing : list string;
                       y_hname : string; y_hval : string; y_key : string;
                       y_sends : list string; y_status : Z; y_res : string }.

(** returns (sends, final status, final result) *)
Fixpoint retry_model (q : quirks) (p : policy) (key : string) (failing : list string) (at_ : Z)
         (newl : list server) (cur : list server) (ctr : Z) (nsend : Z) (fuel : nat)
         (last : Z * string) : list string * (Z * string) :=
  match fuel with
  | O => ([], last)
  | S fuel' =>
      match choose q p cur {| tk := ctr; dr := 0; ky := key |} with
      | Chosen i =>
          match nth_error cur (Z.to_nat i) with
          | Some s =>
              let nsend' := nsend + 1 in
              let replaced := nsend' =? at_ in
              let cur' := if replaced then newl else cur in
              let ctr' := if replaced then 0 else (ctr + 1) mod two64 in
              if str_in (s_url s) failing then
                let '(ss, fin) := retry_model q p key failing at_ newl cur' ctr' nsend' fuel' (503, "serverError"%string) in
                (s_url s :: ss, fin)
              else ([s_url s], (200, ""%string))
          | None => ([], (-9, "bad-index"%string))
          end
      | NoServer => retry_model q p key failing at_ newl cur ctr nsend fuel' (503, "internalError"%string)
      | Panic => ([], (-2, "panic"%string))
      end
  end.

Fixpoint split_at (n : nat) (l : list string) : list string * list string :=
  match n, l with
  | O, _ => ([], l)
  | S n', x :: t => let '(a, b) := split_at n' t in (x :: a, b)
  | S _, [] => ([], [])
  end.

Definition retry_picks (d : list server) (key : string) (sends : list string) : list (string * Z) :=
  map (fun u => (key, index_of u d 0)) sends.

Definition check_retry (pinned : quirks) (c : retry_case) : result :=
  let p := policy_of_string (y_policy c) in
  let static := map srv (y_static c) in
  if negb (y_valid c) then (false, true, 0%N, 0%N) else
  let d_old := pool_list static (tagged (y_tags c) (y_old c)) in
  let d_new := pool_list static (tagged (y_tags c) (y_new c)) in
  let lists_ok :=
      (match tagged (y_tags c) (y_old c) with
       | [] => list_eqb sz_eqb (y_oldlist c) (map unsrv static)
       | tg => perm_eqb (map unsrv tg) (y_oldlist c) end) &&
      (if (0 <? y_at c) && (y_at c <=? Z.of_nat (List.length (y_sends c))) then
         match tagged (y_tags c) (y_new c) with
         | [] => list_eqb sz_eqb (y_newlist c) (map unsrv static)
         | tg => perm_eqb (map unsrv tg) (y_newlist c) end
       else true) in
  let '(ms, fin) := retry_model pinned p (y_key c) (y_failing c) (y_at c) (map srv (y_newlist c))
                                (map srv (y_oldlist c)) 0 0 (y_max c) (503, "internalError"%string) in
  let corr := lists_ok && list_eqb String.eqb ms (y_sends c) && (fst fin =? y_status c) && String.eqb (snd fin) (y_res c) &&
              key_ok p (y_hkey c) (y_hname c) (y_hval c) (y_key c) in
  (* property on the observed attempts: sends 1..at were selected while the old list was current,
     later sends after the replacement had returned: they must be members of the NEW list *)
  let nold := if y_at c =? 0 then List.length (y_sends c) else Z.to_nat (y_at c) in
  let '(s1, s2) := split_at nold (y_sends c) in
  let final_list := match s2 with [] => if (0 <? y_at c) && (y_at c =? Z.of_nat (List.length s1)) then d_new else d_old | _ => d_new end in
  let prop := prop_sel p (weights d_old) 0 (retry_picks d_old (y_key c) s1) &&
              prop_sel p (weights d_new) 0 (retry_picks d_new (y_key c) s2) &&
              (* failed for lack of a server only when the list is empty; never a panic *)
              (if String.eqb (y_res c) "internalError" then match final_list with [] => true | _ => false end else true) &&
              negb (y_status c =? -2) in
  let after := match s2 with [] => false | _ => true end in
  let repl := (0 <? y_at c) && (y_at c <=? Z.of_nat (List.length (y_sends c))) in
  let ok200 := y_status c =? 200 in
  (corr, prop, (1 + bN repl 1 + bN after 2 + bN ok200 4 + policy_idx p * 8)%N, 0%N).

Definition explain_retry (pinned : quirks) (c : retry_case) :=
  retry_model pinned (policy_of_string (y_policy c)) (y_key c) (y_failing c) (y_at c) (map srv (y_newlist c))
              (map srv (y_oldlist c)) 0 0 (y_max c) (503, "internalError"%string).

(** ** group chain: one request object through several balancers.
    [h_stages] = (policy, hash header, number of servers) per stage; [h_reqs] = per request the
    values of X-User and X-Key and, per stage, the oracle key of that stage and the observed index. *)
Record chain_case := { h_valid : bool; h_stages : list (string * string * Z);
                       h_reqs : list (string * string * list (string * Z)) }.

Definition chain_hdr (a b hkey : string) : string :=
  if ci_eqb hkey "X-User" then a else if ci_eqb hkey "X-Key" then b else ""%string.

(** the observations of stage s over all requests, in order: one segment of that stage's balancer *)
Definition column (s : nat) (reqs : list (string * string * list (string * Z))) : list (string * Z) :=
  map (fun r => nth s (snd r) (""%string, -4)) reqs.

Definition stage_ws (n : Z) : list Z := repeat 0 (Z.to_nat n).

Definition prop_chain (stages : list (string * string * Z)) (reqs : list (string * string * list (string * Z))) : bool :=
  forallb (fun '(s, (pol, hk, n)) => prop_sel (policy_of_string pol) (stage_ws n) 0 (column s reqs))
          (combine (seq 0 (List.length stages)) stages) &&
  forallb (fun r => Nat.eqb (List.length (snd r)) (List.length stages)) reqs.

(** model: stage s of request number j (ticket j) *)
Definition model_chain (q : quirks) (stages : list (string * string * Z))
           (reqs : list (string * string * list (string * Z))) : list (list Z) :=
  map (fun '(j, r) =>
         map (fun '((pol, hk, n), (key, _)) =>
                out_code (choose q (policy_of_string pol) (mk_servers (stage_ws n)) {| tk := j; dr := 0; ky := key |}))
             (combine stages (snd r)))
      (combine (zseq 0 (List.length reqs)) reqs).

Definition keys_ok_chain (stages : list (string * string * Z)) (reqs : list (string * string * list (string * Z))) : bool :=
  forallb (fun r =>
             forallb (fun '((pol, hk, n), (key, _)) =>
                        match policy_of_string pol with
                        | HeaderHash => String.eqb key (chain_hdr (fst (fst r)) (snd (fst r)) hk)
                        | IPHash => true
                        | _ => String.eqb key ""
                        end)
                     (combine stages (snd r)))
          reqs.

Definition is_hash (pol : string) : bool :=
  match policy_of_string pol with IPHash | HeaderHash => true | _ => false end.

Definition check_chain (pinned : quirks) (c : chain_case) : result :=
  if negb (h_valid c) then (false, true, 0%N, 0%N) else
  let m := model_chain pinned (h_stages c) (h_reqs c) in
  let obs := map (fun r => map snd (snd r)) (h_reqs c) in
  let corr := list_eqb (list_eqb Z.eqb) m obs && keys_ok_chain (h_stages c) (h_reqs c) in
  let prop := prop_chain (h_stages c) (h_reqs c) in
  let nh := List.length (filter (fun '(pol, _, _) => is_hash pol) (h_stages c)) in
  let two := Nat.leb 2 nh in let three := Nat.leb 3 (List.length (h_stages c)) in
  (corr, prop, match h_reqs c with [] => 0%N | _ => (1 + bN two 1 + bN three 2)%N end, 0%N).

Definition explain_chain (pinned : quirks) (c : chain_case) := model_chain pinned (h_stages c) (h_reqs c).
