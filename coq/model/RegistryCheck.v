(** C20 - case types and per-case check function, evaluated by vm_compute on the
    traces of the real code.  Result: (corr, prop, class, attributed-flag).

    - corr : the model of [Registry.v] under the [pinned] quirks reproduces the
             implementation's observables (per-name lifecycle logs incl. panic
             flags, and after every snapshot: registry entities, entities of both
             watchers, event delivered to the traffic watcher, live business
             controllers incl. generation, live traffic gates / pipelines);
    - prop : the IMPLEMENTATION's own log is the word of the per-name lifecycle
             automaton ([spec_log]: the specification, not the model) for every
             name and consumer, and after every snapshot the live sets equal the
             snapshot filtered by the consumer's categories; no escaped panic. *)
From EG.lib Require Import Base.
From EG.model Require Import Registry.
Open Scope N_scope.

Definition result := (bool * bool * N * N)%type.

Record step_obs := {
  so_reg : list (N * spec);
  so_w0 : list (N * spec);
  so_w1 : list (N * spec);
  so_ev1 : list (N * N * spec);       (* class 0 delete 1 create 2 update, name, spec *)
  so_sup : list (N * inst);
  so_gate : list (N * inst);
  so_pipe : list (N * inst)
}.

Record reg_case := {
  k_grp : N;                          (* 0: harness in pkg/supervisor; 1: harness in rawconfigtrafficcontroller *)
  k_names : list N;                   (* the name space, ascending *)
  k_steps : list (list (N * spec));   (* the snapshots *)
  k_pan : list (N * N * N);           (* panic oracle: (snapshot, op, name) *)
  k_sched : N;                        (* scheduling choice given to the model (bits) *)
  o_crash : bool;
  o_log : list entry;
  o_steps : list step_obs
}.

(** *** equality tests *)
Definition ent_eqb (a b : ent) : bool := spec_eqb (e_spec a) (e_spec b) && (e_born a =? e_born b).
Definition inst_eqb (a b : inst) : bool := ent_eqb (i_ent a) (i_ent b) && Bool.eqb (i_gen a) (i_gen b).
Definition call_eqb (a b : call) : bool :=
  match a, b with
  | Init n g, Init n' g' => (n =? n') && ent_eqb g g'
  | Inherit n g p, Inherit n' g' p' => (n =? n') && ent_eqb g g' && ent_eqb p p'
  | Close n g, Close n' g' => (n =? n') && ent_eqb g g'
  | _, _ => false
  end.
Definition entry_eqb (a b : entry) : bool :=
  (l_who a =? l_who b) && (l_step a =? l_step b) && call_eqb (l_call a) (l_call b) && Bool.eqb (l_pan a) (l_pan b).
Definition scall_eqb (a b : N * call) : bool := (fst a =? fst b) && call_eqb (snd a) (snd b).
Definition nspec_eqb (a b : N * spec) : bool := (fst a =? fst b) && spec_eqb (snd a) (snd b).
Definition nent_eqb (a b : N * ent) : bool := (fst a =? fst b) && ent_eqb (snd a) (snd b).
Definition ninst_eqb (a b : N * inst) : bool := (fst a =? fst b) && inst_eqb (snd a) (snd b).
Definition ev_eqb (a b : N * N * spec) : bool :=
  (fst (fst a) =? fst (fst b)) && (snd (fst a) =? snd (fst b)) && spec_eqb (snd a) (snd b).

(** *** inputs *)
Fixpoint nlookup {A} (k : N) (l : list (N * A)) : option A :=
  match l with
  | [] => None
  | (k', v) :: t => if k =? k' then Some v else nlookup k t
  end.
Definition cfg_of (l : list (N * spec)) : snapshot := fun n => nlookup n l.
Definition pan_of (l : list (N * N * N)) : oracle :=
  fun t op n => existsb (fun '(a, b, c) => (a =? t) && (b =? op) && (c =? n)) l.

Definition sched_of (bits : N) (names : list N) : sched :=
  {| ords := fun i => if N.testbit bits (N.of_nat (Nat.modulo i 3)) then rev names else names;
     w1_first := N.testbit bits 3; tc_first := N.testbit bits 4 |}.

(** *** observables of a model state *)
Definition rows {A} (names : list N) (f : N -> option A) : list (N * A) :=
  flat_map (fun n => match f n with Some x => [(n, x)] | None => [] end) names.

Definition ev_rows (names : list N) (f : N -> trip) : list (N * N * spec) :=
  map (fun '(n, e) => (0, n, e_spec e)) (rows names (fun n => t_del (f n)))
  ++ map (fun '(n, e) => (1, n, e_spec e)) (rows names (fun n => t_cre (f n)))
  ++ map (fun '(n, e) => (2, n, e_spec e)) (rows names (fun n => t_upd (f n))).

Definition obs_of (names : list N) (st : gstate) : step_obs :=
  let f := fst st in
  {| so_reg := rows names (fun n => option_map e_spec (c_reg (f n)));
     so_w0 := rows names (fun n => option_map e_spec (c_w0 (f n)));
     so_w1 := rows names (fun n => option_map e_spec (c_w1 (f n)));
     so_ev1 := ev_rows names (fun n => c_ev1 (f n));
     so_sup := rows names (fun n => c_sup (f n));
     so_gate := rows names (fun n => c_gate (f n));
     so_pipe := rows names (fun n => c_pipe (f n)) |}.

(** the real Pipeline objects of the traffic-controller harness cannot record calls *)
Definition call_ent (c : call) : ent := match c with Init _ g => g | Inherit _ g _ => g | Close _ g => g end.
Definition visible (grp : N) (c : call) : bool :=
  if negb (grp =? 0) then negb (is_pipe (call_ent c)) else true.

Definition step_obs_eqb (grp : N) (a b : step_obs) : bool :=
  (if grp =? 0 then
     list_eqb nspec_eqb (so_reg a) (so_reg b) && list_eqb nspec_eqb (so_w0 a) (so_w0 b)
     && list_eqb nspec_eqb (so_w1 a) (so_w1 b) && list_eqb ev_eqb (so_ev1 a) (so_ev1 b)
   else
     list_eqb ninst_eqb (so_gate a) (so_gate b) && list_eqb ninst_eqb (so_pipe a) (so_pipe b))
  && list_eqb ninst_eqb (so_sup a) (so_sup b).

(** group 2: TrafficController's Apply API called directly (no registry, no watcher): every
    snapshot the harness applies each wanted object and deletes the others, name by name *)
Definition ap_map := N -> ap_state.

Fixpoint apply_trace (pan : oracle) (order names : list N) (t : N) (cfgs : list (list (N * spec)))
         (f : ap_map) (log : list entry) : list entry * list step_obs :=
  match cfgs with
  | [] => (log, [])
  | l :: r =>
      let '(f', log') :=
        fold_left (fun '(f, lg) n =>
                     let a := applier pan t n (cfg_of l n) (f n) in
                     ((fun m => if m =? n then fst a else f m), lg ++ snd a))
                  order (f, log) in
      let o := {| so_reg := []; so_w0 := []; so_w1 := []; so_ev1 := []; so_sup := [];
                  so_gate := rows names (fun n => fst (f' n)); so_pipe := rows names (fun n => snd (f' n)) |} in
      let '(lg, os) := apply_trace pan order names (t + 1) r f' log' in
      (lg, o :: os)
  end.

Definition model_run (q : quirks) (c : reg_case) : list entry * list step_obs :=
  if k_grp c =? 2 then
    apply_trace (pan_of (k_pan c)) (if N.testbit (k_sched c) 0 then rev (k_names c) else k_names c) (k_names c)
                0 (k_steps c) (fun _ => (None, None)) []
  else
  let steps := map (fun l => (sched_of (k_sched c) (k_names c), cfg_of l)) (k_steps c) in
  let tr := trace q (pan_of (k_pan c)) 0 steps init_state in
  (match rev tr with [] => [] | st :: _ => snd st end, map (obs_of (k_names c)) tr).

Definition vis_log (grp : N) (l : list entry) : list entry :=
  filter (fun e => visible grp (l_call e) && (negb (grp =? 0) || (l_who e =? 0))) l.

Definition corr_with (q : quirks) (c : reg_case) : bool :=
  let '(ml, ms) := model_run q c in
  let ml := vis_log (k_grp c) ml in
  negb (o_crash c)
  && Nat.eqb (List.length ml) (List.length (o_log c))
  (* the two consumers run concurrently: their relative order inside one snapshot is not an
     observable; the log of a name is compared consumer by consumer *)
  && forallb (fun n => forallb (fun w =>
       list_eqb entry_eqb (filter (fun e => l_who e =? w) (log_of n ml))
                          (filter (fun e => l_who e =? w) (log_of n (o_log c)))) [0; 1]) (k_names c)
  && list_eqb (step_obs_eqb (k_grp c)) ms (o_steps c).

(** *** the property on observables (model-independent) *)

(** expected state of consumer [w] after the snapshots, name by name *)
Definition auto_next (w t : N) (cfg : snapshot) (st : N -> option ent) : N -> option ent :=
  fun n => snd (spec_calls t n (st n) (filt w (cfg n))).

Definition exp_events_w (w t : N) (names : list N) (cfg : snapshot) (st : N -> option ent) : list (N * N * spec) :=
  let cs := flat_map (fun n => fst (spec_calls t n (st n) (filt w (cfg n)))) names in
  flat_map (fun c => match c with Close n o => [(0, n, e_spec o)] | _ => [] end) cs
  ++ flat_map (fun c => match c with Init n e => [(1, n, e_spec e)] | _ => [] end) cs
  ++ flat_map (fun c => match c with Inherit n e _ => [(2, n, e_spec e)] | _ => [] end) cs.

Definition exp_events := exp_events_w 1.

Definition drop_gen (l : list (N * inst)) : list (N * ent) := map (fun '(n, i) => (n, i_ent i)) l.

Fixpoint prop_steps (grp : N) (names : list N) (t : N) (cfgs : list (list (N * spec)))
         (s0 s1 : N -> option ent) (obs : list step_obs) : bool :=
  match cfgs, obs with
  | [], [] => true
  | l :: cr, o :: or =>
      let cfg := cfg_of l in
      let s0' := auto_next 0 t cfg s0 in
      let s1' := auto_next 1 t cfg s1 in
      list_eqb nent_eqb (drop_gen (so_sup o)) (rows names s0')
      && (if grp =? 0 then
            list_eqb nspec_eqb (so_reg o) (rows names cfg)
            && list_eqb nspec_eqb (so_w0 o) (rows names (fun n => filt 0 (cfg n)))
            && list_eqb nspec_eqb (so_w1 o) (rows names (fun n => filt 1 (cfg n)))
            && list_eqb ev_eqb (so_ev1 o) (exp_events t names cfg s1)
          else
            list_eqb nent_eqb (drop_gen (so_gate o))
                     (rows names (fun n => match s1' n with Some e => if is_pipe e then None else Some e | None => None end))
            && list_eqb nent_eqb (drop_gen (so_pipe o))
                     (rows names (fun n => match s1' n with Some e => if is_pipe e then Some e else None | None => None end)))
      && prop_steps grp names (t + 1) cr s0' s1' or
  | _, _ => false
  end.

Definition vis_calls (grp : N) (l : list (N * call)) : list (N * call) := filter (fun x => visible grp (snd x)) l.

Definition prop_logs (grp : N) (names : list N) (cfgs : list (list (N * spec))) (log : list entry) : bool :=
  forallb (fun n =>
    forallb (fun w =>
      list_eqb scall_eqb (calls_of w n log)
               (vis_calls grp (fst (spec_log 0 n None (map (fun l => filt w (cfg_of l n)) cfgs)))))
      (if grp =? 0 then [0] else [0; 1]))
    names
  (* no stray events: every logged callback belongs to a name of the name space and to one of
     the consumers under observation *)
  && forallb (fun e => existsb (N.eqb (entry_name e)) names) log
  && forallb (fun e => existsb (N.eqb (l_who e)) (if grp =? 0 then [0] else [0; 1])) log.

Definition prop_obs (c : reg_case) (crash : bool) (log : list entry) (obs : list step_obs) : bool :=
  negb crash
  && prop_logs (k_grp c) (k_names c) (k_steps c) log
  && prop_steps (k_grp c) (k_names c) 0 (k_steps c) (fun _ => None) (fun _ => None) obs.

(** *** coverage class *)
Definition bN (b : bool) (n : N) : N := if b then n else 0.

Definition has_call (f : call -> bool) (l : list entry) : bool := existsb (fun e => f (l_call e)) l.

Fixpoint kind_changes (prev : list (N * spec)) (steps : list (list (N * spec))) : bool :=
  match steps with
  | [] => false
  | l :: r =>
      existsb (fun '(n, s) => match nlookup n prev with Some p => negb (same_kind p s) | None => false end) l
      || kind_changes l r
  end.

Definition class_of (c : reg_case) : N :=
  match o_log c with
  | [] => 0
  | _ =>
      1 + bN (has_call (fun x => match x with Inherit _ _ _ => true | _ => false end) (o_log c)) 1
        + bN (has_call (fun x => match x with Close _ _ => true | _ => false end) (o_log c)) 2
        + bN (existsb l_pan (o_log c)) 4
        + bN (kind_changes [] (k_steps c)) 8
        + bN (existsb (fun o => match so_ev1 o with [] => false | _ => true end) (o_steps c)
              || existsb (fun e => l_who e =? 1) (o_log c)) 16
        + bN (k_grp c =? 1) 32
  end.

(** [pinned] (the quirks of the open known findings) is defined by the case file header *)
Definition check_with (pinned : quirks) (c : reg_case) : result :=
  let corr := corr_with pinned c in
  let prop := prop_obs c (o_crash c) (o_log c) (o_steps c) in
  let attrib :=
    if negb prop && corr && q_kind_change_as_update pinned then
      (* the pinned model reproduces the failing observables (corr); does the model with the
         flag switched off satisfy the property on this input? *)
      let '(il, is_) := model_run ideal c in
      if prop_obs c false (vis_log (k_grp c) il) is_ then 1 else 0
    else 0 in
  (corr, prop, class_of c, attrib).

Definition explain_with (pinned : quirks) (c : reg_case) :=
  let '(ml, ms) := model_run pinned c in (vis_log (k_grp c) ml, ms).

(** *** group "join": a watcher created (NewWatcher) while the registry is non-empty and, where the
    harness manages to force it, while applyConfig is running in another goroutine.

    The model treats NewWatcher as one atomic step placed before snapshot [j_join]: first event =
    the registry filtered, then one event per later snapshot.  Observables: the rows of the first
    event, and per later snapshot the event delivered to the new watcher (none = []) and
    watcher.Entities(). *)
Record join_step := { jo_ev : list (N * N * spec); jo_ents : list (N * spec) }.

Record join_case := {
  j_names : list N;
  j_steps : list (list (N * spec));
  j_join : nat;                        (* NewWatcher starts when this many snapshots have been applied *)
  j_w : N;                             (* filter of the new watcher: 0 business controllers, 1 traffic objects *)
  j_sched : N;
  jo_first : list (N * N * spec);
  jo_steps : list join_step
}.

Definition join_step_eqb (a b : join_step) : bool :=
  list_eqb ev_eqb (jo_ev a) (jo_ev b) && list_eqb nspec_eqb (jo_ents a) (jo_ents b).

Fixpoint join_model (q : quirks) (cats names : list N) (t : N) (steps : list (sched * snapshot))
         (st : gstate) (x : N -> option ent) : list join_step :=
  match steps with
  | [] => []
  | (sc, cfg) :: r =>
      let st' := step q (fun _ _ _ => false) t sc cfg st in
      let x' := late_next cats st' x in
      {| jo_ev := ev_rows names (late_event cats st' x);
         jo_ents := rows names (fun n => option_map e_spec (x' n)) |}
      :: join_model q cats names (t + 1) r st' x'
  end.

Definition join_run (q : quirks) (c : join_case) : list (N * N * spec) * list join_step :=
  let steps := map (fun l => (sched_of (j_sched c) (j_names c), cfg_of l)) (j_steps c) in
  let pre := firstn (j_join c) steps in
  let post := skipn (j_join c) steps in
  let st := exec q (fun _ _ _ => false) 0 pre init_state in
  let x := join_view (cats_of (j_w c)) st in
  (map (fun '(n, e) => (1, n, e_spec e)) (rows (j_names c) x),
   join_model q (cats_of (j_w c)) (j_names c) (N.of_nat (List.length pre)) post st x).

(** the property on the observables: the first event is the last snapshot before the join, filtered;
    every later event is exactly what the lifecycle automaton of a consumer built on this watcher
    needs (so that it stays exactly-once per name), and the watcher's entities are the latest
    snapshot, filtered *)
Fixpoint prop_join_steps (w : N) (names : list N) (t : N) (cfgs : list (list (N * spec)))
         (s : N -> option ent) (obs : list join_step) : bool :=
  match cfgs, obs with
  | [], [] => true
  | l :: cr, o :: or =>
      let cfg := cfg_of l in
      list_eqb ev_eqb (jo_ev o) (exp_events_w w t names cfg s)
      && list_eqb nspec_eqb (jo_ents o) (rows names (fun n => filt w (cfg n)))
      && prop_join_steps w names (t + 1) cr (auto_next w t cfg s) or
  | _, _ => false
  end.

Definition prop_join (c : join_case) (first : list (N * N * spec)) (obs : list join_step) : bool :=
  let pre := firstn (j_join c) (j_steps c) in
  let post := skipn (j_join c) (j_steps c) in
  let cfg0 : snapshot := match rev pre with [] => (fun _ => None) | l :: _ => cfg_of l end in
  let s0 : N -> option ent :=
    fun n => option_map (fun sp => {| e_spec := sp; e_born := 0 |}) (filt (j_w c) (cfg0 n)) in
  list_eqb ev_eqb first (map (fun '(n, e) => (1, n, e_spec e)) (rows (j_names c) s0))
  && prop_join_steps (j_w c) (j_names c) (N.of_nat (List.length pre)) post s0 obs.

Definition check_join_with (pinned : quirks) (c : join_case) : result :=
  let '(mf, ms) := join_run pinned c in
  let corr := list_eqb ev_eqb mf (jo_first c) && list_eqb join_step_eqb ms (jo_steps c) in
  let prop := prop_join c (jo_first c) (jo_steps c) in
  let attrib :=
    if negb prop && corr && q_kind_change_as_update pinned then
      let '(f, s) := join_run ideal c in if prop_join c f s then 1 else 0
    else 0 in
  (corr, prop,
   match jo_steps c with
   | [] => 0
   | _ => 64 + bN (match jo_first c with [] => false | _ => true end) 1
             + bN (existsb (fun o => match jo_ev o with [] => false | _ => true end) (jo_steps c)) 2
             + bN (j_w c =? 1) 4 + bN (kind_changes [] (j_steps c)) 8
   end,
   attrib).

Definition explain_join_with (pinned : quirks) (c : join_case) := join_run pinned c.

(** *** group "backlog": a handler stalled inside a lifecycle callback while many further snapshots
    are applied (the registry's event queue fills up and applyConfig has to wait).  Only the
    complete log and the state after quiescence are observed. *)
Definition final_obs_eqb (a b : step_obs) : bool :=
  list_eqb nspec_eqb (so_reg a) (so_reg b) && list_eqb nspec_eqb (so_w0 a) (so_w0 b)
  && list_eqb ninst_eqb (so_sup a) (so_sup b).

Fixpoint final_auto (t : N) (cfgs : list (list (N * spec))) (s0 : N -> option ent) (last : snapshot)
  : (N -> option ent) * snapshot :=
  match cfgs with
  | [] => (s0, last)
  | l :: r => final_auto (t + 1) r (auto_next 0 t (cfg_of l) s0) (cfg_of l)
  end.

Definition prop_backlog (c : reg_case) (crash : bool) (log : list entry) (obs : list step_obs) : bool :=
  negb crash
  && prop_logs 0 (k_names c) (k_steps c) log
  && match obs with
     | [o] =>
         let '(s0, cfg) := final_auto 0 (k_steps c) (fun _ => None) (fun _ => None) in
         list_eqb nent_eqb (drop_gen (so_sup o)) (rows (k_names c) s0)
         && list_eqb nspec_eqb (so_reg o) (rows (k_names c) cfg)
         && list_eqb nspec_eqb (so_w0 o) (rows (k_names c) (fun n => filt 0 (cfg n)))
     | _ => false
     end.

Definition check_backlog_with (pinned : quirks) (c : reg_case) : result :=
  let run := fun q => let '(ml, ms) := model_run q c in
                      (vis_log 0 ml, match rev ms with [] => [] | x :: _ => [x] end) in
  let '(ml, ms) := run pinned in
  let corr :=
    negb (o_crash c)
    && Nat.eqb (List.length ml) (List.length (o_log c))
    && forallb (fun n => list_eqb entry_eqb (log_of n ml) (log_of n (o_log c))) (k_names c)
    && list_eqb final_obs_eqb ms (o_steps c) in
  let prop := prop_backlog c (o_crash c) (o_log c) (o_steps c) in
  let attrib :=
    if negb prop && corr && q_kind_change_as_update pinned then
      let '(il, is_) := run ideal in if prop_backlog c false il is_ then 1 else 0
    else 0 in
  (corr, prop, match o_log c with [] => 0 | _ => 128 + bN (existsb l_pan (o_log c)) 1
                                                     + bN (kind_changes [] (k_steps c)) 2 end, attrib).

Definition explain_backlog_with (pinned : quirks) (c : reg_case) :=
  let '(ml, ms) := model_run pinned c in (vis_log 0 ml, match rev ms with [] => [] | x :: _ => [x] end).
