(** Case types and per-case check functions for C08 (evaluated by vm_compute on the
    traces of the real code).  Result: (corr, prop, class, attributed-flag).

    - corr : the concrete model ([CB.v]: ring buffers, buckets) yields exactly the
             implementation's observables;
    - prop : the contract checker [chk_run] accepts the IMPLEMENTATION's own trace.  The
             checker keeps only what the contract speaks about - observed state and
             stateID, the time the observed state was entered, the number of admissions
             of the current half-open epoch and the raw list of results recorded with
             the current id - all rebuilt from the observations, and decides clause by
             clause which admission / state every step may show;
    - class: 0 = trivial, >0 coverage class. *)
From EG.lib Require Import Base.
From EG.model Require Import CB.
Open Scope Z_scope.

Definition result := (bool * bool * N * N)%type.
Definition bN (b : bool) (n : N) : N := if b then n else 0%N.

Definition st_code (s : st) : Z := match s with Closed => 1 | HalfOpen => 2 | Open => 3 end.
Definition st_of_code (z : Z) : option st :=
  if z =? 1 then Some Closed else if z =? 2 then Some HalfOpen else if z =? 3 then Some Open else None.
Definition flag_of_code (z : Z) : option bool :=
  if z =? 0 then Some false else if z =? 1 then Some true else None.

Definition obs_code (o : obs) : Z * Z * Z :=
  let '(b, s, i) := o in ((if b then 1 else 0), st_code s, i).

Definition obs_decode (o : Z * Z * Z) : option obs :=
  let '(b, s, i) := o in
  match flag_of_code b, st_of_code s with
  | Some b', Some s' => Some (b', s', i)
  | _, _ => None
  end.

Definition Z3_eqb (a b : Z * Z * Z) : bool :=
  let '(a1, a2, a3) := a in let '(b1, b2, b3) := b in (a1 =? b1) && (a2 =? b2) && (a3 =? b3).

(** *** the contract checker (clause by clause, on observations only) *)
Record chk := { h_state : st; h_id : Z; h_transit : Z; h_trials : Z; h_log : list (Z * res) }.

Definition chk_init (t0 : Z) : chk :=
  {| h_state := Closed; h_id := 1; h_transit := t0; h_trials := 0; h_log := [] |}.

Definition same (h : chk) (s' : st) (i' : Z) : bool := st_eqb s' (h_state h) && (i' =? h_id h).
Definition moved (h : chk) (target s' : st) (i' : Z) : bool := st_eqb s' target && (i' =? h_id h + 1).

(** what an acquisition may show *)
Definition chk_acquire (pol : policy) (now : Z) (h : chk) (o : obs) : bool :=
  let '(flag, s', i') := o in
  match h_state h with
  | Closed =>                     (* while CLOSED every call passes *)
      flag && same h s' i'
  | Open =>
      if now - h_transit h <? p_wait pol
      then negb flag && same h s' i'     (* short-circuits until waitDurationInOpenState has elapsed *)
      else (* then the first permitted calls are admitted as trials *)
        Bool.eqb flag (0 <? p_perm pol) && moved h HalfOpen s' i'
  | HalfOpen =>
      if h_trials h <? p_perm pol then flag && same h s' i'
      else negb flag &&
           (if (0 <? p_maxwait pol) && (p_maxwait pol <? now - h_transit h)
            then moved h Open s' i'       (* maxWaitDurationInHalfOpenState reopens a stalled breaker *)
            else same h s' i')
  end.

(** what the recording of a result may show.  Where the contract says nothing about the
    result itself (a result reported against the id of an OPEN state, which admits nothing;
    zero-sized windows, on which the code panics) the breaker must still stay as it is: only
    the panic flag is left free there.  (Always [Some]; the option is kept for the callers.) *)
Definition chk_record (pol : policy) (now id : Z) (r : res) (h : chk) (o : obs) : option bool :=
  let '(flag, s', i') := o in
  if negb (id =? h_id h) then Some (negb flag && same h s' i')   (* earlier state: ignored *)
  else
    let log' := (sec_of now, r) :: h_log h in
    match h_state h with
    | Open => Some (same h s' i')
    | Closed =>
        if p_size pol <=? 0 then Some (same h s' i') else
        let v := view (pol_kind pol) (sec_of now) log' in
        Some (negb flag &&
              if (p_min pol <=? Z.of_nat (List.length v)) && trips pol v
              then moved h Open s' i' else same h s' i')
    | HalfOpen =>
        if p_perm pol <=? 0 then Some (same h s' i') else
        let v := view (KCount (p_perm pol)) (sec_of now) log' in
        Some (negb flag &&
              if Z.of_nat (List.length v) <? Z.min (p_min pol) (p_perm pol) then same h s' i'
              else if trips pol v then moved h Open s' i' else moved h Closed s' i')
    end.

(** the checker's next state is rebuilt from the OBSERVATION *)
Definition chk_next (now : Z) (o : op) (pol : policy) (h : chk) (ob : obs) : chk :=
  let '(flag, s', i') := ob in
  if negb (i' =? h_id h) || negb (st_eqb s' (h_state h)) then
    {| h_state := s'; h_id := i'; h_transit := now;
       h_trials := match o, s' with OAcq _, HalfOpen => if flag then 1 else 0 | _, _ => 0 end;
       h_log := [] |}
  else
    match o with
    | OAcq _ =>
        {| h_state := h_state h; h_id := h_id h; h_transit := h_transit h;
           h_trials := match h_state h with HalfOpen => if flag then h_trials h + 1 else h_trials h | _ => h_trials h end;
           h_log := h_log h |}
    | ORec _ id err dur =>
        {| h_state := h_state h; h_id := h_id h; h_transit := h_transit h; h_trials := h_trials h;
           h_log := if (id =? h_id h) && negb flag then (sec_of now, classify pol err dur) :: h_log h else h_log h |}
    end.

Definition chk_step (pol : policy) (o : op) (h : chk) (ob : obs) : bool * chk :=
  let ok := match o with
            | OAcq now => chk_acquire pol now h ob
            | ORec now id err dur =>
                match chk_record pol now id (classify pol err dur) h ob with Some b => b | None => true end
            end in
  (ok, chk_next (op_now o) o pol h ob).

Fixpoint chk_run (pol : policy) (h : chk) (ops : list op) (obs : list obs) : bool :=
  match ops, obs with
  | [], [] => true
  | o :: t, ob :: bt => let '(ok, h') := chk_step pol o h ob in ok && chk_run pol h' t bt
  | _, _ => false
  end.

Fixpoint decode_all (l : list (Z * Z * Z)) : option (list obs) :=
  match l with
  | [] => Some []
  | x :: t => match obs_decode x, decode_all t with
              | Some o, Some r => Some (o :: r)
              | _, _ => None
              end
  end.

(** *** group "cb": the breaker itself under a virtual clock *)
Record cb_case := { k_pol : policy; k_t0 : Z; k_ops : list op; k_obs : list (Z * Z * Z) }.

Definition prop_cb (c : cb_case) : bool :=
  match decode_all (k_obs c) with
  | None => false
  | Some obs => monob (k_t0 c) (k_ops c) && chk_run (k_pol c) (chk_init (k_t0 c)) (k_ops c) obs
  end.

Definition has_state (z : Z) (l : list (Z * Z * Z)) : bool := existsb (fun '(_, s, _) => s =? z) l.

Fixpoint has_stale (ops : list op) (obs : list (Z * Z * Z)) (cur : Z) : bool :=
  match ops, obs with
  | o :: t, (_, _, i) :: bt =>
      (match o with ORec _ id _ _ => negb (id =? cur) | _ => false end) || has_stale t bt i
  | _, _ => false
  end.

(* a half-open epoch that ended in CLOSED (recovery) *)
Fixpoint has_recovery (obs : list (Z * Z * Z)) (prev : Z) : bool :=
  match obs with
  | [] => false
  | (_, s, _) :: t => ((prev =? 2) && (s =? 1)) || has_recovery t s
  end.

Definition class_cb (c : cb_case) : N :=
  match k_ops c with
  | [] => 0%N
  | _ => (1 + bN (has_state 3 (k_obs c)) 1 + bN (has_state 2 (k_obs c)) 2
            + bN (has_stale (k_ops c) (k_obs c) 1) 4 + bN (p_time (k_pol c)) 8
            + bN (has_recovery (k_obs c) 1) 16)%N
  end.

Definition explain_cb (c : cb_case) :=
  map obs_code (cb_run (k_pol c) (cb_new (k_pol c) (k_t0 c)) (k_ops c)).

Definition check_cb (c : cb_case) : result :=
  (list_eqb Z3_eqb (explain_cb c) (k_obs c), prop_cb c, class_cb c, 0%N).

(** *** group "wrap": resilience.circuitBreakerWrapper

    calls: (now, handler outcome); observed per call: (result code, handler runs,
    state, stateID, window total).  Result codes: 0 short-circuited, 1 nil, 2 error,
    3 panic re-raised. *)
Definition wres_code (r : wresult) : Z :=
  match r with WShort => 0 | WNil => 1 | WErr => 2 | WPanic => 3 end.

Record wrap_case := { w_pol : policy; w_t0 : Z; w_calls : list (Z * houtcome * ctxstate);
                      w_obs : list (Z * Z * Z * Z * Z) }.

Definition Z5_eqb (a b : Z * Z * Z * Z * Z) : bool :=
  let '(a1, a2, a3, a4, a5) := a in let '(b1, b2, b3, b4, b5) := b in
  (a1 =? b1) && (a2 =? b2) && (a3 =? b3) && (a4 =? b4) && (a5 =? b5).

Fixpoint wrap_run (pol : policy) (c : cb) (calls : list (Z * houtcome * ctxstate)) : list (Z * Z * Z * Z * Z) :=
  match calls with
  | [] => []
  | (now, h, cx) :: t =>
      let '(r, c') := wrap_call_ctx pol now cx h c in
      (wres_code r, wrap_handler_runs r, st_code (c_state c'), c_id c', win_total (c_win c')) :: wrap_run pol c' t
  end.

(** the property on the wrapper's own trace: every call is ONE admission step and, iff it
    was admitted, ONE recording step (failure iff the handler returned an error or
    panicked) of the contract checker; a short-circuited call runs no handler.
    The state between the two steps is not observable from outside the wrapper: the
    admission step is judged on its flag only and resynchronised with what the checker
    itself expects (state/id after an admission are determined by the contract). *)
Definition expect_after_acquire (pol : policy) (now : Z) (h : chk) (flag : bool) : st * Z :=
  match h_state h with
  | Closed => (Closed, h_id h)
  | Open => if now - h_transit h <? p_wait pol then (Open, h_id h) else (HalfOpen, h_id h + 1)
  | HalfOpen =>
      if h_trials h <? p_perm pol then (HalfOpen, h_id h)
      else if (0 <? p_maxwait pol) && (p_maxwait pol <? now - h_transit h) then (Open, h_id h + 1)
      else (HalfOpen, h_id h)
  end.

(** number of results the breaker's window must hold right after an admitted call recorded
    its ONE result at [now]: the window view over the results recorded with the epoch's id
    (rebuilt by the checker), or 0 when that result closed a half-open breaker (new window) *)
Definition expect_total (pol : policy) (now : Z) (h1 : chk) (sa : st) (ia : Z) (err : bool) (s' : st) (i : Z) : Z :=
  if st_eqb s' Closed && negb (i =? ia) then 0 else
  let kind := match sa with Closed => pol_kind pol | _ => KCount (p_perm pol) end in
  Z.of_nat (List.length (view kind (sec_of now) ((sec_of now, classify pol err 0) :: h_log h1))).

Fixpoint prop_wrap_run (pol : policy) (h : chk) (calls : list (Z * houtcome * ctxstate))
         (obs : list (Z * Z * Z * Z * Z)) : bool :=
  match calls, obs with
  | [], [] => true
  | (now, ho, _) :: t, (code, runs, s, i, total) :: bt =>
      match st_of_code s with
      | None => false
      | Some s' =>
          let admitted := negb (code =? 0) in
          let '(sa, ia) := expect_after_acquire pol now h admitted in
          let ob1 := (admitted, sa, ia) in
          let ok1 := chk_acquire pol now h ob1 in
          let h1 := chk_next now (OAcq now) pol h ob1 in
          if admitted then
            (* whatever the context state: exactly one result, failure iff error or panic *)
            let err := match ho with HOk => false | _ => true end in
            let o2 := ORec now ia err 0 in
            let '(ok2, h2) := chk_step pol o2 h1 (false, s', i) in
            ok1 && ok2 && (runs =? 1) && (total =? expect_total pol now h1 sa ia err s' i) &&
            (code =? wres_code (wrap_result ho)) && prop_wrap_run pol h2 t bt
          else
            ok1 && (runs =? 0) && st_eqb s' sa && (i =? ia) && prop_wrap_run pol h1 t bt
      end
  | _, _ => false
  end.

Fixpoint mono_calls {A B} (t : Z) (l : list (Z * A * B)) : bool :=
  match l with
  | [] => true
  | (n, _, _) :: r => (t <=? n) && mono_calls n r
  end.

Definition w_has_ctx (l : list (Z * houtcome * ctxstate)) : bool :=
  existsb (fun '(_, _, cx) => match cx with CLive => false | _ => true end) l.

Definition w_has_code (z : Z) (l : list (Z * Z * Z * Z * Z)) : bool := existsb (fun '(code, _, _, _, _) => code =? z) l.
Definition w_has_state (z : Z) (l : list (Z * Z * Z * Z * Z)) : bool := existsb (fun '(_, _, s, _, _) => s =? z) l.

Definition explain_wrap (c : wrap_case) := wrap_run (w_pol c) (cb_new (w_pol c) (w_t0 c)) (w_calls c).

Definition check_wrap (c : wrap_case) : result :=
  (list_eqb Z5_eqb (explain_wrap c) (w_obs c),
   mono_calls (w_t0 c) (w_calls c) && prop_wrap_run (w_pol c) (chk_init (w_t0 c)) (w_calls c) (w_obs c),
   match w_calls c with
   | [] => 0%N
   | _ => (1 + bN (w_has_code 0 (w_obs c)) 1 + bN (w_has_code 3 (w_obs c)) 2 + bN (w_has_state 2 (w_obs c)) 4
             + bN (w_has_ctx (w_calls c)) 8)%N
   end, 0%N).

(** *** group "pool": proxy.ServerPool.handle behind the wrapper

    requests: (now, backend outcome, stream body?) for a pool with the breaker and,
    when [q_retry] > 0, a retry policy with that many attempts; observed per request:
    (status, result, servers contacted, breaker state, stateID, window total) *)
Record pool_case := { q_pol : policy; q_t0 : Z; q_retry : Z; q_reqs : list (Z * backend * bool * ctxstate);
                      q_obs : list (Z * string * Z * Z * Z * Z) }.

Definition pobs_eqb (a b : Z * string * Z * Z * Z * Z) : bool :=
  let '(a1, a2, a3, a4, a5, a6) := a in let '(b1, b2, b3, b4, b5, b6) := b in
  (a1 =? b1) && String.eqb a2 b2 && (a3 =? b3) && (a4 =? b4) && (a5 =? b5) && (a6 =? b6).

Fixpoint pool_run (pol : policy) (retry : Z) (c : cb) (reqs : list (Z * backend * bool * ctxstate))
  : list (Z * string * Z * Z * Z * Z) :=
  match reqs with
  | [] => []
  | (now, b, stream, cx) :: t =>
      let '(r, c') := wrap_call_ctx pol now cx (backend_houtcome b) c in
      let '(status, res) := pool_result_ctx cx r b in
      (status, res, pool_contacts_ctx cx retry stream r b, st_code (c_state c'), c_id c', win_total (c_win c'))
        :: pool_run pol retry c' t
  end.

(** the property on the proxy's own trace, for EVERY request shape (buffered / stream body,
    with / without retry): a request is one admission step of the contract checker, judged
    with flag "some server was contacted", and - iff admitted - exactly one recording step
    (failure iff the backend outcome was a failure) judged on the breaker's observed state
    and stateID.  Hence: OPEN (or an exhausted HALF_OPEN) => no server contacted, and every
    completed call is in the window exactly once (a missing or duplicated record moves the
    observed state away from what the contract demands at the next threshold).  A request
    that contacted no server must answer 503 / shortCircuited; one that did must not be
    reported as short-circuited. *)
Fixpoint prop_pool_run (pol : policy) (h : chk) (reqs : list (Z * backend * bool * ctxstate))
         (obs : list (Z * string * Z * Z * Z * Z)) : bool :=
  match reqs, obs with
  | [], [] => true
  | (now, b, _, _) :: t, (status, res, contacted, s, i, total) :: bt =>
      match st_of_code s with
      | None => false
      | Some s' =>
          let admitted := 0 <? contacted in
          let '(sa, ia) := expect_after_acquire pol now h admitted in
          let ob1 := (admitted, sa, ia) in
          let ok1 := chk_acquire pol now h ob1 in
          let h1 := chk_next now (OAcq now) pol h ob1 in
          if admitted then
            let err := match b with BOk _ => false | _ => true end in
            let '(ok2, h2) := chk_step pol (ORec now ia err 0) h1 (false, s', i) in
            ok1 && ok2 && negb (String.eqb res "shortCircuited") &&
            (total =? expect_total pol now h1 sa ia err s' i) && prop_pool_run pol h2 t bt
          else
            ok1 && (status =? 503) && String.eqb res "shortCircuited" && (contacted =? 0) &&
            st_eqb s' sa && (i =? ia) && prop_pool_run pol h1 t bt
      end
  | _, _ => false
  end.

Fixpoint mono_reqs (t : Z) (l : list (Z * backend * bool * ctxstate)) : bool :=
  match l with
  | [] => true
  | (n, _, _, _) :: r => (t <=? n) && mono_reqs n r
  end.

Definition q_has_result (r : string) (l : list (Z * string * Z * Z * Z * Z)) : bool :=
  existsb (fun '(_, x, _, _, _, _) => String.eqb x r) l.
Definition q_has_stream (l : list (Z * backend * bool * ctxstate)) : bool := existsb (fun '(_, _, st, _) => st) l.
Definition q_has_ctx (l : list (Z * backend * bool * ctxstate)) : bool :=
  existsb (fun '(_, _, _, cx) => match cx with CLive => false | _ => true end) l.

Definition q_retries (c : pool_case) : bool := 0 <? q_retry c.

Definition explain_pool (c : pool_case) := pool_run (q_pol c) (q_retry c) (cb_new (q_pol c) (q_t0 c)) (q_reqs c).

Definition check_pool (c : pool_case) : result :=
  (list_eqb pobs_eqb (explain_pool c) (q_obs c),
   mono_reqs (q_t0 c) (q_reqs c) && prop_pool_run (q_pol c) (chk_init (q_t0 c)) (q_reqs c) (q_obs c),
   match q_reqs c with
   | [] => 0%N
   | _ => (1 + bN (q_has_result "shortCircuited" (q_obs c)) 1 + bN (q_has_result "failureCode" (q_obs c)) 2
             + bN (q_has_result "serverError" (q_obs c)) 4 + bN (q_has_stream (q_reqs c)) 8
             + bN (q_retries c) 16 + bN (q_has_ctx (q_reqs c)) 32)%N
   end, 0%N).

(** *** group "burst": very many results within one second of a time-based window

    A step [BBurst now id n] stands for [n] successive RecordResult(id, success) at the same
    clock reading.  The first one is an ordinary [cb_record] (it evicts); for the remaining
    n-1 the model does not unroll: when the breaker is CLOSED on a time-based window holding
    no failure and no slow call, with the clock inside the window ([burst_guard]), each further
    success only adds 1 to the window total and to the bucket of that second and cannot trip
    the breaker, so n-1 of them add n-1 ([tw_add]; [burst_fold] in proofs/CBProofsBurst.v
    proves that the shortcut equals the n-1 fold unrolled).  When the guard does not hold the
    case is rejected (no result), it is never passed. *)
Inductive bop := BOp (o : op) | BBurst (now id n : Z).

Definition tw_add (i : nat) (n : Z) (w : twin) : twin :=
  let b := nth i (tw_bkt w) tb0 in
  {| tw_total := tw_total w + n; tw_slow := tw_slow w; tw_fail := tw_fail w;
     tw_begin := tw_begin w; tw_first := tw_first w;
     tw_bkt := list_set i {| tb_total := tb_total b + n; tb_slow := tb_slow b; tb_fail := tb_fail b |} (tw_bkt w) |}.

Definition burst_guard (pol : policy) (now id : Z) (c : cb) : option (twin * nat) :=
  match c_state c, c_win c with
  | Closed, WT w =>
      let len := Z.of_nat (List.length (tw_bkt w)) in
      let secs := (now - tw_begin w) ÷ second in
      if (id =? c_id c) && (tw_fail w =? 0) && (tw_slow w =? 0) && (0 <? tw_total w) &&
         (0 <=? secs) && (secs <? len) &&
         (1 <=? p_fthr pol) && (1 <=? p_sthr pol) && (0 <? p_slowdur pol)
      then Some (w, Z.to_nat (Z.rem (Z.of_nat (tw_first w) + secs) len))
      else None
  | _, _ => None
  end.

Definition cb_bstep (pol : policy) (b : bop) (c : cb) : option (obs * cb) :=
  match b with
  | BOp o => Some (cb_step pol o c)
  | BBurst now id n =>
      if n <? 1 then None else
      let c1 := snd (cb_record pol now id RSucc c) in
      match burst_guard pol now id c1 with
      | Some (w, i) =>
          let c2 := set_win c1 (WT (tw_add i (n - 1) w)) in Some ((false, c_state c2, c_id c2), c2)
      | None => None
      end
  end.

Fixpoint cb_brun (pol : policy) (c : cb) (l : list bop) : option (list obs) :=
  match l with
  | [] => Some []
  | b :: t => match cb_bstep pol b c with
              | Some (ob, c') => option_map (cons ob) (cb_brun pol c' t)
              | None => None
              end
  end.

(** the same on the contract automaton: n-1 further successes are n-1 further log entries *)
Definition sp_bstep (pol : policy) (b : bop) (s : spec) : option (obs * spec) :=
  match b with
  | BOp o => Some (sp_step pol o s)
  | BBurst now id n =>
      if n <? 1 then None else
      let s1 := snd (sp_record pol now id RSucc s) in
      let v := view (s_kind s1) (sec_of now) (s_log s1) in
      match s_state s1, s_kind s1 with
      | Closed, KTime _ =>
          if (id =? s_id s1) && (cnt is_fail v =? 0) && (cnt is_slow v =? 0) && negb (Nat.eqb (List.length v) 0) &&
             (1 <=? p_fthr pol) && (1 <=? p_sthr pol) && (0 <? p_slowdur pol)
          then let s2 := sp_set_log s1 (repeat (sec_of now, RSucc) (Z.to_nat (n - 1)) ++ s_log s1) in
               Some ((false, s_state s2, s_id s2), s2)
          else None
      | _, _ => None
      end
  end.

Fixpoint sp_brun (pol : policy) (s : spec) (l : list bop) : option (list obs) :=
  match l with
  | [] => Some []
  | b :: t => match sp_bstep pol b s with
              | Some (ob, s') => option_map (cons ob) (sp_brun pol s' t)
              | None => None
              end
  end.

Record burst_case := { u_pol : policy; u_t0 : Z; u_ops : list bop; u_obs : list (Z * Z * Z) }.

Definition explain_burst (c : burst_case) :=
  (option_map (map obs_code) (cb_brun (u_pol c) (cb_new (u_pol c) (u_t0 c)) (u_ops c)),
   option_map (map obs_code) (sp_brun (u_pol c) (sp_new (u_pol c) (u_t0 c)) (u_ops c))).

Definition has_burst (l : list bop) : bool := existsb (fun b => match b with BBurst _ _ n => 65536 <=? n | _ => false end) l.

Definition check_burst (c : burst_case) : result :=
  let '(m, s) := explain_burst c in
  (match m with Some l => list_eqb Z3_eqb l (u_obs c) | None => false end,
   match s with Some l => list_eqb Z3_eqb l (u_obs c) | None => false end,
   (match u_ops c with [] => 0 | _ => 1 + bN (has_burst (u_ops c)) 1 + bN (has_state 3 (u_obs c)) 2 end)%N, 0%N).

(** *** several wrappers / pools created from ONE policy object

    [CreateWrapper] is called once per server pool (InjectResiliencePolicy: main and
    candidate pools, several Proxy filters), each call yields a breaker of its own: the
    model is one independent [cb] per instance.  A case carries, per call, the index of the
    instance it went to; instance [k] is judged - by the single-instance check functions
    above - on ITS OWN calls and observations only, so traffic on another instance can
    explain nothing. *)
Fixpoint pick {A} (k : Z) (idx : list Z) (l : list A) : list A :=
  match idx, l with
  | i :: it, x :: t => if i =? k then x :: pick k it t else pick k it t
  | _, _ => []
  end.

Definition all_results (rs : list result) (cls : N) : result :=
  (forallb (fun '(c, _, _, _) => c) rs, forallb (fun '(_, p, _, _) => p) rs, cls, 0%N).

Definition instances : list Z := [0; 1; 2].
Definition idx_ok (idx : list Z) : bool := forallb (fun i => (0 <=? i) && (i <=? 2)) idx.
Definition multi (idx : list Z) : bool := existsb (fun i => negb (i =? 0)) idx.
Definition cls_of (r : result) : N := let '(_, _, c, _) := r in c.

(** the model of several instances run together: one breaker per index *)
Definition upd (f : Z -> cb) (k : Z) (v : cb) : Z -> cb := fun j => if j =? k then v else f j.

Fixpoint wrapm_run (pol : policy) (f : Z -> cb) (idx : list Z) (calls : list (Z * houtcome * ctxstate))
  : list (Z * Z * Z * Z * Z) :=
  match idx, calls with
  | i :: it, (now, h, cx) :: t =>
      let '(r, c') := wrap_call_ctx pol now cx h (f i) in
      (wres_code r, wrap_handler_runs r, st_code (c_state c'), c_id c', win_total (c_win c'))
        :: wrapm_run pol (upd f i c') it t
  | _, _ => []
  end.

Record wrapm_case := { mw : wrap_case; mw_idx : list Z }.

Definition wrapm_part (c : wrapm_case) (k : Z) : wrap_case :=
  {| w_pol := w_pol (mw c); w_t0 := w_t0 (mw c);
     w_calls := pick k (mw_idx c) (w_calls (mw c)); w_obs := pick k (mw_idx c) (w_obs (mw c)) |}.

Definition check_wrapm (c : wrapm_case) : result :=
  let sane := idx_ok (mw_idx c) && Nat.eqb (List.length (mw_idx c)) (List.length (w_calls (mw c)))
              && Nat.eqb (List.length (mw_idx c)) (List.length (w_obs (mw c))) in
  let parts := map (fun k => check_wrap (wrapm_part c k)) instances in
  let '(co, pr, cl, at') := all_results parts
       (match w_calls (mw c) with [] => 0 | _ => N.max 1 (cls_of (check_wrap (wrapm_part c 0))) + bN (multi (mw_idx c)) 16 end)%N in
  (sane && co, sane && pr, cl, at').

Definition explain_wrapm (c : wrapm_case) := map (fun k => explain_wrap (wrapm_part c k)) instances.

Record poolm_case := { mq : pool_case; mq_idx : list Z }.

Definition poolm_part (c : poolm_case) (k : Z) : pool_case :=
  {| q_pol := q_pol (mq c); q_t0 := q_t0 (mq c); q_retry := q_retry (mq c);
     q_reqs := pick k (mq_idx c) (q_reqs (mq c)); q_obs := pick k (mq_idx c) (q_obs (mq c)) |}.

Definition check_poolm (c : poolm_case) : result :=
  let sane := idx_ok (mq_idx c) && Nat.eqb (List.length (mq_idx c)) (List.length (q_reqs (mq c)))
              && Nat.eqb (List.length (mq_idx c)) (List.length (q_obs (mq c))) in
  let parts := map (fun k => check_pool (poolm_part c k)) instances in
  let '(co, pr, cl, at') := all_results parts
       (match q_reqs (mq c) with [] => 0 | _ => N.max 1 (cls_of (check_pool (poolm_part c 0))) + bN (multi (mq_idx c)) 64 end)%N in
  (sane && co, sane && pr, cl, at').

Definition explain_poolm (c : poolm_case) := map (fun k => explain_pool (poolm_part c k)) instances.

(** *** groups "lin" (thorough tier: free-running goroutines) and "race" (quick tier:
    deterministic forced overlap): concurrent callers

    "race": operation A is parked at its clock reading, i.e. INSIDE the breaker's critical
    section; operation B is issued meanwhile from a second goroutine and A is released once B
    is queued on the breaker's mutex.  B was invoked after A had entered its critical section,
    so - unless B managed to complete while A was parked, in which case the stamps overlap -
    the stamps say "A, then B" and the search below has exactly one admissible order.

    Goroutines call AcquirePermission / RecordResult on one breaker while the virtual clock
    stands still; every call and return is stamped with one atomic counter.  The history is
    accepted iff SOME linearization that respects the real-time order (an operation that
    returned before another was called comes first) replays on the automaton with exactly the
    observed results and ends in the observed final (state, stateID).  [lin_search] is a plain
    fuelled DFS; corr runs it on the concrete model, prop on the contract automaton. *)
Record lop := { l_call : Z; l_ret : Z; l_op : op; l_flag : bool; l_id : Z }.
(** [n_final] = (state, stateID, results in the window) after all operations; a negative
    window total means "not observed" *)
Record lin_case := { n_pol : policy; n_t0 : Z; n_ops : list lop; n_final : Z * Z * Z }.

Definition lop_matches (x : lop) (ob : obs) : bool :=
  let '(b, _, i) := ob in
  match l_op x with
  | OAcq _ => Bool.eqb b (l_flag x) && (i =? l_id x)
  | ORec _ _ _ _ => negb b
  end.

Fixpoint lin_search {S : Type} (step : op -> S -> obs * S) (fin : S -> bool)
         (fuel : nat) (s : S) (pending : list lop) : bool :=
  match fuel with
  | O => false
  | Datatypes.S f =>
      match pending with
      | [] => fin s
      | _ =>
          (fix try (pre post : list lop) : bool :=
             match post with
             | [] => false
             | x :: post' =>
                 (* explicit [if]s: vm_compute is call-by-value, [&&]/[||] would explore every branch *)
                 if (if forallb (fun y => l_call x <? l_ret y) pending
                     then (let '(ob, s') := step (l_op x) s in
                           if lop_matches x ob then lin_search step fin f s' (rev pre ++ post') else false)
                     else false)
                 then true
                 else try (x :: pre) post'
             end) [] pending
      end
  end.

Definition lin_cb (c : lin_case) : bool :=
  lin_search (cb_step (n_pol c))
             (fun s => let '(fs, fi, ft) := n_final c in
                       (st_code (c_state s) =? fs) && (c_id s =? fi) &&
                       ((ft <? 0) || (win_total (c_win s) =? ft)))
             (S (List.length (n_ops c))) (cb_new (n_pol c) (n_t0 c)) (n_ops c).

Definition lin_sp (c : lin_case) : bool :=
  lin_search (sp_step (n_pol c))
             (fun s => let '(fs, fi, ft) := n_final c in
                       (st_code (s_state s) =? fs) && (s_id s =? fi) &&
                       (* the count-based view does not depend on the clock: the window must hold
                          exactly the last results recorded with the epoch's id *)
                       match s_kind s with
                       | KCount _ => (ft <? 0) || (Z.of_nat (List.length (view (s_kind s) 0 (s_log s))) =? ft)
                       | KTime _ => true
                       end)
             (S (List.length (n_ops c))) (sp_new (n_pol c) (n_t0 c)) (n_ops c).

Definition is_acq_op (o : op) : bool := match o with OAcq _ => true | _ => false end.

Fixpoint has_overlap (l : list lop) : bool :=
  match l with
  | [] => false
  | x :: t => existsb (fun y => (l_call y <? l_ret x) && (l_call x <? l_ret y)) t || has_overlap t
  end.

Definition check_lin (c : lin_case) : result :=
  (lin_cb c, lin_sp c,
   match n_ops c with
   | [] => 0%N
   | _ => (1 + bN (has_overlap (n_ops c)) 1 + bN (existsb (fun x => negb (l_flag x) && is_acq_op (l_op x)) (n_ops c)) 2)%N
   end, 0%N).

Definition explain_lin (c : lin_case) := (lin_cb c, lin_sp c).
