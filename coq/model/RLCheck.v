(** Case types and per-case check functions for C09 (evaluated by vm_compute on
    the traces of the real code).  Result: (corr, prop, class, attributed-flag).

    - corr : the model ([RL.v]) yields exactly the implementation's observables;
    - prop : the decidable property checker holds on the IMPLEMENTATION's
             observables (independent of the model);
    - class: 0 = trivial case, >0 = coverage class;
    - attributed-flag: index of the known-finding quirk that explains a prop
             failure (0 = none). *)
From EG.lib Require Import Base.
From EG.model Require Import RL.
Open Scope Z_scope.

Definition result := (bool * bool * N * N)%type.

(** cumulative elapsed times from inter-arrival gaps *)
Fixpoint elapsed (acc : Z) (ops : list (Z * Z)) : list (Z * Z) :=
  match ops with
  | [] => []
  | (dt, c) :: t => (acc + dt, c) :: elapsed (acc + dt) t
  end.

Definition out_code (o : out) : Z * Z :=
  match o with
  | Permit w => (1, w)
  | Reject w => (0, w)
  | Panic => (2, 0)
  end.

Record rl_case := { c_pol : policy; c_ops : list (Z * Z); c_obs : list (Z * Z) }.

Definition valid_policy (p : policy) : bool := (0 <? pP p) && (0 <? pL p) && (0 <=? pT p).

(** *** the property checker on an observed trace (count = 1 arrivals)

    [hist] = release periods of the requests admitted so far (newest first). *)
Definition count_eq (k : Z) (l : list Z) : Z :=
  fold_left (fun a x => if x =? k then a + 1 else a) l 0.

Fixpoint horizon_full (p : policy) (hist : list Z) (c : Z) (n : nat) : bool :=
  (count_eq c hist =? pL p) &&
  match n with
  | O => true
  | S n' => horizon_full p hist (c + 1) n'
  end.

Fixpoint prop_unit (p : policy) (hist : list Z) (ops : list (Z * Z)) (obs : list (Z * Z)) : bool :=
  match ops, obs with
  | [], [] => true
  | (el, _) :: ot, (code, w) :: bt =>
      let c := el ÷ pP p in
      if code =? 1 then
        (* admitted: wait within [0, T]; immediate when the current period has a spare permit;
           the release period never receives more than L releases *)
        let rp := (el + w) ÷ pP p in
        (0 <=? w) && (w <=? pT p) &&
        (if count_eq c hist <? pL p then w =? 0 else true) &&
        (count_eq rp hist <? pL p) &&
        prop_unit p (rp :: hist) ot bt
      else if code =? 0 then
        (* rejected: only if every period up to the timeout horizon is fully reserved *)
        horizon_full p hist c (Z.to_nat (pT p ÷ pP p)) &&
        prop_unit p hist ot bt
      else false
  | _, _ => false
  end.

(** arbitrary counts (byte limiting): only the wait bound is claimed *)
Fixpoint prop_waits (p : policy) (obs : list (Z * Z)) : bool :=
  match obs with
  | [] => true
  | (code, w) :: t =>
      (if code =? 1 then (0 <=? w) && (w <=? pT p) else code =? 0) && prop_waits p t
  end.

Definition all_unit (ops : list (Z * Z)) : bool := forallb (fun '(_, c) => c =? 1) ops.

Definition prop_rl (p : policy) (ops obs : list (Z * Z)) : bool :=
  if negb (valid_policy p) then true
  else if all_unit ops then prop_unit p [] ops obs
  else prop_waits p obs && Nat.eqb (List.length ops) (List.length obs).

Definition bN (b : bool) (n : N) : N := if b then n else 0%N.
Definition has_reject (obs : list (Z * Z)) : bool := existsb (fun '(c, _) => c =? 0) obs.
Definition has_wait (obs : list (Z * Z)) : bool := existsb (fun '(c, w) => (c =? 1) && (0 <? w)) obs.
Definition has_code (k : Z) (obs : list (Z * Z)) : bool := existsb (fun '(c, _) => c =? k) obs.

Definition t_lt_p (p : policy) : bool := pT p <? pP p.

Definition class_rl (p : policy) (ops obs : list (Z * Z)) : N :=
  match ops with
  | [] => 0%N
  | _ =>
      if negb (valid_policy p) then 0%N else
      (1 + bN (has_reject obs) 1 + bN (has_wait obs) 2 + bN (negb (all_unit ops)) 4
         + bN (t_lt_p p) 8)%N
  end.

Definition check_rl (c : rl_case) : result :=
  let ops := elapsed 0 (c_ops c) in
  let model := map out_code (run (c_pol c) rl0 ops) in
  (list_eqb Zeqb_pair model (c_obs c), prop_rl (c_pol c) ops (c_obs c),
   class_rl (c_pol c) ops (c_obs c), 0%N).

Definition explain_rl (c : rl_case) := map out_code (run (c_pol c) rl0 (elapsed 0 (c_ops c))).

(** *** multi limiter *)
Record multi_case := { m_pol : mpolicy; m_ops : list (Z * list Z); m_obs : list (Z * Z) }.

Fixpoint melapsed (acc : Z) (ops : list (Z * list Z)) : list (Z * list Z) :=
  match ops with
  | [] => []
  | (dt, c) :: t => (acc + dt, c) :: melapsed (acc + dt) t
  end.

Definition mout_code (o : mout) : Z * Z :=
  match o with
  | MPermit w => (1, w)
  | MReject w => (0, w)
  | MErr => (3, 0)
  | MPanic => (2, 0)
  end.

Definition valid_mpolicy (p : mpolicy) : bool :=
  (0 <? mP p) && (0 <=? mT p) && forallb (fun l => 0 <? l) (mL p).

Fixpoint prop_mwaits (p : mpolicy) (obs : list (Z * Z)) : bool :=
  match obs with
  | [] => true
  | (code, w) :: t =>
      (if code =? 1 then (0 <=? w) && (w <=? mT p) else (code =? 0) || (code =? 3)) && prop_mwaits p t
  end.

Definition check_multi (c : multi_case) : result :=
  let ops := melapsed 0 (m_ops c) in
  let model := map mout_code (mrun (m_pol c) (mrl0 (m_pol c)) ops) in
  (list_eqb Zeqb_pair model (m_obs c),
   if valid_mpolicy (m_pol c) then prop_mwaits (m_pol c) (m_obs c) else true,
   match ops with [] => 0%N | _ =>
     (1 + bN (has_reject (m_obs c)) 1 + bN (has_wait (m_obs c)) 2 + bN (has_code 3 (m_obs c)) 4)%N end,
   0%N).

Definition explain_multi (c : multi_case) :=
  map mout_code (mrun (m_pol c) (mrl0 (m_pol c)) (melapsed 0 (m_ops c))).

(** *** RateLimiter filter histories (rule selection, 429 mapping, reload carry-over) *)
Inductive fop_in :=
| IInit (spec : nat) (dt : Z) (refs : list Z)                  (* observed limiter identities, -1 = nil *)
| IInherit (spec from : nat) (dt : Z) (refs : list Z)          (* refs = [-2]: Inherit itself panicked *)
| IHandle (g : nat) (dt : Z) (matches : list bool) (code : Z)  (* observed: 0 pass | 1 limited+429 | 2 panic | 3 other *)
| IClose (dt : Z) (code : Z).   (* Close of a superseded generation (Pipeline.Inherit calls prev.Close()): no effect in the model; observed 0 | 2 panic *)

(** one row per handled request: the rules of the spec its generation was built from, the
    request's method and path, Go regexp's verdict per rule pattern ([ur_rx], oracle) and the
    verdict of the real [URLRule.Match] per rule ([ur_obs], observation) *)
Record urow := { ur_spec : nat; ur_method : string; ur_path : string; ur_rx : list bool; ur_obs : list bool }.

Record flt_case := { fc_specs : list fspec; fc_ops : list fop_in; fc_bad : bool; fc_rows : list urow }.

Definition ref_code (r : option Z) : Z := match r with Some k => k | None => -1 end.

Definition fout_code (o : fout) : Z :=
  match o with
  | FPass _ _ => 0
  | FLimited _ => 1
  | FPanic => 2
  end.

Definition spec_at (specs : list fspec) (i : nat) : fspec := nth i specs empty_spec.

(** model run; returns per op whether model = observation *)
Fixpoint flt_corr (q : quirks) (specs : list fspec) (w : fworld) (now : Z) (ops : list fop_in) : bool :=
  match ops with
  | [] => true
  | IInit si dt refs :: t =>
      let now' := now + dt in
      let '(w', o) := fstep q w (FInit (spec_at specs si) now') in
      match o with
      | OGen r => list_eqb Z.eqb (map ref_code r) refs && flt_corr q specs w' now' t
      | _ => false
      end
  | IInherit si from dt refs :: t =>
      let now' := now + dt in
      let '(w', o) := fstep q w (FInherit (spec_at specs si) from now') in
      match o with
      | OGen r => list_eqb Z.eqb (map ref_code r) refs && flt_corr q specs w' now' t
      | OInheritPanic => list_eqb Z.eqb [-2] refs && flt_corr q specs w' now' t
      | _ => false
      end
  | IHandle g dt matches code :: t =>
      let now' := now + dt in
      let '(w', o) := fstep q w (FHandle g now' matches) in
      match o with
      | OHandle r => (fout_code r =? code) && flt_corr q specs w' now' t
      | _ => false
      end
  | IClose dt code :: t => (code =? 0) && flt_corr q specs w (now + dt) t
  end.

(** property checker on the observed history only.
    [gens] = (spec, observed refs) of every generation so far; [seen] = all refs observed so far. *)
Fixpoint expected_share (snew sold : fspec) (urls : list furl) (oldrefs : list Z) : list (option Z) :=
  match urls with
  | [] => []
  | u :: t =>
      (match find_prev snew sold u (combine (fs_urls sold) (map Some oldrefs)) 0 with
       | Some (_, Some r) => Some r
       | _ => None
       end) :: expected_share snew sold t oldrefs
  end.

Fixpoint share_ok (expect : list (option Z)) (refs : list Z) (seen : list Z) : bool :=
  match expect, refs with
  | [], [] => true
  | Some r :: et, x :: rt => (x =? r) && negb (x =? -1) && share_ok et rt seen
  | None :: et, x :: rt => negb (existsb (Z.eqb x) seen) && negb (x =? -1) && share_ok et rt (x :: seen)
  | _, _ => false
  end.

(** per limiter object seen in the trace: (identity, creation time, policy of the rule that created it) *)
Definition lim_info := (Z * Z * policy)%type.

Fixpoint new_infos (s : fspec) (now : Z) (urls : list furl) (refs : list Z) (seen : list Z) : list lim_info :=
  match urls, refs with
  | u :: ut, r :: rt =>
      if existsb (Z.eqb r) seen || (r =? -1) then new_infos s now ut rt seen
      else (r, now, lib_policy (bound_policy s u)) :: new_infos s now ut rt (r :: seen)
  | _, _ => []
  end.

Fixpoint first_true (l : list bool) (i : nat) : option nat :=
  match l with
  | [] => None
  | b :: t => if b then Some i else first_true t (S i)
  end.

Fixpoint info_of (infos : list lim_info) (r : Z) : option (Z * policy) :=
  match infos with
  | [] => None
  | (r', st, p) :: t => if r =? r' then Some (st, p) else info_of t r
  end.

Definition count_adm (r k : Z) (adm : list (Z * Z)) : Z :=
  fold_left (fun a x => if (fst x =? r) && (snd x =? k) then a + 1 else a) adm 0.

(** property checker on the observed history only.
    [gens] = (spec, observed refs) of every generation so far; [seen] = all refs observed so far;
    [infos]/[adm] = limiter objects and the (object, period) of every admitted request: a limiter never
    admits more than L * (T/P + 1) arrivals within one of its own periods, whatever generation asks
    (this is what an unchanged rule "keeping its accumulated state" across reloads means for traffic). *)
Fixpoint flt_prop (specs : list fspec) (gens : list (fspec * list Z)) (seen : list Z)
         (infos : list lim_info) (adm : list (Z * Z)) (now : Z) (ops : list fop_in) : bool :=
  match ops with
  | [] => true
  | IInit si dt refs :: t =>
      let s := spec_at specs si in
      share_ok (map (fun _ => None) (fs_urls s)) refs seen &&
      flt_prop specs (gens ++ [(s, refs)]) (refs ++ seen)
               (infos ++ new_infos s (now + dt) (fs_urls s) refs seen) adm (now + dt) t
  | IInherit si from dt refs :: t =>
      let s := spec_at specs si in
      match nth_error gens from with
      | None => false
      | Some (sold, oldrefs) =>
          share_ok (expected_share s sold (fs_urls s) oldrefs) refs seen &&
          flt_prop specs (gens ++ [(s, refs)]) (refs ++ seen)
                   (infos ++ new_infos s (now + dt) (fs_urls s) refs seen) adm (now + dt) t
      end
  | IHandle g dt matches code :: t =>
      let now' := now + dt in
      (* never a panic; a request matching no rule is never limited *)
      ((code =? 0) || (code =? 1)) &&
      (if existsb (fun b => b) matches then true else code =? 0) &&
      (if code =? 0 then
         match first_true matches 0, nth_error gens g with
         | Some i, Some (_, refs) =>
             let r := nth i refs (-1) in
             match info_of infos r with
             | Some (st, p) =>
                 if (pP p <=? 0) || (pL p <=? 0) then flt_prop specs gens seen infos adm now' t
                 else
                   let k := (now' - st) ÷ pP p in
                   (count_adm r k adm <? pL p * (pT p ÷ pP p + 1)) &&
                   flt_prop specs gens seen infos ((r, k) :: adm) now' t
             | None => flt_prop specs gens seen infos adm now' t
             end
         | _, _ => flt_prop specs gens seen infos adm now' t
         end
       else flt_prop specs gens seen infos adm now' t)
  | IClose dt code :: t => (code =? 0) && flt_prop specs gens seen infos adm (now + dt) t
  end.

Definition is_inherit (o : fop_in) : bool := match o with IInherit _ _ _ _ => true | _ => false end.
Definition is_close (o : fop_in) : bool := match o with IClose _ _ => true | _ => false end.
Definition is_limited (o : fop_in) : bool := match o with IHandle _ _ _ c => c =? 1 | _ => false end.
Definition is_unmatched (o : fop_in) : bool :=
  match o with IHandle _ _ m _ => negb (existsb (fun b => b) m) | _ => false end.

(** [pinned]: quirk flags of the open known findings (supplied by the driver).
    A failing [prop] is attributed to flag 1 iff the pinned model reproduces the
    whole observation and the ideal model does not exhibit the failure on this
    history (no Inherit panic, i.e. the ideal model's trace satisfies [flt_prop]). *)
Fixpoint model_ops (q : quirks) (specs : list fspec) (w : fworld) (now : Z) (ops : list fop_in) : list fop_in :=
  match ops with
  | [] => []
  | IInit si dt _ :: t =>
      let '(w', o) := fstep q w (FInit (spec_at specs si) (now + dt)) in
      IInit si dt (match o with OGen r => map ref_code r | _ => [-3] end) :: model_ops q specs w' (now + dt) t
  | IInherit si from dt _ :: t =>
      let '(w', o) := fstep q w (FInherit (spec_at specs si) from (now + dt)) in
      IInherit si from dt (match o with OGen r => map ref_code r | OInheritPanic => [-2] | _ => [-3] end)
        :: model_ops q specs w' (now + dt) t
  | IHandle g dt m _ :: t =>
      let '(w', o) := fstep q w (FHandle g (now + dt) m) in
      IHandle g dt m (match o with OHandle r => fout_code r | _ => 3 end) :: model_ops q specs w' (now + dt) t
  | IClose dt _ :: t => IClose dt 0 :: model_ops q specs w (now + dt) t
  end.

Definition rows_ok (specs : list fspec) (rows : list urow) : bool :=
  forallb (fun r => list_eqb Bool.eqb
                      (match_row (fs_urls (nth (ur_spec r) specs empty_spec)) (ur_method r) (ur_path r) (ur_rx r))
                      (ur_obs r)) rows.

Definition check_flt_with (pinned : quirks) (c : flt_case) : result :=
  if fc_bad c then (true, true, 0%N, 0%N) else
  let corr := flt_corr pinned (fc_specs c) fworld0 0 (fc_ops c) && rows_ok (fc_specs c) (fc_rows c) in
  let prop := flt_prop (fc_specs c) [] [] [] [] 0 (fc_ops c) in
  let ideal_ok := flt_prop (fc_specs c) [] [] [] [] 0 (model_ops ideal (fc_specs c) fworld0 0 (fc_ops c)) in
  (corr, prop,
   (1 + bN (existsb is_inherit (fc_ops c)) 1 + bN (existsb is_limited (fc_ops c)) 2
      + bN (existsb is_unmatched (fc_ops c)) 4 + bN (existsb is_close (fc_ops c)) 8)%N,
   if negb prop && corr && q_rl_inherit_steals_limiter pinned && ideal_ok then 1%N else 0%N).

Fixpoint flt_model_trace (specs : list fspec) (w : fworld) (now : Z) (ops : list fop_in) : list fobs :=
  match ops with
  | [] => []
  | IInit si dt _ :: t =>
      let '(w', o) := fstep ideal w (FInit (spec_at specs si) (now + dt)) in o :: flt_model_trace specs w' (now + dt) t
  | IInherit si from dt _ :: t =>
      let '(w', o) := fstep ideal w (FInherit (spec_at specs si) from (now + dt)) in o :: flt_model_trace specs w' (now + dt) t
  | IHandle g dt m _ :: t =>
      let '(w', o) := fstep ideal w (FHandle g (now + dt) m) in o :: flt_model_trace specs w' (now + dt) t
  | IClose dt _ :: t => flt_model_trace specs w (now + dt) t
  end.
Definition explain_flt (pinned : quirks) (c : flt_case) := model_ops pinned (fc_specs c) fworld0 0 (fc_ops c).

(** *** MQTT publish limiter *)
Record mqtt_case := { q_req : Z; q_bytes : Z; q_period : Z; q_ops : list (Z * Z); q_obs : list Z }.

Definition mqtt_period (c : mqtt_case) : Z := (if 0 <? q_period c then q_period c else 1) * second.

(** per period: admitted packets <= requestRate; bytes admitted BEFORE each admitted packet < bytesRate *)
Fixpoint mqtt_prop (c : mqtt_case) (k nreq nbytes : Z) (ops : list (Z * Z)) (obs : list Z) : bool :=
  match ops, obs with
  | [], [] => true
  | (el, b) :: ot, o :: bt =>
      let k' := el ÷ mqtt_period c in
      let nreq0 := if k' =? k then nreq else 0 in
      let nbytes0 := if k' =? k then nbytes else 0 in
      if o =? 1 then
        (if 0 <? q_req c then nreq0 <? q_req c else true) &&
        (if 0 <? q_bytes c then nbytes0 <? q_bytes c else true) &&
        mqtt_prop c k' (nreq0 + 1) (nbytes0 + b) ot bt
      else if o =? 0 then mqtt_prop c k' nreq0 nbytes0 ot bt
      else false
  | _, _ => false
  end.

Definition check_mqtt (c : mqtt_case) : result :=
  let ops := elapsed 0 (q_ops c) in
  let model := map (fun b : bool => if b then 1 else 0) (mqtt_run (mqtt_new (q_req c) (q_bytes c) (q_period c)) ops) in
  let limited := (0 <? q_req c) || (0 <? q_bytes c) in
  let both := (0 <? q_req c) && (0 <? q_bytes c) in
  let refused := existsb (Z.eqb 0) (q_obs c) in
  (list_eqb Z.eqb model (q_obs c),
   if (q_req c <? 0) || (q_bytes c <? 0) then true else mqtt_prop c (-1) 0 0 ops (q_obs c),
   match ops with [] => 0%N | _ =>
     (1 + bN refused 1 + bN both 2 + bN limited 4)%N end,
   0%N).

Definition explain_mqtt (c : mqtt_case) :=
  mqtt_run (mqtt_new (q_req c) (q_bytes c) (q_period c)) (elapsed 0 (q_ops c)).
