(** Case types and per-case check functions for C09 (evaluated by vm_compute on
    the traces of the real code).  Result: (corr, prop, class, attributed-flag).

    - corr : the model ([RL.v]) yields exactly the implementation's observables;
    - prop : the decidable property checker holds on the IMPLEMENTATION's
             observables (independent of the model);
    - class: 0 = trivial case, >0 = coverage class;
    - attributed-flag: index of the known-finding quirk that explains a prop
             failure (0 = none). *)
From EG.lib Require Import Base.
From EG.model Require Import RL.
Open Scope Z_scope.

Definition result := (bool * bool * N * N)%type.

(** cumulative elapsed times from inter-arrival gaps *)
Fixpoint elapsed (acc : Z) (ops : list (Z * Z)) : list (Z * Z) :=
  match ops with
  | [] => []
  | (dt, c) :: t => (acc + dt, c) :: elapsed (acc + dt) t
  end.

Definition out_code (o : out) : Z * Z :=
  match o with
  | Permit w => (1, w)
  | Reject w => (0, w)
  | Panic => (2, 0)
  end.

Record rl_case := { c_pol : policy; c_ops : list (Z * Z); c_obs : list (Z * Z) }.

Definition valid_policy (p : policy) : bool := (0 <? pP p) && (0 <? pL p) && (0 <=? pT p).

(** *** the property checker on an observed trace (count = 1 arrivals)

    [hist] = release periods of the requests admitted so far (newest first). *)
Definition count_eq (k : Z) (l : list Z) : Z :=
  fold_left (fun a x => if x =? k then a + 1 else a) l 0.

Fixpoint horizon_full (p : policy) (hist : list Z) (c : Z) (n : nat) : bool :=
  (count_eq c hist =? pL p) &&
  match n with
  | O => true
  | S n' => horizon_full p hist (c + 1) n'
  end.

Fixpoint prop_unit (p : policy) (hist : list Z) (ops : list (Z * Z)) (obs : list (Z * Z)) : bool :=
  match ops, obs with
  | [], [] => true
  | (el, _) :: ot, (code, w) :: bt =>
      let c := el ÷ pP p in
      if code =? 1 then
        (* admitted: wait within [0, T]; immediate when the current period has a spare permit;
           the release period never receives more than L releases *)
        let rp := (el + w) ÷ pP p in
        (0 <=? w) && (w <=? pT p) &&
        (if count_eq c hist <? pL p then w =? 0 else true) &&
        (count_eq rp hist <? pL p) &&
        prop_unit p (rp :: hist) ot bt
      else if code =? 0 then
        (* rejected: only if every period up to the timeout horizon is fully reserved *)
        horizon_full p hist c (Z.to_nat (pT p ÷ pP p)) &&
        prop_unit p hist ot bt
      else false
  | _, _ => false
  end.

(** arbitrary counts (byte limiting): only the wait bound is claimed *)
Fixpoint prop_waits (p : policy) (obs : list (Z * Z)) : bool :=
  match obs with
  | [] => true
  | (code, w) :: t =>
      (if code =? 1 then (0 <=? w) && (w <=? pT p) else code =? 0) && prop_waits p t
  end.

Definition all_unit (ops : list (Z * Z)) : bool := forallb (fun '(_, c) => c =? 1) ops.

Definition prop_rl (p : policy) (ops obs : list (Z * Z)) : bool :=
  if negb (valid_policy p) then true
  else if all_unit ops then prop_unit p [] ops obs
  else prop_waits p obs && Nat.eqb (List.length ops) (List.length obs).

Definition bN (b : bool) (n : N) : N := if b then n else 0%N.
Definition has_reject (obs : list (Z * Z)) : bool := existsb (fun '(c, _) => c =? 0) obs.
Definition has_wait (obs : list (Z * Z)) : bool := existsb (fun '(c, w) => (c =? 1) && (0 <? w)) obs.
Definition has_code (k : Z) (obs : list (Z * Z)) : bool := existsb (fun '(c, _) => c =? k) obs.

Definition t_lt_p (p : policy) : bool := pT p <? pP p.

Definition class_rl (p : policy) (ops obs : list (Z * Z)) : N :=
  match ops with
  | [] => 0%N
  | _ =>
      if negb (valid_policy p) then 0%N else
      (1 + bN (has_reject obs) 1 + bN (has_wait obs) 2 + bN (negb (all_unit ops)) 4
         + bN (t_lt_p p) 8)%N
  end.

Definition check_rl (c : rl_case) : result :=
  let ops := elapsed 0 (c_ops c) in
  let model := map out_code (run (c_pol c) rl0 ops) in
  (list_eqb Zeqb_pair model (c_obs c), prop_rl (c_pol c) ops (c_obs c),
   class_rl (c_pol c) ops (c_obs c), 0%N).

Definition explain_rl (c : rl_case) := map out_code (run (c_pol c) rl0 (elapsed 0 (c_ops c))).

(** *** multi limiter *)
Record multi_case := { m_pol : mpolicy; m_ops : list (Z * list Z); m_obs : list (Z * Z) }.

Fixpoint melapsed (acc : Z) (ops : list (Z * list Z)) : list (Z * list Z) :=
  match ops with
  | [] => []
  | (dt, c) :: t => (acc + dt, c) :: melapsed (acc + dt) t
  end.

Definition mout_code (o : mout) : Z * Z :=
  match o with
  | MPermit w => (1, w)
  | MReject w => (0, w)
  | MErr => (3, 0)
  | MPanic => (2, 0)
  end.

Definition valid_mpolicy (p : mpolicy) : bool :=
  (0 <? mP p) && (0 <=? mT p) && forallb (fun l => 0 <? l) (mL p).

Fixpoint prop_mwaits (p : mpolicy) (obs : list (Z * Z)) : bool :=
  match obs with
  | [] => true
  | (code, w) :: t =>
      (if code =? 1 then (0 <=? w) && (w <=? mT p) else (code =? 0) || (code =? 3)) && prop_mwaits p t
  end.

Definition check_multi (c : multi_case) : result :=
  let ops := melapsed 0 (m_ops c) in
  let model := map mout_code (mrun (m_pol c) (mrl0 (m_pol c)) ops) in
  (list_eqb Zeqb_pair model (m_obs c),
   if valid_mpolicy (m_pol c) then prop_mwaits (m_pol c) (m_obs c) else true,
   match ops with [] => 0%N | _ =>
     (1 + bN (has_reject (m_obs c)) 1 + bN (has_wait (m_obs c)) 2 + bN (has_code 3 (m_obs c)) 4)%N end,
   0%N).

Definition explain_multi (c : multi_case) :=
  map mout_code (mrun (m_pol c) (mrl0 (m_pol c)) (melapsed 0 (m_ops c))).
