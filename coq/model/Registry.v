(** C20 - executable model of the object lifecycle machinery of
    pkg/supervisor (ObjectRegistry.applyConfig, Supervisor.handleEvent,
    ObjectEntity.*WithRecovery) and of its second consumer
    (RawConfigTrafficController.handleEvent + TrafficController).

    Every Go map of the code (or.entities, the local maps deleted / created /
    updated of applyConfig, watcher.entities and the three maps of a watcher
    event for both watchers, Supervisor.businessControllers, the traffic
    gates and pipelines of the TrafficController namespace) is keyed by the
    object name.  The model keeps, for each name, one [cell] holding what each
    of those maps holds under that key.  Every Go [for k := range m] is a
    [keyloop] whose iteration order is an explicit parameter (DESIGN 4.4).

    No proofs in this file. *)
From EG.lib Require Import Base.
Open Scope N_scope.

Definition name := N.

(** spec = (kind, category, content id).  In Go the category is a function of
    the kind (instance.Category()); the pair (kind, category) is "the kind". *)
Record spec := { s_kind : N; s_cat : N; s_v : N }.

Definition spec_eqb (a b : spec) : bool :=
  (s_kind a =? s_kind b) && (s_cat a =? s_cat b) && (s_v a =? s_v b).
Definition same_kind (a b : spec) : bool :=
  (s_kind a =? s_kind b) && (s_cat a =? s_cat b).

Definition cat_sys := 0.
Definition cat_biz := 1.
Definition cat_pipe := 2.
Definition cat_gate := 3.
(** the kind id standing for pipeline.Kind ("Pipeline"): RawConfigTrafficController
    routes by [kind == pipeline.Kind], not by category *)
Definition kind_pipeline := 9.

(** an ObjectEntity (= its instance): the spec it was created from and the
    snapshot index at which applyConfig created it *)
Record ent := { e_spec : spec; e_born : N }.

(** an entity held by a consumer; [i_gen] = (ObjectEntity.generation = 1), i.e.
    its Init / Inherit returned without panicking *)
Record inst := { i_ent : ent; i_gen : bool }.

Inductive call :=
| Init (n : name) (g : ent)
| Inherit (n : name) (g prev : ent)
| Close (n : name) (g : ent).

(** log entry: consumer (0 supervisor, 1 traffic controller), snapshot index,
    the callback, and whether the callback panicked (recovered by *WithRecovery) *)
Record entry := { l_who : N; l_step : N; l_call : call; l_pan : bool }.

Definition call_name (c : call) : name :=
  match c with Init n _ => n | Inherit n _ _ => n | Close n _ => n end.
Definition entry_name (e : entry) : name := call_name (l_call e).

(** defect sites of the pinned code; [ideal] = all off *)
Record quirks := { q_kind_change_as_update : bool }.
Definition ideal : quirks := {| q_kind_change_as_update := false |}.

(** which lifecycle callbacks panic: (snapshot index, op 0 Init 1 Inherit 2 Close, name) *)
Definition oracle := N -> N -> name -> bool.
Definition op_init := 0.
Definition op_inherit := 1.
Definition op_close := 2.

Record trip := { t_del : option ent; t_cre : option ent; t_upd : option ent }.
Definition trip0 : trip := {| t_del := None; t_cre := None; t_upd := None |}.

Record cell := {
  c_reg : option ent;    (* ObjectRegistry.entities[name] *)
  c_diff : trip;         (* applyConfig: deleted / created / updated [name] *)
  c_w0 : option ent;     (* supervisor watcher: watcher.entities[name] *)
  c_ev0 : trip;          (*   its event Delete / Create / Update [name] *)
  c_w1 : option ent;     (* traffic watcher (RawConfigTrafficController) *)
  c_ev1 : trip;
  c_sup : option inst;   (* Supervisor.businessControllers[name] *)
  c_gate : option inst;  (* Namespace.trafficGates[name] *)
  c_pipe : option inst   (* Namespace.pipelines[name] *)
}.

Definition cell0 : cell :=
  {| c_reg := None; c_diff := trip0; c_w0 := None; c_ev0 := trip0; c_w1 := None; c_ev1 := trip0;
     c_sup := None; c_gate := None; c_pipe := None |}.

Definition set_reg (c : cell) x := {| c_reg := x; c_diff := c_diff c; c_w0 := c_w0 c; c_ev0 := c_ev0 c; c_w1 := c_w1 c; c_ev1 := c_ev1 c; c_sup := c_sup c; c_gate := c_gate c; c_pipe := c_pipe c |}.
Definition set_diff (c : cell) x := {| c_reg := c_reg c; c_diff := x; c_w0 := c_w0 c; c_ev0 := c_ev0 c; c_w1 := c_w1 c; c_ev1 := c_ev1 c; c_sup := c_sup c; c_gate := c_gate c; c_pipe := c_pipe c |}.
Definition set_w0 (c : cell) x y := {| c_reg := c_reg c; c_diff := c_diff c; c_w0 := x; c_ev0 := y; c_w1 := c_w1 c; c_ev1 := c_ev1 c; c_sup := c_sup c; c_gate := c_gate c; c_pipe := c_pipe c |}.
Definition set_w1 (c : cell) x y := {| c_reg := c_reg c; c_diff := c_diff c; c_w0 := c_w0 c; c_ev0 := c_ev0 c; c_w1 := x; c_ev1 := y; c_sup := c_sup c; c_gate := c_gate c; c_pipe := c_pipe c |}.
Definition set_sup (c : cell) x := {| c_reg := c_reg c; c_diff := c_diff c; c_w0 := c_w0 c; c_ev0 := c_ev0 c; c_w1 := c_w1 c; c_ev1 := c_ev1 c; c_sup := x; c_gate := c_gate c; c_pipe := c_pipe c |}.
Definition set_gate (c : cell) x := {| c_reg := c_reg c; c_diff := c_diff c; c_w0 := c_w0 c; c_ev0 := c_ev0 c; c_w1 := c_w1 c; c_ev1 := c_ev1 c; c_sup := c_sup c; c_gate := x; c_pipe := c_pipe c |}.
Definition set_pipe (c : cell) x := {| c_reg := c_reg c; c_diff := c_diff c; c_w0 := c_w0 c; c_ev0 := c_ev0 c; c_w1 := c_w1 c; c_ev1 := c_ev1 c; c_sup := c_sup c; c_gate := c_gate c; c_pipe := x |}.

Definition set_del (t : trip) x := {| t_del := x; t_cre := t_cre t; t_upd := t_upd t |}.
Definition set_cre (t : trip) x := {| t_del := t_del t; t_cre := x; t_upd := t_upd t |}.
Definition set_upd (t : trip) x := {| t_del := t_del t; t_cre := t_cre t; t_upd := x |}.

(** the per-call maps are fresh ([make(map...)]) at every applyConfig *)
Definition clear_cell (c : cell) : cell :=
  set_w1 (set_w0 (set_diff c trip0) (c_w0 c) trip0) (c_w1 c) trip0.

(** a loop body at one key: the key, what the snapshot holds under that key,
    the cell; result = new cell + lifecycle callbacks made *)
Definition body := name -> option spec -> cell -> cell * list entry.

(** *** ObjectRegistry.applyConfig *)

(** [for name, entity := range or.entities { if _, exists := config[name]; !exists {...} }] *)
Definition scan_entities : body := fun _ cfgn c =>
  match c_reg c, cfgn with
  | Some e, None => (set_diff (set_reg c None) (set_del (c_diff c) (Some e)), [])
  | _, _ => (c, [])
  end.

(** [for name, yamlConfig := range config {...}].  Pinned code: any difference to
    an existing entity is an update.  Ideal: a change of kind is a deletion of the
    old entity plus a creation of the new one. *)
Definition scan_config (q : quirks) (t : N) : body := fun _ cfgn c =>
  match cfgn with
  | None => (c, [])
  | Some s =>
      let e := {| e_spec := s; e_born := t |} in
      match c_reg c with
      | Some p =>
          if spec_eqb (e_spec p) s then (c, [])
          else if q_kind_change_as_update q || same_kind (e_spec p) s
               then (set_diff (set_reg c (Some e)) (set_upd (c_diff c) (Some e)), [])
               else (set_diff (set_reg c (Some e)) (set_cre (set_del (c_diff c) (Some p)) (Some e)), [])
      | None => (set_diff (set_reg c (Some e)) (set_cre (c_diff c) (Some e)), [])
      end
  end.

(** FilterCategory(categories...) *)
Definition wfilter (cats : list N) (e : ent) : bool := existsb (N.eqb (s_cat (e_spec e))) cats.

Definition cats0 : list N := [cat_biz].
Definition cats1 : list N := [cat_gate; cat_pipe].

(** the three loops of one watcher inside applyConfig *)
Definition w0_del : body := fun _ _ c =>
  match t_del (c_diff c) with
  | Some e => if wfilter cats0 e then (set_w0 c None (set_del (c_ev0 c) (Some e)), []) else (c, [])
  | None => (c, [])
  end.
Definition w0_cre : body := fun _ _ c =>
  match t_cre (c_diff c) with
  | Some e => if wfilter cats0 e then (set_w0 c (Some e) (set_cre (c_ev0 c) (Some e)), []) else (c, [])
  | None => (c, [])
  end.
Definition w0_upd : body := fun _ _ c =>
  match t_upd (c_diff c) with
  | Some e => if wfilter cats0 e then (set_w0 c (Some e) (set_upd (c_ev0 c) (Some e)), []) else (c, [])
  | None => (c, [])
  end.
Definition w1_del : body := fun _ _ c =>
  match t_del (c_diff c) with
  | Some e => if wfilter cats1 e then (set_w1 c None (set_del (c_ev1 c) (Some e)), []) else (c, [])
  | None => (c, [])
  end.
Definition w1_cre : body := fun _ _ c =>
  match t_cre (c_diff c) with
  | Some e => if wfilter cats1 e then (set_w1 c (Some e) (set_cre (c_ev1 c) (Some e)), []) else (c, [])
  | None => (c, [])
  end.
Definition w1_upd : body := fun _ _ c =>
  match t_upd (c_diff c) with
  | Some e => if wfilter cats1 e then (set_w1 c (Some e) (set_upd (c_ev1 c) (Some e)), []) else (c, [])
  | None => (c, [])
  end.

(** *** lifecycle callbacks under *WithRecovery: a panic is recovered; the only
    trace it leaves is generation = 0 *)
Definition mk_entry (who t : N) (cl : call) (p : bool) : entry :=
  {| l_who := who; l_step := t; l_call := cl; l_pan := p |}.

(** Inherit on a previous generation of a foreign Go type panics in the type assertion *)
Definition foreign (prev new : ent) : bool := negb (same_kind (e_spec prev) (e_spec new)).

Definition do_init (who : N) (pan : oracle) (t : N) (n : name) (e : ent) : inst * list entry :=
  let p := pan t op_init n in
  ({| i_ent := e; i_gen := negb p |}, [mk_entry who t (Init n e) p]).
Definition do_inherit (who : N) (pan : oracle) (t : N) (n : name) (e : ent) (prev : inst) : inst * list entry :=
  let p := foreign (i_ent prev) e || pan t op_inherit n in
  ({| i_ent := e; i_gen := negb p |}, [mk_entry who t (Inherit n e (i_ent prev)) p]).
Definition do_close (who : N) (pan : oracle) (t : N) (n : name) (i : inst) : list entry :=
  [mk_entry who t (Close n (i_ent i)) (pan t op_close n)].

(** *** Supervisor.handleEvent *)
Definition sup_del (pan : oracle) (t : N) : body := fun n _ c =>
  match t_del (c_ev0 c) with
  | Some _ =>
      match c_sup c with
      | Some i => (set_sup c None, do_close 0 pan t n i)      (* LoadAndDelete + CloseWithRecovery *)
      | None => (c, [])                                        (* "BUG: delete %s not found" *)
      end
  | None => (c, [])
  end.
Definition sup_cre (pan : oracle) (t : N) : body := fun n _ c =>
  match t_cre (c_ev0 c) with
  | Some e =>
      match c_sup c with
      | Some _ => (c, [])                                      (* "BUG: create %s already existed" *)
      | None => let '(i, l) := do_init 0 pan t n e in (set_sup c (Some i), l)
      end
  | None => (c, [])
  end.
Definition sup_upd (pan : oracle) (t : N) : body := fun n _ c =>
  match t_upd (c_ev0 c) with
  | Some e =>
      match c_sup c with
      | Some prev => let '(i, l) := do_inherit 0 pan t n e prev in (set_sup c (Some i), l)
      | None => (c, [])                                        (* "BUG: update %s not found" *)
      end
  | None => (c, [])
  end.

(** *** RawConfigTrafficController.handleEvent + TrafficController *)
Definition is_pipe (e : ent) : bool := s_kind (e_spec e) =? kind_pipeline.

Definition tc_del (pan : oracle) (t : N) : body := fun n _ c =>
  match t_del (c_ev1 c) with
  | Some e =>
      if is_pipe e then
        match c_pipe c with
        | Some i => (set_pipe c None, do_close 1 pan t n i)
        | None => (c, [])                                      (* "pipeline %s/%s not found" *)
        end
      else
        match c_gate c with
        | Some i => (set_gate c None, do_close 1 pan t n i)
        | None => (c, [])                                      (* "traffic gate %s/%s not found" *)
        end
  | None => (c, [])
  end.
Definition tc_cre (pan : oracle) (t : N) : body := fun n _ c =>
  match t_cre (c_ev1 c) with
  | Some e =>
      let '(i, l) := do_init 1 pan t n e in                    (* no existence check in Create* *)
      if is_pipe e then (set_pipe c (Some i), l) else (set_gate c (Some i), l)
  | None => (c, [])
  end.
Definition tc_upd (pan : oracle) (t : N) : body := fun n _ c =>
  match t_upd (c_ev1 c) with
  | Some e =>
      if is_pipe e then
        match c_pipe c with
        | Some prev => let '(i, l) := do_inherit 1 pan t n e prev in (set_pipe c (Some i), l)
        | None => (c, [])
        end
      else
        match c_gate c with
        | Some prev => let '(i, l) := do_inherit 1 pan t n e prev in (set_gate c (Some i), l)
        | None => (c, [])
        end
  | None => (c, [])
  end.

(** *** one snapshot

    Nondeterminism of one snapshot: the iteration order of every range loop
    ([ords i] for the i-th loop), which watcher applyConfig visits first
    ([w1_first]) and which consumer goroutine handles its event first
    ([tc_first]; the two consumers touch disjoint maps). *)
Record sched := { ords : nat -> list name; w1_first : bool; tc_first : bool }.

Definition bodies (q : quirks) (pan : oracle) (t : N) (w1f tcf : bool) : list body :=
  [scan_entities; scan_config q t]
  ++ (if w1f then [w1_del; w1_cre; w1_upd; w0_del; w0_cre; w0_upd]
      else [w0_del; w0_cre; w0_upd; w1_del; w1_cre; w1_upd])
  ++ (if tcf then [tc_del pan t; tc_cre pan t; tc_upd pan t; sup_del pan t; sup_cre pan t; sup_upd pan t]
      else [sup_del pan t; sup_cre pan t; sup_upd pan t; tc_del pan t; tc_cre pan t; tc_upd pan t]).

Definition gstate := ((name -> cell) * list entry)%type.

Definition upd (f : name -> cell) (n : name) (c : cell) : name -> cell :=
  fun m => if m =? n then c else f m.

(** [for k := range m] with iteration order [ord] *)
Definition keyloop (cfg : name -> option spec) (b : body) (ord : list name) (st : gstate) : gstate :=
  fold_left (fun st n => let '(c, l) := b n (cfg n) (fst st n) in (upd (fst st) n c, snd st ++ l)) ord st.

Fixpoint run_loops (cfg : name -> option spec) (bs : list body) (ords : nat -> list name) (i : nat) (st : gstate) : gstate :=
  match bs with
  | [] => st
  | b :: r => run_loops cfg r ords (S i) (keyloop cfg b (ords i) st)
  end.

Definition snapshot := name -> option spec.

Definition step (q : quirks) (pan : oracle) (t : N) (sc : sched) (cfg : snapshot) (st : gstate) : gstate :=
  run_loops cfg (bodies q pan t (w1_first sc) (tc_first sc)) (ords sc) 0%nat
            (fun n => clear_cell (fst st n), snd st).

Definition init_state : gstate := (fun _ => cell0, []).

Fixpoint exec (q : quirks) (pan : oracle) (t : N) (steps : list (sched * snapshot)) (st : gstate) : gstate :=
  match steps with
  | [] => st
  | (sc, cfg) :: r => exec q pan (t + 1) r (step q pan t sc cfg st)
  end.

(** the states after every snapshot (for the per-snapshot observables) *)
Fixpoint trace (q : quirks) (pan : oracle) (t : N) (steps : list (sched * snapshot)) (st : gstate) : list gstate :=
  match steps with
  | [] => []
  | (sc, cfg) :: r => let st' := step q pan t sc cfg st in st' :: trace q pan (t + 1) r st'
  end.

Definition run (q : quirks) (pan : oracle) (steps : list (sched * snapshot)) : gstate :=
  exec q pan 0 steps init_state.

(** *** what one name goes through (the same loop bodies, at one key) *)
Definition cell_bodies (bs : list body) (n : name) (cfgn : option spec) (c : cell) : cell * list entry :=
  fold_left (fun '(c, l) (b : body) => let '(c', l') := b n cfgn c in (c', l ++ l')) bs (c, []).

Definition cell_step (q : quirks) (pan : oracle) (t : N) (w1f tcf : bool) (n : name) (cfgn : option spec) (c : cell)
  : cell * list entry :=
  cell_bodies (bodies q pan t w1f tcf) n cfgn (clear_cell c).

Fixpoint cell_exec (q : quirks) (pan : oracle) (t : N) (n : name) (steps : list (bool * bool * option spec))
         (st : cell * list entry) : cell * list entry :=
  match steps with
  | [] => st
  | (w1f, tcf, cfgn) :: r =>
      let '(c, l) := cell_step q pan t w1f tcf n cfgn (fst st) in
      cell_exec q pan (t + 1) n r (c, snd st ++ l)
  end.

(** *** the specification: per-name lifecycle automaton of one consumer

    state = the live generation (if any); input = what the latest snapshot
    holds for the name *as far as this consumer's categories are concerned*. *)
Definition spec_calls (t : N) (n : name) (old : option ent) (new : option spec) : list call * option ent :=
  match old, new with
  | None, None => ([], None)
  | None, Some s => let e := {| e_spec := s; e_born := t |} in ([Init n e], Some e)
  | Some o, None => ([Close n o], None)
  | Some o, Some s =>
      let e := {| e_spec := s; e_born := t |} in
      if spec_eqb (e_spec o) s then ([], Some o)
      else if same_kind (e_spec o) s then ([Inherit n e o], Some e)
      else ([Close n o; Init n e], Some e)
  end.

(** the unique word accepted by the automaton, tagged with snapshot indices *)
Fixpoint spec_log (t : N) (n : name) (old : option ent) (news : list (option spec)) : list (N * call) * option ent :=
  match news with
  | [] => ([], old)
  | new :: r =>
      let '(cs, o') := spec_calls t n old new in
      let '(l, fin) := spec_log (t + 1) n o' r in
      (map (pair t) cs ++ l, fin)
  end.

(** what consumer [w] is meant to see of a snapshot entry *)
Definition cats_of (w : N) : list N := if w =? 0 then cats0 else cats1.
Definition filt (w : N) (s : option spec) : option spec :=
  match s with
  | Some x => if existsb (N.eqb (s_cat x)) (cats_of w) then Some x else None
  | None => None
  end.

(** projections of a log *)
Definition calls_of (w : N) (n : name) (l : list entry) : list (N * call) :=
  map (fun e => (l_step e, l_call e))
      (filter (fun e => (l_who e =? w) && (entry_name e =? n)) l).

Definition log_of (n : name) (l : list entry) : list entry :=
  filter (fun e => entry_name e =? n) l.

(** the live generation a consumer holds for a name *)
Definition live (w : N) (c : cell) : option ent :=
  if w =? 0 then option_map i_ent (c_sup c)
  else match c_pipe c with Some i => Some (i_ent i) | None => option_map i_ent (c_gate c) end.

(** *** a watcher that joins late (ObjectRegistry.NewWatcher on a non-empty registry)

    NewWatcher holds the registry mutex from copying the entities to registering
    the watcher: it is ONE atomic step.  Every snapshot is therefore either fully
    before it (contained in the watcher's first event) or fully after it (delivered
    as an event computed from applyConfig's deleted / created / updated maps). *)

(** the three loops of one watcher at one key *)
Definition watch_of (cats : list N) (d : trip) (x : option ent) : option ent * trip :=
  let '(x1, e1) := match t_del d with
                   | Some e => if wfilter cats e then (None, Some e) else (x, None)
                   | None => (x, None) end in
  let '(x2, e2) := match t_cre d with
                   | Some e => if wfilter cats e then (Some e, Some e) else (x1, None)
                   | None => (x1, None) end in
  let '(x3, e3) := match t_upd d with
                   | Some e => if wfilter cats e then (Some e, Some e) else (x2, None)
                   | None => (x2, None) end in
  (x3, {| t_del := e1; t_cre := e2; t_upd := e3 |}).


(** first event / initial entities of a watcher with filter [cats] created in state [st] *)
Definition join_view (cats : list N) (st : gstate) : name -> option ent :=
  fun n => match c_reg (fst st n) with
           | Some e => if wfilter cats e then Some e else None
           | None => None
           end.

(** its entities and the event it is sent by the applyConfig that produced [st'] *)
Definition late_next (cats : list N) (st' : gstate) (x : name -> option ent) : name -> option ent :=
  fun n => fst (watch_of cats (c_diff (fst st' n)) (x n)).
Definition late_event (cats : list N) (st' : gstate) (x : name -> option ent) : name -> trip :=
  fun n => snd (watch_of cats (c_diff (fst st' n)) (x n)).

(** the late watcher's entities after further snapshots *)
Fixpoint late_run (q : quirks) (pan : oracle) (cats : list N) (t : N) (steps : list (sched * snapshot))
         (st : gstate) (x : name -> option ent) : name -> option ent :=
  match steps with
  | [] => x
  | (sc, cfg) :: r =>
      let st' := step q pan t sc cfg st in
      late_run q pan cats (t + 1) r st' (late_next cats st' x)
  end.

(** *** the Apply API of TrafficController: ApplyTrafficGate, ApplyPipeline, DeleteTrafficGate, DeletePipeline

    Used by controllers that do their own reconciliation (ingress controllers, function
    workers): the caller applies every object it wants and deletes the ones it no longer
    wants; TrafficController decides between Init, nothing and Inherit by looking at what it
    holds under the name.  State per name: (trafficGates[name], pipelines[name]). *)
Definition ap_state := (option inst * option inst)%type.

Definition tc_apply (pan : oracle) (t : N) (n : name) (e : ent) (st : ap_state) : ap_state * list entry :=
  if is_pipe e then
    match snd st with
    | None => (fst st, Some (fst (do_init 1 pan t n e)), snd (do_init 1 pan t n e))
    | Some prev =>
        if spec_eqb (e_spec (i_ent prev)) (e_spec e) then (st, [])          (* "nothing change": prev stays *)
        else (fst st, Some (fst (do_inherit 1 pan t n e prev)), snd (do_inherit 1 pan t n e prev))
    end
  else
    match fst st with
    | None => (Some (fst (do_init 1 pan t n e)), snd st, snd (do_init 1 pan t n e))
    | Some prev =>
        if spec_eqb (e_spec (i_ent prev)) (e_spec e) then (st, [])
        else (Some (fst (do_inherit 1 pan t n e prev)), snd st, snd (do_inherit 1 pan t n e prev))
    end.

Definition tc_delete (pan : oracle) (t : N) (n : name) (pipe : bool) (st : ap_state) : ap_state * list entry :=
  if pipe then
    match snd st with Some i => (fst st, None, do_close 1 pan t n i) | None => (st, []) end
  else
    match fst st with Some i => (None, snd st, do_close 1 pan t n i) | None => (st, []) end.

Definition ap_live (st : ap_state) : option (bool * inst) :=
  match snd st with Some i => Some (true, i) | None => option_map (pair false) (fst st) end.

(** the caller: deletes what it no longer wants - including an object whose kind changes, which
    it must replace rather than update - and applies what it wants *)
Definition applier (pan : oracle) (t : N) (n : name) (cfgn : option spec) (st : ap_state) : ap_state * list entry :=
  match cfgn with
  | None =>
      match ap_live st with Some (pp, _) => tc_delete pan t n pp st | None => (st, []) end
  | Some s =>
      let e := {| e_spec := s; e_born := t |} in
      let d := match ap_live st with
               | Some (pp, i) => if same_kind (e_spec (i_ent i)) s then (st, []) else tc_delete pan t n pp st
               | None => (st, [])
               end in
      let a := tc_apply pan t n e (fst d) in
      (fst a, snd d ++ snd a)
  end.

Fixpoint apply_exec (pan : oracle) (t : N) (n : name) (news : list (option spec)) (st : ap_state * list entry)
  : ap_state * list entry :=
  match news with
  | [] => st
  | new :: r =>
      let a := applier pan t n new (fst st) in
      apply_exec pan (t + 1) n r (fst a, snd st ++ snd a)
  end.
